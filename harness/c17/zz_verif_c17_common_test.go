package referenceserver

// C17 harness, shared part (the check copies this file with the package clause rewritten into the
// reference client's package, see checks/c17.py): the JSON shape of raw definitions as printed by
// Gen_RawHTTPDefs / Gen_RawHTTP, their translation into conformancev1 messages, the payload table
// (the concrete bytes behind the specification's payload ids) and the OBSERVER - an independent
// envelope reader plus stock decompressors that turns observed bytes into the segment tokens the
// specification talks about.  Nothing here decides whether an observation is right: that is done
// by TLC with RawHTTPDecl!AcceptResp / AcceptReq (Trace_RawHTTP).

import (
	"bytes"
	"compress/gzip"
	"compress/zlib"
	"context"
	"crypto/tls"
	"encoding/base64"
	"encoding/binary"
	"encoding/json"
	"fmt"
	"io"
	"math/rand/v2"
	"net"
	"net/http"
	"sort"
	"strconv"
	"strings"
	"sync"
	"time"

	conformancev1 "connectrpc.com/conformance/internal/gen/proto/go/connectrpc/conformance/v1"
	"github.com/andybalholm/brotli"
	"github.com/golang/snappy"
	"github.com/klauspost/compress/zstd"
	"golang.org/x/net/http2"
	"google.golang.org/protobuf/proto"
	"google.golang.org/protobuf/types/known/anypb"
	"google.golang.org/protobuf/types/known/structpb"
)

// ---------------------------------------------------------------- definitions (JSON <-> proto)

type c17Hdr struct {
	Name  string   `json:"name"`
	CName string   `json:"cname"`
	Value []string `json:"value"`
}

type c17Msg struct {
	P string `json:"p"`
	Z int    `json:"z"`
}

type c17Item struct {
	Flags  int    `json:"flags"`
	HasLen bool   `json:"hasLen"`
	Len    string `json:"len"`
	M      c17Msg `json:"m"`
}

type c17Body struct {
	K     string    `json:"k"`
	M     *c17Msg   `json:"m,omitempty"`
	Items []c17Item `json:"items,omitempty"`
}

// MarshalJSON keeps the record shapes of the specification: none has no other field, unary has m,
// stream has items (an array, never null)
func (b c17Body) MarshalJSON() ([]byte, error) {
	switch b.K {
	case "unary":
		return json.Marshal(map[string]any{"k": b.K, "m": b.M})
	case "stream":
		items := b.Items
		if items == nil {
			items = []c17Item{}
		}
		return json.Marshal(map[string]any{"k": b.K, "items": items})
	}
	return json.Marshal(map[string]any{"k": b.K})
}

type c17RespDef struct {
	Status int      `json:"status"`
	Hdrs   []c17Hdr `json:"hdrs"`
	Trls   []c17Hdr `json:"trls"`
	Body   c17Body  `json:"body"`
}

type c17EncQ struct {
	CName string `json:"cname"`
	M     c17Msg `json:"m"`
	B64   bool   `json:"b64"`
}

type c17ReqDef struct {
	Verb    string    `json:"verb"`
	Path    string    `json:"path"`
	InlineQ []c17Hdr  `json:"inlineq"`
	RawQ    []c17Hdr  `json:"rawq"`
	EncQ    []c17EncQ `json:"encq"`
	Hdrs    []c17Hdr  `json:"hdrs"`
	Body    c17Body   `json:"body"`
}

// payload table: the bytes behind the payload ids of the specification
type c17Payloads struct {
	mu sync.Mutex
	m  map[string][]byte
	k  map[string]string // "binary" | "text" | "message"
}

func c17NewPayloads() *c17Payloads {
	val, err := structpb.NewValue(map[string]any{"abc": "xyz", "def": []any{1.0, 123, "foo", false}})
	if err != nil {
		panic(err)
	}
	anyMsg := &anypb.Any{}
	if err := anypb.MarshalFrom(anyMsg, val, proto.MarshalOptions{Deterministic: true}); err != nil {
		panic(err)
	}
	big := make([]byte, 5000)
	rnd := rand.New(rand.NewPCG(17, 17))
	for i := range big {
		// compressible but not trivial
		big[i] = byte("abcdefgh"[rnd.IntN(8)])
		if i%7 == 0 {
			big[i] = byte(rnd.IntN(256))
		}
	}
	t := &c17Payloads{m: map[string][]byte{}, k: map[string]string{}}
	t.add("empty", "binary", []byte{})
	t.add("a", "binary", []byte("a"))
	t.add("txt", "text", []byte(`{"foo":"bar"}`))
	t.add("end", "text", []byte(`{"error":{"code":"internal","message":"oops"},"metadata":{"x":["y"]}}`))
	t.add("bin", "binary", []byte{0, 1, 2, 3, 4, 5, 6, 7})
	t.add("msg", "message", anyMsg.Value)
	t.add("big", "binary", big)
	return t
}

func (t *c17Payloads) add(id, kind string, b []byte) {
	t.mu.Lock()
	defer t.mu.Unlock()
	t.m[id] = b
	t.k[id] = kind
}

func (t *c17Payloads) get(id string) ([]byte, string, bool) {
	t.mu.Lock()
	defer t.mu.Unlock()
	b, ok := t.m[id]
	if !ok {
		if b, kind, gen := c17Derived(id); gen {
			t.m[id], t.k[id] = b, kind
			return b, kind, true
		}
	}
	return b, t.k[id], ok
}

// c17Derived: payload ids of the form r<salt>.<n>.<b|t|m> name n pseudo-random bytes derived from the
// id alone (so that a recorded random definition can be re-run from its JSON)
func c17Derived(id string) ([]byte, string, bool) {
	var salt uint64
	var n int
	var k string
	if _, err := fmt.Sscanf(id, "r%d.%d.%s", &salt, &n, &k); err != nil || n < 1 || n > 1<<20 {
		return nil, "", false
	}
	rnd := rand.New(rand.NewPCG(salt, uint64(n)))
	b := make([]byte, n)
	for i := range b {
		if rnd.IntN(3) > 0 {
			b[i] = "aaaabcd"[rnd.IntN(7)]
		} else {
			b[i] = byte(rnd.IntN(256))
		}
	}
	switch k {
	case "t":
		for i := range b { // text must survive a protobuf string field: keep it ASCII
			b[i] = 32 + b[i]%95
		}
		return b, "text", true
	case "m":
		return b, "message", true
	}
	return b, "binary", true
}

func (t *c17Payloads) contents(m c17Msg) (*conformancev1.MessageContents, error) {
	switch m.P {
	case "absent":
		return nil, nil
	case "nil":
		return &conformancev1.MessageContents{Compression: conformancev1.Compression(m.Z)}, nil
	}
	b, kind, ok := t.get(m.P)
	if !ok {
		return nil, fmt.Errorf("unknown payload id %q", m.P)
	}
	res := &conformancev1.MessageContents{Compression: conformancev1.Compression(m.Z)}
	switch kind {
	case "text":
		res.Data = &conformancev1.MessageContents_Text{Text: string(b)}
	case "message":
		res.Data = &conformancev1.MessageContents_BinaryMessage{BinaryMessage: &anypb.Any{
			TypeUrl: "type.googleapis.com/google.protobuf.Value", Value: b}}
	default:
		res.Data = &conformancev1.MessageContents_Binary{Binary: b}
	}
	return res, nil
}

func (t *c17Payloads) stream(items []c17Item) (*conformancev1.StreamContents, error) {
	res := &conformancev1.StreamContents{}
	for _, it := range items {
		m, err := t.contents(it.M)
		if err != nil {
			return nil, err
		}
		item := &conformancev1.StreamContents_StreamItem{Flags: uint32(it.Flags), Payload: m}
		if it.HasLen {
			n, err := strconv.ParseUint(it.Len, 10, 32)
			if err != nil {
				return nil, err
			}
			item.Length = proto.Uint32(uint32(n))
		}
		res.Items = append(res.Items, item)
	}
	return res, nil
}

func c17ProtoHdrs(hs []c17Hdr) []*conformancev1.Header {
	var res []*conformancev1.Header
	for _, h := range hs {
		res = append(res, &conformancev1.Header{Name: h.Name, Value: append([]string(nil), h.Value...)})
	}
	return res
}

func (t *c17Payloads) rawResponse(d *c17RespDef) (*conformancev1.RawHTTPResponse, error) {
	res := &conformancev1.RawHTTPResponse{StatusCode: uint32(d.Status), Headers: c17ProtoHdrs(d.Hdrs), Trailers: c17ProtoHdrs(d.Trls)}
	switch d.Body.K {
	case "none":
	case "unary":
		m, err := t.contents(*d.Body.M)
		if err != nil {
			return nil, err
		}
		if m == nil {
			return nil, fmt.Errorf("unary body needs contents")
		}
		res.Body = &conformancev1.RawHTTPResponse_Unary{Unary: m}
	case "stream":
		s, err := t.stream(d.Body.Items)
		if err != nil {
			return nil, err
		}
		res.Body = &conformancev1.RawHTTPResponse_Stream{Stream: s}
	default:
		return nil, fmt.Errorf("body kind %q", d.Body.K)
	}
	return res, nil
}

func c17QueryString(q []c17Hdr) string {
	var parts []string
	for _, h := range q {
		for _, v := range h.Value {
			parts = append(parts, h.Name+"="+v) // the specification only uses characters that need no escaping here
		}
	}
	return strings.Join(parts, "&")
}

func (t *c17Payloads) rawRequest(d *c17ReqDef) (*conformancev1.RawHTTPRequest, error) {
	uri := d.Path
	if len(d.InlineQ) > 0 {
		uri += "?" + c17QueryString(d.InlineQ)
	}
	res := &conformancev1.RawHTTPRequest{Verb: d.Verb, Uri: uri, Headers: c17ProtoHdrs(d.Hdrs), RawQueryParams: c17ProtoHdrs(d.RawQ)}
	for _, e := range d.EncQ {
		m, err := t.contents(e.M)
		if err != nil {
			return nil, err
		}
		res.EncodedQueryParams = append(res.EncodedQueryParams, &conformancev1.RawHTTPRequest_EncodedQueryParam{
			Name: e.CName, Value: m, Base64Encode: e.B64})
	}
	switch d.Body.K {
	case "none":
	case "unary":
		m, err := t.contents(*d.Body.M)
		if err != nil {
			return nil, err
		}
		if m == nil {
			return nil, fmt.Errorf("unary body needs contents")
		}
		res.Body = &conformancev1.RawHTTPRequest_Unary{Unary: m}
	case "stream":
		s, err := t.stream(d.Body.Items)
		if err != nil {
			return nil, err
		}
		res.Body = &conformancev1.RawHTTPRequest_Stream{Stream: s}
	default:
		return nil, fmt.Errorf("body kind %q", d.Body.K)
	}
	return res, nil
}

// ---------------------------------------------------------------- the observer

var c17Zstd = func() *zstd.Decoder {
	d, err := zstd.NewReader(nil, zstd.WithDecoderMaxMemory(64<<20), zstd.WithDecoderConcurrency(1))
	if err != nil {
		panic(err)
	}
	return d
}()

// c17Decode inverts s with the STOCK decoder of wire format z (2 RFC 1952 gzip, 3 brotli, 4 zstd,
// 5 RFC 1950 zlib, 6 framed snappy); the whole of s must be one complete stream.
func c17Decode(z int, s []byte) (out []byte, err error) {
	defer func() {
		if r := recover(); r != nil {
			err = fmt.Errorf("stock decoder panicked: %v", r)
		}
	}()
	switch z {
	case 1:
		return s, nil
	case 2:
		br := bytes.NewReader(s)
		zr, err := gzip.NewReader(br)
		if err != nil {
			return nil, err
		}
		zr.Multistream(false)
		out, err := io.ReadAll(zr)
		if err != nil {
			return nil, err
		}
		if br.Len() != 0 {
			return nil, fmt.Errorf("%d bytes after the gzip stream", br.Len())
		}
		return out, nil
	case 3:
		return io.ReadAll(brotli.NewReader(bytes.NewReader(s)))
	case 4:
		if len(s) == 0 {
			return nil, io.ErrUnexpectedEOF
		}
		return c17Zstd.DecodeAll(s, nil)
	case 5:
		br := bytes.NewReader(s)
		zr, err := zlib.NewReader(br)
		if err != nil {
			return nil, err
		}
		out, err := io.ReadAll(zr)
		if err != nil {
			return nil, err
		}
		if br.Len() != 0 {
			return nil, fmt.Errorf("%d bytes after the zlib stream", br.Len())
		}
		return out, nil
	case 6:
		if len(s) == 0 {
			return nil, io.ErrUnexpectedEOF
		}
		return io.ReadAll(snappy.NewReader(bytes.NewReader(s)))
	}
	return nil, fmt.Errorf("format %d", z)
}

// c17Plausible: can s be a complete stream of wire format z at all?  (magic numbers of the formats;
// a compressed stream is not much longer than what it contains)
func c17Plausible(z int, s []byte, maxPayload int) bool {
	if z != 1 && len(s) > maxPayload+maxPayload/4+256 {
		return false
	}
	has := func(p ...byte) bool { return len(s) >= len(p) && bytes.Equal(s[:len(p)], p) }
	gz := has(0x1f, 0x8b)
	zs := has(0x28, 0xb5, 0x2f, 0xfd)
	zl := len(s) >= 2 && s[0]&0x0f == 8 && (int(s[0])<<8|int(s[1]))%31 == 0
	sn := has(0xff, 0x06, 0x00, 0x00, 's', 'N', 'a', 'P', 'p', 'Y')
	switch z {
	case 2:
		return gz
	case 3:
		return !gz && !zs && !sn // brotli has no magic number; the others are tried first
	case 4:
		return zs
	case 5:
		return zl
	case 6:
		return sn
	}
	return true
}

// identify: under which format does s decode to which of the candidate payloads?
func (t *c17Payloads) identify(s []byte, cands []string) (int, string, bool) {
	if len(s) == 0 {
		return 0, "", false
	}
	maxLen := 0
	for _, id := range cands {
		if b, _, ok := t.get(id); ok && len(b) > maxLen {
			maxLen = len(b)
		}
	}
	for z := 1; z <= 6; z++ {
		if !c17Plausible(z, s, maxLen) {
			continue
		}
		if z == 1 {
			for _, id := range cands {
				if b, _, ok := t.get(id); ok && len(b) == len(s) && bytes.Equal(s, b) {
					return 1, id, true
				}
			}
			continue
		}
		out, err := c17Decode(z, s)
		if err != nil {
			continue
		}
		for _, id := range cands {
			if b, _, ok := t.get(id); ok && bytes.Equal(out, b) {
				return z, id, true
			}
		}
	}
	return 0, "", false
}

func c17Dec(n int) string { return strconv.Itoa(n) }

type c17Seg map[string]any

func c17Junk(n int) c17Seg { return c17Seg{"k": "junk", "n": c17Dec(n)} }

// c17EmptyInverts: the wire formats whose STOCK decoder turns the empty byte string into the empty
// payload (identity does; which compressed formats do is a fact about the decoders, established here
// by asking them).  A zero-byte range can stand for an empty payload only under these formats.
var c17EmptyInverts = sync.OnceValue(func() []int {
	zs := []int{1}
	for z := 2; z <= 6; z++ {
		var out []byte
		var err error
		switch z {
		case 4: // (c17Decode never takes zero bytes for a zstd / snappy stream when it tokenizes; here the decoders are asked)
			out, err = c17Zstd.DecodeAll([]byte{}, nil)
		case 6:
			out, err = io.ReadAll(snappy.NewReader(bytes.NewReader([]byte{})))
		default:
			out, err = c17Decode(z, []byte{})
		}
		if err == nil && len(out) == 0 {
			zs = append(zs, z)
		}
	}
	return zs
})

// c17Zero: "there are zero bytes here" - with the formats under which that reads as the empty payload
func c17Zero() c17Seg { return c17Seg{"k": "zero", "zs": c17EmptyInverts()} }

func c17PayloadIDs(b c17Body) []string {
	seen := map[string]bool{}
	var res []string
	add := func(p string) {
		if p != "absent" && p != "nil" && !seen[p] {
			seen[p] = true
			res = append(res, p)
		}
	}
	if b.M != nil {
		add(b.M.P)
	}
	for _, it := range b.Items {
		add(it.M.P)
	}
	return res
}

// c17Segments tokenizes observed body bytes.  The definition is used as a GUIDE only (is the body
// a single message or a stream of how many items, which payloads may occur); every token says
// something that is true of the bytes: a pfx token is five actual bytes, dlen the actual number
// of bytes up to the next token, a data token a byte range that the stock decoder of format z
// turns into payload p.  Bytes that cannot be described that way become a junk token.
func (t *c17Payloads) segments(body []byte, guide c17Body) []c17Seg {
	cands := c17PayloadIDs(guide)
	switch guide.K {
	case "stream":
		if segs, ok := t.parseItems(body, len(guide.Items), cands); ok {
			return segs
		}
		// no parse with the announced number of items: read greedily by declared length
		segs := []c17Seg{}
		pos := 0
		for pos < len(body) {
			if len(body)-pos < 5 {
				return append(segs, c17Junk(len(body)-pos))
			}
			n := int(binary.BigEndian.Uint32(body[pos+1 : pos+5]))
			rest := len(body) - pos - 5
			d := n
			if d > rest || d < 0 {
				d = rest
			}
			segs = append(segs, c17Seg{"k": "pfx", "flags": int(body[pos]), "len": strconv.FormatUint(uint64(uint32(n)), 10), "dlen": c17Dec(d)})
			if d > 0 {
				if z, p, ok := t.identify(body[pos+5:pos+5+d], cands); ok {
					segs = append(segs, c17Seg{"k": "data", "z": z, "p": p})
				} else {
					segs = append(segs, c17Junk(d))
				}
			} else {
				segs = append(segs, c17Zero())
			}
			pos += 5 + d
		}
		return segs
	default:
		if len(body) == 0 {
			return []c17Seg{c17Zero()}
		}
		if z, p, ok := t.identify(body, cands); ok {
			return []c17Seg{{"k": "data", "z": z, "p": p}}
		}
		return []c17Seg{c17Junk(len(body))}
	}
}

// parseItems: body = exactly n items, each a 5-byte prefix followed by nothing or by a byte range
// that some stock decoder turns into a candidate payload (backtracking over the extent).
func (t *c17Payloads) parseItems(body []byte, n int, cands []string) ([]c17Seg, bool) {
	if n == 0 {
		return []c17Seg{}, len(body) == 0
	}
	if len(body) < 5 {
		return nil, false
	}
	declared := binary.BigEndian.Uint32(body[1:5])
	rest := len(body) - 5
	try := func(d int) ([]c17Seg, bool) {
		if d < 0 || d > rest || rest-d < 5*(n-1) {
			return nil, false
		}
		segs := []c17Seg{{"k": "pfx", "flags": int(body[0]), "len": strconv.FormatUint(uint64(declared), 10), "dlen": c17Dec(d)}}
		if d > 0 {
			z, p, ok := t.identify(body[5:5+d], cands)
			if !ok {
				return nil, false
			}
			segs = append(segs, c17Seg{"k": "data", "z": z, "p": p})
		} else {
			segs = append(segs, c17Zero())
		}
		tail, ok := t.parseItems(body[5+d:], n-1, cands)
		if !ok {
			return nil, false
		}
		return append(segs, tail...), true
	}
	if n == 1 {
		return try(rest)
	}
	// candidate extents of this item's data, cheapest first: the declared length, nothing, an identity
	// payload, the end of a self-delimiting compressed stream; only formats without an end marker
	// that can be found by streaming (zstd, framed snappy: recognisable by their magic) are scanned
	tried := map[int]bool{}
	attempt := func(d int) ([]c17Seg, bool) {
		if tried[d] {
			return nil, false
		}
		tried[d] = true
		return try(d)
	}
	if uint64(declared) <= uint64(rest) {
		if segs, ok := attempt(int(declared)); ok {
			return segs, true
		}
	}
	if segs, ok := attempt(0); ok {
		return segs, true
	}
	data := body[5:]
	for _, id := range cands {
		if b, _, ok := t.get(id); ok && len(b) > 0 && len(b) <= len(data) && bytes.Equal(data[:len(b)], b) {
			if segs, ok := attempt(len(b)); ok {
				return segs, true
			}
		}
	}
	for _, z := range []int{2, 5, 3} {
		for _, d := range c17StreamEnds(z, data) {
			if segs, ok := attempt(d); ok {
				return segs, true
			}
		}
	}
	if c17Plausible(4, data[:min(len(data), 16)], 1<<30) || c17Plausible(6, data[:min(len(data), 16)], 1<<30) {
		for d := 1; d <= rest-5*(n-1); d++ {
			if segs, ok := attempt(d); ok {
				return segs, true
			}
		}
	}
	return nil, false
}

type c17OneByteReader struct {
	s   []byte
	pos int
}

func (r *c17OneByteReader) Read(p []byte) (int, error) {
	if len(p) == 0 {
		return 0, nil
	}
	if r.pos >= len(r.s) {
		return 0, io.EOF
	}
	p[0] = r.s[r.pos]
	r.pos++
	return 1, nil
}

func (r *c17OneByteReader) ReadByte() (byte, error) {
	if r.pos >= len(r.s) {
		return 0, io.EOF
	}
	r.pos++
	return r.s[r.pos-1], nil
}

// c17StreamEnds: if s begins with a gzip (2), zlib (5) or brotli (3) stream, candidates for the
// number of bytes of that stream.  These formats mark their own end; the decoder is fed one byte at
// a time, so when it stops (end of stream, or complaint about the byte after it) it has taken at most
// one byte too many.  The candidates are verified by the caller (identify on exactly that range).
func c17StreamEnds(z int, s []byte) (res []int) {
	defer func() {
		if r := recover(); r != nil {
			res = nil
		}
	}()
	if !c17Plausible(z, s[:min(len(s), 16)], 1<<30) {
		return nil
	}
	src := &c17OneByteReader{s: s}
	var rd io.Reader
	switch z {
	case 2:
		zr, err := gzip.NewReader(src)
		if err != nil {
			return nil
		}
		zr.Multistream(false)
		rd = zr
	case 5:
		zr, err := zlib.NewReader(src)
		if err != nil {
			return nil
		}
		rd = zr
	case 3:
		rd = brotli.NewReader(src)
	default:
		return nil
	}
	_, _ = io.Copy(io.Discard, rd)
	res = []int{src.pos}
	if src.pos > 0 {
		res = append(res, src.pos-1)
	}
	return res
}

// c17Envelopes is the plain envelope reader (by DECLARED length) used for the invertibility law.
func (t *c17Payloads) envelopes(body []byte, cands []string) []c17Seg {
	res := []c17Seg{}
	pos := 0
	for pos < len(body) {
		if len(body)-pos < 5 {
			return append(res, c17Seg{"k": "garbage"})
		}
		n := uint64(binary.BigEndian.Uint32(body[pos+1 : pos+5]))
		if uint64(len(body)-pos-5) < n {
			return append(res, c17Seg{"k": "short", "flags": int(body[pos])})
		}
		data := body[pos+5 : pos+5+int(n)]
		env := c17Seg{"k": "env", "flags": int(body[pos]), "z": 0, "p": "", "zs": c17EmptyInverts()}
		if len(data) > 0 {
			env["zs"] = []int{}
			if z, p, ok := t.identify(data, cands); ok {
				env["z"], env["p"] = z, p
			} else {
				env["z"], env["p"] = -1, "?"
			}
		}
		res = append(res, env)
		pos += 5 + int(n)
	}
	return res
}

func c17HdrList(h http.Header) []c17Hdr {
	names := make([]string, 0, len(h))
	for k := range h {
		names = append(names, k)
	}
	sort.Strings(names)
	res := []c17Hdr{}
	for _, k := range names {
		res = append(res, c17Hdr{Name: k, CName: http.CanonicalHeaderKey(k), Value: append([]string{}, h[k]...)})
	}
	return res
}

// c17Canon fills in cname (header names are case-insensitive; the canonical form is the map key of
// net/http) for definitions produced on the Go side
func c17Canon(hs []c17Hdr) []c17Hdr {
	for i := range hs {
		hs[i].CName = http.CanonicalHeaderKey(hs[i].Name)
		if hs[i].Value == nil {
			hs[i].Value = []string{}
		}
	}
	if hs == nil {
		hs = []c17Hdr{}
	}
	return hs
}

// observed response
type c17RespObs struct {
	Status int      `json:"status"`
	Hdrs   []c17Hdr `json:"hdrs"`
	Trls   []c17Hdr `json:"trls"`
	Body   []c17Seg `json:"body"`
	BLen   string   `json:"blen"`
	Sniff  string   `json:"sniff"`
	Proto  string   `json:"proto"`
	Err    string   `json:"err"`
	Hex    string   `json:"hex,omitempty"`
}

func c17Hex(b []byte) string {
	if len(b) > 96 {
		return fmt.Sprintf("%x...(%d bytes)", b[:96], len(b))
	}
	return fmt.Sprintf("%x", b)
}

func (t *c17Payloads) observeResponse(resp *http.Response, err error, guide c17Body) c17RespObs {
	obs := c17RespObs{Hdrs: []c17Hdr{}, Trls: []c17Hdr{}, Body: []c17Seg{}, BLen: "0"}
	if err != nil {
		obs.Err = "round trip: " + err.Error()
		return obs
	}
	defer resp.Body.Close()
	body, rerr := io.ReadAll(resp.Body)
	if rerr != nil {
		obs.Err = "body: " + rerr.Error()
	}
	obs.Status = resp.StatusCode
	obs.Proto = resp.Proto
	obs.Hdrs = c17HdrList(resp.Header)
	trl := http.Header{}
	for k, v := range resp.Trailer {
		if len(v) > 0 { // keys announced in "Trailer" but never sent have no values
			trl[k] = v
		}
	}
	obs.Trls = c17HdrList(trl)
	obs.Body = t.segments(body, guide)
	obs.BLen = c17Dec(len(body))
	obs.Sniff = http.DetectContentType(body)
	obs.Hex = c17Hex(body)
	return obs
}

// ---------------------------------------------------------------- plain HTTP clients

func c17PlainClient(flavour string) *http.Client {
	switch flavour {
	case "h1":
		return &http.Client{Transport: &http.Transport{DisableCompression: true, MaxIdleConnsPerHost: 64}}
	case "h2c":
		return &http.Client{Transport: &http2.Transport{DisableCompression: true, AllowHTTP: true,
			DialTLSContext: func(ctx context.Context, network, addr string, _ *tls.Config) (net.Conn, error) {
				return (&net.Dialer{}).DialContext(ctx, network, addr)
			}}}
	case "h2tls":
		return &http.Client{Transport: &http.Transport{DisableCompression: true, ForceAttemptHTTP2: true, MaxIdleConnsPerHost: 64,
			TLSClientConfig: &tls.Config{InsecureSkipVerify: true, NextProtos: []string{"h2"}}}} //nolint:gosec
	case "h1tls":
		return &http.Client{Transport: &http.Transport{DisableCompression: true, MaxIdleConnsPerHost: 64,
			TLSClientConfig: &tls.Config{InsecureSkipVerify: true, NextProtos: []string{"http/1.1"}}}} //nolint:gosec
	}
	panic("flavour " + flavour)
}

func c17Envelope(flags byte, msg []byte) []byte {
	res := make([]byte, 5+len(msg))
	res[0] = flags
	binary.BigEndian.PutUint32(res[1:5], uint32(len(msg)))
	copy(res[5:], msg)
	return res
}

func c17Watchdog(d time.Duration) (context.Context, context.CancelFunc) {
	return context.WithTimeout(context.Background(), d)
}

func c17JSON(v any) json.RawMessage {
	b, err := json.Marshal(v)
	if err != nil {
		panic(err)
	}
	return b
}

// ---------------------------------------------------------------- seeded random pieces of definitions

var c17NamePool = []string{"x-a", "X-A", "x-custom-header", "Content-Type", "content-type", "grpc-status", "Grpc-Message",
	"x-both", "X-Both", "connect-content-encoding", "grpc-encoding", "x-UPPER-lower", "set-cookie"}

func c17RandHdrs(rnd *rand.Rand, maxEntries int) []c17Hdr {
	n := rnd.IntN(maxEntries + 1)
	res := []c17Hdr{}
	for i := 0; i < n; i++ {
		h := c17Hdr{Name: c17NamePool[rnd.IntN(len(c17NamePool))], Value: []string{}}
		for k := rnd.IntN(4); k > 0; k-- {
			v := make([]byte, rnd.IntN(12))
			for j := range v {
				v[j] = "abcXYZ019-_=;,/ %"[rnd.IntN(17)]
			}
			h.Value = append(h.Value, strings.TrimSpace(string(v)))
		}
		res = append(res, h)
	}
	return c17Canon(res)
}

func c17RandMsg(rnd *rand.Rand, tab *c17Payloads, tag string, allowAbsent bool) c17Msg {
	z := rnd.IntN(7)
	switch r := rnd.IntN(12); {
	case r == 0 && allowAbsent:
		return c17Msg{P: "absent", Z: 0}
	case r == 1:
		return c17Msg{P: "nil", Z: z}
	case r == 2:
		return c17Msg{P: "empty", Z: z}
	case r == 3:
		return c17Msg{P: "big", Z: z}
	}
	_ = tag
	id := fmt.Sprintf("r%d.%d.%s", rnd.Uint32(), 1+rnd.IntN(300), []string{"b", "t", "m"}[rnd.IntN(3)])
	if _, _, ok := tab.get(id); !ok {
		panic("underivable payload id " + id)
	}
	return c17Msg{P: id, Z: z}
}

func c17RandBody(rnd *rand.Rand, tab *c17Payloads, tag string) c17Body {
	switch rnd.IntN(5) {
	case 0:
		return c17Body{K: "none"}
	case 1:
		m := c17RandMsg(rnd, tab, tag+"u", false)
		return c17Body{K: "unary", M: &m}
	}
	n := rnd.IntN(7)
	b := c17Body{K: "stream", Items: []c17Item{}}
	for i := 0; i < n; i++ {
		it := c17Item{Flags: rnd.IntN(256), M: c17RandMsg(rnd, tab, fmt.Sprintf("%ss%d", tag, i), true)}
		switch rnd.IntN(4) {
		case 0:
			it.HasLen, it.Len = true, strconv.FormatUint(uint64(rnd.Uint32()), 10)
		case 1:
			it.HasLen, it.Len = true, strconv.Itoa(rnd.IntN(20))
		}
		b.Items = append(b.Items, it)
	}
	return b
}


var _ = base64.URLEncoding
