package referenceserver

// C17 harness, reference-server side.  Drivers + observers only; every recorded line is judged by
// TLC (Trace_RawHTTP) with the declarative operators of RawHTTPDecl / RawHTTP.
//
//   TestVerifC17Ops     replays the behaviours of the RawHTTP arbitration machine (Gen_RawHTTP) on
//                       the real rawResponder / rawResponseWriter / setRawResponse: over an
//                       httptest.ResponseRecorder and over real HTTP/1.1 and h2c servers; a
//                       setRawResponse "between canSendResponse and the write" is issued from inside
//                       the underlying writer's method (the mutex is not held there)
//   TestVerifC17Defs    sends every raw response definition of Gen_RawHTTPDefs (or seeded random
//                       ones, VERIF_RANDOM) through the real reference server (createServer in
//                       reference mode; HTTP/1.1, h2c, HTTP/2 over TLS; unary, client-stream,
//                       server-stream and bidi RPCs; Connect, gRPC and gRPC-web requests) and
//                       records what a plain net/http / x/net/http2 client receives
//   TestVerifC17Enc     runs the body encoders directly onto a buffer, a one-byte-at-a-time writer
//                       and an io.Pipe writer and reads the result back with the envelope reader

import (
	"errors"
	"bytes"
	"context"
	"encoding/json"
	"fmt"
	"io"
	"log"
	"math/rand/v2"
	"net/http"
	"net/http/httptest"
	"os"
	"reflect"
	"strconv"
	"strings"
	"sync"
	"testing"
	"time"

	"connectrpc.com/conformance/internal"
	conformancev1 "connectrpc.com/conformance/internal/gen/proto/go/connectrpc/conformance/v1"
	"connectrpc.com/conformance/internal/verifutil"
	"golang.org/x/net/http2"
	"golang.org/x/net/http2/h2c"
	"google.golang.org/protobuf/proto"
)

// ---------------------------------------------------------------- arbitration behaviours

type c17Op struct {
	O   string   `json:"o"`
	A   any      `json:"a"`
	Mid []string `json:"mid"`
	Res []bool   `json:"res"`
}

type c17OpsScn struct {
	Ops     []c17Op    `json:"ops"`
	RawWins bool       `json:"rawwins"`
	Final   string     `json:"final"`
	Def     c17RespDef `json:"def"`
}

type c17Run struct {
	mu      sync.Mutex
	ctx     context.Context
	pending []string
	setraw  []bool
	wret    []bool
	unspent int
	defs    map[string]*conformancev1.RawHTTPResponse
}

func (r *c17Run) runMid() {
	r.mu.Lock()
	mid := r.pending
	r.pending = nil
	r.mu.Unlock()
	for _, d := range mid {
		err := setRawResponse(r.ctx, proto.Clone(r.defs[d]).(*conformancev1.RawHTTPResponse))
		r.mu.Lock()
		r.setraw = append(r.setraw, err == nil)
		r.mu.Unlock()
	}
}

// c17HookWriter stands between the real underlying writer and rawResponder: the place where a
// concurrent setRawResponse can fall after canSendResponse has admitted the call.
type c17HookWriter struct {
	http.ResponseWriter
	run *c17Run
}

func (w *c17HookWriter) WriteHeader(code int) { w.run.runMid(); w.ResponseWriter.WriteHeader(code) }
func (w *c17HookWriter) Write(b []byte) (int, error) {
	w.run.runMid()
	return w.ResponseWriter.Write(b)
}
func (w *c17HookWriter) Flush() {
	w.run.runMid()
	if f, ok := w.ResponseWriter.(http.Flusher); ok {
		f.Flush()
	}
}

func c17Chunk(id string) []byte { return []byte("<" + id + ">") }

// the scripted handler: the handler-side operations of one behaviour, in order
func c17Script(ops []c17Op, run *c17Run, bare bool) http.Handler {
	return http.HandlerFunc(func(w http.ResponseWriter, r *http.Request) {
		run.ctx = r.Context()
		for _, op := range ops {
			setMid := func() {
				if !bare {
					run.mu.Lock()
					run.pending = op.Mid
					run.mu.Unlock()
				}
			}
			spent := func() {
				run.mu.Lock()
				run.unspent += len(run.pending)
				run.pending = nil
				run.mu.Unlock()
			}
			switch op.O {
			case "sethdr":
				w.Header().Set(op.A.(string), op.Mid[0])
			case "settrl":
				w.Header().Set(http.TrailerPrefix+op.A.(string), op.Mid[0])
			case "wh":
				setMid()
				w.WriteHeader(int(op.A.(float64)))
				spent()
			case "write":
				setMid()
				b := c17Chunk(op.A.(string))
				n, err := w.Write(b)
				run.wret = append(run.wret, n == len(b) && err == nil)
				spent()
			case "flush":
				setMid()
				if f, ok := w.(http.Flusher); ok {
					f.Flush()
				}
				spent()
			case "setraw":
				if bare {
					continue
				}
				err := setRawResponse(r.Context(), proto.Clone(run.defs[op.A.(string)]).(*conformancev1.RawHTTPResponse))
				run.mu.Lock()
				run.setraw = append(run.setraw, err == nil)
				run.mu.Unlock()
			}
		}
	})
}

// earlier middleware (CORS in the real server) has put a header on the writer before rawResponder runs
func c17Pre(next http.Handler) http.Handler {
	return http.HandlerFunc(func(w http.ResponseWriter, r *http.Request) {
		w.Header().Add("Vary", "Origin")
		next.ServeHTTP(w, r)
	})
}

func c17OpsHandler(scn *c17OpsScn, run *c17Run, bare bool) http.Handler {
	if bare {
		return c17Pre(c17Script(scn.Ops, run, true))
	}
	return c17Pre(http.HandlerFunc(func(w http.ResponseWriter, r *http.Request) {
		rawResponder(c17Script(scn.Ops, run, false)).ServeHTTP(&c17HookWriter{ResponseWriter: w, run: run}, r)
	}))
}

func (t *c17Payloads) chunkSegments(body []byte, chunks []string) ([]c17Seg, bool) {
	segs := []c17Seg{}
	for len(body) > 0 {
		found := false
		for _, c := range chunks {
			if lit := c17Chunk(c); bytes.HasPrefix(body, lit) {
				segs = append(segs, c17Seg{"k": "chunk", "c": c})
				body = body[len(lit):]
				found = true
				break
			}
		}
		if !found {
			return nil, false
		}
	}
	return segs, true
}

func c17SameWire(a, b *c17RespObs, ra, rb []byte) bool {
	strip := func(hs []c17Hdr) []c17Hdr {
		res := []c17Hdr{}
		for _, h := range hs {
			if h.CName != "Date" {
				res = append(res, h)
			}
		}
		return res
	}
	return a.Status == b.Status && reflect.DeepEqual(strip(a.Hdrs), strip(b.Hdrs)) &&
		reflect.DeepEqual(a.Trls, b.Trls) && bytes.Equal(ra, rb) && a.Err == b.Err
}

func TestVerifC17Ops(t *testing.T) {
	lines, err := verifutil.ReadLines(verifutil.Env("VERIF_SCN", ""))
	if err != nil {
		t.Fatal(err)
	}
	out, err := verifutil.NewOut(verifutil.Env("VERIF_OUT", ""))
	if err != nil {
		t.Fatal(err)
	}
	defer out.Close()
	tab := c17NewPayloads()
	var defsJSON map[string]c17RespDef
	if err := json.Unmarshal([]byte(verifutil.Env("VERIF_DEFS", "{}")), &defsJSON); err != nil {
		t.Fatal(err)
	}
	defs := map[string]*conformancev1.RawHTTPResponse{}
	for id, d := range defsJSON {
		d := d
		raw, err := tab.rawResponse(&d)
		if err != nil {
			t.Fatal(err)
		}
		defs[id] = raw
	}
	flavours := strings.Split(verifutil.Env("VERIF_FLAVOURS", "rec,h1,h2c"), ",")
	reps := verifutil.EnvInt("VERIF_REPS", 1)
	scns := make([]*c17OpsScn, len(lines))
	opsRaw := make([]json.RawMessage, len(lines))
	for i, ln := range lines {
		scns[i] = &c17OpsScn{}
		if err := json.Unmarshal(ln, scns[i]); err != nil {
			t.Fatalf("scenario %d: %v", i, err)
		}
		var only struct {
			Ops json.RawMessage `json:"ops"`
		}
		if err := json.Unmarshal(ln, &only); err != nil {
			t.Fatalf("scenario %d: %v", i, err)
		}
		opsRaw[i] = only.Ops
	}
	// real servers: the behaviour is selected by a request header
	type slot struct {
		run  *c17Run
		bare *c17Run
	}
	var slots sync.Map
	mux := http.HandlerFunc(func(w http.ResponseWriter, r *http.Request) {
		key := r.Header.Get("X-Scn")
		idx, _ := strconv.Atoi(strings.SplitN(key, "/", 2)[0])
		v, _ := slots.Load(key)
		s := v.(*slot)
		if r.URL.Path == "/bare" {
			c17OpsHandler(scns[idx], s.bare, true).ServeHTTP(w, r)
			return
		}
		c17OpsHandler(scns[idx], s.run, false).ServeHTTP(w, r)
	})
	quiet := log.New(io.Discard, "", 0) // "superfluous WriteHeader" is part of the behaviours
	srvH1 := httptest.NewUnstartedServer(mux)
	srvH1.Config.ErrorLog = quiet
	srvH1.Start()
	defer srvH1.Close()
	srvH2 := httptest.NewUnstartedServer(h2c.NewHandler(mux, &http2.Server{}))
	srvH2.Config.ErrorLog = quiet
	srvH2.Start()
	defer srvH2.Close()
	clients := map[string]*http.Client{"h1": c17PlainClient("h1"), "h2c": c17PlainClient("h2c")}
	urls := map[string]string{"h1": srvH1.URL, "h2c": srvH2.URL}
	var nRuns int64
	var cntMu sync.Mutex
	verifutil.ParallelFor(len(scns), 16, func(i int) {
		scn := scns[i]
		var chunks []string
		for _, op := range scn.Ops {
			if op.O == "write" {
				chunks = append(chunks, op.A.(string))
			}
		}
		for _, fl := range flavours {
			for rep := 0; rep < reps; rep++ {
				run := &c17Run{defs: defs}
				bare := &c17Run{defs: defs}
				var obs, bobs c17RespObs
				var rawBytes, bareBytes []byte
				fetch := func(path string, r *c17Run) (c17RespObs, []byte) {
					if fl == "rec" {
						rec := httptest.NewRecorder()
						req := httptest.NewRequest(http.MethodGet, "http://verif.test"+path, nil)
						c17OpsHandler(scn, r, path == "/bare").ServeHTTP(rec, req)
						resp := rec.Result()
						b, _ := io.ReadAll(resp.Body)
						resp.Body = io.NopCloser(bytes.NewReader(b))
						return tab.observeResponse(resp, nil, scn.Def.Body), b
					}
					key := fmt.Sprintf("%d/%s/%d%s", i, fl, rep, path)
					slots.Store(key, &slot{run: r, bare: r})
					defer slots.Delete(key)
					ctx, cancel := c17Watchdog(30 * time.Second)
					defer cancel()
					req, _ := http.NewRequestWithContext(ctx, http.MethodGet, urls[fl]+path, nil)
					req.Header.Set("X-Scn", key)
					resp, err := clients[fl].Do(req)
					if err != nil {
						return tab.observeResponse(nil, err, scn.Def.Body), nil
					}
					b, rerr := io.ReadAll(resp.Body)
					resp.Body.Close()
					resp.Body = io.NopCloser(bytes.NewReader(b))
					o := tab.observeResponse(resp, nil, scn.Def.Body)
					if rerr != nil {
						o.Err = "body: " + rerr.Error()
					}
					return o, b
				}
				obs, rawBytes = fetch("/raw", run)
				bobs, bareBytes = fetch("/bare", bare)
				if segs, ok := tab.chunkSegments(rawBytes, chunks); ok && len(rawBytes) > 0 {
					obs.Body = segs
				}
				setraw := run.setraw
				if setraw == nil {
					setraw = []bool{}
				}
				wret := run.wret
				if wret == nil {
					wret = []bool{}
				}
				out.Put(map[string]any{"kind": "ops", "id": i, "fl": fl, "ops": opsRaw[i], "obs": obs, "setraw": setraw,
					"wret": wret, "unspent": run.unspent, "same": c17SameWire(&obs, &bobs, rawBytes, bareBytes)})
				cntMu.Lock()
				nRuns++
				cntMu.Unlock()
			}
		}
	})
	out.Put(map[string]any{"kind": "summary", "runs": nRuns, "scenarios": len(scns)})
}

// ---------------------------------------------------------------- definitions through the real reference server

type c17Server struct {
	flavour string
	svr     httpServer
	base    string
	client  *http.Client
}

type c17Discard struct{}

func (c17Discard) Write(b []byte) (int, error) { return len(b), nil }

func c17StartServers(t *testing.T, flavours []string) map[string]*c17Server {
	res := map[string]*c17Server{}
	for _, fl := range flavours {
		req := &conformancev1.ServerCompatRequest{Protocol: conformancev1.Protocol_PROTOCOL_CONNECT}
		switch fl {
		case "h1":
			req.HttpVersion = conformancev1.HTTPVersion_HTTP_VERSION_1
		case "h1tls":
			req.HttpVersion = conformancev1.HTTPVersion_HTTP_VERSION_1
			req.UseTls = true
		case "h2c":
			req.HttpVersion = conformancev1.HTTPVersion_HTTP_VERSION_2
		case "h2tls":
			req.HttpVersion = conformancev1.HTTPVersion_HTTP_VERSION_2
			req.UseTls = true
		}
		svr, _, err := createServer(req, "127.0.0.1:0", "", "", true, internal.NewPrinter(c17Discard{}), nil)
		if err != nil {
			t.Fatalf("createServer %s: %v", fl, err)
		}
		go func() { _ = svr.Serve() }()
		scheme := "http://"
		if req.UseTls {
			scheme = "https://"
		}
		s := &c17Server{flavour: fl, svr: svr, base: scheme + svr.Addr(), client: c17PlainClient(fl)}
		res[fl] = s
		t.Cleanup(func() { _ = svr.GracefulShutdown(2 * time.Second) })
	}
	return res
}

const c17Svc = "/connectrpc.conformance.v1.ConformanceService/"

// c17Request builds the request that carries the raw response definition in its response
// definition: rpc in unary|cstream|sstream|bidi, reqproto in connect|grpc|grpcweb.
func c17Request(ctx context.Context, base, rpc, reqproto string, raw *conformancev1.RawHTTPResponse, name string) (*http.Request, error) {
	unaryDef := &conformancev1.UnaryResponseDefinition{RawResponse: raw,
		Response: &conformancev1.UnaryResponseDefinition_ResponseData{ResponseData: []byte("HANDLER-RESPONSE-DATA")},
		ResponseHeaders: []*conformancev1.Header{{Name: "x-handler-header", Value: []string{"leak"}}}}
	streamDef := &conformancev1.StreamResponseDefinition{RawResponse: raw,
		ResponseData:    [][]byte{[]byte("HANDLER-RESPONSE-DATA-1"), []byte("HANDLER-RESPONSE-DATA-2")},
		ResponseHeaders: []*conformancev1.Header{{Name: "x-handler-header", Value: []string{"leak"}}}}
	var msgs []proto.Message
	var method string
	switch rpc {
	case "unary":
		method = "Unary"
		msgs = []proto.Message{&conformancev1.UnaryRequest{ResponseDefinition: unaryDef, RequestData: []byte("req")}}
	case "idem":
		// the other unary procedure: its request carries the same kind of response definition
		method = "IdempotentUnary"
		msgs = []proto.Message{&conformancev1.IdempotentUnaryRequest{ResponseDefinition: unaryDef, RequestData: []byte("req")}}
	case "cstream":
		method = "ClientStream"
		msgs = []proto.Message{&conformancev1.ClientStreamRequest{ResponseDefinition: unaryDef, RequestData: []byte("req1")},
			&conformancev1.ClientStreamRequest{RequestData: []byte("req2")}}
	case "sstream":
		method = "ServerStream"
		msgs = []proto.Message{&conformancev1.ServerStreamRequest{ResponseDefinition: streamDef, RequestData: []byte("req")}}
	case "bidi":
		method = "BidiStream"
		msgs = []proto.Message{&conformancev1.BidiStreamRequest{ResponseDefinition: streamDef, RequestData: []byte("req1")},
			&conformancev1.BidiStreamRequest{RequestData: []byte("req2")}}
	default:
		return nil, fmt.Errorf("rpc %q", rpc)
	}
	var body []byte
	enveloped := (rpc != "unary" && rpc != "idem") || reqproto != "connect"
	for _, m := range msgs {
		b, err := proto.Marshal(m)
		if err != nil {
			return nil, err
		}
		if enveloped {
			body = append(body, c17Envelope(0, b)...)
		} else {
			body = append(body, b...)
		}
	}
	req, err := http.NewRequestWithContext(ctx, http.MethodPost, base+c17Svc+method, bytes.NewReader(body))
	if err != nil {
		return nil, err
	}
	switch reqproto {
	case "connect":
		if rpc == "unary" || rpc == "idem" {
			req.Header.Set("Content-Type", "application/proto")
		} else {
			req.Header.Set("Content-Type", "application/connect+proto")
		}
		req.Header.Set("Connect-Protocol-Version", "1")
	case "grpc":
		req.Header.Set("Content-Type", "application/grpc+proto")
		req.Header.Set("Te", "trailers")
	case "grpcweb":
		req.Header.Set("Content-Type", "application/grpc-web+proto")
	}
	req.Header.Set("X-Test-Case-Name", name)
	return req, nil
}

func c17Combos(fl string) [][2]string {
	var res [][2]string
	for _, rpc := range []string{"unary", "idem", "cstream", "sstream", "bidi"} {
		for _, rp := range []string{"connect", "grpcweb", "grpc"} {
			if rp == "grpc" && strings.HasPrefix(fl, "h1") {
				continue // gRPC needs HTTP/2
			}
			res = append(res, [2]string{rpc, rp})
		}
	}
	return res
}

var c17Snap = []c17Hdr{{Name: "Vary", CName: "Vary", Value: []string{"Origin"}}}

func TestVerifC17Defs(t *testing.T) {
	out, err := verifutil.NewOut(verifutil.Env("VERIF_OUT", ""))
	if err != nil {
		t.Fatal(err)
	}
	defer out.Close()
	tab := c17NewPayloads()
	flavours := strings.Split(verifutil.Env("VERIF_FLAVOURS", "h1,h2c,h2tls"), ",")
	perDef := verifutil.EnvInt("VERIF_COMBOS", 3)
	reps := verifutil.EnvInt("VERIF_REPS", 1)
	var defs []c17RespDef
	var raws []json.RawMessage
	var only []string // per definition: a fixed "flavour/rpc/reqproto" (replay / reproduction) or ""
	if n := verifutil.EnvInt("VERIF_RANDOM", 0); n > 0 {
		rnd := verifutil.Rand(1701)
		for i := 0; i < n; i++ {
			d := c17RandomResp(rnd, tab, i)
			defs = append(defs, d)
			raws = append(raws, c17JSON(d))
			only = append(only, "")
		}
	} else {
		lines, err := verifutil.ReadLines(verifutil.Env("VERIF_SCN", ""))
		if err != nil {
			t.Fatal(err)
		}
		for i, ln := range lines {
			var s struct {
				Def json.RawMessage `json:"def"`
				Fl  string          `json:"fl"`
			}
			if err := json.Unmarshal(ln, &s); err != nil {
				t.Fatalf("scenario %d: %v", i, err)
			}
			var d c17RespDef
			if err := json.Unmarshal(s.Def, &d); err != nil {
				t.Fatalf("scenario %d: %v", i, err)
			}
			defs = append(defs, d)
			raws = append(raws, s.Def)
			only = append(only, s.Fl)
		}
	}
	servers := c17StartServers(t, flavours)
	type job struct {
		i            int
		fl, rpc, rp  string
	}
	var jobs []job
	seed := int(verifutil.Seed())
	for i := range defs {
		if only[i] != "" {
			p := strings.Split(only[i], "/")
			for r := 0; r < reps; r++ {
				jobs = append(jobs, job{i, p[0], p[1], p[2]})
			}
			continue
		}
		var all []job
		for _, fl := range flavours {
			for _, c := range c17Combos(fl) {
				all = append(all, job{i, fl, c[0], c[1]})
			}
		}
		if perDef <= 0 || perDef >= len(all) {
			jobs = append(jobs, all...)
			continue
		}
		// rotate through the flavour x rpc x request-protocol grid so that neighbours differ
		step := len(all)/perDef + 1
		for k := 0; k < perDef; k++ {
			jobs = append(jobs, all[(i*7+seed*3+k*step)%len(all)])
		}
	}
	var nOK int64
	var mu sync.Mutex
	verifutil.ParallelFor(len(jobs), 24, func(j int) {
		jb := jobs[j]
		d := defs[jb.i]
		raw, err := tab.rawResponse(&d)
		if err != nil {
			t.Errorf("definition %d: %v", jb.i, err)
			return
		}
		ctx, cancel := c17Watchdog(60 * time.Second)
		defer cancel()
		s := servers[jb.fl]
		req, err := c17Request(ctx, s.base, jb.rpc, jb.rp, raw, fmt.Sprintf("c17/%d", jb.i))
		if err != nil {
			t.Errorf("definition %d: %v", jb.i, err)
			return
		}
		resp, err := s.client.Do(req)
		obs := tab.observeResponse(resp, err, d.Body)
		out.Put(map[string]any{"kind": "resp", "id": jb.i, "fl": jb.fl + "/" + jb.rpc + "/" + jb.rp, "def": raws[jb.i],
			"snap": c17Snap, "obs": obs})
		mu.Lock()
		nOK++
		mu.Unlock()
	})
	out.Put(map[string]any{"kind": "summary", "runs": nOK, "definitions": len(defs)})
}

// ---------------------------------------------------------------- seeded random definitions (beyond the TLC domain)

func c17RandomResp(rnd *rand.Rand, tab *c17Payloads, i int) c17RespDef {
	statuses := []int{0, 200, 201, 400, 404, 415, 429, 500, 502, 503, 505, 599}
	return c17RespDef{Status: statuses[rnd.IntN(len(statuses))], Hdrs: c17RandHdrs(rnd, 4), Trls: c17RandTrailers(rnd),
		Body: c17RandBody(rnd, tab, fmt.Sprintf("%d", i))}
}

func c17RandTrailers(rnd *rand.Rand) []c17Hdr {
	hs := c17RandHdrs(rnd, 3)
	res := []c17Hdr{}
	for _, h := range hs {
		switch h.CName { // names the HTTP stack refuses to send as trailers or interprets itself
		case "Content-Type", "Set-Cookie":
			continue
		}
		res = append(res, h)
	}
	return res
}

// ---------------------------------------------------------------- the encoders, directly

type c17ByteWriter struct{ buf bytes.Buffer }

func (w *c17ByteWriter) Write(b []byte) (int, error) {
	for i := range b { // one byte at a time, as a slow connection would take them
		w.buf.WriteByte(b[i])
	}
	return len(b), nil
}

func (t *c17Payloads) encode(body c17Body, w io.Writer) (err error) {
	defer func() {
		if r := recover(); r != nil {
			err = fmt.Errorf("panic: %v", r)
		}
	}()
	switch body.K {
	case "unary":
		m, cerr := t.contents(*body.M)
		if cerr != nil {
			return cerr
		}
		return internal.WriteRawMessageContents(m, w)
	case "stream":
		s, cerr := t.stream(body.Items)
		if cerr != nil {
			return cerr
		}
		return internal.WriteRawStreamContents(s, w)
	}
	return nil
}

func TestVerifC17Enc(t *testing.T) {
	out, err := verifutil.NewOut(verifutil.Env("VERIF_OUT", ""))
	if err != nil {
		t.Fatal(err)
	}
	defer out.Close()
	tab := c17NewPayloads()
	var bodies []c17Body
	var raws []json.RawMessage
	var only []string
	if n := verifutil.EnvInt("VERIF_RANDOM", 0); n > 0 {
		rnd := verifutil.Rand(1702)
		for i := 0; i < n; i++ {
			b := c17RandBody(rnd, tab, fmt.Sprintf("e%d", i))
			bodies = append(bodies, b)
			raws = append(raws, c17JSON(b))
			only = append(only, "")
		}
	} else {
		lines, err := verifutil.ReadLines(verifutil.Env("VERIF_SCN", ""))
		if err != nil {
			t.Fatal(err)
		}
		for i, ln := range lines {
			var s struct {
				Body json.RawMessage `json:"body"`
				Fl   string          `json:"fl"`
			}
			if err := json.Unmarshal(ln, &s); err != nil {
				t.Fatalf("scenario %d: %v", i, err)
			}
			var b c17Body
			if err := json.Unmarshal(s.Body, &b); err != nil {
				t.Fatalf("scenario %d: %v", i, err)
			}
			bodies = append(bodies, b)
			raws = append(raws, s.Body)
			only = append(only, s.Fl)
		}
	}
	reps := verifutil.EnvInt("VERIF_REPS", 1)
	var n int64
	var mu sync.Mutex
	sinks := []string{"buffer", "bytewise", "pipe", "afterfail"}
	if verifutil.EnvInt("VERIF_CONC", 0) > 0 {
		// the reference server renders raw responses of concurrent requests, the reference client raw requests
		// of concurrent RPCs: what one call writes must not depend on the calls running beside it
		sinks = []string{"concurrent"}
	}
	verifutil.ParallelFor(len(bodies), 16, func(i int) {
		b := bodies[i]
		for _, sink := range sinks {
			if only[i] != "" && only[i] != sink && !(sink == "afterfail" && only[i] == "buffer") {
				continue
			}
			for rep := 0; rep < reps; rep++ {
				var got []byte
				var werr error
				switch sink {
				case "buffer":
					var buf bytes.Buffer
					werr = tab.encode(b, &buf)
					got = buf.Bytes()
				case "afterfail":
					// history: an earlier body was written (on this goroutine) to a sink that broke part-way
					// (a peer that disconnected); what is written next must not depend on that
					for _, cut := range []int{3, 7, 40} {
						_ = tab.encode(bodies[(i+1)%len(bodies)], &c17FailingWriter{left: cut})
						_ = tab.encode(b, &c17FailingWriter{left: cut})
					}
					var buf bytes.Buffer
					werr = tab.encode(b, &buf)
					got = buf.Bytes()
				case "concurrent":
					var first bytes.Buffer
					werr = tab.encode(b, &first)
					got = first.Bytes()
					var wg sync.WaitGroup
					var dmu sync.Mutex
					var differs []byte
					for g := 0; g < 8; g++ {
						wg.Add(1)
						go func(g int) {
							defer wg.Done()
							for k := 0; k < 40; k++ {
								var buf bytes.Buffer
								mine := b
								if g%2 == 1 { // neighbours render other bodies at the same time
									mine = bodies[(i+g+k)%len(bodies)]
								}
								_ = tab.encode(mine, &buf)
								if g%2 == 0 && !bytes.Equal(buf.Bytes(), first.Bytes()) {
									dmu.Lock()
									if differs == nil {
										differs = append([]byte{}, buf.Bytes()...)
									}
									dmu.Unlock()
								}
							}
						}(g)
					}
					wg.Wait()
					if differs != nil {
						got = differs
					}
				case "bytewise":
					w := &c17ByteWriter{}
					werr = tab.encode(b, w)
					got = w.buf.Bytes()
				case "pipe":
					// what rawRequestSender does: the encoder writes to an *io.PipeWriter, the transport reads
					pr, pw := io.Pipe()
					done := make(chan []byte, 1)
					go func() {
						all, _ := io.ReadAll(pr)
						done <- all
					}()
					werr = tab.encode(b, pw)
					_ = pw.Close()
					select {
					case got = <-done:
					case <-time.After(60 * time.Second):
						fmt.Fprintln(os.Stderr, "watchdog: pipe reader did not finish")
						os.Exit(3)
					}
				}
				obs := map[string]any{"body": tab.segments(got, b), "envs": tab.envelopes(got, c17PayloadIDs(b)),
					"blen": c17Dec(len(got)), "err": "", "hex": c17Hex(got)}
				if b.K != "stream" {
					obs["envs"] = []c17Seg{}
				}
				if werr != nil {
					obs["err"] = werr.Error()
				}
				fl := sink
				if sink == "afterfail" || sink == "concurrent" {
					fl = "buffer" // the observation is a plain buffer write; the failing / concurrent writes are history
				}
				out.Put(map[string]any{"kind": "enc", "id": i, "fl": fl, "body": raws[i], "obs": obs})
				mu.Lock()
				n++
				mu.Unlock()
			}
		}
	})
	out.Put(map[string]any{"kind": "summary", "runs": n, "definitions": len(bodies)})
}

// c17FailingWriter accepts `left` bytes and then fails every write (a peer that went away).
type c17FailingWriter struct{ left int }

func (w *c17FailingWriter) Write(p []byte) (int, error) {
	if len(p) <= w.left {
		w.left -= len(p)
		return len(p), nil
	}
	n := w.left
	w.left = 0
	return n, errors.New("verif: sink broke")
}
