package referenceclient

// C17 harness, reference-client side: a raw request definition is sent by the real
// rawRequestSender (via = "sender": RoundTrip over a plain net/http / x/net/http2 transport) and by
// the whole reference client (via = "client": invoke in reference mode with raw_request set, i.e.
// connect-go -> rawRequestSender -> wire capture -> transport) to a PLAIN recording HTTP server;
// what that server saw is recorded and judged by TLC (Trace_RawHTTP, RawHTTPDecl!AcceptReq).

import (
	"bytes"
	"context"
	"crypto/tls"
	"encoding/base64"
	"encoding/json"
	"fmt"
	"io"
	"math/rand/v2"
	"net"
	"net/http"
	"net/http/httptest"
	"net/url"
	"os"
	"os/exec"
	"path/filepath"
	"sort"
	"strconv"
	"strings"
	"sync"
	"testing"
	"time"

	conformancev1 "connectrpc.com/conformance/internal/gen/proto/go/connectrpc/conformance/v1"
	"connectrpc.com/conformance/internal/verifutil"
	"golang.org/x/net/http2"
	"golang.org/x/net/http2/h2c"
	"google.golang.org/protobuf/proto"
	"google.golang.org/protobuf/types/known/anypb"
)

type c17QVal struct {
	S   string   `json:"s"`
	Enc []string `json:"enc"`
}

type c17QEntry struct {
	CName string    `json:"cname"`
	Vals  []c17QVal `json:"vals"`
}

type c17ReqObs struct {
	Method  string      `json:"method"`
	Path    string      `json:"path"`
	Query   []c17QEntry `json:"query"`
	Hdrs    []c17Hdr    `json:"hdrs"`
	Body    []c17Seg    `json:"body"`
	BLen    string      `json:"blen"`
	UAStack bool        `json:"uaStack"`
	Proto   string      `json:"proto"`
	Err     string      `json:"err"`
	Hex     string      `json:"hex,omitempty"`
	RawQ    string      `json:"rawquery"`
}

type c17Seen struct {
	method, path, rawQuery, proto string
	hdr                          http.Header
	body                         []byte
	err                          error
}

// a plain recording server; one per worker, requests strictly one after the other
type c17Recorder struct {
	srv  *httptest.Server
	seen chan *c17Seen
}

func c17NewRecorder(flavour string) *c17Recorder {
	r := &c17Recorder{seen: make(chan *c17Seen, 8)}
	h := http.HandlerFunc(func(w http.ResponseWriter, req *http.Request) {
		body, err := io.ReadAll(req.Body)
		r.seen <- &c17Seen{method: req.Method, path: req.URL.EscapedPath(), rawQuery: req.URL.RawQuery, proto: req.Proto,
			hdr: req.Header.Clone(), body: body, err: err}
		// a valid, empty Connect unary response, so that the reference client finishes quickly
		w.Header().Set("Content-Type", "application/proto")
		w.WriteHeader(http.StatusOK)
	})
	if flavour == "h2c" {
		r.srv = httptest.NewServer(h2c.NewHandler(h, &http2.Server{}))
	} else {
		r.srv = httptest.NewServer(h)
	}
	return r
}

func (t *c17Payloads) observeRequest(s *c17Seen, rtErr error, d *c17ReqDef) c17ReqObs {
	obs := c17ReqObs{Query: []c17QEntry{}, Hdrs: []c17Hdr{}, Body: []c17Seg{}, BLen: "0"}
	if s == nil {
		obs.Err = "no request reached the server"
		if rtErr != nil {
			obs.Err += ": " + rtErr.Error()
		}
		return obs
	}
	obs.Method, obs.Path, obs.Proto, obs.RawQ = s.method, s.path, s.proto, s.rawQuery
	if s.err != nil {
		obs.Err = "body: " + s.err.Error()
	}
	obs.Hdrs = c17HdrList(s.hdr)
	ua := s.hdr.Get("User-Agent")
	obs.UAStack = strings.HasPrefix(ua, "Go-http-client/")
	obs.Body = t.segments(s.body, d.Body)
	obs.BLen = c17Dec(len(s.body))
	obs.Hex = c17Hex(s.body)
	// the query as the server's own parser sees it
	vals, perr := url.ParseQuery(s.rawQuery)
	if perr != nil {
		obs.Err += " query: " + perr.Error()
	}
	var cands []string
	for _, e := range d.EncQ {
		if e.M.P != "absent" && e.M.P != "nil" {
			cands = append(cands, e.M.P)
		}
	}
	names := make([]string, 0, len(vals))
	for k := range vals {
		names = append(names, k)
	}
	sort.Strings(names)
	for _, k := range names {
		e := c17QEntry{CName: k, Vals: []c17QVal{}}
		for _, v := range vals[k] {
			qv := c17QVal{S: v, Enc: []string{}}
			if len(cands) > 0 && len(v) > 0 {
				if z, p, ok := t.identify([]byte(v), cands); ok {
					qv.Enc = append(qv.Enc, fmt.Sprintf("%d/%s/0", z, p))
				}
				if raw, err := base64.URLEncoding.DecodeString(v); err == nil {
					if z, p, ok := t.identify(raw, cands); ok {
						qv.Enc = append(qv.Enc, fmt.Sprintf("%d/%s/1", z, p))
					}
				}
			}
			if len(v) == 0 {
				// no bytes: reads as an empty payload of the definition under the formats whose stock
				// decoder turns nothing into nothing (base64url of nothing is nothing as well)
				for _, id := range cands {
					if b, _, ok := t.get(id); ok && len(b) == 0 {
						for _, z := range c17EmptyInverts() {
							qv.Enc = append(qv.Enc, fmt.Sprintf("%d/%s/0", z, id), fmt.Sprintf("%d/%s/1", z, id))
						}
					}
				}
			}
			e.Vals = append(e.Vals, qv)
		}
		obs.Query = append(obs.Query, e)
	}
	return obs
}

func c17Transport(flavour string) http.RoundTripper {
	if flavour == "h2c" {
		return &http2.Transport{DisableCompression: true, AllowHTTP: true,
			DialTLSContext: func(ctx context.Context, network, addr string, _ *tls.Config) (net.Conn, error) {
				return (&net.Dialer{}).DialContext(ctx, network, addr)
			}}
	}
	return &http.Transport{DisableCompression: true}
}

func c17Send(tab *c17Payloads, rec *c17Recorder, flavour, via string, d *c17ReqDef, name string) (obs c17ReqObs) {
	raw, err := tab.rawRequest(d)
	if err != nil {
		return c17ReqObs{Query: []c17QEntry{}, Hdrs: []c17Hdr{}, Body: []c17Seg{}, BLen: "0", Err: "definition: " + err.Error()}
	}
	for len(rec.seen) > 0 { // nothing may be left over from an earlier request
		<-rec.seen
	}
	ctx, cancel := c17Watchdog(30 * time.Second)
	defer cancel()
	var rtErr error
	func() {
		defer func() {
			if r := recover(); r != nil {
				rtErr = fmt.Errorf("panic: %v", r)
			}
		}()
		switch via {
		case "sender":
			tr := c17Transport(flavour)
			sender := &rawRequestSender{transport: tr, rawRequest: raw}
			orig, err := http.NewRequestWithContext(ctx, http.MethodPost, rec.srv.URL+"/orig/path?origq=1", strings.NewReader("ORIG-BODY-MUST-NOT-APPEAR"))
			if err != nil {
				rtErr = err
				return
			}
			orig.Header.Set("X-Orig-Header", "1")
			orig.Header.Set("Content-Type", "orig/type")
			resp, err := sender.RoundTrip(orig)
			if err != nil {
				rtErr = err
				return
			}
			_, _ = io.Copy(io.Discard, resp.Body)
			_ = resp.Body.Close()
			if c, ok := tr.(interface{ CloseIdleConnections() }); ok {
				c.CloseIdleConnections()
			}
		case "client":
			u, _ := url.Parse(rec.srv.URL)
			port, _ := strconv.Atoi(u.Port())
			msg, _ := anypb.New(&conformancev1.UnaryRequest{RequestData: []byte("ORIG-MESSAGE-MUST-NOT-APPEAR")})
			hv := conformancev1.HTTPVersion_HTTP_VERSION_1
			if flavour == "h2c" {
				hv = conformancev1.HTTPVersion_HTTP_VERSION_2
			}
			req := &conformancev1.ClientCompatRequest{
				TestName: name, HttpVersion: hv, Protocol: conformancev1.Protocol_PROTOCOL_CONNECT,
				Codec: conformancev1.Codec_CODEC_PROTO, Compression: conformancev1.Compression_COMPRESSION_IDENTITY,
				Host: u.Hostname(), Port: uint32(port), Service: proto.String("connectrpc.conformance.v1.ConformanceService"),
				Method: proto.String("Unary"), StreamType: conformancev1.StreamType_STREAM_TYPE_UNARY,
				RequestHeaders:  []*conformancev1.Header{{Name: "X-Orig-Header", Value: []string{"1"}}},
				RequestMessages: []*anypb.Any{msg}, TimeoutMs: proto.Uint32(20000), RawRequest: raw,
			}
			_, rtErr = invoke(ctx, req, true, nil)
		}
	}()
	// The recording server hands over what it saw BEFORE it answers, so after a completed round trip
	// the record is there; after a failed one a (partial) request may still be on its way.
	var seen *c17Seen
	grace := 10 * time.Second
	if rtErr != nil {
		grace = 300 * time.Millisecond
	}
	select {
	case seen = <-rec.seen:
	case <-time.After(grace):
	}
	obs = tab.observeRequest(seen, rtErr, d)
	if seen != nil && rtErr != nil && obs.Err == "" {
		obs.Err = "" // the client-side outcome is not part of the property; the request was delivered
	}
	return obs
}

func TestVerifC17Req(t *testing.T) {
	out, err := verifutil.NewOut(verifutil.Env("VERIF_OUT", ""))
	if err != nil {
		t.Fatal(err)
	}
	defer out.Close()
	tab := c17NewPayloads()
	flavours := strings.Split(verifutil.Env("VERIF_FLAVOURS", "h1,h2c"), ",")
	vias := strings.Split(verifutil.Env("VERIF_VIAS", "sender,client"), ",")
	perDef := verifutil.EnvInt("VERIF_COMBOS", 2)
	reps := verifutil.EnvInt("VERIF_REPS", 1)
	var defs []c17ReqDef
	var raws []json.RawMessage
	var only []string
	if n := verifutil.EnvInt("VERIF_RANDOM", 0); n > 0 {
		rnd := verifutil.Rand(1703)
		for i := 0; i < n; i++ {
			d := c17RandomReq(rnd, tab, i)
			defs = append(defs, d)
			raws = append(raws, c17JSON(d))
			only = append(only, "")
		}
	} else {
		lines, err := verifutil.ReadLines(verifutil.Env("VERIF_SCN", ""))
		if err != nil {
			t.Fatal(err)
		}
		for i, ln := range lines {
			var s struct {
				Def json.RawMessage `json:"def"`
				Fl  string          `json:"fl"`
			}
			if err := json.Unmarshal(ln, &s); err != nil {
				t.Fatalf("scenario %d: %v", i, err)
			}
			var d c17ReqDef
			if err := json.Unmarshal(s.Def, &d); err != nil {
				t.Fatalf("scenario %d: %v", i, err)
			}
			defs = append(defs, d)
			raws = append(raws, s.Def)
			only = append(only, s.Fl)
		}
	}
	type job struct {
		i       int
		fl, via string
	}
	var jobs []job
	seed := int(verifutil.Seed())
	for i := range defs {
		if only[i] != "" {
			p := strings.Split(only[i], "/")
			for r := 0; r < reps; r++ {
				jobs = append(jobs, job{i, p[0], p[1]})
			}
			continue
		}
		var all []job
		for _, fl := range flavours {
			for _, via := range vias {
				all = append(all, job{i, fl, via})
			}
		}
		if perDef <= 0 || perDef >= len(all) {
			jobs = append(jobs, all...)
			continue
		}
		for k := 0; k < perDef; k++ {
			jobs = append(jobs, all[(i+seed+k*(len(all)/perDef+1))%len(all)])
		}
	}
	workers := verifutil.EnvInt("VERIF_WORKERS", 16) // (more workers run out of file descriptors: the client keeps one connection per RPC open)
	recs := make([]map[string]*c17Recorder, workers)
	for w := range recs {
		recs[w] = map[string]*c17Recorder{}
		for _, fl := range flavours {
			recs[w][fl] = c17NewRecorder(fl)
		}
	}
	defer func() {
		for _, m := range recs {
			for _, r := range m {
				r.srv.CloseClientConnections()
				r.srv.Close()
			}
		}
	}()
	var n int64
	var mu sync.Mutex
	var wg sync.WaitGroup
	ch := make(chan int, workers)
	for w := 0; w < workers; w++ {
		wg.Add(1)
		go func(w int) {
			defer wg.Done()
			done := 0
			for j := range ch {
				// the reference client opens a connection per RPC and leaves it open: drop this worker's
				// server-side connections now and then (between two of its jobs), or a long run uses up the
				// file descriptors of the process
				if done++; done%100 == 0 {
					for _, r := range recs[w] {
						r.srv.CloseClientConnections()
					}
				}
				jb := jobs[j]
				d := defs[jb.i]
				var obs c17ReqObs
				if c17NeedsIsolation(&d) {
					obs = c17Isolated(jb.fl, jb.via, raws[jb.i], fmt.Sprintf("%d-%d", w, j))
				} else {
					obs = c17Send(tab, recs[w][jb.fl], jb.fl, jb.via, &d, fmt.Sprintf("c17/%d", jb.i))
				}
				out.Put(map[string]any{"kind": "req", "id": jb.i, "fl": jb.fl + "/" + jb.via, "def": raws[jb.i], "obs": obs})
				mu.Lock()
				n++
				mu.Unlock()
			}
		}(w)
	}
	for j := range jobs {
		ch <- j
	}
	close(ch)
	wg.Wait()
	out.Put(map[string]any{"kind": "summary", "runs": n, "definitions": len(defs)})
}

// ---------------------------------------------------------------- isolation

// A stream item without payload makes the body-writing goroutine of rawRequestSender panic, which
// takes the whole process down (nothing can recover another goroutine's panic).  Such definitions
// are therefore sent from a child process (this test binary re-executed); if the child dies the
// observation says so.
func c17NeedsIsolation(d *c17ReqDef) bool {
	for _, it := range d.Body.Items {
		if it.M.P == "absent" {
			return true
		}
	}
	return false
}

func c17EmptyReqObs(err string) c17ReqObs {
	return c17ReqObs{Query: []c17QEntry{}, Hdrs: []c17Hdr{}, Body: []c17Seg{}, BLen: "0", Err: err}
}

func c17Isolated(flavour, via string, def json.RawMessage, tag string) c17ReqObs {
	outp := filepath.Join(filepath.Dir(verifutil.Env("VERIF_OUT", os.TempDir()+"/x")), "c17.child."+tag+".json")
	defer os.Remove(outp)
	ctx, cancel := c17Watchdog(120 * time.Second)
	defer cancel()
	cmd := exec.CommandContext(ctx, os.Args[0], "-test.run", "^TestVerifC17ReqChild$", "-test.count=1")
	cmd.Env = append(os.Environ(), "VERIF_CHILD_DEF="+string(def), "VERIF_CHILD_FL="+flavour+"/"+via, "VERIF_CHILD_OUT="+outp)
	out, runErr := cmd.CombinedOutput()
	if b, err := os.ReadFile(outp); err == nil && len(b) > 0 {
		var obs c17ReqObs
		if err := json.Unmarshal(b, &obs); err == nil {
			return obs
		}
	}
	if ctx.Err() != nil {
		fmt.Fprintln(os.Stderr, "watchdog: child process did not finish")
		os.Exit(3)
	}
	why := "exit: " + fmt.Sprint(runErr)
	for _, ln := range strings.Split(string(out), "\n") {
		if strings.HasPrefix(ln, "panic:") {
			why = ln
			break
		}
	}
	return c17EmptyReqObs("reference client process died: " + why)
}

func TestVerifC17ReqChild(t *testing.T) {
	defJSON := os.Getenv("VERIF_CHILD_DEF")
	if defJSON == "" {
		t.Skip("helper")
	}
	var d c17ReqDef
	if err := json.Unmarshal([]byte(defJSON), &d); err != nil {
		t.Fatal(err)
	}
	p := strings.Split(os.Getenv("VERIF_CHILD_FL"), "/")
	tab := c17NewPayloads()
	rec := c17NewRecorder(p[0])
	obs := c17Send(tab, rec, p[0], p[1], &d, "c17/child")
	// give a crashing background goroutine the chance to crash before we claim success: the body
	// writer has either finished (the server saw the end of the body) or panicked by now
	b, _ := json.Marshal(obs)
	if err := os.WriteFile(os.Getenv("VERIF_CHILD_OUT"), b, 0o644); err != nil {
		t.Fatal(err)
	}
}

// ---------------------------------------------------------------- seeded random request definitions

func c17RandomReq(rnd *rand.Rand, tab *c17Payloads, i int) c17ReqDef {
	verbs := []string{"GET", "POST", "PUT", "DELETE", "PATCH", "OPTIONS", "FOO", ""}
	// (the path is observed as it was on the request line: escapes are part of "the given path")
	paths := []string{"/connectrpc.conformance.v1.ConformanceService/Unary", "/a/b.c/D", "/", "/x_y-z/~t", "/a%2Fb/C%3Fd", "/x%7Ey/%41%2f"}
	d := c17ReqDef{Verb: verbs[rnd.IntN(len(verbs))], Path: paths[rnd.IntN(len(paths))], InlineQ: []c17Hdr{}, RawQ: []c17Hdr{},
		EncQ: []c17EncQ{}, Hdrs: []c17Hdr{}}
	qnames := []string{"q", "x", "message", "encoding", "Q", "base64", "a.b", "k-1"}
	randVal := func() string {
		v := make([]byte, rnd.IntN(10))
		for j := range v {
			v[j] = "abcXYZ019-_=&+/ %?#;"[rnd.IntN(20)]
		}
		return string(v)
	}
	if rnd.IntN(3) == 0 {
		for k := 1 + rnd.IntN(2); k > 0; k-- {
			d.InlineQ = append(d.InlineQ, c17Hdr{Name: qnames[rnd.IntN(3)], Value: []string{strconv.Itoa(rnd.IntN(1000))}})
		}
	}
	for k := rnd.IntN(4); k > 0; k-- {
		h := c17Hdr{Name: qnames[rnd.IntN(len(qnames))], Value: []string{}}
		for m := rnd.IntN(4); m > 0; m-- {
			h.Value = append(h.Value, randVal())
		}
		d.RawQ = append(d.RawQ, h)
	}
	for k := rnd.IntN(3); k > 0; k-- {
		d.EncQ = append(d.EncQ, c17EncQ{CName: qnames[rnd.IntN(len(qnames))], M: c17RandMsg(rnd, tab, fmt.Sprintf("q%d_%d", i, k), false),
			B64: rnd.IntN(2) == 0})
	}
	for j := range d.InlineQ {
		d.InlineQ[j].CName = d.InlineQ[j].Name
	}
	for j := range d.RawQ {
		d.RawQ[j].CName = d.RawQ[j].Name
	}
	hdrs := c17RandHdrs(rnd, 4)
	for _, h := range hdrs {
		switch h.CName {
		case "Set-Cookie":
			continue
		}
		d.Hdrs = append(d.Hdrs, h)
	}
	d.Body = c17RandBody(rnd, tab, fmt.Sprintf("rq%d", i))
	return d
}

var _ = bytes.Equal
