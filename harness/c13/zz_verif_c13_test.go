package referenceclient

// C13 harness (in-package: the examiners are unexported).
//
// TestVerifC13Replay  replays the scenarios printed by TLC (Gen_WireChecks): every scenario is an
//                     abstract input of one examiner (WireChecksDecl syntax) plus the feedback
//                     classes the specification requires.  The harness renders the abstract input
//                     to concrete bytes (several seeded renderings per scenario), calls the real
//                     examiner (examineGRPCEndStream, checkGRPCStatus, examineConnectError,
//                     examineConnectEndStream, checkBinaryMetadata, examineWireDetails with a
//                     fabricated tracer.Trace), maps every feedback line to its class and compares
//                     the set with the expectation.  Mismatches are re-run three times on the same
//                     bytes and written with the bytes needed to re-run them.
// TestVerifC13Record  draws abstract inputs beyond the TLC families (longer, deeper, more of
//                     everything), renders and examines them and records (input, observed classes)
//                     for Trace_WireChecks; also messages through grpcutil.PercentEncodeMessage.
// TestVerifC13Emit    examines what the reference server's own encoders produced (file written by
//                     the in-package harness of referenceserver, harness/c13srv).
// TestVerifC13E2E     real reference server (in-process, reference mode) <- real HTTP -> the real
//                     reference client `invoke`, for seeded application errors; the feedback field
//                     of ClientResponseResult is recorded.
// TestVerifC13Fuzz    arbitrary bytes and mutated valid renderings into every examiner under recover.

import (
	"bytes"
	"compress/gzip"
	"context"
	"encoding/base64"
	"encoding/hex"
	"encoding/json"
	"errors"
	"fmt"
	"hash/fnv"
	"io"
	"math/rand/v2"
	"net/http"
	"regexp"
	"runtime"
	"sort"
	"strconv"
	"strings"
	"sync"
	"sync/atomic"
	"testing"
	"time"

	"connectrpc.com/conformance/internal"
	"connectrpc.com/conformance/internal/app/referenceserver"
	conformancev1 "connectrpc.com/conformance/internal/gen/proto/go/connectrpc/conformance/v1"
	"connectrpc.com/conformance/internal/gen/proto/go/connectrpc/conformance/v1/conformancev1connect"
	"connectrpc.com/conformance/internal/grpcutil"
	"connectrpc.com/conformance/internal/tracer"
	"connectrpc.com/conformance/internal/verifutil"
	"google.golang.org/genproto/googleapis/rpc/status"
	"google.golang.org/protobuf/encoding/protojson"
	"google.golang.org/protobuf/proto"
	"google.golang.org/protobuf/types/known/anypb"
)

// ---------------------------------------------------------------- generic access to scenarios

type c13M = map[string]any

func c13S(m c13M, k string) string {
	s, _ := m[k].(string)
	return s
}
func c13B(m c13M, k string) bool {
	b, _ := m[k].(bool)
	return b
}
func c13I(m c13M, k string) int {
	f, _ := m[k].(float64)
	return int(f)
}
func c13Map(m c13M, k string) c13M {
	r, _ := m[k].(map[string]any)
	return r
}
func c13L(m c13M, k string) []any {
	r, _ := m[k].([]any)
	return r
}
func c13Strs(l []any) []string {
	r := make([]string, len(l))
	for i, x := range l {
		r[i], _ = x.(string)
	}
	return r
}

func c13Pick(r *rand.Rand, opts ...string) string { return opts[r.IntN(len(opts))] }

// ---------------------------------------------------------------- feedback line -> class

type c13Rule struct {
	re  *regexp.Regexp
	cls string
}

func c13Rules(pairs ...string) []c13Rule {
	var res []c13Rule
	for i := 0; i < len(pairs); i += 2 {
		res = append(res, c13Rule{regexp.MustCompile(`(?s)^` + pairs[i]), pairs[i+1]})
	}
	return res
}

const c13JSONErr = `(json: |invalid character|unexpected end of JSON input|unexpected EOF|EOF$)`

var (
	c13ErrTop = c13Rules(
		`missing required key "code"`, "missingCode",
		`value for key "code" is not a recognized error code name`, "badCode",
		`value for key "code" is a `, "codeType",
		`value for key "message" is a `, "messageType",
		`value for key "details" is a `, "detailsType",
		`invalid key `, "invalidKey",
		`expecting an object but got <nil>`, "notObject",
		`(\S+: )?contains duplicate key`, "dupKey",
		c13JSONErr, "jsonError",
	)
	c13ErrDetail = c13Rules(
		`value for key "type" is a `, "typeType",
		`value for key "type", .* is not a valid type name`, "badType",
		`value for key "value" is a `, "valueType",
		`value for key "value", .* is not valid unpadded base64-encoding`, "badBase64",
		`invalid key `, "invalidKey",
		`missing required key "type"`, "missingType",
		`missing required key "value"`, "missingValue",
		`could not check debug data because message type`, "debugUnresolvable",
		`could not unmarshal message \S+ from value`, "valueUnparsable",
		`could not unmarshal message \S+ from debug JSON`, "debugUnparsable",
		`debug data indicates type`, "debugWrongType",
		`debug data does not match value`, "debugMismatch",
		`expecting an object but got <nil>`, "notObject",
		c13JSONErr, "jsonError",
	)
	c13EsTop = c13Rules(
		`value for key "error" is a `, "es.errorType",
		`value for key "metadata" is a `, "es.metadataType",
		`metadata\[.*\]: entry key is not a valid HTTP field name`, "es.badName",
		`metadata\[.*\]: value is a .* instead of an array of strings`, "es.metaValueType",
		`metadata\[.*\]: value #\d+ is a .* instead of a string`, "es.metaElemType",
		`metadata\[.*\]: value #\d+ is not a valid HTTP field value`, "es.badValue",
		`invalid key `, "es.invalidKey",
		`expecting an object but got <nil>`, "es.notObject",
		`(\S+: )?contains duplicate key`, "es.dupKey",
		c13JSONErr, "es.jsonError",
	)
	c13Other = c13Rules(
		`grpc-web trailers include invalid field \(missing colon\)`, "missingColon",
		`grpc-web trailers include invalid field; name contains invalid characters`, "badName",
		`grpc-web trailers include non-lower-case field key`, "upperKey",
		`grpc-web trailers include invalid field; value contains invalid characters`, "badValue",
		`grpc-web trailers use obsolete line-folding`, "obsFold",
		`grpc-web trailers ends in extra blank line`, "blankAtEnd",
		`grpc-web trailers include blank lines`, "blankLines",
		`grpc-web trailers have lines with LF line ending instead of CRLF`, "lfOnly",
		`grpc-web trailers should end with CRLF but does not`, "noFinalCRLF",
		`trailers include multiple 'grpc-status' keys`, "statusDup",
		`trailers did not include 'grpc-status' key`, "statusMissing",
		`trailers include invalid 'grpc-status' value ".*": strconv\.Atoi`, "statusNonInt",
		`trailers include invalid 'grpc-status' value -?\d+: should be >= 0 && <= 16`, "statusRange",
		`trailers include multiple 'grpc-message' keys`, "messageDup",
		`trailers include incorrectly-encoded 'grpc-message' value .* should be hexadecimal digit$`, "pctBadHex",
		`trailers include incorrectly-encoded 'grpc-message' value .* should be percent-encoded$`, "pctUnescaped",
		`trailers include incorrectly-encoded 'grpc-message' value .*: incomplete percent-encoded character at the end$`, "pctIncomplete",
		`trailers include a non-empty 'grpc-message' value with zero/okay 'grpc-status'`, "okWithMessage",
		`trailers include multiple 'grpc-status-details-bin' keys`, "detailsDup",
		`trailers include incorrectly-encoded 'grpc-status-details-bin' value: `, "detailsBadB64",
		`trailers include 'grpc-status-details-bin' value with padding but servers should emit unpadded`, "detailsPadded",
		`trailers include un-parseable 'grpc-status-details-bin' value`, "detailsUnparsable",
		`trailers include 'grpc-status-details-bin' value that disagrees with 'grpc-status' value`, "codeMismatch",
		`trailers include 'grpc-status-details-bin' value with zero/okay 'grpc-status' and non-empty details`, "okWithDetails",
		`trailers include 'grpc-status-details-bin' value that disagrees with 'grpc-message' value`, "msgMismatch",
		`(headers|trailers|metadata) include incorrectly-encoded '.*' value: `, "binBad",
		`(headers|trailers|metadata) include '.*' value with padding but servers should emit unpadded`, "binPadded",
		`response included \d+ HTTP trailers but should not have any`, "httpTrailers",
	)
	c13DetailPfx = regexp.MustCompile(`^details\[(\d+)\]: `)
)

func c13Match(rules []c13Rule, s string) (string, bool) {
	for _, r := range rules {
		if r.re.MatchString(s) {
			return r.cls, true
		}
	}
	return "", false
}

// c13Classify maps one feedback line to its class ("?…" when no rule applies: never equal to
// an expected class, so an unknown line always shows up as a mismatch).
func c13Classify(line string) string {
	line = strings.TrimRight(line, "\n")
	switch {
	case strings.HasPrefix(line, "connect error JSON: "):
		rest := strings.TrimPrefix(line, "connect error JSON: ")
		if m := c13DetailPfx.FindStringSubmatch(rest); m != nil {
			body := rest[len(m[0]):]
			if strings.HasPrefix(body, "contains duplicate key") || regexp.MustCompile(`^\S+: contains duplicate key`).MatchString(body) {
				return "dupKey" // reported by the outer walk with the path of the element
			}
			if c, ok := c13Match(c13ErrDetail, body); ok {
				return "d" + m[1] + "." + c
			}
			return "?" + line
		}
		if c, ok := c13Match(c13ErrTop, rest); ok {
			return c
		}
	case strings.HasPrefix(line, "connect end stream JSON: "):
		if c, ok := c13Match(c13EsTop, strings.TrimPrefix(line, "connect end stream JSON: ")); ok {
			return c
		}
	default:
		if c, ok := c13Match(c13Other, line); ok {
			return c
		}
	}
	return "?" + line
}

func c13Classes(msgs []string) []string {
	res := make([]string, 0, len(msgs))
	for _, m := range msgs {
		res = append(res, c13Classify(m))
	}
	return res
}

func c13SetEq(a, b []string) bool {
	sa := map[string]bool{}
	for _, x := range a {
		sa[x] = true
	}
	sb := map[string]bool{}
	for _, x := range b {
		sb[x] = true
	}
	if len(sa) != len(sb) {
		return false
	}
	for x := range sa {
		if !sb[x] {
			return false
		}
	}
	return true
}

func c13Uniq(a []string) []string {
	seen := map[string]bool{}
	res := []string{}
	for _, x := range a {
		if !seen[x] {
			seen[x] = true
			res = append(res, x)
		}
	}
	sort.Strings(res)
	return res
}

// ---------------------------------------------------------------- rendering: byte classes

const (
	c13Lower  = "abcdefghijklmnopqrstuvwxyz"
	c13Upper  = "ABCDEFGHIJKLMNOPQRSTUVWXYZ"
	c13TokSym = "0123456789-_.!#$%&'*+^`|~"
	c13VisSym = "\"(),/;<=>?@[\\]{}"
	c13HexDig = "0123456789abcdefABCDEF"
	c13Plain  = "ghijklmnopqrstuvwxyzGHIJKLMNOPQRSTUVWXYZ!\"#$&'()*+,-./:;<=>?@[\\]^_`{|}~" // printable, no hex digit, no SP, no '%'
)

var c13Ctl = []byte{0x00, 0x01, 0x07, 0x08, 0x0b, 0x0c, 0x0e, 0x1b, 0x1f, 0x7f}
var c13Multi = []string{"é", "ß", "ñ", "世", "界", "😀", "ж", "ø"} // no case mapping to a different lower-case form

func c13Block(r *rand.Rand, syms []string) string {
	var b strings.Builder
	for _, s := range syms {
		switch s {
		case "l":
			b.WriteByte(c13Lower[r.IntN(len(c13Lower))])
		case "U":
			b.WriteByte(c13Upper[r.IntN(len(c13Upper))])
		case "t":
			b.WriteByte(c13TokSym[r.IntN(len(c13TokSym))])
		case ":":
			b.WriteByte(':')
		case "w":
			b.WriteByte(" \t"[r.IntN(2)])
		case "r":
			b.WriteByte('\r')
		case "n":
			b.WriteByte('\n')
		case "c":
			b.WriteByte(c13Ctl[r.IntN(len(c13Ctl))])
		case "v":
			if r.IntN(3) == 0 {
				b.WriteString(c13Multi[r.IntN(len(c13Multi))])
			} else {
				b.WriteByte(c13VisSym[r.IntN(len(c13VisSym))])
			}
		default:
			panic("verif: unknown block symbol " + s)
		}
	}
	return b.String()
}

// c13Pct renders a percent-string (PSym classes) and returns it with what a reader decodes from
// it (own decoder: "%XY" -> byte, everything else verbatim; ok=false when some '%' lacks two hex digits).
func c13Pct(r *rand.Rand, syms []string) (text string, decoded string, ok bool) {
	var b strings.Builder
	inEsc := 0
	for _, s := range syms {
		switch s {
		case "p":
			b.WriteByte('%')
			inEsc = 2
			continue
		case "x":
			switch inEsc {
			case 2: // keep decoded bytes in the ASCII range so that the decoded message is valid UTF-8
				b.WriteByte("234567"[r.IntN(6)])
			default:
				b.WriteByte(c13HexDig[r.IntN(len(c13HexDig))])
			}
		case "g":
			b.WriteByte(c13Plain[r.IntN(len(c13Plain))])
		case "s":
			b.WriteByte(' ')
		case "c":
			b.WriteByte(c13Ctl[1+r.IntN(len(c13Ctl)-1)]) // not NUL: Go's http.Header is fine with it, keep anyway
		case "h":
			b.WriteString(c13Multi[r.IntN(len(c13Multi))])
		default:
			panic("verif: unknown pct symbol " + s)
		}
		if inEsc > 0 {
			if s == "x" {
				inEsc--
			} else {
				inEsc = 0
			}
		}
	}
	text = b.String()
	decoded, ok = c13PctDecode(text)
	return text, decoded, ok
}

func c13IsHex(c byte) bool {
	return (c >= '0' && c <= '9') || (c >= 'a' && c <= 'f') || (c >= 'A' && c <= 'F')
}

func c13PctDecode(s string) (string, bool) {
	var b strings.Builder
	for i := 0; i < len(s); i++ {
		if s[i] != '%' {
			b.WriteByte(s[i])
			continue
		}
		if i+2 >= len(s) {
			return "", false
		}
		if !c13IsHex(s[i+1]) || !c13IsHex(s[i+2]) {
			return "", false
		}
		v, _ := strconv.ParseUint(s[i+1:i+3], 16, 8)
		b.WriteByte(byte(v))
		i += 2
	}
	return b.String(), true
}

// ---------------------------------------------------------------- rendering: status trio

type c13Trio struct {
	Status  []string `json:"status"`
	Message []string `json:"message"`
	Details []string `json:"details"`
}

func c13DetailAny(r *rand.Rand, i int) *anypb.Any {
	var m proto.Message
	switch r.IntN(3) {
	case 0:
		m = &conformancev1.Header{Name: fmt.Sprintf("x-detail-%d", i), Value: []string{"a", "b"}}
	case 1:
		m = &status.Status{Code: int32(r.IntN(17)), Message: "inner"}
	default:
		m = &conformancev1.ConformancePayload_RequestInfo{TimeoutMs: proto.Int64(int64(r.IntN(1000)))}
	}
	a, err := anypb.New(m)
	if err != nil {
		panic(err)
	}
	return a
}

func c13RenderTrio(r *rand.Rand, st, msg, det c13M) c13Trio {
	var t c13Trio
	switch c13S(st, "k") {
	case "absent":
	case "dup":
		t.Status = []string{strconv.Itoa(r.IntN(17)), strconv.Itoa(r.IntN(17))}
	case "nonInt":
		t.Status = []string{c13Pick(r, "abc", "", "3.0", "0x3", "3 3", "१", "9999999999999999999999", "--1", "1e1")}
	case "int":
		s := strconv.Itoa(c13I(st, "v"))
		if c13B(st, "plus") {
			s = "+" + s
		}
		t.Status = []string{s}
	}
	decoded, decOK := "", false
	if c13S(msg, "k") == "val" {
		// det.rel relates the Status proto to the message AS SENT (what the encoder was given);
		// what a field-line reader makes of it (WebMsg / WebDet) is the specification's business
		text, d, ok := c13Pct(r, c13Strs(c13L(msg, "s")))
		decoded, decOK = d, ok
		t.Message = []string{text}
		if c13B(msg, "dup") {
			if r.IntN(2) == 0 {
				t.Message = append(t.Message, text)
			} else {
				t.Message = append(t.Message, "other")
			}
		}
	}
	if c13S(det, "k") == "val" {
		var data []byte
		if !c13B(det, "parse") {
			data = [][]byte{{0x0a, 0x05, 'a'}, {0x08}, {0xff, 0xff, 0xff}, {0x12, 0x7f}}[r.IntN(4)]
		} else {
			sp := &status.Status{Code: int32(c13I(det, "code"))}
			base := "message-" + strconv.Itoa(r.IntN(1000))
			if decOK {
				base = decoded
			}
			if c13S(det, "rel") == "same" {
				sp.Message = base
			} else {
				sp.Message = base + c13Pick(r, "x", "!", "\u00e9")
				if r.IntN(4) == 0 {
					sp.Message = "x" + base
				}
			}
			for i := 0; i < c13I(det, "nd"); i++ {
				sp.Details = append(sp.Details, c13DetailAny(r, i))
			}
			var err error
			data, err = proto.Marshal(sp)
			if err != nil {
				panic(fmt.Sprintf("verif: cannot marshal status %q: %v", sp.Message, err))
			}
		}
		var enc string
		switch c13S(det, "enc") {
		case "raw":
			enc = base64.RawStdEncoding.EncodeToString(data)
		case "padded":
			for len(data)%3 == 0 {
				data = append(data, 0x78, 0x01) // unknown varint field 15: keeps the message, changes the length
				if !c13B(det, "parse") {
					data = append(data[:len(data)-2], 0xff)
				}
			}
			enc = base64.StdEncoding.EncodeToString(data)
		case "bad":
			enc = c13Pick(r, "!!!", "ab=cd", "a", "abcde", "ab cd", "abéd", base64.RawStdEncoding.EncodeToString(data)+"=*")
		}
		t.Details = []string{enc}
		if c13B(det, "dup") {
			t.Details = append(t.Details, enc)
		}
	}
	return t
}

func (t c13Trio) header(r *rand.Rand) http.Header {
	h := http.Header{}
	if t.Status != nil {
		h["Grpc-Status"] = t.Status
	}
	if t.Message != nil {
		h["Grpc-Message"] = t.Message
	}
	if t.Details != nil {
		h["Grpc-Status-Details-Bin"] = t.Details
	}
	h["X-Other"] = []string{"1"} // never an empty trailer set: a gRPC body without trailers is not examined at all
	return h
}

// web rendering of the trio as field lines with one block-level malformation (WebBlock)
func (t c13Trio) web(r *rand.Rand, mal string) string {
	type line struct{ k, v string }
	var lines []line
	for _, v := range t.Status {
		lines = append(lines, line{"grpc-status", v})
	}
	for _, v := range t.Message {
		lines = append(lines, line{"grpc-message", v})
	}
	for _, v := range t.Details {
		lines = append(lines, line{"grpc-status-details-bin", v})
	}
	var b strings.Builder
	for i, l := range lines {
		k := l.k
		if mal == "upperKey" && i == 0 {
			k = strings.ToUpper(k[:1]) + k[1:]
		}
		b.WriteString(k)
		b.WriteByte(':')
		if mal != "noOWS" {
			b.WriteByte(" \t"[r.IntN(2)])
		}
		b.WriteString(l.v)
		if mal == "trailingOWS" {
			b.WriteByte(" \t"[r.IntN(2)])
		}
		switch {
		case mal == "lfOnly":
			b.WriteString("\n")
		case mal == "noFinal" && i == len(lines)-1:
		default:
			b.WriteString("\r\n")
		}
		if mal == "blankMid" && i == 0 {
			b.WriteString("\r\n")
		}
	}
	if mal == "blankAtEnd" {
		b.WriteString("\r\n")
	}
	return b.String()
}

// ---------------------------------------------------------------- rendering: JSON

var c13CodeNames = []string{"canceled", "unknown", "invalid_argument", "deadline_exceeded", "not_found", "already_exists",
	"permission_denied", "resource_exhausted", "failed_precondition", "aborted", "out_of_range", "unimplemented",
	"internal", "unavailable", "data_loss", "unauthenticated"}

func c13JSONStr(s string) string {
	b, _ := json.Marshal(s)
	return string(b)
}

func c13WS(r *rand.Rand) string { return c13Pick(r, "", "", " ", "\n  ", "\t") }

func c13Generic(r *rand.Rand, kind string) string {
	switch kind {
	case "null":
		return "null"
	case "str":
		return c13JSONStr(c13Pick(r, "x", "some text", "", "é \" \\  ", "internal"))
	case "num":
		return c13Pick(r, "13", "0", "-1.5e3", "1")
	case "bool":
		return c13Pick(r, "true", "false")
	case "arr":
		return c13Pick(r, "[]", `["x"]`, `[1, 2]`, `[{"a": 1}]`)
	case "obj":
		return c13Pick(r, "{}", `{"a": 1}`, `{"code": "internal"}`, `{"a": {"b": [1]}}`)
	case "objDup":
		return c13Pick(r, `{"a": 1, "a": 2}`, `{"x": {"b": 1, "c": 2, "b": 3}}`, `{"l": [1, {"q": null, "q": null}]}`)
	case "garbage":
		return c13Pick(r, `{code: "internal"}`, `<html></html>`, `{"code": "internal"}}`, `{"code": "internal"} x`, `{'code': 'internal'}`, "\x00", `{"code": "internal",}`)
	case "trunc":
		return c13Pick(r, `{"code": "intern`, `{"code": "internal"`, `{`, `{"code":`, `{"code": "internal", "details": [{"type": "a.B"`)
	case "empty":
		return c13Pick(r, "", " ", "\n")
	}
	panic("verif: unknown generic kind " + kind)
}

type c13Msg struct {
	name     string
	m, other proto.Message
}

func c13Msgs(r *rand.Rand) c13Msg {
	switch r.IntN(3) {
	case 0:
		return c13Msg{"connectrpc.conformance.v1.Header",
			&conformancev1.Header{Name: "x-k", Value: []string{"v1", "v2"}}, &conformancev1.Header{Name: "x-k", Value: []string{"v1"}}}
	case 1:
		return c13Msg{"google.rpc.Status", &status.Status{Code: 5, Message: "nf"}, &status.Status{Code: 5, Message: "NF"}}
	default:
		return c13Msg{"connectrpc.conformance.v1.ConformancePayload.RequestInfo",
			&conformancev1.ConformancePayload_RequestInfo{TimeoutMs: proto.Int64(7), RequestHeaders: []*conformancev1.Header{{Name: "a", Value: []string{"b"}}}},
			&conformancev1.ConformancePayload_RequestInfo{TimeoutMs: proto.Int64(8)}}
	}
}

func c13Must(b []byte, err error) []byte {
	if err != nil {
		panic(err)
	}
	return b
}

func c13AnyJSON(m proto.Message) string {
	a, err := anypb.New(m)
	if err != nil {
		panic(err)
	}
	return string(c13Must(protojson.Marshal(a)))
}

func c13Unpaddable(data []byte) []byte { // make sure padded and unpadded base64 differ
	for len(data)%3 == 0 {
		data = append(data, 0x78, 0x01)
	}
	return data
}

func c13Elem(r *rand.Rand, el c13M) string {
	if k := c13S(el, "k"); k != "obj" {
		return c13Generic(r, k)
	}
	msg := c13Msgs(r)
	data := c13Must(proto.Marshal(msg.m))
	var parts []string
	for _, e := range c13L(el, "e") {
		en := e.(map[string]any)
		vk := c13S(c13Map(en, "v"), "k")
		key := c13S(en, "key")
		var val string
		switch key {
		case "type":
			switch vk {
			case "valid":
				val = c13JSONStr(msg.name)
			case "unknownType":
				val = c13JSONStr(c13Pick(r, "acme.foo.Bar", "Bar", "a.b.c.D_1", "_x"))
			case "badName":
				val = c13JSONStr(c13Pick(r, "type.googleapis.com/"+msg.name, "1abc", "a..b", "", "a.b.", ".a.b", "a b", "a-b.C"))
			default:
				val = c13Generic(r, vk)
			}
		case "value":
			switch vk {
			case "b64":
				val = c13JSONStr(base64.RawStdEncoding.EncodeToString(data))
			case "junk":
				val = c13JSONStr(base64.RawStdEncoding.EncodeToString([][]byte{{0x0a, 0x05, 'a'}, {0x08}, {0x0a}}[r.IntN(3)]))
			case "padded":
				val = c13JSONStr(base64.StdEncoding.EncodeToString(c13Unpaddable(data)))
			case "badChars":
				val = c13JSONStr(c13Pick(r, "ab!c", "a", "abcde", "ab cd", "abcé"))
			default:
				val = c13Generic(r, vk)
			}
		case "debug":
			switch vk {
			case "agree":
				val = string(c13Must(protojson.Marshal(msg.m)))
			case "agreeAny":
				val = c13AnyJSON(msg.m)
			case "disagree":
				if r.IntN(2) == 0 {
					val = string(c13Must(protojson.Marshal(msg.other)))
				} else {
					val = c13AnyJSON(msg.other)
				}
			case "anyWrongType":
				if msg.name == "google.rpc.Status" {
					val = c13AnyJSON(&conformancev1.Header{Name: "x-k"})
				} else {
					val = c13AnyJSON(&status.Status{Code: 5, Message: "nf"})
				}
			case "unparsable":
				val = c13Pick(r, `"just a string"`, `{"nosuchfield": 1}`, `[1]`, `12`, `{"@type": "type.googleapis.com/no.such.Type"}`, `true`)
			default:
				val = c13Generic(r, vk)
			}
		default:
			key = "extra"
			val = c13Generic(r, vk)
		}
		parts = append(parts, c13WS(r)+c13JSONStr(key)+c13WS(r)+":"+c13WS(r)+val+c13WS(r))
	}
	return "{" + strings.Join(parts, ",") + "}"
}

func c13ErrText(r *rand.Rand, top c13M) string {
	if k := c13S(top, "k"); k != "obj" {
		return c13Generic(r, k)
	}
	variant := c13Pick(r, "Code", "CODE", "cOde")
	var parts []string
	for _, e := range c13L(top, "e") {
		en := e.(map[string]any)
		v := c13Map(en, "v")
		vk := c13S(v, "k")
		key := c13S(en, "key")
		var val string
		switch key {
		case "code", "Code":
			if key == "Code" {
				key = variant
			}
			switch vk {
			case "codeName":
				val = c13JSONStr(c13CodeNames[r.IntN(16)])
			case "otherStr":
				val = c13JSONStr(c13Pick(r, "ok", "bogus", "INTERNAL", "Internal", "code_0", "", "13", "internal ", "not-found", "cancelled"))
			default:
				val = c13Generic(r, vk)
			}
		case "message":
			val = c13Generic(r, vk)
		case "details":
			if vk == "list" {
				var els []string
				for _, el := range c13L(v, "x") {
					els = append(els, c13WS(r)+c13Elem(r, el.(map[string]any))+c13WS(r))
				}
				val = "[" + strings.Join(els, ",") + "]"
			} else {
				val = c13Generic(r, vk)
			}
		default:
			key = "extra"
			val = c13Generic(r, vk)
		}
		parts = append(parts, c13WS(r)+c13JSONStr(key)+c13WS(r)+":"+c13WS(r)+val+c13WS(r))
	}
	return c13WS(r) + "{" + strings.Join(parts, ",") + "}" + c13WS(r)
}

var c13MetaNames = map[string][]string{
	"lower":     {"x-lower", "a", "x-custom-bin", "!#$%&'*+-.^_`|~0"},
	"upper":     {"X-Upper", "ABC", "Content-Type"},
	"badName":   {"bad name", "na(me", "x:y", "naïve", "tab\tname", "a\u0001"},
	"emptyName": {""},
}

func c13EsText(r *rand.Rand, top c13M) string {
	if k := c13S(top, "k"); k != "obj" {
		return c13Generic(r, k)
	}
	nameIdx := r.IntN(8)
	var parts []string
	for _, e := range c13L(top, "e") {
		en := e.(map[string]any)
		v := c13Map(en, "v")
		vk := c13S(v, "k")
		key := c13S(en, "key")
		var val string
		switch {
		case key == "error" && vk == "err":
			val = c13ErrText(r, c13L(v, "x")[0].(map[string]any))
		case key == "metadata" && vk == "map":
			var ents []string
			for _, me := range c13L(v, "x") {
				m := me.(map[string]any)
				names := c13MetaNames[c13S(m, "name")]
				name := names[nameIdx%len(names)] // same class -> same name within one text (duplicates are by class)
				mv := c13Map(m, "v")
				var mval string
				if c13S(mv, "k") == "list" {
					var vs []string
					for _, x := range c13Strs(c13L(mv, "x")) {
						switch x {
						case "ok":
							vs = append(vs, c13JSONStr(c13Pick(r, "value 1", "", "é", "tab\there", " padded ", "a,b")))
						case "ctl":
							vs = append(vs, c13JSONStr(c13Pick(r, "a\u0001b", "line\nbreak", "cr\r", "\u007f", "\u0000")))
						case "null":
							vs = append(vs, "null")
						case "num":
							vs = append(vs, c13Pick(r, "5", "true", "{}", "[]"))
						}
					}
					mval = "[" + strings.Join(vs, ","+c13WS(r)) + "]"
				} else {
					mval = c13Generic(r, c13S(mv, "k"))
				}
				ents = append(ents, c13WS(r)+c13JSONStr(name)+":"+c13WS(r)+mval)
			}
			val = "{" + strings.Join(ents, ",") + "}"
		case key == "error" || key == "metadata":
			val = c13Generic(r, vk)
		default:
			key = "extra"
			val = c13Generic(r, vk)
		}
		parts = append(parts, c13WS(r)+c13JSONStr(key)+c13WS(r)+":"+c13WS(r)+val+c13WS(r))
	}
	return c13WS(r) + "{" + strings.Join(parts, ",") + "}" + c13WS(r)
}

// ---------------------------------------------------------------- rendering: binary metadata

func c13BinHeaders(r *rand.Rand, ents []any) []*conformancev1.Header {
	var res []*conformancev1.Header
	for i, e := range ents {
		en := e.(map[string]any)
		var name string
		switch c13S(en, "name") {
		case "plain":
			name = c13Pick(r, "x-custom", "binary", "x-bin-x", "-binx")
		case "bin":
			name = c13Pick(r, "x-custom-bin", "-bin", fmt.Sprintf("k%d-bin", i))
		case "BIN":
			name = c13Pick(r, "X-Custom-Bin", "X-CUSTOM-BIN", "x-custom-BIN")
		case "statusDetails":
			name = c13Pick(r, "grpc-status-details-bin", "Grpc-Status-Details-Bin")
		}
		h := &conformancev1.Header{Name: name}
		for _, v := range c13Strs(c13L(en, "vals")) {
			data := make([]byte, 1+r.IntN(12))
			for j := range data {
				data[j] = byte(r.IntN(256))
			}
			switch v {
			case "raw":
				h.Value = append(h.Value, base64.RawStdEncoding.EncodeToString(data))
			case "padded":
				for len(data)%3 == 0 {
					data = append(data, 1)
				}
				h.Value = append(h.Value, base64.StdEncoding.EncodeToString(data))
			case "bad":
				h.Value = append(h.Value, c13Pick(r, "a!b", "a", "abcde", "ab=cd", "=", "ab cd"))
			}
		}
		res = append(res, h)
	}
	return res
}

// ---------------------------------------------------------------- fabricated traces

type c13Resp struct {
	CT       string      `json:"ct"`
	Status   int         `json:"status"`
	Header   http.Header `json:"header,omitempty"`
	Trailer  http.Header `json:"trailer,omitempty"`
	Body     string      `json:"body,omitempty"` // unary error body as read by the client (hex)
	Encoding string      `json:"encoding,omitempty"`
	EndS     *string     `json:"ends,omitempty"` // end-stream content
	Data     bool        `json:"data,omitempty"`
	Err      bool        `json:"err,omitempty"`
}

func c13Examine(resp c13Resp) []string {
	ctx := withWireCapture(context.Background())
	req, err := http.NewRequestWithContext(ctx, http.MethodPost, "http://verif.invalid/svc/Method", nil)
	if err != nil {
		panic(err)
	}
	hdr := resp.Header.Clone()
	if hdr == nil {
		hdr = http.Header{}
	}
	if resp.CT != "" {
		hdr.Set("Content-Type", resp.CT)
	}
	if resp.Encoding != "" {
		hdr.Set("Content-Encoding", resp.Encoding)
	}
	httpResp := &http.Response{StatusCode: resp.Status, Status: strconv.Itoa(resp.Status), Header: hdr, Trailer: resp.Trailer, ProtoMajor: 2, Request: req}
	trace := tracer.Trace{TestName: "verif", Request: req, Response: httpResp}
	trace.Events = append(trace.Events, &tracer.RequestStart{Request: req}, &tracer.ResponseStart{Response: httpResp})
	if resp.Data {
		trace.Events = append(trace.Events, &tracer.ResponseBodyData{Envelope: &tracer.Envelope{Len: 3}, Len: 3})
	}
	if resp.EndS != nil {
		trace.Events = append(trace.Events, &tracer.ResponseBodyEndStream{Content: *resp.EndS})
	}
	if resp.Err {
		trace.Err = errors.New("verif: transport error")
		trace.Events = append(trace.Events, &tracer.ResponseBodyEnd{Err: trace.Err})
	} else {
		trace.Events = append(trace.Events, &tracer.ResponseBodyEnd{})
	}
	if resp.Body != "" {
		raw, err := hex.DecodeString(resp.Body)
		if err != nil {
			panic(err)
		}
		wrapper := ctx.Value(wireCtxKey{}).(*wireWrapper)
		wrapper.buf.Write(raw)
	}
	setWireTrace(ctx, trace)
	printer := &internal.SimplePrinter{}
	examineWireDetails(ctx, printer)
	return printer.Messages
}

func c13Gzip(s string) []byte {
	var b bytes.Buffer
	w := gzip.NewWriter(&b)
	_, _ = w.Write([]byte(s))
	_ = w.Close()
	return b.Bytes()
}

// ---------------------------------------------------------------- one execution

// c13Exec is a concrete, re-runnable call of one examiner.
type c13Exec struct {
	Fn    string               `json:"fn"`              // block | status | err | es | bin | wire
	Text  string               `json:"text,omitempty"`  // hex of the text handed to the examiner
	Hdr   http.Header          `json:"hdr,omitempty"`   // for status
	Bin   []*conformancev1.Header `json:"bin,omitempty"`
	Resp  *c13Resp             `json:"resp,omitempty"`  // for wire
	Then  bool                 `json:"then,omitempty"`  // block: hand the parsed fields to checkGRPCStatus too
}

func (e c13Exec) run() (msgs []string, panicked any) {
	defer func() {
		if p := recover(); p != nil {
			panicked = fmt.Sprint(p)
		}
	}()
	printer := &internal.SimplePrinter{}
	text, _ := hex.DecodeString(e.Text)
	switch e.Fn {
	case "block":
		h := examineGRPCEndStream(string(text), printer)
		if e.Then {
			checkGRPCStatus(h, printer)
		}
	case "status":
		checkGRPCStatus(e.Hdr, printer)
	case "err":
		examineConnectError(text, printer)
	case "es":
		examineConnectEndStream(text, printer)
	case "bin":
		checkBinaryMetadata("trailers", e.Bin, printer)
	case "wire":
		return c13Examine(*e.Resp), nil
	default:
		panic("verif: unknown fn " + e.Fn)
	}
	return printer.Messages, nil
}

func c13Hex(s string) string { return hex.EncodeToString([]byte(s)) }

var c13CT = map[string][]string{
	"json":          {"application/json"},
	"proto":         {"application/proto"},
	"connectStream": {"application/connect+proto", "application/connect+json"},
	"grpcWeb":       {"application/grpc-web"},
	"grpcWebPlus":   {"application/grpc-web+proto", "application/grpc-web+json"},
	"grpc":          {"application/grpc"},
	"grpcPlus":      {"application/grpc+proto", "application/grpc+json"},
	"grpcOther":     {"application/grpcx", "application/grpc; charset=utf-8"},
	"other":         {"text/plain", "application/json; charset=utf-8", "application/connect"},
	"none":          {""},
}

// c13Render turns an abstract job into concrete executions (one or more equivalent routes to
// the same examiner); every route must produce the same classes.
func c13Render(r *rand.Rand, job c13M) []c13Exec {
	kind := c13S(job, "kind")
	switch kind {
	case "block":
		text := c13Block(r, c13Strs(c13L(job, "s")))
		return []c13Exec{{Fn: "block", Text: c13Hex(text)}}
	case "pct":
		text, _, _ := c13Pct(r, c13Strs(c13L(job, "s")))
		return []c13Exec{{Fn: "status", Hdr: http.Header{"Grpc-Status": {strconv.Itoa(1 + r.IntN(16))}, "Grpc-Message": {text}}}}
	case "trio":
		t := c13RenderTrio(r, c13Map(job, "st"), c13Map(job, "msg"), c13Map(job, "det"))
		h := t.header(r)
		// three routes: the function itself, gRPC trailers, gRPC trailers-only headers
		return []c13Exec{{Fn: "status", Hdr: h},
			{Fn: "wire", Resp: &c13Resp{CT: "application/grpc+proto", Status: 200, Trailer: h, Data: true}},
			{Fn: "wire", Resp: &c13Resp{CT: "application/grpc", Status: 200, Header: h}},
			{Fn: "wire", Resp: &c13Resp{CT: "application/grpc-web+proto", Status: 200, Header: h}}}
	case "web":
		t := c13RenderTrio(r, c13Map(job, "st"), c13Map(job, "msg"), c13Map(job, "det"))
		text := t.web(r, c13S(job, "mal"))
		return []c13Exec{{Fn: "block", Text: c13Hex(text), Then: true},
			{Fn: "wire", Resp: &c13Resp{CT: c13Pick(r, "application/grpc-web+proto", "application/grpc-web"), Status: 200, EndS: &text, Data: r.IntN(2) == 0}}}
	case "err":
		text := c13ErrText(r, c13Map(job, "top"))
		ex := []c13Exec{{Fn: "err", Text: c13Hex(text)},
			{Fn: "wire", Resp: &c13Resp{CT: "application/json", Status: 400 + r.IntN(100), Body: c13Hex(text)}}}
		if r.IntN(4) == 0 {
			ex = append(ex, c13Exec{Fn: "wire", Resp: &c13Resp{CT: "application/json", Status: 500, Encoding: "gzip", Body: hex.EncodeToString(c13Gzip(text))}})
		}
		return ex
	case "es":
		text := c13EsText(r, c13Map(job, "top"))
		return []c13Exec{{Fn: "es", Text: c13Hex(text)},
			{Fn: "wire", Resp: &c13Resp{CT: c13Pick(r, "application/connect+proto", "application/connect+json"), Status: 200, EndS: &text, Data: r.IntN(2) == 0}}}
	case "bin":
		return []c13Exec{{Fn: "bin", Bin: c13BinHeaders(r, c13L(job, "ents"))}}
	case "dispatch":
		d := c13Map(job, "r")
		cts := c13CT[c13S(d, "ct")]
		resp := &c13Resp{CT: cts[r.IntN(len(cts))], Status: 200, Data: c13B(d, "data"), Err: c13B(d, "err"),
			Header: http.Header{"Grpc-Status": {"17"}}, Body: c13Hex(`{"code":"bogus"}`)}
		if !c13B(d, "ok") {
			resp.Status = []int{400, 404, 500, 503, 204}[r.IntN(5)]
		}
		if c13B(d, "es") {
			s := "X-Probe: 1\r\n"
			resp.EndS = &s
		}
		switch c13S(d, "tr") {
		case "declared":
			resp.Trailer = http.Header{"Grpc-Status": nil}
		case "present":
			resp.Trailer = http.Header{"Grpc-Status": {"abc"}}
		}
		return []c13Exec{{Fn: "wire", Resp: resp}}
	}
	panic("verif: unknown job kind " + kind)
}

func c13Rng(job any, variant int) *rand.Rand {
	b, _ := json.Marshal(job)
	h := fnv.New64a()
	_, _ = h.Write(b)
	return rand.New(rand.NewPCG(verifutil.Seed(), h.Sum64()+uint64(variant)*0x9e3779b97f4a7c15))
}

type c13Mismatch struct {
	Kind    string   `json:"kind"`
	Job     c13M     `json:"job"`
	Exp     []string `json:"exp"`
	Obs     []string `json:"obs"`
	Lines   []string `json:"lines"`
	Exec    c13Exec  `json:"exec"`
	Panic   any      `json:"panic,omitempty"`
	Repro   int      `json:"repro"`
	Variant int      `json:"variant"`
}

// ---------------------------------------------------------------- replay of TLC scenarios

func TestVerifC13Replay(t *testing.T) {
	lines, err := verifutil.ReadLines(verifutil.Env("VERIF_SCN", "scn.ndjson"))
	if err != nil {
		t.Fatal(err)
	}
	out, err := verifutil.NewOut(verifutil.Env("VERIF_OUT", "out.ndjson"))
	if err != nil {
		t.Fatal(err)
	}
	defer out.Close()
	variants := verifutil.EnvInt("VERIF_VARIANTS", 2)
	var evals, nontrivial, silentOK int64
	byKind := sync.Map{}
	verifutil.ParallelFor(len(lines), runtime.NumCPU(), func(i int) {
		var scn struct {
			Job      c13M     `json:"job"`
			Exp      []string `json:"exp"`
			OK       bool     `json:"ok"`
			Conflict bool     `json:"conflict"`
		}
		if err := json.Unmarshal(lines[i], &scn); err != nil {
			out.Put(map[string]any{"machinery": fmt.Sprintf("line %d: %v", i, err)})
			return
		}
		kind := c13S(scn.Job, "kind")
		c, _ := byKind.LoadOrStore(kind, new(int64))
		atomic.AddInt64(c.(*int64), 1)
		if len(scn.Exp) > 0 {
			atomic.AddInt64(&nontrivial, 1)
		}
		for v := 0; v < variants; v++ {
			r := c13Rng(scn.Job, v)
			for _, ex := range c13Render(r, scn.Job) {
				msgs, pan := ex.run()
				atomic.AddInt64(&evals, 1)
				obs := c13Classes(msgs)
				if pan == nil && c13SetEq(obs, scn.Exp) {
					if len(obs) == 0 {
						atomic.AddInt64(&silentOK, 1)
					}
					continue
				}
				repro := 1
				for k := 0; k < 2; k++ {
					m2, p2 := ex.run()
					if p2 != nil || !c13SetEq(c13Classes(m2), scn.Exp) {
						repro++
					}
				}
				out.Put(c13Mismatch{Kind: kind, Job: scn.Job, Exp: c13Uniq(scn.Exp), Obs: c13Uniq(obs), Lines: msgs, Exec: ex, Panic: pan, Repro: repro, Variant: v})
			}
		}
	})
	bk := map[string]int64{}
	byKind.Range(func(k, v any) bool { bk[k.(string)] = *v.(*int64); return true })
	out.Put(map[string]any{"summary": true, "scenarios": len(lines), "evaluations": evals, "nontrivial": nontrivial,
		"silent": silentOK, "by_kind": bk})
}

// TestVerifC13Exec re-runs one recorded execution (replay files).
func TestVerifC13Exec(t *testing.T) {
	lines, err := verifutil.ReadLines(verifutil.Env("VERIF_SCN", "scn.ndjson"))
	if err != nil {
		t.Fatal(err)
	}
	out, err := verifutil.NewOut(verifutil.Env("VERIF_OUT", "out.ndjson"))
	if err != nil {
		t.Fatal(err)
	}
	defer out.Close()
	for _, l := range lines {
		var ex c13Exec
		if err := json.Unmarshal(l, &ex); err != nil {
			t.Fatal(err)
		}
		msgs, pan := ex.run()
		out.Put(map[string]any{"obs": c13Uniq(c13Classes(msgs)), "lines": msgs, "panic": pan})
	}
}

// ---------------------------------------------------------------- random abstract inputs beyond the TLC families

func c13RandSyms(r *rand.Rand, alphabet []string, weights []int, n int) []any {
	total := 0
	for _, w := range weights {
		total += w
	}
	res := make([]any, n)
	for i := range res {
		x := r.IntN(total)
		for j, w := range weights {
			if x < w {
				res[i] = alphabet[j]
				break
			}
			x -= w
		}
	}
	return res
}

var c13BSym = []string{"l", "U", "t", ":", "w", "r", "n", "c", "v"}
var c13PSym = []string{"p", "x", "g", "s", "c", "h"}

func c13RandBlock(r *rand.Rand) c13M {
	s := []any{}
	nl := r.IntN(7)
	for i := 0; i < nl; i++ {
		switch r.IntN(10) {
		case 0: // anything
			s = append(s, c13RandSyms(r, c13BSym, []int{6, 1, 3, 2, 2, 1, 1, 1, 1}, r.IntN(12))...)
		case 1: // blank
		case 2: // continuation
			s = append(s, "w")
			s = append(s, c13RandSyms(r, c13BSym, []int{6, 1, 3, 1, 2, 0, 0, 1, 1}, r.IntN(8))...)
		default: // mostly well-formed field line with occasional defects
			nameLen := 1 + r.IntN(6)
			if r.IntN(25) == 0 {
				nameLen = 0
			}
			s = append(s, c13RandSyms(r, c13BSym, []int{30, 1, 10, 0, 1, 0, 0, 1, 1}, nameLen)...)
			if r.IntN(12) > 0 {
				s = append(s, ":")
			}
			s = append(s, c13RandSyms(r, c13BSym, []int{0, 0, 0, 0, 1, 0, 0, 0, 0}, r.IntN(3))...)
			s = append(s, c13RandSyms(r, c13BSym, []int{20, 5, 10, 2, 4, 1, 0, 1, 3}, r.IntN(10))...)
			s = append(s, c13RandSyms(r, c13BSym, []int{0, 0, 0, 0, 1, 0, 0, 0, 0}, r.IntN(2))...)
		}
		switch x := r.IntN(12); {
		case x == 0:
			s = append(s, "n")
		case x == 1 && i == nl-1:
		case x == 2 && i == nl-1:
			s = append(s, "r")
		default:
			s = append(s, "r", "n")
		}
	}
	return c13M{"kind": "block", "s": s}
}

func c13RandPct(r *rand.Rand, n int) []any {
	s := []any{}
	for len(s) < n {
		switch r.IntN(12) {
		case 0:
			s = append(s, "p")
		case 1:
			s = append(s, "c")
		case 2:
			s = append(s, "h")
		case 3, 4:
			s = append(s, "p", "x", "x")
		case 5:
			s = append(s, "s")
		case 6:
			s = append(s, "x")
		default:
			s = append(s, "g")
		}
	}
	return s
}

func c13RandTrio(r *rand.Rand) (st, msg, det c13M) {
	switch r.IntN(8) {
	case 0:
		st = c13M{"k": "absent"}
	case 1:
		st = c13M{"k": "dup"}
	case 2:
		st = c13M{"k": "nonInt"}
	default:
		st = c13M{"k": "int", "v": float64(r.IntN(22) - 3), "plus": r.IntN(8) == 0}
		if c13I(st, "v") < 0 {
			st["plus"] = false
		}
	}
	if r.IntN(6) == 0 {
		msg = c13M{"k": "absent"}
	} else {
		n := 0
		if r.IntN(4) > 0 {
			n = 1 + r.IntN(16)
		}
		msg = c13M{"k": "val", "s": c13RandPct(r, n), "dup": r.IntN(8) == 0}
		if msg["s"] == nil {
			msg["s"] = []any{}
		}
	}
	if r.IntN(3) == 0 {
		det = c13M{"k": "absent"}
	} else {
		code := r.IntN(17)
		if c13S(st, "k") == "int" && r.IntN(3) > 0 {
			code = c13I(st, "v")
			if code < 0 {
				code = 0
			}
		}
		det = c13M{"k": "val", "dup": r.IntN(8) == 0, "enc": []string{"raw", "raw", "raw", "padded", "bad"}[r.IntN(5)],
			"parse": r.IntN(8) > 0, "code": float64(code), "rel": []string{"same", "same", "differ"}[r.IntN(3)], "nd": float64(r.IntN(4))}
	}
	return st, msg, det
}

func c13V(k string) c13M                 { return c13M{"k": k, "x": []any{}} }
func c13E(key string, v c13M) c13M       { return c13M{"key": key, "v": v} }
func c13Obj(es ...any) c13M              { return c13M{"k": "obj", "e": append([]any{}, es...)} }
func c13NonObj(k string) c13M            { return c13M{"k": k, "e": []any{}} }
func c13List(els ...any) c13M            { return c13M{"k": "list", "x": append([]any{}, els...)} }

func c13RandElem(r *rand.Rand) c13M {
	if r.IntN(10) == 0 {
		return c13NonObj(c13Pick(r, "null", "str", "num", "arr"))
	}
	var es []any
	add := func(key string, kinds ...string) { es = append(es, c13E(key, c13V(c13Pick(r, kinds...)))) }
	if r.IntN(10) > 0 {
		add("type", "valid", "valid", "valid", "unknownType", "badName", "null", "num")
	}
	if r.IntN(10) > 0 {
		add("value", "b64", "b64", "b64", "junk", "padded", "badChars", "null", "num")
	}
	if r.IntN(2) == 0 {
		add("debug", "agree", "agreeAny", "disagree", "anyWrongType", "unparsable", "null", "objDup")
	}
	if r.IntN(8) == 0 {
		add("extra", "str", "objDup")
	}
	if r.IntN(12) == 0 {
		add(c13Pick(r, "type", "value", "debug"), "null")
	}
	r.Shuffle(len(es), func(a, b int) { es[a], es[b] = es[b], es[a] })
	return c13Obj(es...)
}

func c13RandErr(r *rand.Rand) c13M {
	if r.IntN(15) == 0 {
		return c13NonObj(c13Pick(r, "null", "str", "num", "bool", "arr", "garbage", "trunc", "empty"))
	}
	var es []any
	add := func(key string, v c13M) { es = append(es, c13E(key, v)) }
	if r.IntN(12) > 0 {
		add("code", c13V(c13Pick(r, "codeName", "codeName", "codeName", "codeName", "otherStr", "null", "num", "obj")))
	}
	if r.IntN(3) > 0 {
		add("message", c13V(c13Pick(r, "str", "str", "str", "str", "null", "num", "arr")))
	}
	if r.IntN(3) > 0 {
		if r.IntN(8) == 0 {
			add("details", c13V(c13Pick(r, "null", "str", "obj")))
		} else {
			var els []any
			for i := r.IntN(5); i > 0; i-- {
				els = append(els, c13RandElem(r))
			}
			add("details", c13List(els...))
		}
	}
	if r.IntN(8) == 0 {
		add("Code", c13V(c13Pick(r, "codeName", "null", "num")))
	}
	if r.IntN(8) == 0 {
		add("extra", c13V(c13Pick(r, "str", "null", "objDup", "arr")))
	}
	if r.IntN(15) == 0 && len(es) > 0 {
		es = append(es, es[r.IntN(len(es))])
	}
	r.Shuffle(len(es), func(a, b int) { es[a], es[b] = es[b], es[a] })
	return c13Obj(es...)
}

func c13RandEs(r *rand.Rand) c13M {
	if r.IntN(15) == 0 {
		return c13NonObj(c13Pick(r, "null", "str", "num", "bool", "arr", "garbage", "trunc", "empty"))
	}
	var es []any
	if r.IntN(4) > 0 {
		if r.IntN(8) == 0 {
			es = append(es, c13E("error", c13V(c13Pick(r, "null", "str", "num", "arr"))))
		} else {
			inner := c13RandErr(r)
			for k := c13S(inner, "k"); k == "garbage" || k == "trunc" || k == "empty"; k = c13S(inner, "k") {
				inner = c13RandErr(r) // the value of a key is a JSON value, or the whole text is no JSON
			}
			es = append(es, c13E("error", c13M{"k": "err", "x": []any{inner}}))
		}
	}
	if r.IntN(4) > 0 {
		if r.IntN(8) == 0 {
			es = append(es, c13E("metadata", c13V(c13Pick(r, "null", "str", "num", "arr"))))
		} else {
			var ents []any
			for i := r.IntN(5); i > 0; i-- {
				var v c13M
				if r.IntN(8) == 0 {
					v = c13V(c13Pick(r, "null", "str", "num", "obj"))
				} else {
					var vs []any
					for j := r.IntN(4); j > 0; j-- {
						vs = append(vs, []string{"ok", "ok", "ok", "ok", "ctl", "null", "num"}[r.IntN(7)])
					}
					v = c13M{"k": "list", "x": append([]any{}, vs...)}
				}
				ents = append(ents, c13M{"name": []string{"lower", "lower", "upper", "badName", "emptyName"}[r.IntN(5)], "v": v})
			}
			es = append(es, c13E("metadata", c13M{"k": "map", "x": append([]any{}, ents...)}))
		}
	}
	if r.IntN(8) == 0 {
		es = append(es, c13E("extra", c13V(c13Pick(r, "str", "null", "objDup"))))
	}
	if r.IntN(15) == 0 && len(es) > 0 {
		es = append(es, es[r.IntN(len(es))])
	}
	r.Shuffle(len(es), func(a, b int) { es[a], es[b] = es[b], es[a] })
	return c13Obj(es...)
}

func c13RandBin(r *rand.Rand) c13M {
	var ents []any
	for i := r.IntN(7); i > 0; i-- {
		var vals []any
		for j := r.IntN(5); j > 0; j-- {
			vals = append(vals, []string{"raw", "raw", "raw", "padded", "bad"}[r.IntN(5)])
		}
		ents = append(ents, c13M{"name": []string{"plain", "bin", "bin", "BIN", "statusDetails"}[r.IntN(5)], "vals": append([]any{}, vals...)})
	}
	return c13M{"kind": "bin", "ents": append([]any{}, ents...)}
}

var c13WebMals = []string{"none", "none", "upperKey", "lfOnly", "noFinal", "blankAtEnd", "blankMid", "trailingOWS", "noOWS"}

func c13RandJob(r *rand.Rand, i int) c13M {
	switch i % 8 {
	case 0:
		return c13RandBlock(r)
	case 1:
		s := c13RandPct(r, 5+r.IntN(20))
		return c13M{"kind": "pct", "s": s}
	case 2:
		st, msg, det := c13RandTrio(r)
		return c13M{"kind": "trio", "st": st, "msg": msg, "det": det}
	case 3:
		st, msg, det := c13RandTrio(r)
		return c13M{"kind": "web", "st": st, "msg": msg, "det": det, "mal": c13WebMals[r.IntN(len(c13WebMals))]}
	case 4:
		return c13M{"kind": "err", "top": c13RandErr(r)}
	case 5:
		return c13M{"kind": "es", "top": c13RandEs(r)}
	case 6:
		return c13RandBin(r)
	default:
		fam := []string{"json", "proto", "connectStream", "grpcWeb", "grpcWebPlus", "grpc", "grpcPlus", "grpcOther", "other", "none"}
		return c13M{"kind": "dispatch", "r": c13M{"ct": fam[r.IntN(len(fam))], "ok": r.IntN(2) == 0, "es": r.IntN(2) == 0,
			"data": r.IntN(2) == 0, "tr": []string{"none", "declared", "present"}[r.IntN(3)], "err": r.IntN(4) == 0}}
	}
}

// byte classes of an application message (MSym, one symbol per BYTE)
func c13MsgClasses(s string) []any {
	res := make([]any, len(s))
	for i := 0; i < len(s); i++ {
		switch c := s[i]; {
		case c == '%':
			res[i] = "p"
		case c == ' ':
			res[i] = "s"
		case c < ' ' || c == 0x7f:
			res[i] = "c"
		case c >= 0x80:
			res[i] = "h"
		default:
			res[i] = "g"
		}
	}
	return res
}

// byte classes of an encoded grpc-message (PSym per byte; a hex digit is x only where the
// declarative EncodeMsg puts one, i.e. right after '%': elsewhere it is an ordinary byte g)
func c13EncClasses(s string) []any {
	res := make([]any, len(s))
	esc := 0
	for i := 0; i < len(s); i++ {
		c := s[i]
		switch {
		case esc > 0 && c13IsHex(c):
			res[i] = "x"
			esc--
			continue
		case c == '%':
			res[i] = "p"
			esc = 2
			continue
		case c == ' ':
			res[i] = "s"
		case c < ' ' || c == 0x7f:
			res[i] = "c"
		case c >= 0x80:
			res[i] = "h"
		default:
			res[i] = "g"
		}
		esc = 0
	}
	return res
}

func c13RandMessage(r *rand.Rand) string {
	var b strings.Builder
	for n := r.IntN(24); n > 0; n-- {
		switch r.IntN(10) {
		case 0:
			b.WriteByte('%')
		case 1:
			b.WriteByte(byte(r.IntN(0x20)))
		case 2:
			b.WriteRune(rune(0x80 + r.IntN(0x2000)))
		case 3:
			b.WriteRune([]rune{0x1F600, 0x10FFFF, 0x7f, 0xFFFD, 0x2028}[r.IntN(5)])
		case 4:
			b.WriteByte(' ')
		default:
			b.WriteByte(byte(0x21 + r.IntN(0x5e)))
		}
	}
	return b.String()
}

func TestVerifC13Record(t *testing.T) {
	out, err := verifutil.NewOut(verifutil.Env("VERIF_OUT", "trace.ndjson"))
	if err != nil {
		t.Fatal(err)
	}
	defer out.Close()
	n := verifutil.EnvInt("VERIF_N", 4000)
	verifutil.ParallelFor(n, runtime.NumCPU(), func(i int) {
		r := verifutil.Rand(uint64(13000 + i))
		if i%9 == 8 {
			msg := c13RandMessage(r)
			enc := grpcutil.PercentEncodeMessage(msg)
			ex := c13Exec{Fn: "status", Hdr: http.Header{"Grpc-Status": {strconv.Itoa(1 + r.IntN(16))}, "Grpc-Message": {enc}}}
			msgs, pan := ex.run()
			back, ok := c13PctDecode(enc)
			obs := c13Classes(msgs)
			if pan != nil {
				obs = append(obs, "?panic")
			}
			out.Put(map[string]any{"kind": "enc", "m": c13MsgClasses(msg), "enc": c13EncClasses(enc), "obs": obs,
				"back": ok && back == msg, "text": c13Hex(msg)})
			return
		}
		job := c13RandJob(r, i)
		rr := c13Rng(job, i)
		for _, ex := range c13Render(rr, job) {
			msgs, pan := ex.run()
			obs := c13Uniq(c13Classes(msgs))
			if pan != nil {
				obs = append(obs, "?panic")
			}
			out.Put(map[string]any{"kind": c13S(job, "kind"), "job": job, "obs": obs, "exec": ex})
		}
	})
}

// ---------------------------------------------------------------- the reference server's own encoders

// one line of the file written by harness/c13srv
type c13Emission struct {
	ID       int                     `json:"id"`
	Job      c13M                    `json:"job"`
	Code     int                     `json:"code"`
	Message  string                  `json:"message"` // hex
	ND       int                     `json:"nd"`
	Meta     []*conformancev1.Header `json:"meta"`
	Trailers []*conformancev1.Header `json:"trailers"` // grpcStatusTrailers(err)
	Web      string                  `json:"web"`      // hex of grpcWebStatusEndStream(err, meta)
	Conflict bool                    `json:"conflict"`
}

func TestVerifC13Emit(t *testing.T) {
	lines, err := verifutil.ReadLines(verifutil.Env("VERIF_SCN", "emit.ndjson"))
	if err != nil {
		t.Fatal(err)
	}
	out, err := verifutil.NewOut(verifutil.Env("VERIF_OUT", "out.ndjson"))
	if err != nil {
		t.Fatal(err)
	}
	defer out.Close()
	var evals int64
	verifutil.ParallelFor(len(lines), runtime.NumCPU(), func(i int) {
		var em c13Emission
		if err := json.Unmarshal(lines[i], &em); err != nil {
			out.Put(map[string]any{"machinery": fmt.Sprintf("line %d: %v", i, err)})
			return
		}
		h := http.Header{}
		for _, tr := range em.Trailers {
			h[http.CanonicalHeaderKey(tr.Name)] = append(h[http.CanonicalHeaderKey(tr.Name)], tr.Value...)
		}
		for _, tr := range em.Meta {
			h[http.CanonicalHeaderKey(tr.Name)] = append(h[http.CanonicalHeaderKey(tr.Name)], tr.Value...)
		}
		webRaw, _ := hex.DecodeString(em.Web)
		web := string(webRaw)
		routes := []struct {
			path string
			ex   c13Exec
		}{
			{"hdr", c13Exec{Fn: "wire", Resp: &c13Resp{CT: "application/grpc+proto", Status: 200, Trailer: h, Data: true}}},
			{"hdr", c13Exec{Fn: "wire", Resp: &c13Resp{CT: "application/grpc", Status: 200, Header: h}}},
			{"web", c13Exec{Fn: "wire", Resp: &c13Resp{CT: "application/grpc-web+proto", Status: 200, EndS: &web}}},
		}
		for _, rt := range routes {
			msgs, pan := rt.ex.run()
			atomic.AddInt64(&evals, 1)
			// what the client reports for the metadata it was handed (checkBinaryMetadata)
			printer := &internal.SimplePrinter{}
			checkBinaryMetadata("metadata", append(append([]*conformancev1.Header{}, em.Trailers...), em.Meta...), printer)
			obs := c13Uniq(c13Classes(append(msgs, printer.Messages...)))
			if pan != nil {
				obs = append(obs, "?panic")
			}
			rec := map[string]any{"kind": "emit", "id": em.ID, "path": rt.path, "code": em.Code, "message": em.Message, "nd": em.ND,
				"obs": obs, "conflict": em.Conflict && rt.path == "web", "job": em.Job}
			if len(obs) > 0 {
				rec["lines"] = append(msgs, printer.Messages...)
				rec["exec"] = rt.ex
			}
			out.Put(rec)
		}
	})
	out.Put(map[string]any{"summary": true, "emissions": len(lines), "evaluations": evals})
}

// ---------------------------------------------------------------- end to end over HTTP

type c13Pipe struct {
	r *io.PipeReader
	w *io.PipeWriter
}

func c13StartServer(t *testing.T, ctx context.Context, req *conformancev1.ServerCompatRequest) (*conformancev1.ServerCompatResponse, func()) {
	inR, inW := io.Pipe()
	outR, outW := io.Pipe()
	ctx, cancel := context.WithCancel(ctx)
	done := make(chan error, 1)
	go func() {
		done <- referenceserver.RunInReferenceMode(ctx, []string{"referenceserver", "-port", "0"}, inR, outW, c13Discard{}, nil)
		_ = outW.Close()
	}()
	codec := internal.NewCodec(false)
	go func() {
		_ = codec.NewEncoder(inW).Encode(req)
	}()
	var resp conformancev1.ServerCompatResponse
	if err := codec.NewDecoder(outR).DecodeNext(&resp); err != nil {
		cancel()
		t.Fatalf("verif: reference server did not start: %v", err)
	}
	return &resp, func() {
		cancel()
		_ = inW.Close()
		select {
		case <-done:
		case <-time.After(20 * time.Second):
		}
	}
}

type c13Discard struct{}

func (c13Discard) Write(p []byte) (int, error) { return len(p), nil }
func (c13Discard) Close() error                { return nil }

func c13ErrDef(r *rand.Rand, code int, msg string, nd int) *conformancev1.Error {
	e := &conformancev1.Error{Code: conformancev1.Code(code), Message: proto.String(msg)}
	for i := 0; i < nd; i++ {
		e.Details = append(e.Details, c13DetailAny(r, i))
	}
	return e
}

func c13MetaHeaders(r *rand.Rand, prefix string) []*conformancev1.Header {
	var res []*conformancev1.Header
	for i := r.IntN(3); i > 0; i-- {
		switch r.IntN(4) {
		case 0:
			res = append(res, &conformancev1.Header{Name: fmt.Sprintf("x-%s-%d", prefix, i), Value: []string{"v1", "v 2"}})
		case 1:
			res = append(res, &conformancev1.Header{Name: fmt.Sprintf("X-%s-Upper-%d", prefix, i), Value: []string{"Value"}})
		case 2:
			data := make([]byte, 1+r.IntN(9))
			for j := range data {
				data[j] = byte(r.IntN(256))
			}
			res = append(res, &conformancev1.Header{Name: fmt.Sprintf("x-%s-%d-bin", prefix, i), Value: []string{base64.RawStdEncoding.EncodeToString(data)}})
		default:
			res = append(res, &conformancev1.Header{Name: fmt.Sprintf("x-%s-multi-%d", prefix, i), Value: []string{"a", "b", "c,d"}})
		}
	}
	return res
}

func TestVerifC13E2E(t *testing.T) {
	out, err := verifutil.NewOut(verifutil.Env("VERIF_OUT", "e2e.ndjson"))
	if err != nil {
		t.Fatal(err)
	}
	defer out.Close()
	n := verifutil.EnvInt("VERIF_N", 300)
	ctx, cancelAll := context.WithCancel(context.Background())
	defer cancelAll()
	type srv struct {
		ver  conformancev1.HTTPVersion
		resp *conformancev1.ServerCompatResponse
	}
	var servers []srv
	for _, ver := range []conformancev1.HTTPVersion{conformancev1.HTTPVersion_HTTP_VERSION_1, conformancev1.HTTPVersion_HTTP_VERSION_2} {
		resp, stop := c13StartServer(t, ctx, &conformancev1.ServerCompatRequest{Protocol: conformancev1.Protocol_PROTOCOL_CONNECT, HttpVersion: ver})
		defer stop()
		servers = append(servers, srv{ver, resp})
	}
	protocols := []conformancev1.Protocol{conformancev1.Protocol_PROTOCOL_CONNECT, conformancev1.Protocol_PROTOCOL_GRPC, conformancev1.Protocol_PROTOCOL_GRPC_WEB}
	codecs := []conformancev1.Codec{conformancev1.Codec_CODEC_PROTO, conformancev1.Codec_CODEC_JSON}
	comps := []conformancev1.Compression{conformancev1.Compression_COMPRESSION_IDENTITY, conformancev1.Compression_COMPRESSION_GZIP}
	methods := []string{"Unary", "ServerStream", "ClientStream", "BidiStream", "IdempotentUnary"}
	var calls, failed int64
	verifutil.ParallelFor(n, 8, func(i int) {
		r := verifutil.Rand(uint64(770000 + i))
		sv := servers[i%len(servers)]
		proto_ := protocols[(i/2)%3]
		codec := codecs[r.IntN(2)]
		comp := comps[r.IntN(2)]
		method := methods[(i/6)%len(methods)]
		if sv.ver == conformancev1.HTTPVersion_HTTP_VERSION_1 && proto_ == conformancev1.Protocol_PROTOCOL_GRPC {
			proto_ = conformancev1.Protocol_PROTOCOL_GRPC_WEB // gRPC needs HTTP/2
		}
		code := 1 + r.IntN(16)
		msg := c13RandMessage(r)
		if i%10 == 7 && proto_ != conformancev1.Protocol_PROTOCOL_GRPC {
			// "arbitrary UTF-8 messages" includes long ones: where the end of the stream travels in the body
			// (Connect, gRPC-Web) the message is stretched to 70..260 KiB (gRPC puts it into an HTTP trailer
			// field, whose size the HTTP stack limits)
			unit := msg + " the quick brown fox;"
			msg = strings.Repeat(unit, 1+(70000+r.IntN(190000))/len(unit))
		}
		nd := r.IntN(3)
		errDef := c13ErrDef(r, code, msg, nd)
		hdrs := c13MetaHeaders(r, "h")
		if r.IntN(2) == 0 {
			hdrs = nil
		}
		trls := c13MetaHeaders(r, "t")
		name := fmt.Sprintf("verif/c13/%d", i)
		req := &conformancev1.ClientCompatRequest{
			TestName: name, HttpVersion: sv.ver, Protocol: proto_, Codec: codec, Compression: comp,
			Host: sv.resp.Host, Port: sv.resp.Port,
			Service: proto.String(conformancev1connect.ConformanceServiceName), Method: proto.String(method),
		}
		httpMethod := "POST"
		var reqMsg proto.Message
		switch method {
		case "Unary", "IdempotentUnary":
			req.StreamType = conformancev1.StreamType_STREAM_TYPE_UNARY
			def := &conformancev1.UnaryResponseDefinition{ResponseHeaders: hdrs, ResponseTrailers: trls, Response: &conformancev1.UnaryResponseDefinition_Error{Error: errDef}}
			if method == "Unary" {
				reqMsg = &conformancev1.UnaryRequest{ResponseDefinition: def}
			} else {
				reqMsg = &conformancev1.IdempotentUnaryRequest{ResponseDefinition: def}
			}
		case "ClientStream":
			req.StreamType = conformancev1.StreamType_STREAM_TYPE_CLIENT_STREAM
			reqMsg = &conformancev1.ClientStreamRequest{ResponseDefinition: &conformancev1.UnaryResponseDefinition{ResponseHeaders: hdrs, ResponseTrailers: trls,
				Response: &conformancev1.UnaryResponseDefinition_Error{Error: errDef}}}
		case "ServerStream":
			req.StreamType = conformancev1.StreamType_STREAM_TYPE_SERVER_STREAM
			def := &conformancev1.StreamResponseDefinition{ResponseHeaders: hdrs, ResponseTrailers: trls, Error: errDef}
			for k := r.IntN(3); k > 0; k-- {
				def.ResponseData = append(def.ResponseData, []byte(fmt.Sprintf("data-%d", k)))
			}
			reqMsg = &conformancev1.ServerStreamRequest{ResponseDefinition: def}
		case "BidiStream":
			req.StreamType = conformancev1.StreamType_STREAM_TYPE_HALF_DUPLEX_BIDI_STREAM
			def := &conformancev1.StreamResponseDefinition{ResponseHeaders: hdrs, ResponseTrailers: trls, Error: errDef}
			for k := r.IntN(3); k > 0; k-- {
				def.ResponseData = append(def.ResponseData, []byte(fmt.Sprintf("data-%d", k)))
			}
			reqMsg = &conformancev1.BidiStreamRequest{ResponseDefinition: def}
		}
		anyReq, err := anypb.New(reqMsg)
		if err != nil {
			panic(err)
		}
		req.RequestMessages = []*anypb.Any{anyReq}
		req.RequestHeaders = []*conformancev1.Header{
			{Name: "X-Test-Case-Name", Value: []string{name}},
			{Name: "X-Expect-Http-Version", Value: []string{strconv.Itoa(int(sv.ver))}},
			{Name: "X-Expect-Http-Method", Value: []string{httpMethod}},
			{Name: "X-Expect-Protocol", Value: []string{strconv.Itoa(int(proto_))}},
			{Name: "X-Expect-Codec", Value: []string{strconv.Itoa(int(codec))}},
			{Name: "X-Expect-Compression", Value: []string{strconv.Itoa(int(comp))}},
		}
		cctx, cancel := context.WithTimeout(ctx, 60*time.Second)
		defer cancel()
		res, err := invoke(cctx, req, true, nil)
		atomic.AddInt64(&calls, 1)
		rec := map[string]any{"kind": "e2e", "i": i, "http": int(sv.ver), "protocol": int(proto_), "codec": int(codec), "compression": int(comp),
			"method": method, "code": code, "message": c13Hex(msg), "nd": nd, "with_headers": hdrs != nil,
			"edge_space": msg != strings.Trim(msg, " ")}
		if err != nil {
			atomic.AddInt64(&failed, 1)
			rec["kind"] = "e2e-failed"
			rec["error"] = err.Error()
			out.Put(rec)
			return
		}
		rec["obs"] = append([]string{}, c13Classes(res.Feedback)...)
		if len(res.Feedback) > 0 {
			rec["lines"] = res.Feedback
		}
		rec["got_code"] = int(res.GetError().GetCode())
		rec["got_message_same"] = res.GetError().GetMessage() == msg
		out.Put(rec)
	})
	out.Put(map[string]any{"summary": true, "calls": calls, "failed": failed})
}

// ---------------------------------------------------------------- robustness

func TestVerifC13Fuzz(t *testing.T) {
	out, err := verifutil.NewOut(verifutil.Env("VERIF_OUT", "fuzz.ndjson"))
	if err != nil {
		t.Fatal(err)
	}
	defer out.Close()
	n := verifutil.EnvInt("VERIF_N", 50000)
	var calls, panics, silent int64
	workers := runtime.NumCPU()
	per := (n + workers - 1) / workers
	verifutil.ParallelFor(workers, workers, func(w int) {
		r := verifutil.Rand(uint64(5550000 + w))
		seeds := []string{
			"grpc-status: 6\r\ngrpc-message: foo%20bar\r\nx-custom: v\r\n",
			`{"code":"internal","message":"m","details":[{"type":"google.rpc.Status","value":"CAU","debug":{"code":5}}]}`,
			`{"error":{"code":"not_found","details":[{"type":"a.B","value":"AAAA"}]},"metadata":{"x-a":["1","2"],"x-b-bin":["AAA"]}}`,
			"", "\r\n", "{}", "[]", "null",
		}
		for k := 0; k < per; k++ {
			var data []byte
			switch r.IntN(4) {
			case 0: // arbitrary bytes
				data = make([]byte, r.IntN(64))
				for j := range data {
					data[j] = byte(r.IntN(256))
				}
			case 1: // bytes from a small alphabet of structurally interesting characters
				alpha := []byte("{}[]\":,\\ \t\r\n%:abAB019-_=+/.ntu\x00\x7f\xc3\xa9")
				data = make([]byte, r.IntN(48))
				for j := range data {
					data[j] = alpha[r.IntN(len(alpha))]
				}
			default: // mutated valid renderings
				var base string
				switch r.IntN(4) {
				case 0:
					base = seeds[r.IntN(len(seeds))]
				case 1:
					base = c13ErrText(r, c13RandErr(r))
				case 2:
					base = c13EsText(r, c13RandEs(r))
				default:
					st, msg, det := c13RandTrio(r)
					base = c13RenderTrio(r, st, msg, det).web(r, c13WebMals[r.IntN(len(c13WebMals))])
				}
				data = []byte(base)
				for m := 1 + r.IntN(4); m > 0 && len(data) > 0; m-- {
					p := r.IntN(len(data))
					switch r.IntN(5) {
					case 0:
						data[p] = byte(r.IntN(256))
					case 1:
						data = append(data[:p], data[p+1:]...)
					case 2:
						data = append(data[:p], append([]byte{byte(r.IntN(256))}, data[p:]...)...)
					case 3:
						data = data[:p]
					default:
						q := r.IntN(len(data))
						data[p], data[q] = data[q], data[p]
					}
				}
			}
			text := hex.EncodeToString(data)
			hdr := http.Header{"Grpc-Status": {string(data)}, "Grpc-Message": {string(data)}, "Grpc-Status-Details-Bin": {string(data)}}
			if r.IntN(2) == 0 {
				hdr = http.Header{"Grpc-Status": {strconv.Itoa(r.IntN(20) - 2)}, "Grpc-Message": {string(data)},
					"Grpc-Status-Details-Bin": {base64.RawStdEncoding.EncodeToString(data)}}
			}
			s := string(data)
			execs := []c13Exec{
				{Fn: "block", Text: text, Then: true},
				{Fn: "err", Text: text},
				{Fn: "es", Text: text},
				{Fn: "status", Hdr: hdr},
				{Fn: "bin", Bin: []*conformancev1.Header{{Name: "x-bin", Value: []string{s, s}}, {Name: s, Value: []string{s}}, {Name: s + "-bin", Value: []string{s}}}},
				{Fn: "wire", Resp: &c13Resp{CT: "application/json", Status: 500, Body: text, Encoding: []string{"", "gzip", "br", "identity", "bogus"}[r.IntN(5)]}},
				{Fn: "wire", Resp: &c13Resp{CT: "application/grpc-web+proto", Status: 200, EndS: &s, Trailer: hdr}},
				{Fn: "wire", Resp: &c13Resp{CT: "application/connect+json", Status: 200, EndS: &s}},
				{Fn: "wire", Resp: &c13Resp{CT: s, Status: r.IntN(600), Header: hdr, Trailer: hdr, EndS: &s, Body: text, Err: r.IntN(2) == 0, Data: r.IntN(2) == 0}},
			}
			for _, ex := range execs {
				msgs, pan := ex.run()
				atomic.AddInt64(&calls, 1)
				if len(msgs) == 0 {
					atomic.AddInt64(&silent, 1)
				}
				if pan != nil {
					atomic.AddInt64(&panics, 1)
					p2 := 1
					for q := 0; q < 2; q++ {
						if _, pp := ex.run(); pp != nil {
							p2++
						}
					}
					out.Put(map[string]any{"kind": "fuzz", "panic": pan, "exec": ex, "repro": p2})
				}
			}
		}
	})
	out.Put(map[string]any{"summary": true, "calls": calls, "panics": panics, "silent": silent})
}
