# Shared machinery for the model-based checks (python3 stdlib only).
#
# Exit codes of a check:  0 property held on everything explored (KNOWN-FINDING lines allowed)
#                         1 reproduced violation not listed in known_findings.json (+ VIOLATION line)
#                         2 machinery problem (build failure, TLC error/timeout, harness crash)
import hashlib
import json
import os
import re
import shutil
import subprocess
import sys
import time

VERIF = os.path.dirname(os.path.dirname(os.path.abspath(__file__)))
REPO = os.environ.get("VERIF_REPO", "/repo")
TLA_CP = "/opt/veriftools/tla/tla2tools.jar:/opt/veriftools/tla/CommunityModules-deps.jar"
NCPU = os.cpu_count() or 4


class Machinery(Exception):
    """Something in the verification machinery failed; never a verdict about the code."""


def goenv(extra=None):
    env = dict(os.environ)
    env.update(GOFLAGS="-mod=mod", GOPROXY="off", GOSUMDB="off", GOTOOLCHAIN="local")
    env.pop("GOWORK", None)
    if extra:
        env.update({k: str(v) for k, v in extra.items()})
    return env


class TLCResult:
    def __init__(self, out, generated, distinct, wall, ok, violated):
        self.out = out
        self.generated = generated
        self.distinct = distinct
        self.wall = wall
        self.ok = ok
        self.violated = violated  # name of violated invariant/property or None

    def lines(self, prefix):
        """payloads of PrintT lines that start with prefix (TLC prints strings in quotes)"""
        res = []
        for ln in self.out.splitlines():
            ln = ln.strip()
            if ln.startswith('"') and ln.endswith('"'):
                ln = ln[1:-1]
            if ln.startswith(prefix):
                res.append(ln[len(prefix):])
        return res

    def json_lines(self, prefix):
        res = []
        for p in self.lines(prefix):
            # TLC escapes embedded quotes of a printed string as \" ; undo
            p = p.strip()
            if '\\"' in p and not p.startswith('{"') and not p.startswith('["') and not p.startswith("[{"):
                p = p.replace('\\"', '"')
            try:
                res.append(json.loads(p))
            except ValueError:
                try:
                    res.append(json.loads(p.replace('\\"', '"')))
                except ValueError as e:
                    raise Machinery("cannot parse TLC json line: %r (%s)" % (p[:200], e))
        return res


class Crash(Exception):
    """the code under test crashed the harness process (recorded as a candidate); the check cannot go on"""


def crash_frame(out):
    """name of the first repository function (not a harness file) on the stack of a panic / fatal error, or None"""
    i = max(out.find("\npanic:"), out.find("\nfatal error:"))
    if i < 0 and not (out.startswith("panic:") or out.startswith("fatal error:")):
        return None
    lines = out[max(i, 0):].splitlines()
    if lines and "test timed out" in lines[0]:
        return None
    dep, harness = None, False
    for j, ln in enumerate(lines[:-1]):
        if ln.startswith("connectrpc.com/conformance/") and "zz_verif" not in lines[j + 1] and "zz_verif" not in ln \
                and "/verifutil" not in ln and "testing.tRunner" not in ln:
            return re.sub(r"\((0x[0-9a-f]+|\.\.\.|[, ?{}\[\]])*\)$", "", ln.strip())
        if "zz_verif" in ln or "/verifutil" in ln:
            harness = True
        if dep is None and "/pkg/mod/" in lines[j + 1] and not ln.startswith("created by"):
            dep = re.sub(r"\((0x[0-9a-f]+|\.\.\.|[, ?{}\[\]])*\)$", "", ln.strip())
        if ln.startswith("goroutine ") and j > 3 and "[running]" not in ln:
            break   # only the crashing goroutine counts
    # a goroutine of a dependency (a decoder's worker, say) that panics with no harness frame on its stack: the
    # repository's code drives the dependency; reproducibility is required by the callers
    if dep and not harness:
        return "a goroutine of a dependency: " + dep
    return None


class Ctx:
    def __init__(self, pid, tier, seed, replay=None):
        self.pid = pid
        self.tier = tier
        self.seed = seed
        self.replay = replay
        self.t0 = time.time()
        self.build = os.path.join(VERIF, "build", "%s-%s-%d" % (pid, tier, os.getpid()))
        shutil.rmtree(self.build, ignore_errors=True)
        os.makedirs(self.build)
        self.violations = []  # (key, what, replay_obj)
        self.known_hits = {}  # finding id -> count
        self.cov = dict(states=0, transitions=0, traces_validated_against_impl=0, evaluations=0,
                        distinct_nontrivial=0, samples=[], exhaustive=False, rule="")
        self.assumptions = []
        self.notes = {}
        self._known = load_known(pid)
        self._tlc_n = 0

    @property
    def quick(self):
        return self.tier == "quick"

    def pick(self, quick, thorough):
        return quick if self.quick else thorough

    def log(self, *a):
        print("[%s %6.1fs]" % (self.pid, time.time() - self.t0), *a, flush=True)

    # ---------------------------------------------------------------- Go side
    def go_test_bin(self, pkg, harness_dirs, race=False, name=None, tags="verif"):
        """Build the test binary of /repo package `pkg` (path relative to /repo) with the harness
        _test.go files of /verif/harness/<d> (for d in harness_dirs) overlaid into the package dir."""
        pkgdir = os.path.join(REPO, pkg)
        if not os.path.isdir(pkgdir):
            raise Machinery("package dir missing: " + pkgdir)
        replace = {}
        for d in harness_dirs:
            hd = os.path.join(VERIF, "harness", d)
            for f in sorted(os.listdir(hd)):
                if f.endswith(".go"):
                    replace[os.path.join(pkgdir, f)] = os.path.join(hd, f)
        ud = os.path.join(VERIF, "harness", "verifutil")
        for f in sorted(os.listdir(ud)):
            if f.endswith(".go"):
                replace[os.path.join(REPO, "internal", "verifutil", f)] = os.path.join(ud, f)
        name = name or (pkg.replace("/", "_") + ("_race" if race else ""))
        ov = os.path.join(self.build, name + ".overlay.json")
        with open(ov, "w") as fh:
            json.dump({"Replace": replace}, fh)
        out = os.path.join(self.build, name + ".test")
        cmd = ["go", "test", "-c", "-vet=off", "-tags", tags, "-overlay", ov, "-o", out]
        if race:
            cmd.append("-race")
        cmd.append("./" + pkg)
        t = time.time()
        p = subprocess.run(cmd, cwd=REPO, env=goenv(), stdout=subprocess.PIPE, stderr=subprocess.STDOUT, text=True)
        if p.returncode != 0 or not os.path.exists(out):
            raise Machinery("go test -c failed for %s:\n%s" % (pkg, p.stdout[-4000:]))
        self.log("built %s in %.1fs" % (name, time.time() - t))
        return out

    def go_build(self, pkg, name=None, race=False, tags="verif"):
        name = name or os.path.basename(pkg)
        out = os.path.join(self.build, name)
        cmd = ["go", "build", "-tags", tags, "-o", out]
        if race:
            cmd.append("-race")
        cmd.append("./" + pkg)
        p = subprocess.run(cmd, cwd=REPO, env=goenv(), stdout=subprocess.PIPE, stderr=subprocess.STDOUT, text=True)
        if p.returncode != 0:
            raise Machinery("go build failed for %s:\n%s" % (pkg, p.stdout[-4000:]))
        return out

    def run_harness(self, binary, test, env=None, timeout=1800, args=(), cwd=None, check=True, _again=False):
        """Run one Test function of a harness binary. Communication is by files named in env."""
        cmd = [binary, "-test.run", "^" + test + "$", "-test.count=1", "-test.timeout", "%ds" % (timeout + 60)]
        cmd += list(args)
        e = goenv(env)
        e["VERIF_SEED"] = str(self.seed)
        e["VERIF_TIER"] = self.tier
        t = time.time()
        try:
            p = subprocess.run(cmd, cwd=cwd or self.build, env=e, stdout=subprocess.PIPE, stderr=subprocess.STDOUT,
                               text=True, timeout=timeout, errors="replace")
        except subprocess.TimeoutExpired:
            raise Machinery("harness %s timed out after %ds" % (test, timeout))
        self.log("harness %s: rc=%d in %.1fs" % (test, p.returncode, time.time() - t))
        if check and p.returncode != 0:
            # The harness process died.  If it died of an unrecovered panic / fatal error raised in a goroutine of
            # the code under test (a frame of the repository, not of a harness file), that is the code crashing its
            # process - a verdict, once it happens again on a second execution; anything else is a machinery problem.
            fr = crash_frame(p.stdout)
            if fr and not _again:
                p2 = None
                try:
                    p2 = self.run_harness(binary, test, env=env, timeout=timeout, args=args, cwd=cwd, check=False, _again=True)
                except Machinery:
                    pass
                fr2 = crash_frame(p2.stdout) if p2 is not None and p2.returncode != 0 else None
                if fr2 == fr:
                    i = max(p.stdout.find("panic:"), p.stdout.find("fatal error:"))
                    self.candidate(dict(kind="crash", test=test, frame=fr),
                                   "the code under test crashed the process running %s (unrecovered panic in %s, twice):\n%s" % (
                                       test, fr, p.stdout[i:i + 2500]), dict(kind="crash", test=test, frame=fr, output=p.stdout[i:i + 4000]))
                    raise Crash("harness %s: process crashed in %s" % (test, fr))
            raise Machinery("harness %s failed rc=%d:\n%s" % (test, p.returncode, p.stdout[-6000:]))
        return p

    def harness_died(self, p, what):
        """for callers that run a harness with check=False: the process ended abnormally.  A panic / fatal error on a
        stack of the code under test is the code crashing its process (candidate, then Crash); else Machinery."""
        fr = crash_frame(p.stdout)
        if fr:
            i = max(p.stdout.find("panic:"), p.stdout.find("fatal error:"))
            self.candidate(dict(kind="crash", test=what, frame=fr),
                           "the code under test crashed the process running %s (unrecovered panic in %s):\n%s" % (what, fr, p.stdout[i:i + 2500]),
                           dict(kind="crash", test=what, frame=fr, output=p.stdout[i:i + 4000]))
            raise Crash("%s: process crashed in %s" % (what, fr))
        raise Machinery("%s failed rc=%d\n%s" % (what, p.returncode, p.stdout[-3000:]))

    # ---------------------------------------------------------------- TLC side
    def tlc(self, module, cfg=None, workers=None, timeout=900, env=None, simulate=None, depth=None,
            heap="8g", deadlock=False, extra=(), dfs=False, expect_violation=False, seed=None, coverage=False):
        """Run TLC on /verif/spec/<module>.tla (copied to scratch). Returns TLCResult.
        A TLC *error* (parse, evaluation, timeout) raises Machinery. A violated invariant raises
        Machinery too unless expect_violation (design-level failures are spec bugs, not verdicts)."""
        self._tlc_n += 1
        wd = os.path.join(self.build, "tlc%d" % self._tlc_n)
        os.makedirs(wd)
        spec = os.path.join(VERIF, "spec")
        for f in os.listdir(spec):
            if f.endswith(".tla") or f.endswith(".cfg"):
                try:
                    shutil.copy(os.path.join(spec, f), wd)
                except FileNotFoundError:
                    pass  # a scratch file of a concurrent editor vanished; not ours
        cfg = cfg or (module + ".cfg")
        cmd = ["java", "-XX:+UseParallelGC", "-Xmx" + heap, "-Xss256m"]
        if dfs:
            cmd.append("-Dtlc2.tool.queue.IStateQueue=StateDeque")
        cmd += ["-cp", TLA_CP, "tlc2.TLC", "-metadir", os.path.join(wd, "md"), "-config", cfg,
                "-workers", str(workers or NCPU), "-noGenerateSpecTE"]
        if not deadlock:
            cmd.append("-deadlock")  # -deadlock DISABLES deadlock checking
        if simulate is not None:
            cmd += ["-simulate", simulate]
            if depth:
                cmd += ["-depth", str(depth)]
            cmd += ["-seed", str(seed if seed is not None else self.seed)]
        if coverage:
            cmd += ["-coverage", "1"]
        cmd += list(extra)
        cmd.append(module + ".tla")
        e = dict(os.environ)
        e.pop("JAVA_TOOL_OPTIONS", None)
        if env:
            e.update({k: str(v) for k, v in env.items()})
        t = time.time()
        outp = os.path.join(wd, "out.txt")
        with open(outp, "w") as fh:
            try:
                p = subprocess.run(cmd, cwd=wd, env=e, stdout=fh, stderr=subprocess.STDOUT, timeout=timeout)
            except subprocess.TimeoutExpired:
                subprocess.run(["pkill", "-f", "metadir %s" % os.path.join(wd, "md")])
                raise Machinery("TLC timed out after %ds on %s" % (timeout, module))
        out = open(outp, errors="replace").read()
        wall = time.time() - t
        gen = dist = 0
        m = re.findall(r"(\d+) states generated, (\d+) distinct states found", out)
        if m:
            gen, dist = int(m[-1][0]), int(m[-1][1])
        violated = None
        mv = re.search(r"Invariant (\S+) is violated|Temporal properties were violated|Temporal property (\S+) was violated|Action property (\S+) is violated"
                       r"|Deadlock reached|The postcondition.*is violated|Error: Evaluating invariant (\S+) failed", out)
        if mv:
            violated = next((g for g in mv.groups() if g), mv.group(0))
        ok = (p.returncode == 0) and violated is None and "Error:" not in out
        res = TLCResult(out, gen, dist, wall, ok, violated)
        self.log("TLC %s/%s: rc=%d gen=%d distinct=%d %.1fs%s" % (module, cfg, p.returncode, gen, dist, wall,
                                                                 (" VIOLATED " + str(violated)) if violated else ""))
        if not ok and not (expect_violation and violated):
            tail = "\n".join(l for l in out.splitlines() if not l.startswith('"SCN'))[-5000:]
            raise Machinery("TLC failed on %s (%s): rc=%d\n%s" % (module, cfg, p.returncode, tail))
        self.cov["states"] += dist
        self.cov["transitions"] += gen
        if not os.environ.get("VERIF_KEEP"):
            shutil.rmtree(os.path.join(wd, "md"), ignore_errors=True)
        return res

    # ---------------------------------------------------------------- verdicts
    def candidate(self, key, what, replay_obj):
        """Record a reproduced disagreement between spec and real code.
        key: dict of scenario attributes matched against known_findings 'match' predicates."""
        for kf in self._known:
            if kf.get("status") != "known":
                continue
            if match_known(kf.get("match", {}), key):
                self.known_hits[kf["id"]] = self.known_hits.get(kf["id"], 0) + 1
                return "known"
        self.violations.append((key, what, replay_obj))
        return "violation"

    def sample(self, obj, limit=5):
        if len(self.cov["samples"]) < limit:
            self.cov["samples"].append(obj)

    def finish(self, level="model_checking"):
        rc = 0
        for kf in self._known:
            if kf.get("status") == "known" and self.known_hits.get(kf["id"]):
                print("KNOWN-FINDING: property=%s %s [%s, %d scenario(s)]" % (self.pid, kf["what"], kf["id"],
                                                                               self.known_hits[kf["id"]]), flush=True)
        if self.violations and not self.replay:
            rdir = os.path.join(VERIF, "replay")
            os.makedirs(rdir, exist_ok=True)
            shown = 0
            seen = set()
            for key, what, obj in self.violations:
                h = hashlib.sha1(json.dumps(key, sort_keys=True).encode()).hexdigest()[:10]
                if h in seen:
                    continue
                seen.add(h)
                path = os.path.join(rdir, "%s-%s.json" % (self.pid, h))
                with open(path, "w") as fh:
                    json.dump({"property": self.pid, "key": key, "what": what, "scenario": obj, "seed": self.seed,
                               "tier": self.tier}, fh, indent=1)
                if shown < 20:
                    print("VIOLATION property=%s replay=%s" % (self.pid, path), flush=True)
                    print("  " + what[:600], flush=True)
                shown += 1
            rc = 1
        elif self.violations:
            for key, what, obj in self.violations[:20]:
                print("VIOLATION property=%s replay=%s" % (self.pid, self.replay), flush=True)
                print("  " + what[:600], flush=True)
            rc = 1
        cov = dict(self.cov)
        cov.update(self.notes)
        if not cov["samples"]:
            cov["samples"] = ["(none recorded)"]
        ev = dict(property_id=self.pid, tier=self.tier, seed=self.seed, level=level, coverage=cov,
                  assumptions=self.assumptions, wall_s=round(time.time() - self.t0, 1),
                  violations=len(self.violations),
                  known_findings_reobserved=sorted(k for k, v in self.known_hits.items() if v))
        if not self.replay and os.path.realpath(REPO) == "/repo":   # evidence only ever describes runs against /repo itself
            os.makedirs(os.path.join(VERIF, "evidence"), exist_ok=True)
            with open(os.path.join(VERIF, "evidence", self.pid + ".json"), "w") as fh:
                json.dump(ev, fh, indent=1, default=str)
        self.cleanup()
        self.log("done rc=%d: states=%d transitions=%d validated=%d evaluations=%d nontrivial=%d violations=%d" % (
            rc, cov["states"], cov["transitions"], cov["traces_validated_against_impl"], cov["evaluations"],
            cov["distinct_nontrivial"], len(self.violations)))
        return rc

    def cleanup(self):
        if not os.environ.get("VERIF_KEEP"):
            shutil.rmtree(self.build, ignore_errors=True)
            try:
                os.rmdir(os.path.join(VERIF, "build"))
            except OSError:
                pass


def load_known(pid):
    paths = [os.path.join(VERIF, "known_findings.json")]
    kd = os.path.join(VERIF, "known.d")  # proposals not yet merged by the coordinator
    if os.path.isdir(kd):
        paths += [os.path.join(kd, f) for f in sorted(os.listdir(kd)) if f.endswith(".json")]
    res = []
    for path in paths:
        if os.path.exists(path):
            with open(path) as fh:
                res += [k for k in json.load(fh).get("findings", []) if k.get("property") == pid]
    return res


def match_known(pred, key):
    """pred: {field: value | {"in": [...]} | {"re": "..."} | {"ge": n} | {"le": n}}; all must hold."""
    if not pred:
        return False
    for f, want in pred.items():
        have = key.get(f)
        if isinstance(want, dict):
            if "in" in want and have not in want["in"]:
                return False
            if "re" in want and (have is None or not re.search(want["re"], str(have))):
                return False
            if "ge" in want and not (isinstance(have, (int, float)) and have >= want["ge"]):
                return False
            if "le" in want and not (isinstance(have, (int, float)) and have <= want["le"]):
                return False
        elif have != want:
            return False
    return True


def read_ndjson(path):
    res = []
    with open(path, errors="replace") as fh:
        for ln in fh:
            ln = ln.strip()
            if ln:
                res.append(json.loads(ln))
    return res


def write_ndjson(path, items):
    with open(path, "w") as fh:
        for it in items:
            fh.write(json.dumps(it, separators=(",", ":")) + "\n")
