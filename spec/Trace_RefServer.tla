---------------------------- MODULE Trace_RefServer ----------------------------
(* code -> spec binding for RefServer: each line is the event log of one real execution of the
   server's Run with the harness as runner and client; accepted iff some interleaving of the
   program's (silent) steps explains the observable events in order.  An RPC whose end the harness
   does not decide ("timed": it ends by itself) finishes silently. *)
EXTENDS RefServer, Json, IOUtils
Recs == ndJsonDeserialize(IOEnv.VERIF_TRACE)
VARIABLES ti, l
Evs == Recs[ti].events
Ev == Evs[l]
TInit == /\ ti \in 1..Len(Recs) /\ l = 1 /\ Init /\ kind = Recs[ti].kind /\ bind = Recs[ti].bind
TNext ==
  \/ Internal /\ UNCHANGED <<ti, l>>
  \/ Recs[ti].timed /\ (\E i \in Rpcs : Finish(i)) /\ UNCHANGED <<ti, l>>
  \/ /\ l <= Len(Evs) /\ l' = l + 1 /\ ti' = ti
     /\ \/ Ev.e = "CfgCall" /\ CfgCall(Ev.k)
        \/ Ev.e = "CfgRet" /\ CfgRet
        \/ Ev.e = "CloseStdin" /\ CloseStdin
        \/ Ev.e = "Cancel" /\ Cancel
        \/ Ev.e = "ReadCall" /\ ReadCall
        \/ Ev.e = "ReadRet" /\ ReadRet(Ev.r)
        \/ Ev.e = "CloseStdout" /\ CloseStdout
        \/ Ev.e = "ConnCall" /\ ConnCall(Ev.i)
        \/ Ev.e = "ConnRet" /\ ConnRet(Ev.i, Ev.r)
        \/ Ev.e = "Finish" /\ Finish(Ev.i)
        \/ Ev.e = "RpcEnd" /\ RpcEnd(Ev.i, Ev.r)
        \/ Ev.e = "Break" /\ Break
        \/ Ev.e = "BrokeEarly" /\ BrokeEarly
        \/ Ev.e = "Grace" /\ Grace
        \/ Ev.e = "RunRet" /\ RunRet(Ev.r)
Accepted == (l = Len(Evs) + 1) => PrintT("ACCEPT " \o ToString(ti))
\* how far each log could be explained (the check reports the first event that cannot be)
Progress == PrintT("AT " \o ToString(ti) \o " " \o ToString(l))
=============================================================================
