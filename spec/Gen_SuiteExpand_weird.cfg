\* names that are not well-formed (empty, '.', '..' elements): path cleaning as implemented
CONSTANTS
  RunModes = {0}
  CaseSets = {2, 3}
  MaxSuites = 1
  SNames = {1, 7, 8, 9, 10, 11}
  SModes = {0}
  RelPs = {1, 2}
  RelVs = {2}
  RelCs = {2}
  RelZs = {2}
  Flags = {0, 1}
  Cvms = {0}
  TestIdx = {1, 22, 23, 24, 25, 26, 27}
  TestLens = {1, 2}
  SNames2 = {}
  SModes2 = {}
  RelPs2 = {}
  RelVs2 = {}
  RelCs2 = {}
  RelZs2 = {}
  Flags2 = {}
  Cvms2 = {}
  TestIdx2 = {}
  TestLens2 = {}
  MaxRestricted = 4
INIT GInit
NEXT GNext
INVARIANTS Emit
