CONSTANTS
  FlagSet = {0, 3}
  LenSet = {0, 2}
  PcSet = {"plain", "comp"}
  EncSet = {"real"}
  HdrMode = "mixed"
  SideSet = {"req", "resp"}
  EndSet = {"eof", "err", "close", "closeerr"}
  MaxEnvs = 2
  MaxTotal = 10
  ChunkSet = {1, 2, 3, 5, 7, 12}
  MaxPost = 1
  MaxOther = 1
  Grain = "loop"
  ConsultBit = TRUE
  KeepHist = FALSE
SPECIFICATION FairSpec
VIEW ViewNoHist
PROPERTIES Terminates
