CONSTANTS
  Variant = "fixed"
INIT TraceInit
NEXT TraceNext
INVARIANT Consumed
