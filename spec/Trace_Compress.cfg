CONSTANTS
  Variant = "either"
INIT TraceInit
NEXT TraceNext
INVARIANT Consumed
