CONSTANTS
  STs = {"unary", "client", "server", "half", "full"}
  MaxReqs = 6
  MaxResp = 6
  ReqHdrNames = {"none", "plain", "rep", "mixed", "bin", "multi"}
  HdrNames = {"none", "plain", "rep", "mixed", "bin", "multi", "shared"}
  ErrNames = {"none", "code", "msg", "full"}
  DataVariants = {"plain", "e1", "eL"}
  Decoys = {"none", "def", "flag", "both"}
  WFOnly = TRUE
  MutKinds = {"none"}
INIT GenInit
NEXT GenNext
INVARIANTS Emit Sound
