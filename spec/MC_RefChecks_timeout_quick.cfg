CONSTANTS
  Domain = "timeout"
  NReq = 1
  Coarse = FALSE
  KeepHist = FALSE
  MaxLen = 2
  MaxDigits = 12
INIT Init
NEXT Next
VIEW ViewNoHist
INVARIANTS TypeOK Agrees CountsConsistent RejectedIsSilent HandlerSeesCleanRequest
