CONSTANTS
  StreamTypes = {"unary", "server_stream"}
  ErrKinds = {"none", "ei"}
  PayloadCounts = {0, 2}
  Kits = {"lean", "rich"}
  Profiles = {"A", "B", "E"}
  MaxLen = 2
  MaxDev = 1
  RunChecker = FALSE
INIT Init
NEXT Next
VIEW ViewNoHist
INVARIANTS LenientPass DeviationFlagged Emit
