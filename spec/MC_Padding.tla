------------------------------ MODULE MC_Padding ------------------------------
(* Design checks for C19.  Two arithmetics:
   small : TagLen 1, Bounds <<8, 24, 64>>, Limit 40, MaxTarget 85 - EVERY message with base 0..3,
           data length 0..80 and offset -46..50 (all four varint lengths, both invalid ranges);
   real  : the production numbers on the grid of PaddingGrid. *)
EXTENDS Padding, PaddingGrid

SmallBounds == <<8, 24, 64>>

InitSmall == \E h \in BOOLEAN, b \in 0..3, n0 \in 0..80, o \in -46..50 : InitWith(Msg(h, b, n0), o)
InitReal  == InGrid(InitWith)

SpecSmall == InitSmall /\ [][Next]_vars /\ WF_vars(Next)
SpecReal  == InitReal /\ [][Next]_vars /\ WF_vars(Next)

GridOK == InInts(m, off)
=============================================================================
