-------------------------------- MODULE Glob --------------------------------
(* C08 - the prefix-tree matcher as a machine, and the "unmatched pattern" detection built on it.

   The patterns of one list (P) are merged into a prefix tree whose nodes are the prefixes of the
   patterns; a node is "present" iff it is itself a pattern.  tryMatchPatterns visits the test
   names one by one (one loop iteration = StartCase ... EndCase); each visit is a backtracking
   search of the tree, modelled with an explicit call stack, ONE ACTION PER CALL, PER ATTEMPTED
   CHILD AND PER ITERATION OF THE "**" LOOP of testTrie.match:
       Enter     entry of match(components) at a node: the empty-remainder cases
       TryLit    descend into the child named like the next component
       TryStar   descend into the "*" child
       TryDStar  one iteration of the loop that lets the "**" child own 0, 1, 2, ... components
       Return    a callee returned: propagate success / resume the caller after failure
   The node on which a search ends successfully is credited (counter "matched" in the code);
   Report (allUnmatched) lists the present nodes that were never credited.

   Theorems checked by TLC (MC_Glob*.cfg), for every pattern set / name list in the bound:
     CaseAgrees   the search answers TRUE exactly when SOME pattern of the list matches the name
                  (declarative Match of GlobDecl), whatever the shape of the tree
     CreditSound  the credited node is a pattern of the list that matches the visited name, and is
                  the one FirstHit (the declarative priority order) names
     DoneAgrees   the match count is the number of matched names; the report contains every truly
                  unmatched pattern and otherwise only shadowed ones (ReportOK), and equals
                  AsImplemented_Reported
     Termination  every search returns and the loop reaches the report (<>Done under WF)      *)
EXTENDS GlobDecl, TLC

CONSTANTS Lits,        \* literal components of the scenario space
          MaxPat,      \* longest pattern
          MaxName,     \* longest name
          MaxSet,      \* patterns per list: 1..MaxSet  (1, 2 or 3)
          MaxVisit     \* names visited by one tryMatchPatterns loop: 1..MaxVisit

VARIABLES P,           \* the list of patterns (a set: the tree merges duplicates)
          names,       \* the test names visited, in order
          ni,          \* index of the name being visited
          stack,       \* call stack of match: frames [node, rest, pc, k]
          ret,         \* "none" | "T" | "F": value just returned by the callee
          credited,    \* nodes whose counter is > 0
          hits,        \* per visited name: <<node>> credited by that visit, or <<>>
          matchCount,  \* names for which the search answered TRUE
          phase,       \* "loop" | "done"
          reported     \* result of allUnmatched

vars == <<P, names, ni, stack, ret, credited, hits, matchCount, phase, reported>>

PatComps == Lits \cup {Star, DStar}
SeqsUpTo(S, k) == UNION {[1..m -> S] : m \in 1..k}
Patterns == SeqsUpTo(PatComps, MaxPat)
Names    == SeqsUpTo(Lits, MaxName)          \* strings.Split never yields zero components

PatSets == {{p} : p \in Patterns}
             \cup (IF MaxSet >= 2 THEN {{p, q} : p \in Patterns, q \in Patterns} ELSE {})
             \cup (IF MaxSet >= 3 THEN {{p, q, r} : p \in Patterns, q \in Patterns, r \in Patterns} ELSE {})

Init == /\ P \in PatSets
        /\ names \in SeqsUpTo(Names, MaxVisit)
        /\ ni = 1 /\ stack = <<>> /\ ret = "none" /\ credited = {} /\ hits = <<>>
        /\ matchCount = 0 /\ phase = "loop" /\ reported = {}

(* ------------------------------ the tree ------------------------------ *)
Node(q)        == IsNode(P, q)
Present(q)     == q \in P
HasChild(q, c) == Node(Append(q, c))

(* ------------------------------ the call stack ------------------------------ *)
Top        == stack[Len(stack)]
Popped     == SubSeq(stack, 1, Len(stack) - 1)
WithTop(f) == [stack EXCEPT ![Len(stack)] = f]
Frame(q, r) == [node |-> q, rest |-> r, pc |-> "enter", k |-> 0]
Call(f, q, r) == Append(WithTop(f), Frame(q, r))      \* caller continues at f after the callee

Running == phase = "loop" /\ stack # <<>> /\ ret = "none"

\* tryMatchPatterns: next test case
StartCase ==
  /\ phase = "loop" /\ stack = <<>> /\ ret = "none" /\ ni <= Len(names)
  /\ stack' = <<Frame(<<>>, names[ni])>>
  /\ UNCHANGED <<P, names, ni, ret, credited, hits, matchCount, phase, reported>>

\* match(components) entered at Top.node
Enter ==
  /\ Running /\ Top.pc = "enter"
  /\ IF Top.rest = <<>>
       THEN IF Present(Top.node)
              THEN /\ credited' = credited \cup {Top.node}
                   /\ hits' = Append(hits, <<Top.node>>)
                   /\ stack' = Popped /\ ret' = "T"
              ELSE IF HasChild(Top.node, DStar)
                     \* a "**" below may own nothing; so may a "**" below that one, ...
                     THEN /\ stack' = Call([Top EXCEPT !.pc = "tail"], Append(Top.node, DStar), <<>>)
                          /\ UNCHANGED <<ret, credited, hits>>
                     ELSE /\ stack' = Popped /\ ret' = "F" /\ UNCHANGED <<credited, hits>>
       ELSE /\ stack' = WithTop([Top EXCEPT !.pc = "lit"])
            /\ UNCHANGED <<ret, credited, hits>>
  /\ UNCHANGED <<P, names, ni, matchCount, phase, reported>>

TryLit ==
  /\ Running /\ Top.pc = "lit"
  /\ LET c == Head(Top.rest) IN
     IF HasChild(Top.node, c)
       THEN stack' = Call([Top EXCEPT !.pc = "star"], Append(Top.node, c), Tail(Top.rest))
       ELSE stack' = WithTop([Top EXCEPT !.pc = "star"])
  /\ UNCHANGED <<P, names, ni, ret, credited, hits, matchCount, phase, reported>>

TryStar ==
  /\ Running /\ Top.pc = "star"
  /\ IF HasChild(Top.node, Star)
       THEN stack' = Call([Top EXCEPT !.pc = "dstar"], Append(Top.node, Star), Tail(Top.rest))
       ELSE stack' = WithTop([Top EXCEPT !.pc = "dstar"])
  /\ UNCHANGED <<P, names, ni, ret, credited, hits, matchCount, phase, reported>>

\* one iteration of the "**" loop: the child owns the first k components
TryDStar ==
  /\ Running /\ Top.pc = "dstar"
  /\ IF ~HasChild(Top.node, DStar) \/ Top.k > Len(Top.rest)
       THEN /\ stack' = Popped /\ ret' = "F"
       ELSE /\ stack' = Call([Top EXCEPT !.k = Top.k + 1], Append(Top.node, DStar),
                             SubSeq(Top.rest, Top.k + 1, Len(Top.rest)))
            /\ ret' = ret
  /\ UNCHANGED <<P, names, ni, credited, hits, matchCount, phase, reported>>

\* the callee returned into Top
Return ==
  /\ phase = "loop" /\ stack # <<>> /\ ret # "none"
  /\ IF ret = "T" \/ Top.pc = "tail"
       THEN /\ stack' = Popped /\ ret' = ret          \* "return true" / "return child.match(..)"
       ELSE /\ ret' = "none" /\ stack' = stack        \* try the next alternative
  /\ UNCHANGED <<P, names, ni, credited, hits, matchCount, phase, reported>>

\* tryMatchPatterns: the search for names[ni] is over
EndCase ==
  /\ phase = "loop" /\ stack = <<>> /\ ret # "none"
  /\ matchCount' = IF ret = "T" THEN matchCount + 1 ELSE matchCount
  /\ hits' = IF ret = "T" THEN hits ELSE Append(hits, <<>>)
  /\ ni' = ni + 1 /\ ret' = "none"
  /\ UNCHANGED <<P, names, stack, credited, phase, reported>>

\* allUnmatched
Report ==
  /\ phase = "loop" /\ stack = <<>> /\ ret = "none" /\ ni > Len(names)
  /\ reported' = {p \in P : p \notin credited}
  /\ phase' = "done"
  /\ UNCHANGED <<P, names, ni, stack, ret, credited, hits, matchCount>>

Next == StartCase \/ Enter \/ TryLit \/ TryStar \/ TryDStar \/ Return \/ EndCase \/ Report

Spec == Init /\ [][Next]_vars /\ WF_vars(Next)

(* ------------------------------ properties ------------------------------ *)
TypeOK ==
  /\ ret \in {"none", "T", "F"} /\ phase \in {"loop", "done"}
  /\ ni \in 1..Len(names) + 1 /\ matchCount <= Len(names)
  /\ Len(stack) <= MaxPat + 1                        \* recursion depth is bounded by the tree height
  /\ \A i \in 1..Len(stack) : /\ Node(stack[i].node)
                              /\ stack[i].pc \in {"enter", "lit", "star", "dstar", "tail"}
                              /\ stack[i].k <= Len(stack[i].rest) + 1
  /\ credited \subseteq P /\ reported \subseteq P

CaseReturned == phase = "loop" /\ stack = <<>> /\ ret # "none"

\* the answer of one search is the declarative one
CaseAgrees == CaseReturned => ((ret = "T") <=> MatchAny(P, names[ni]))

\* the credited node is a pattern that matches the visited name - the one the priority order names
\* (the comparison with the declarative operators is evaluated when a search has just returned
\* and at the end; the bookkeeping part in every state)
CreditSound ==
  /\ (CaseReturned \/ phase = "done") =>
        \A i \in 1..Len(hits) : /\ hits[i] = AsImplemented_FirstHit(P, names[i])
                                 /\ hits[i] # <<>> => Match(hits[i][1], names[i]) /\ hits[i][1] \in P
  /\ credited = UNION {Range(hits[i]) : i \in 1..Len(hits)}
  /\ Len(hits) = (IF ret = "T" THEN ni ELSE ni - 1)

Done == phase = "done"
DoneAgrees ==
  Done => /\ matchCount = Cardinality({i \in 1..Len(names) : MatchAny(P, names[i])})
          /\ ReportOK(P, Range(names), reported)
          /\ reported = AsImplemented_Reported(P, Range(names))

\* priority order is a refinement of "some pattern matches" (a fact about P and names only:
\* evaluated in the initial states)
FirstHitIsMatch ==
  (ni = 1 /\ stack = <<>> /\ ret = "none" /\ phase = "loop") =>
     \A i \in 1..Len(names) : (AsImplemented_FirstHit(P, names[i]) # <<>>) <=> MatchAny(P, names[i])

NoStuck == (~Done) => ENABLED Next
Termination == <>Done
CreditMonotone == [][credited \subseteq credited']_vars

View == <<P, names, ni, stack, ret, credited, matchCount, phase, reported, hits>>
=============================================================================
