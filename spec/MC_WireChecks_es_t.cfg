CONSTANTS
  Kind = "es"
  Tier = "t"
SPECIFICATION Spec
INVARIANTS TypeOK Agrees SilentIff EmitSilent
PROPERTIES Monotone Terminates
