CONSTANTS
  Kind = "es"
  Tier = "q"
SPECIFICATION Spec
INVARIANTS TypeOK Agrees SilentIff EmitSilent
PROPERTIES Monotone Terminates
