--------------------------- MODULE Trace_RefChecks ---------------------------
(* code -> spec binding for C12: every line of the recorded file is one execution of the real
   middleware on an input the harness drew at random (beyond the TLC-enumerated domain):

   k = "m"  an arbitrary combination of wire components (content-type family and sub-format,
            the three encoding headers, query parameters, TE, body, TLS state and peer
            certificate, trailers), an arbitrary expectation E and the n-th request of its test;
            observed: feedback lines (canonical form), whether the inner handler ran
   k = "t"  a request of the expected protocol with arbitrary timeout header strings (any
            printable character, up to 22 of them); observed: feedback, the duration in the
            handler's context (ns), the echoed timeout_ms, which timeout headers the handler saw
   k = "c"  batches of truly concurrent requests against one middleware instance; observed per
            batch and test name: how many requests, which repeat numbers were reported

   A line is accepted iff the observation is what the declarative operators of RefChecksDecl
   require; rejected lines are printed (with the deviation shape for timeouts) and the run goes on. *)
EXTENDS RefChecksDecl, Json, IOUtils

Rec == ndJsonDeserialize(IOEnv.VERIF_TRACE)

SeqToSet(q) == {q[i] : i \in 1..Len(q)}
ExpStrings(F) == {ItemStr(i) : i \in F}

AcceptWire(r) ==
  IF r.name = ""
    THEN r.obs.rejected /\ ~r.obs.ran /\ r.obs.fb = <<>>
    ELSE LET F == ExpStrings(Feedback(r.e, r.w) \cup FbRepeat(r.nth))
         IN /\ SeqToSet(r.obs.fb) = F /\ Len(r.obs.fb) = Cardinality(F)
            /\ r.obs.ran /\ ~r.obs.rejected /\ r.obs.intact

AcceptTimeout(r) ==
  LET o == TimeoutOutcome(r.ep, r.ctm, r.gtm)
      F == ExpStrings(o.fb)
  IN /\ SeqToSet(r.obs.fb) = F /\ Len(r.obs.fb) = Cardinality(F)
     /\ r.obs.ctx = o.ctx /\ r.obs.ms = o.ms
     /\ r.obs.seenC = o.seenC /\ r.obs.seenG = o.seenG
     /\ r.obs.ran /\ r.obs.intact

\* batch b, entry for one name: k requests, repeat numbers c (sorted).  With P requests of that
\* name in earlier batches the server must have handed out exactly the numbers P+1 .. P+k, each
\* once (Count is a critical section), and it reports those above 1.
Entry(b, n) == CHOOSE x \in SeqToSet(b) : x.n = n
Before(bs, i, n) == LET RECURSIVE Sum(_)
                        Sum(j) == IF j = 0 THEN 0 ELSE Entry(bs[j], n).k + Sum(j - 1)
                    IN Sum(i - 1)
AcceptConc(r) ==
  \A i \in 1..Len(r.batches) :
    /\ \A n \in {"t1", "t2"} :
         LET x == Entry(r.batches[i], n)  P == Before(r.batches, i, n)
         IN /\ SeqToSet(x.c) = ((P + 1)..(P + x.k)) \ {1}
            /\ Len(x.c) = Cardinality(SeqToSet(x.c))
    /\ Entry(r.batches[i], "").c = <<>>                     \* nameless requests are never counted ...
    /\ LET all == Entry(r.batches[i], "*")                  \* ... and never reach the handler; the others all do
       IN all.k = Entry(r.batches[i], "t1").k + Entry(r.batches[i], "t2").k /\ all.c = <<0>>

Accept(r) == CASE r.k = "m" -> AcceptWire(r)
               [] r.k = "t" -> AcceptTimeout(r)
               [] r.k = "c" -> AcceptConc(r)

Shape(r) == IF r.k # "t" THEN "-"
            ELSE LET h == IF r.ep = 1 THEN r.ctm ELSE r.gtm
                 IN IF h.p THEN DeviationShape(r.ep, h.s) ELSE "absent"

VARIABLE l
TraceInit == l = 1
TraceNext == /\ l <= Len(Rec)
             /\ l' = l + 1
             /\ (Accept(Rec[l]) \/ PrintT("REJECT " \o ToString(l) \o " " \o Shape(Rec[l])))
TraceSpec == TraceInit /\ [][TraceNext]_l
Consumed == (l = Len(Rec) + 1) => PrintT("CONSUMED " \o ToString(Len(Rec)))
=============================================================================
