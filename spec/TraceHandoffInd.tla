-------------------------- MODULE TraceHandoffInd --------------------------
(* C16 (slots) - inductive invariant of the hand-off machine of TraceHandoff.tla, discharged with
   Apalache: no bound on the number of operations (the TLC instance bounds it by MaxOps).
   Same actions as TraceHandoff (without the history/operation counter).
     apalache-mc check --init=IndInv --inv=IndInv --length=1 TraceHandoffInd.tla     (inductive step)
     apalache-mc check --init=Init   --inv=IndInv --length=0 TraceHandoffInd.tla     (base case)
     apalache-mc check --init=IndInv --inv=Safety --length=0 TraceHandoffInd.tla     (IndInv => Safety)
     apalache-mc check --init=IndInv --inv=FirstWinsAct --length=1 TraceHandoffInd.tla (action property) *)
EXTENDS Integers

Names   == {"a", "b", "c"}
Waiters == {"w1", "w2", "w3"}
MaxGen  == 8
MaxTrace == 10   \* Apalache needs finite value sets: generations and trace ids are capped, the number of operations is not
Gens    == 1..MaxGen

VARIABLES
  \* @type: Str -> Int;
  cur,
  \* @type: Int -> Int;
  comp,
  \* @type: Int;
  nextGen,
  \* @type: Int;
  nextTrace,
  \* @type: Str -> { st: Str, n: Str, g: Int, val: Int };
  w

Idle == [st |-> "idle", n |-> "", g |-> 0, val |-> 0]

Init == /\ cur = [n \in Names |-> 0]
        /\ comp = [g \in Gens |-> 0]
        /\ nextGen = 1 /\ nextTrace = 1
        /\ w = [i \in Waiters |-> Idle]

DoInit(n) == /\ nextGen <= MaxGen
             /\ cur' = [cur EXCEPT ![n] = nextGen] /\ nextGen' = nextGen + 1
             /\ UNCHANGED <<comp, nextTrace, w>>
DoComplete(n) == /\ nextTrace <= MaxTrace
                 /\ LET g == cur[n] IN
                      comp' = IF g # 0 /\ comp[g] = 0 THEN [comp EXCEPT ![g] = nextTrace] ELSE comp
                 /\ nextTrace' = nextTrace + 1
                 /\ UNCHANGED <<cur, nextGen, w>>
DoClear(n) == /\ cur' = [cur EXCEPT ![n] = 0] /\ UNCHANGED <<comp, nextGen, nextTrace, w>>
AwaitEnter(i, n) ==
  /\ w[i].st # "blocked"
  /\ LET g == cur[n] IN
     w' = [w EXCEPT ![i] = IF g = 0 THEN [st |-> "failed", n |-> n, g |-> 0, val |-> 0]
                           ELSE IF comp[g] # 0 THEN [st |-> "got", n |-> n, g |-> g, val |-> comp[g]]
                           ELSE [st |-> "blocked", n |-> n, g |-> g, val |-> 0]]
  /\ UNCHANGED <<cur, comp, nextGen, nextTrace>>
AwaitWake(i) == /\ w[i].st = "blocked" /\ comp[w[i].g] # 0
                /\ w' = [w EXCEPT ![i] = [st |-> "got", n |-> w[i].n, g |-> w[i].g, val |-> comp[w[i].g]]]
                /\ UNCHANGED <<cur, comp, nextGen, nextTrace>>
CtxExpire(i) == /\ w[i].st = "blocked"
                /\ w' = [w EXCEPT ![i] = [st |-> "ctx", n |-> w[i].n, g |-> w[i].g, val |-> 0]]
                /\ UNCHANGED <<cur, comp, nextGen, nextTrace>>

Next == \/ \E n \in Names : DoInit(n) \/ DoComplete(n) \/ DoClear(n)
        \/ \E i \in Waiters : (\E n \in Names : AwaitEnter(i, n)) \/ AwaitWake(i) \/ CtxExpire(i)

States == {"idle", "blocked", "got", "failed", "ctx"}
TypeOK == /\ cur \in [Names -> 0..MaxGen]
          /\ comp \in [Gens -> 0..MaxTrace]
          /\ nextGen \in 1..(MaxGen + 1) /\ nextTrace \in 1..(MaxTrace + 1)
          /\ w \in [Waiters -> [st : States, n : Names \cup {""}, g : 0..MaxGen, val : 0..MaxTrace]]

IndInv ==
  /\ TypeOK
  /\ \A n \in Names : cur[n] < nextGen
  /\ \A n1 \in Names : \A n2 \in Names : (n1 # n2 /\ cur[n1] # 0) => cur[n1] # cur[n2]
  /\ \A g \in Gens : (g >= nextGen => comp[g] = 0) /\ comp[g] < nextTrace
  /\ \A i \in Waiters :
       /\ w[i].st = "blocked" => (w[i].g \in Gens /\ w[i].g < nextGen)
       /\ w[i].st = "got" => (w[i].g \in Gens /\ w[i].g < nextGen /\ w[i].val # 0 /\ w[i].val = comp[w[i].g])

\* the properties of the statement, as consequences of the inductive invariant
Safety ==
  /\ \A i \in Waiters : w[i].st = "got" => (w[i].g # 0 /\ w[i].val = comp[w[i].g] /\ w[i].val # 0)   \* GotRight
  /\ \A i \in Waiters : w[i].st = "blocked" => w[i].g # 0                                          \* NeverBlockedOnAbsent
  /\ \A n1 \in Names : \A n2 \in Names : (n1 # n2 /\ cur[n1] # 0) => cur[n1] # cur[n2]              \* GenOwner

\* the first completion of a generation wins, and completions only touch a pending current generation
FirstWinsAct ==
  /\ \A g \in Gens : comp[g] # 0 => comp'[g] = comp[g]
  /\ (nextTrace' # nextTrace) => \A g \in Gens : comp'[g] # comp[g] => (comp[g] = 0 /\ \E n \in Names : cur[n] = g)
=============================================================================
