---------------------------- MODULE RefChecksLaws ----------------------------
(* C12 - statement-level laws of the declarative definitions, checked by TLC over the whole
   bounded domain.  They are what connects Feedback (defined on the wire, RefChecksDecl) to the
   property statement (defined on aspects):

     RoundTrip               a well-formed request reads back as the aspects it was rendered from
     ExactOnWellFormed       its feedback classes are exactly Diff(E, A)  (so: none iff E = A)
     EveryDifferenceFlagged  for ANY actual tuple every differing protocol-independent aspect
                             (version, method, protocol, TLS use) is flagged, and for any POST
                             spelling every differing aspect; a GET that carries a gRPC content
                             type has no defined codec/compression and is flagged as malformed
     DeviationCharacterised  value-based acceptance (strconv.ParseInt + numeric limit) differs
                             from the grammar exactly on signed non-negative numbers and on
                             over-long zero-padded numbers, and only by accepting too much
     DurationLaws            exact below, saturating exactly above 2562047 h; only hours overflow;
                             Connect: echoed milliseconds = the number sent

   The domain is explored as a tree (x grows by a few components per step) only so that TLC's
   workers share the evaluation; every leaf is one point of the domain. *)
EXTENDS RefChecksSpace

CONSTANTS MaxLen, MaxDigits

VARIABLE x

(* ------------------------------------------------------------------ matrix *)
TupleOf(s) == [ver |-> s[1], method |-> s[2], proto |-> s[3], codec |-> s[4], comp |-> s[5],
               tls |-> s[6], cert |-> s[7]]

MInit == x = <<>>
MNext == \/ /\ Len(x) = 0 /\ \E v \in Versions, m \in Methods : x' = <<v, m>>
         \/ /\ Len(x) = 2 /\ \E p \in Protocols, c \in Codecs : x' = x \o <<p, c>>
         \/ /\ Len(x) = 4 /\ \E z \in Compressions, t \in BOOLEAN, k \in BOOLEAN : x' = x \o <<z, t, k>>

\* aspects whose reading does not depend on the protocol in use
Independent == {"version", "method", "protocol", "tls", "cert"}
LawsFor(e) ==
  \A a \in Tuples : \A v \in VariantsFor(a) :
    LET w == Render(a, v)
        C == Classes(Feedback(e, w))
    IN /\ (WellFormed(a, v) => ObserveMatches(w, a))                        \* RoundTrip
       /\ (WellFormed(a, v) => C = Diff(e, a))                              \* ExactOnWellFormed
       /\ (e = a /\ WellFormed(a, v) => Feedback(e, w) = {})                \* silence when all match
       /\ (a.method = "POST" => C \ {"te"} = Diff(e, a))                    \* EveryDifferenceFlagged (any POST spelling)
       /\ C \cap Independent = Diff(e, a) \cap Independent                  \* ... and for ANY actual tuple
       /\ (~WellFormed(a, v) => C # {})                                    \* a malformed request is never silent:
       /\ (a.method = "GET" /\ a.proto # 1 => "getshape" \in C)            \*   GET with a gRPC content type
       /\ (v.noTe /\ e.proto = 2 => "te" \in C)                            \*   gRPC without TE: trailers
       /\ (TlsUse(e) # TlsUse(a) <=> C \cap {"tls", "cert"} # {})

MatrixLaws == Len(x) = 7 => LawsFor(TupleOf(x))

\* the spellings really are different requests, and the variant chooser reaches all of them
SpellingsDistinct == Len(x) = 7 =>
  LET a == TupleOf(x) IN
    /\ \A v1 \in VariantsFor(a) : \A v2 \in VariantsFor(a) : v1 # v2 => Render(a, v1) # Render(a, v2)
    /\ \A i \in 1..Len(VariantSeq) : FitVariant(VariantSeq[i], a) \in VariantsFor(a)
    /\ CtString(Render(a, Plain).fam, Render(a, Plain).sub) # "" <=> ~(a.method = "GET" /\ a.proto = 1)

(* ----------------------------------------------------------------- timeout *)
TInit == x = <<>>
TNext == \/ /\ Len(x) < MaxLen /\ \E c \in Alphabet : x' = Append(x, c)
         \/ /\ x = <<>> /\ x' \in (BoundaryForms(MaxDigits) \cup OverflowForms)

DeviationCharacterisedFor(s) ==
  \A p \in {1, 2} :
    LET g == IF p = 1 THEN GrammarConnect(s) ELSE GrammarGrpc(s)
    IN /\ (AsCoded_Accepts(p, s) # g) <=> DeviationShape(p, s) \in {"signed_nonneg", "overlong_zero_padded"}
       /\ (g => AsCoded_Accepts(p, s))
       /\ (g <=> DeviationShape(p, s) = "grammatical")

HourLimit == <<2, 5, 6, 2, 0, 4, 7>>
DurationLawsFor(s) ==
  /\ GrammarGrpc(s) =>
       LET u == s[Len(s)]  d == ToDigits(ButLast(s))  ns == DurNs(d, UnitK(u), UnitZ(u))
       IN /\ Leq(ns, MaxInt64)
          /\ (Saturates(d, UnitK(u), UnitZ(u)) <=> (u = "H" /\ Cmp(d, HourLimit) > 0))       \* only hours overflow
          /\ (~Saturates(d, UnitK(u), UnitZ(u)) => DivPow10(ns, UnitZ(u)) = Mul(d, UnitK(u)))  \* exact
          /\ (Saturates(d, UnitK(u), UnitZ(u)) => ns = MaxInt64)
  /\ GrammarConnect(s) =>
       LET d == ToDigits(s) IN ~Saturates(d, 1, 6) /\ DivPow10(DurNs(d, 1, 6), 6) = Norm(d)  \* echoed ms = value sent

TimeoutLaws == DeviationCharacterisedFor(x) /\ DurationLawsFor(x)

\* monotone in the value for a fixed unit (checked once, on the boundary and overflow forms)
DurationMonotone ==
  x = <<>> =>
    LET S == {s \in BoundaryForms(MaxDigits) \cup OverflowForms : GrammarGrpc(s)} IN
    \A s \in S : \A t \in S :
      (s[Len(s)] = t[Len(t)] /\ Leq(ToDigits(ButLast(s)), ToDigits(ButLast(t))))
        => Leq(TimeoutNs(2, HdrOf(s)), TimeoutNs(2, HdrOf(t)))

\* arithmetic sanity of the digit-sequence naturals against TLC's own integers (small values)
DecNatSane ==
  x = <<>> =>
    \A n \in {0, 1, 9, 10, 99, 100, 12345, 99999} : \A k \in {1, 6, 36} :
      /\ Mul(OfInt(n), k) = OfInt(n * k)
      /\ Shift(OfInt(n), 3) = OfInt(n * 1000)
      /\ DivPow10(OfInt(n), 2) = OfInt(n \div 100)
      /\ \A m \in {0, 9, 10, 12345, 12346} : (Cmp(OfInt(n), OfInt(m)) <= 0) <=> (n <= m)
=============================================================================
