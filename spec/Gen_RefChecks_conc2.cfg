CONSTANTS
  Domain = "conc"
  NReq = 2
  Coarse = TRUE
  KeepHist = TRUE
  MaxLen = 0
  MaxDigits = 0
INIT Init
NEXT Next
INVARIANTS Agrees CountsConsistent SerialOrder Emit
