CONSTANTS
  StreamTypes = {"unary", "client_stream", "server_stream", "half_duplex", "full_duplex"}
  ErrKinds = {"none", "e0", "e1", "e3", "ei"}
  PayloadCounts = {0, 1, 2, 3}
  Kits = {"none", "lean", "rich"}
  Profiles = {"A", "B", "C", "D", "E"}
  MaxLen = 1
  MaxDev = 1
  RunChecker = FALSE
INIT Init
NEXT Next
VIEW ViewNoHist
INVARIANTS LenientPass DeviationFlagged Emit
