CONSTANTS
  Ops = {"h2md", "out", "md2h", "addh", "addt", "map2h"}
  Bases = {"a", "abin"}
  Styles = {"l", "u"}
  MaxEntries = 2
  MinVals = 0
  MaxVals = 2
  Rich = FALSE
INIT Init
NEXT Next
INVARIANTS Agrees Emit
