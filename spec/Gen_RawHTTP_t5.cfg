CONSTANTS
  MaxOps = 5
  KeepHist = TRUE
  Proto = "h1"
  DelBeforeTrailers = TRUE
  Alphabet = "small"
  Codes = {500}
  Chunks = {"c1"}
  RawIds = {"D1", "D2", "D3"}
  MidRaw = TRUE
SPECIFICATION Spec
INVARIANTS Agrees Emit EmitDefs
