CONSTANTS
  Kind = "polite"
  Callbacks = {"c1", "c2"}
  MaxAborts = 2
SPECIFICATION Spec
INVARIANTS GoneWhenDone PipesClosedWhenGone DoneOnce ResultStable CallbacksAtMostOnce CallbacksAfterDone BoundedStop PoliteNeverTooLong
PROPERTIES StopsAfterAbort CallbacksEventually
