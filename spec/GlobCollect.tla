----------------------------- MODULE GlobCollect -----------------------------
(* C08 - collecting the patterns of one repeatable flag (--run, --skip, --known-failing,
   --known-flaky): the loop of argsToPatterns over the flag values, ONE ACTION PER LOOP ITERATION,
   with the inner loop of parsePatternFile over the lines of an @file, one action per line.

   Theorem checked by TLC (MC_GlobCollect.cfg) for every argument list in the bound:
     DoneAgrees   at termination the result is CollectResult(args): every pattern supplied - by a
                  literal value, by a file, before, between or after files - takes part, in order;
                  an unreadable file is an error
     PrefixGrows  the output only grows, and always is a prefix of Collect(args)
     Termination  <>Done under WF                                                             *)
EXTENDS GlobDecl, TLC

CONSTANTS MaxArgs,     \* flag occurrences: 0..MaxArgs
          MaxLines     \* lines per file: 0..MaxLines

VARIABLES args, i, j, out, err, phase
vars == <<args, i, j, out, err, phase>>

LineKinds == {"pat", "blank", "comment"}
SeqsUpTo0(S, k) == UNION {[1..m -> S] : m \in 0..k}
ArgShapes == {[k |-> kind, lines |-> <<>>] : kind \in {"lit", "bare", "missing"}}
               \cup {[k |-> "file", lines |-> l] : l \in SeqsUpTo0(LineKinds, MaxLines)}
ArgLists == SeqsUpTo0(ArgShapes, MaxArgs)

Init == /\ args \in ArgLists
        /\ i = 1 /\ j = 0 /\ out = <<>> /\ err = FALSE /\ phase = "args"

Cur == args[i]

\* a value without "@": the pattern itself
Literal == /\ phase = "args" /\ i <= Len(args) /\ Cur.k = "lit"
           /\ out' = Append(out, Tok(i, 0)) /\ i' = i + 1
           /\ UNCHANGED <<args, j, err, phase>>

\* "@" alone: no file is read, no pattern is added
Bare == /\ phase = "args" /\ i <= Len(args) /\ Cur.k = "bare"
        /\ i' = i + 1
        /\ UNCHANGED <<args, j, out, err, phase>>

\* "@path": read the file; failure ends the collection with an error
Open == /\ phase = "args" /\ i <= Len(args) /\ Cur.k \in {"file", "missing"}
        /\ IF Cur.k = "missing"
             THEN /\ err' = TRUE /\ out' = <<>> /\ phase' = "done" /\ UNCHANGED j
             ELSE /\ phase' = "file" /\ j' = 1 /\ UNCHANGED <<out, err>>
        /\ UNCHANGED <<args, i>>

\* parsePatternFile: one line
Line == /\ phase = "file" /\ j <= Len(Cur.lines)
        /\ out' = IF Cur.lines[j] = "pat" THEN Append(out, Tok(i, j)) ELSE out
        /\ j' = j + 1
        /\ UNCHANGED <<args, i, err, phase>>

\* end of file: on to the next flag value
Close == /\ phase = "file" /\ j > Len(Cur.lines)
         /\ phase' = "args" /\ i' = i + 1 /\ j' = 0
         /\ UNCHANGED <<args, out, err>>

Finish == /\ phase = "args" /\ i > Len(args)
          /\ phase' = "done"
          /\ UNCHANGED <<args, i, j, out, err>>

Next == Literal \/ Bare \/ Open \/ Line \/ Close \/ Finish
Spec == Init /\ [][Next]_vars /\ WF_vars(Next)

(* ------------------------------ properties ------------------------------ *)
IsPrefix(s, t) == Len(s) <= Len(t) /\ SubSeq(t, 1, Len(s)) = s

TypeOK == /\ phase \in {"args", "file", "done"} /\ i \in 1..Len(args) + 1
          /\ err \in BOOLEAN /\ (phase = "file" => i <= Len(args) /\ j \in 1..Len(Cur.lines) + 1)

Done == phase = "done"
DoneAgrees == Done => [err |-> err, pats |-> out] = CollectResult(args)

\* nothing that was collected is ever dropped (until an error discards everything)
PrefixOK == (~err) => IsPrefix(out, Collect(args))
PrefixGrows == [][(~err') => IsPrefix(out, out')]_vars

\* an error is reported only for an unreadable file, and the first one stops the loop
ErrOnlyUnreadable == err => /\ i \in Unreadable(args)
                            /\ \A m \in Unreadable(args) : i <= m

NoStuck == (~Done) => ENABLED Next
Termination == <>Done
=============================================================================
