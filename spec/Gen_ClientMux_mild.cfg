CONSTANTS
  Senders = {"s1", "s2"}
  Script <- ScriptB
  Names = {"a", "b", "c"}
  MaxCliOps = 12
  FaultKinds = {"trunc", "closeout"}
  AllowZZ = FALSE
  AllowEarly = TRUE
  AnyName = FALSE
  KeepHist = TRUE
INIT Init
NEXT GNext
INVARIANTS AtMostOnce Emit
