CONSTANTS
  NR = 2
  Kinds = {"unbounded"}
  Binds = {"free", "fixed", "taken"}
  CfgKinds = {"good", "bad", "unsup", "trunc"}
  AnnounceFirst = TRUE
  KeepHist = FALSE
SPECIFICATION SpecClient
INVARIANTS TypeOK OneResponse NoResponseWithoutConfig SilentOnlyOnFailure ReturnedMeansStopped GracefulReturn ResultTruthful
PROPERTIES AcceptOnlyWhileUp DrainBounded NoCutWhileServing WriteOnce Terminates
