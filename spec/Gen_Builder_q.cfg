CONSTANTS
  MaxOps = 4
INIT Init
NEXT Next
INVARIANT Emit
