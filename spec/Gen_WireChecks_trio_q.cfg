CONSTANTS
  Kind = "trio"
  Tier = "q"
SPECIFICATION Spec
INVARIANTS TypeOK Agrees SilentIff EmitSilent Emit
