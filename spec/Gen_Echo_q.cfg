CONSTANTS
  STs = {"unary", "client", "server", "half", "full"}
  MaxReqs = 2
  MaxResp = 3
  ReqHdrNames = {"none", "multi"}
  HdrNames = {"none", "rep", "bin", "shared"}
  ErrNames = {"none", "code", "msg", "full"}
  DataVariants = {"plain", "e1"}
  Decoys = {"none", "both"}
  WFOnly = TRUE
  MutKinds = {"none"}
INIT GenInit
NEXT GenNext
INVARIANTS Emit Sound
