CONSTANTS
  STs = {"unary", "client", "server", "half", "full"}
  MaxReqs = 2
  MaxResp = 2
  ReqHdrNames = {"none", "multi"}
  HdrNames = {"none", "rep"}
  ErrNames = {"none", "code", "full"}
  DataVariants = {"plain", "e1"}
  Decoys = {"none", "both"}
  WFOnly = TRUE
  MutKinds = {"none"}
INIT GenInit
NEXT GenNext
INVARIANTS Emit Sound
