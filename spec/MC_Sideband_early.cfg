CONSTANTS
  W = 2
  M = 1
  MsgSet <- MsgsA
  Known <- KnownNames
  AllowCrash = FALSE
  Paths = {"early"}
  KeepHist = FALSE
SPECIFICATION Spec
INVARIANTS Mutex NoInterleave ReaderCorrect FinalMeansProcessed
