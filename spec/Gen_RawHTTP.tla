----------------------------- MODULE Gen_RawHTTP -----------------------------
(* Behaviour generator for C17, arbitration part: every complete behaviour of the RawHTTP machine
   (handler calls, setRawResponse calls - also between a canSendResponse and its write -, finish)
   is printed with what the DECLARATIVE meaning of its history requires: the result of every
   setRawResponse and the response on the wire. *)
EXTENDS RawHTTP, Json

Emit == Terminal =>
          PrintT("SCN " \o ToJson([ops |-> hist,
                                   rawwins |-> RawWins(hist),
                                   final |-> IF RawWins(hist) THEN FinalRaw(hist) ELSE NoRaw,
                                   def |-> IF RawWins(hist) THEN RawDef(FinalRaw(hist)) ELSE RawDef("D2"),
                                   res |-> ResOf(Lin(hist), FALSE),
                                   exp |-> Expected(hist)]))

\* the raw definitions the behaviours refer to, printed once (at the initial state)
EmitDefs == (phase = "handler" /\ nops = 0 /\ fl.o = "none") =>
              PrintT("DEFS " \o ToJson([d \in {"D1", "D2", "D3"} |-> RawDef(d)]))
=============================================================================
