CONSTANTS
  Plan <- PlanA
  MaxServers = 2
SPECIFICATION Spec
INVARIANTS EnabledOK AtMostOnceFromBatches CompleteFromBatches NoneLeftFromBatches
PROPERTIES FairMapped ProjInit ProjStep1 ProjStep2 ProjStep3 OneAtATime
