---------------------------- MODULE PaddingDecl ----------------------------
(* C19 - declarative meaning of "pad a request to exactly limit+offset bytes" and of "the receive
   limit is sharp".  Constant-level only; shared by the operational machine (Padding), the law
   checker (PaddingLaws), the generators (Gen_Padding) and the trace acceptor (Trace_Padding).

   A request message is abstracted to
       has   - does its type have a bytes request_data field (singular, implicit presence)
       base  - serialized size of everything except request_data
       n0    - length of request_data before expansion
   The wire cost of a proto3 bytes field holding n bytes is 0 when n = 0 (the field is absent)
   and  tag + varint(n) + n  otherwise.  The tag of request_data is one byte in every request type
   (field numbers 2 and 3), a varint grows by one byte at each element of Bounds.

   Everything is parametric in Bounds/TagLen/Limit so that TLC can prove the laws EXHAUSTIVELY on a
   scaled-down arithmetic (small Bounds) and evaluate them on the real numbers (2^7, 2^14, 2^21,
   2^28; limit 204,800) on a grid. *)
EXTENDS Integers, Sequences, FiniteSets

CONSTANTS TagLen,      \* bytes of the field tag (1)
          Bounds,      \* strictly increasing sequence: a varint takes 1 + #{i : n >= Bounds[i]} bytes
          Limit,       \* server receive limit (204800)
          MaxTarget    \* largest admissible target size (2^32-1 in the code; see PaddingLaws!UpperDead)

(* ------------------------------ wire arithmetic ------------------------------ *)
VarLen(n)    == 1 + Cardinality({i \in DOMAIN Bounds : n >= Bounds[i]})
MaxVarLen    == 1 + Len(Bounds)
Hdr(n)       == IF n = 0 THEN 0 ELSE TagLen + VarLen(n)      \* overhead of the field around its n bytes
FieldSize(n) == Hdr(n) + n
Size(base, n) == base + FieldSize(n)

(* All data lengths that give the message exactly t bytes.  PadLensDef is the definition
   (search over every length); PadLens is the closed form used on real numbers: the length is
   t - base minus one of the possible header sizes.  PaddingLaws checks PadLens = PadLensDef and
   that the set never has two elements (Size is strictly increasing in n). *)
PadLensDef(base, t) == {n \in 0..(t - base) : Size(base, n) = t}
PadLens(base, t)    == {n \in ({t - base} \cup {t - base - TagLen - l : l \in 1..MaxVarLen}) :
                           n >= 0 /\ Size(base, n) = t}
Reachable(base, t)  == PadLens(base, t) # {}
PadLen(base, t)     == CHOOSE n \in PadLens(base, t) : TRUE

(* ------------------------------ one directive on one message ------------------------------ *)
Msg(h, b, n)   == [has |-> h, base |-> b, n0 |-> n]
Padded(n)      == [k |-> "padded",   n |-> n,  why |-> ""]
Rejected(why)  == [k |-> "rejected", n |-> -1, why |-> why]

Target(off)    == Limit + off
ValidTarget(t) == t >= 0 /\ t <= MaxTarget

(* The statement: the serialized size becomes exactly limit+offset, changing nothing but the
   padding field - or the suite is rejected when that size is unreachable (or the directive makes
   no sense: negative/oversized target, message type without a request_data field). *)
ExpandOne(m, off) ==
  LET t == Target(off) IN
  IF ~ValidTarget(t)              THEN Rejected("invalid")
  ELSE IF ~m.has                  THEN Rejected("nofield")
  ELSE IF ~Reachable(m.base, t)   THEN Rejected("unreachable")
  ELSE Padded(PadLen(m.base, t))

(* ------------------------------ a whole test case ------------------------------ *)
(* dirs[i] = [set, off]: set = FALSE is a directive without a size ("do not expand this one").
   More directives than messages is an error; messages beyond the directives are untouched; the
   first failing directive decides the error. *)
Dir(s, o) == [set |-> s, off |-> o]
Keep(m)   == Padded(IF m.has THEN m.n0 ELSE 0)

MinOf(S) == CHOOSE x \in S : \A y \in S : x <= y

\* F(m, off) is the per-message meaning (ExpandOne for the statement; Padding!CodeOutcome for the
\* loop as written, whose third outcome "crashed" also ends the case)
CaseWith(F(_, _), msgs, dirs) ==
  IF Len(dirs) > Len(msgs) THEN [k |-> "rejected", why |-> "count", at |-> 0, ns |-> <<>>]
  ELSE LET r   == [i \in 1..Len(msgs) |-> IF i <= Len(dirs) /\ dirs[i].set
                                            THEN F(msgs[i], dirs[i].off) ELSE Keep(msgs[i])]
           bad == {i \in 1..Len(msgs) : r[i].k # "padded"}
       IN IF bad = {} THEN [k |-> "padded", why |-> "", at |-> 0, ns |-> [i \in 1..Len(msgs) |-> r[i].n]]
          ELSE [k |-> r[MinOf(bad)].k, why |-> r[MinOf(bad)].why, at |-> MinOf(bad), ns |-> <<>>]

ExpandCase(msgs, dirs) == CaseWith(ExpandOne, msgs, dirs)

(* ------------------------------ sharpness of a receive limit ------------------------------ *)
(* A receiver with limit L admits a message iff its UNCOMPRESSED serialized size is at most L;
   an RPC whose peer has to receive the messages sizes succeeds iff all are admitted, otherwise it
   ends with resource_exhausted.  The compression z is a parameter that must not matter. *)
Admit(size, L)            == size <= L
RpcOutcome(sizes, L)      == IF \A i \in DOMAIN sizes : Admit(sizes[i], L) THEN "ok" ELSE "resource_exhausted"
RpcOutcomeZ(sizes, L, z)  == RpcOutcome(sizes, L)
=============================================================================
