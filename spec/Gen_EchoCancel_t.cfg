CONSTANTS
  STs = {"unary", "client", "server", "half", "full"}
  MaxReqs = 3
  MaxResp = 4
  RDs = {0, 2}
  QDs = {0, 2}
  CloseAs = {0, 1, 3, 5}
  Timeouts = {1, 3, 5, 7, 9, 99}
INIT GenInit
NEXT GenNext
INVARIANTS Emit Sound
