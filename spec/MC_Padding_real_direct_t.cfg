CONSTANTS
  TagLen = 1
  Bounds <- RealBounds
  Limit = 204800
  MaxTarget = 2147483647
  Algo = "direct"
  MaxAdj = 2
  Guard = FALSE
  W = 150
  Huge = TRUE
SPECIFICATION SpecReal
INVARIANTS GridOK TypeOK Correct NeverWrongSize NoCrash AdjBound
