------------------------------- MODULE Framing -------------------------------
(* C09 - length-prefixed message framing over a chunked, possibly truncated or stalled byte
   stream.  A stream is the concatenation of units <<4-byte big-endian prefix, body>>.  The
   environment delivers it through Read calls: each call returns k bytes (k bounded by what the
   reader asked for and by what is left) and possibly EOF *together with* the last bytes; after the
   last available byte the stream either ends (EOF) or stalls (nothing more ever arrives).

   Declarative meaning  : Decode(lens, avail, end)
   Operational machine  : one action per Read call of the reader loop (phase/offs/need)
   Theorem checked by TLC: at termination the machine's output equals Decode, for EVERY chunking. *)
EXTENDS FramingDecl, FiniteSets, TLC

CONSTANTS Lens,        \* set of body lengths used by the scenario space
          MaxMsgs,     \* number of messages in a stream: 0..MaxMsgs
          Limit,       \* receive limit: a prefix announcing more than Limit is rejected
          MaxTotal,    \* bound on total stream bytes (keeps path enumeration finite)
          KeepHist     \* TRUE: remember the chunking (behaviour generation); FALSE: design check

VARIABLES lens, avail, end,            \* the scenario (chosen in Init)
          pos,                         \* bytes delivered so far
          phase, offs, need, mi,       \* reader machine
          out,                         \* results produced so far
          hist                         \* chunking history <<k, eofWithData>> (observation only)

vars == <<lens, avail, end, pos, phase, offs, need, mi, out, hist>>

Min(a, b) == IF a < b THEN a ELSE b

Decode(s, av, e) == DecodeL(s, av, e, Limit)

(* ------------------------------ scenarios ------------------------------ *)
Streams == UNION {[1..m -> Lens] : m \in 0..MaxMsgs}

Init == /\ lens \in {s \in Streams : Total(s) <= MaxTotal}
        /\ avail \in 0..Total(lens)
        /\ end \in {"eof", "stall"}
        /\ pos = 0 /\ phase = "prefix" /\ offs = 0 /\ need = 4 /\ mi = 1 /\ out = <<>> /\ hist = <<>>

(* ------------------------------ reader machine ------------------------------ *)
\* completing the current unit (prefix or body)
Complete ==
  IF phase = "prefix"
    THEN LET n == lens[mi] IN
         IF n > Limit THEN /\ out' = Append(out, TooLarge(n)) /\ phase' = "done"
                           /\ UNCHANGED <<offs, need, mi>>
         ELSE IF n = 0    \* zero-length body: complete without another data read
                THEN /\ out' = Append(out, Msg(mi, 0)) /\ mi' = mi + 1
                     /\ phase' = "prefix" /\ offs' = 0 /\ need' = 4
                ELSE /\ phase' = "body" /\ offs' = 0 /\ need' = n /\ UNCHANGED <<out, mi>>
    ELSE /\ out' = Append(out, Msg(mi, need)) /\ mi' = mi + 1
         /\ phase' = "prefix" /\ offs' = 0 /\ need' = 4

\* one Read call returning k bytes, with EOF reported in the same call iff e
Read(k, e) ==
  /\ phase \in {"prefix", "body"}
  /\ k <= Min(need - offs, avail - pos)
  /\ e => (end = "eof" /\ pos + k = avail)
  /\ (k = 0) => e                             \* (0, nil) reads are idle loops; not modelled
  /\ pos' = pos + k
  /\ hist' = IF KeepHist THEN Append(hist, <<k, e>>) ELSE hist
  /\ IF offs + k = need /\ k > 0
       THEN Complete                          \* error (if any) ignored: next Read reports it
       ELSE /\ offs' = offs + k
            /\ IF e THEN /\ out' = Append(out, IF offs + k = 0 /\ phase = "prefix" THEN EOFr ELSE UEOF)
                         /\ phase' = "done" /\ UNCHANGED <<need, mi>>
                    ELSE UNCHANGED <<out, phase, need, mi>>
  /\ UNCHANGED <<lens, avail, end>>

\* the per-message timer fires: only possible when the stream has stalled for good
Stall ==
  /\ phase \in {"prefix", "body"} /\ end = "stall" /\ pos = avail
  /\ out' = Append(out, IF phase = "prefix" /\ offs = 0 THEN Timeout(0, 4, "none")
                        ELSE Timeout(offs, need, IF phase = "prefix" THEN "length prefix" ELSE "message"))
  /\ phase' = "done"
  /\ UNCHANGED <<lens, avail, end, pos, offs, need, mi, hist>>

Next == (\E k \in 0..MaxTotal : \E e \in BOOLEAN : Read(k, e)) \/ Stall

Spec == Init /\ [][Next]_vars

(* ------------------------------ properties ------------------------------ *)
TypeOK == /\ pos <= avail /\ offs <= need /\ phase \in {"prefix", "body", "done"}

\* chunking independence + truncation/oversize/stall reporting: the theorem
Agrees == (phase = "done") => (out = Decode(lens, avail, end))

\* the machine never reads beyond the stream and never needs bytes past the cut to finish
NoOverread == pos <= avail

\* progress: unless done, something is enabled (no silent hang of the model)
Progress == (phase # "done") => ENABLED Next

ViewNoHist == <<lens, avail, end, pos, phase, offs, need, mi, out>>
=============================================================================
