CONSTANTS
  Callers = {"s1", "s2"}
  Names = {"a", "b"}
SPECIFICATION SafeSpec
CONSTRAINT Bounded
INVARIANTS TypeOK AtMostOnce EnabledOK LateMeansClosed
PROPERTIES RefusedLate
