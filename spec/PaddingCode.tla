----------------------------- MODULE PaddingCode -----------------------------
(* C19 - the loop of expandRequestData AS WRITTEN, as a function of the scenario (constant level).
   Padding!CodeTheorem proves (TLC, small arithmetic exhaustively + real grid) that the operational
   machine of the loop has exactly this outcome, so generators can classify a disagreement between
   the statement and the real code without running the machine. *)
EXTENDS PaddingDecl

Crashed == [k |-> "crashed", n |-> -1, why |-> ""]

(* ---------------- where the loop as written departs from the statement ---------------- *)
(* D = target minus everything but the padding field.  The loop computes n1 = D - Hdr(n0),
   n2 = D - Hdr(n1): it reaches the solution ns = D - Hdr(ns) within two adjustments iff the header
   size of n0 or of n1 already equals that of ns. *)
DOf(mm, o) == Target(o) - mm.base

CrashCondOf(mm, o) ==
  /\ ValidTarget(Target(o)) /\ mm.has
  /\ LET D == DOf(mm, o) IN
       /\ Size(mm.base, mm.n0) # Target(o)
       /\ \/ D < Hdr(mm.n0)                                   \* first shrink goes below zero
          \/ (mm.n0 = 0 /\ D >= 1 /\ D < Hdr(D))              \* grown by D, then shrunk below zero

NeedsThirdOf(mm, o) ==
  /\ ValidTarget(Target(o)) /\ mm.has
  /\ Reachable(mm.base, Target(o))
  /\ ~CrashCondOf(mm, o)
  /\ LET D  == DOf(mm, o)
         ns == PadLen(mm.base, Target(o))
         n1 == D - Hdr(mm.n0)
     IN  mm.n0 # ns /\ Hdr(mm.n0) # Hdr(ns) /\ Hdr(n1) # Hdr(ns)

\* what the Go code does, as a function of the scenario (used by the generator for classification)
CodeOutcome(mm, o) ==
  IF CrashCondOf(mm, o) THEN Crashed
  ELSE IF NeedsThirdOf(mm, o) THEN Rejected("unreachable")
  ELSE ExpandOne(mm, o)
=============================================================================
