------------------------- MODULE Gen_RefChecksMatrix -------------------------
(* C12 generator, aspect matrix: one state per scenario (expected tuple E, actual tuple A, spelling
   v, trailers, repetition), printed with the request the protocols' rules render for A and the
   outcome the declarative definition requires.  No transitions: the states ARE the domain.

   VERIF_MODE = near   every E (of the shard) x every A that differs from E in at most one aspect
                       x every spelling of A (+ trailers, repetition, foreign certificate, no name)
   VERIF_MODE = slice  the E whose index is = VERIF_SHARD mod VERIF_NSHARD x every A (all 864),
                       spelling / trailers / repetition chosen pseudo-randomly from VERIF_SALT;
                       NSHARD shards together are the full 864 x 864 matrix
   VERIF_MODE = diag   every E met exactly (A = E, plain spelling): the silent diagonal; the
                       printed ExpectHeaders(E) are also compared with what the real runner adds *)
EXTENDS RefChecksSpace, Json, IOUtils

Mode   == IOEnv.VERIF_MODE
Shard  == atoi(IOEnv.VERIF_SHARD)
NShard == atoi(IOEnv.VERIF_NSHARD)
Salt   == atoi(IOEnv.VERIF_SALT)

VARIABLE s     \* [e, a, v, tr, peer, pre, name]

Scn(e, a, v, tr, peer, pre, name) == [e |-> e, a |-> a, v |-> v, tr |-> tr, peer |-> peer, pre |-> pre, name |-> name]
DefaultPeer(a) == IF a.tls /\ a.cert THEN "ok" ELSE "none"

\* (trailers, peer certificate, earlier requests of the same test, name) that go with (e, a, v)
NearExtras(e, a, v) ==
  {<<0, DefaultPeer(a), 0, "t1">>}
  \cup (IF v = Plain \/ v.decoy THEN {<<1, DefaultPeer(a), 0, "t1">>,       \* trailers
                                      <<0, DefaultPeer(a), 1, "t1">>,       \* second request of the test
                                      <<3, DefaultPeer(a), 2, "t1">>}       \* third, with trailers
        ELSE {})
  \cup (IF a.tls /\ v = Plain THEN {<<0, "other", 0, "t1">>} ELSE {})       \* somebody else's certificate
  \cup (IF e = a /\ v = Plain THEN {<<0, DefaultPeer(a), 0, "">>} ELSE {})  \* no test name

NearInit == \E e \in {t \in Tuples : TupleIndex(t) % NShard = Shard} : \E a \in Near(e) : \E v \in VariantsFor(a) : \E x \in NearExtras(e, a, v) :
              s = Scn(e, a, v, x[1], x[2], x[3], x[4])

Mix(e, a, k) == (TupleIndex(e) * 31 + TupleIndex(a) * 17 + Salt * 7 + k) % 1000
SliceInit ==
  \E e \in {t \in Tuples : TupleIndex(t) % NShard = Shard} : \E a \in Tuples :
    s = Scn(e, a, PickVariant(e, a, Salt),
            IF Mix(e, a, 1) % 9 = 0 THEN 1 + (Mix(e, a, 2) % 2) ELSE 0,
            IF a.tls /\ Mix(e, a, 3) % 11 = 0 THEN "other" ELSE DefaultPeer(a),
            IF Mix(e, a, 4) % 13 = 0 THEN 1 ELSE 0,
            IF Mix(e, a, 5) % 97 = 0 THEN "" ELSE "t1")

\* every expected tuple once, met exactly (also feeds the runner-side harness: ExpectHeaders)
DiagInit == \E e \in Tuples : s = Scn(e, e, Plain, 0, DefaultPeer(e), 0, "t1")

Init == (Mode = "near" /\ NearInit) \/ (Mode = "slice" /\ SliceInit) \/ (Mode = "diag" /\ DiagInit)
Next == UNCHANGED s

WireOf(x) == [Render(x.a, x.v) EXCEPT !.trailers = x.tr, !.peer = x.peer]
ReqOf(x) == [name |-> x.name, e |-> x.e, w |-> WireOf(x), ctm |-> NoHdr, gtm |-> NoHdr]
ExpOf(x) == ExpJson(ReqOf(x), x.pre + 1)

\* the law of the statement, on every emitted scenario (cheap cross-check of generator and laws)
Lawful == (s.name # "" /\ WellFormed(s.a, s.v) /\ s.peer = DefaultPeer(s.a)) =>
            Classes(Feedback(s.e, WireOf(s))) \ {"trailers"} = Diff(s.e, s.a)

Emit == PrintT("SCN " \o ToJson(
          [kind |-> "matrix", pre |-> s.pre, script |-> <<>>,
           reqs |-> <<[name |-> s.name, e |-> s.e, x |-> ExpectHeaders(s.e),
                       w |-> WireOf(s) @@ [ct |-> CtString(WireOf(s).fam, WireOf(s).sub)],
                       ctm |-> NoHdr, gtm |-> NoHdr]>>,
           exp |-> <<ExpOf(s)>>,
           key |-> [diff |-> Diff(s.e, s.a), wellformed |-> WellFormed(s.a, s.v)]]))
=============================================================================
