-------------------------- MODULE SuiteExpandPools --------------------------
(* C07 - the finite pools from which the design check (SuiteExpand) and the behaviour generator
   (Gen_SuiteExpand) draw suite definitions and sets of config cases.  A .cfg selects index
   subsets of these tables. *)
EXTENDS SuiteExpandDecl

(* relevance-list shapes (used for all four axes; the values are valid enum numbers on each) *)
RelShape == <<
  <<>>,           \*  1  nothing listed: the axis is open over all values
  <<1>>,          \*  2
  <<2>>,          \*  3
  <<3>>,          \*  4
  <<1, 2>>,       \*  5
  <<1, 3>>,       \*  6
  <<2, 3>>,       \*  7
  <<1, 1>>,       \*  8  the same value twice
  <<2, 1>>,       \*  9  not in enum order
  <<0>>,          \* 10  UNSPECIFIED listed
  <<1, 2, 3>>,    \* 11  everything listed
  <<0, 1>>,       \* 12
  <<4>>,          \* 13  (compressions only)
  <<2, 5>>        \* 14  (compressions only)
>>

SuiteName == <<
  <<"A">>,                \* 1
  <<"B">>,                \* 2
  <<"A", "B">>,           \* 3  a name that is a path below suite 1
  <<"Suite One">>,        \* 4
  <<"TLS:true">>,         \* 5  looks like an axis component
  <<>>,                   \* 6  no name
  <<"A", "..", "C">>,     \* 7  not well-formed ...
  <<"", "A">>,            \* 8
  <<"A", "">>,            \* 9
  <<".", "A">>,           \* 10
  <<"..">>                \* 11
>>

TestName == <<
  <<"x">>,                \* 1
  <<"y">>,                \* 2
  <<"unary", "x">>,       \* 3
  <<"B", "x">>,           \* 4  collides with suite A/B test x when nothing is open
  <<"TLS:false", "x">>,   \* 5
  <<>>,                   \* 6  unnamed
  <<"..", "x">>,          \* 7  not well-formed ...
  <<".", "x">>,           \* 8
  <<"x", "">>,            \* 9
  <<"..">>,               \* 10
  <<"", "x">>,            \* 11
  <<"x", "..", "y">>      \* 12
>>

T(n, st, svc, mth, raw, expand, pre) ==
  [name |-> TestName[n], st |-> st, svc |-> svc, mth |-> mth, raw |-> raw, expand |-> expand, pre |-> pre]

TestPool == <<
  T(1, 1, "", "", "none", FALSE, FALSE),            \*  1  x unary
  T(2, 1, "", "", "none", FALSE, FALSE),            \*  2  y unary
  T(1, 2, "", "", "none", FALSE, FALSE),            \*  3  x client stream (same name as 1)
  T(2, 3, "", "", "none", FALSE, FALSE),            \*  4  y server stream
  T(3, 4, "", "", "none", FALSE, FALSE),            \*  5  unary/x half duplex
  T(1, 5, "", "", "none", FALSE, FALSE),            \*  6  x full duplex
  T(3, 1, "my.Service", "Do", "none", FALSE, FALSE),\*  7  explicit service and method
  T(1, 1, "my.Service", "", "none", FALSE, FALSE),  \*  8  service without method
  T(1, 1, "", "Do", "none", FALSE, FALSE),          \*  9  method without service
  T(6, 1, "", "", "none", FALSE, FALSE),            \* 10  unnamed
  T(1, 0, "", "", "none", FALSE, FALSE),            \* 11  no stream type
  T(1, 1, "", "", "req", FALSE, FALSE),             \* 12  raw request
  T(1, 1, "", "", "resp", FALSE, FALSE),            \* 13  raw response (unary)
  T(2, 3, "", "", "resp", FALSE, FALSE),            \* 14  raw response (server stream)
  T(1, 1, "", "", "respnoexp", FALSE, FALSE),       \* 15  raw response without explicit expectation
  T(1, 1, "", "", "none", TRUE, FALSE),             \* 16  expand directive
  T(1, 1, "", "", "none", FALSE, TRUE),             \* 17  runner-owned fields pre-populated with junk
  T(4, 1, "", "", "none", FALSE, FALSE),            \* 18  B/x
  T(5, 1, "", "", "none", FALSE, FALSE),            \* 19  TLS:false/x
  T(2, 3, "my.Service", "Do", "none", FALSE, TRUE), \* 20
  T(2, 3, "", "Do", "none", FALSE, FALSE),          \* 21  method without service, server stream
  T(7, 1, "", "", "none", FALSE, FALSE),            \* 22  ../x   (not well-formed from here on)
  T(8, 1, "", "", "none", FALSE, FALSE),            \* 23  ./x
  T(9, 1, "", "", "none", FALSE, FALSE),            \* 24  x/
  T(10, 1, "", "", "none", FALSE, FALSE),           \* 25  ..
  T(11, 1, "", "", "none", FALSE, FALSE),           \* 26  /x
  T(12, 1, "", "", "none", FALSE, FALSE)            \* 27  x/../y
>>

(* reliance flags as a number 0..15: bit 0 tls, 1 client certs, 2 Connect GET, 3 receive limit *)
Bit(n, k) == (n \div (2 ^ k)) % 2 = 1

MkSuite(n, m, ip, iv, ic, iz, fl, cvm, tests) ==
  [name |-> SuiteName[n], mode |-> m, relP |-> RelShape[ip], relV |-> RelShape[iv], relC |-> RelShape[ic],
   relZ |-> RelShape[iz], cvm |-> cvm, tls |-> Bit(fl, 0), cert |-> Bit(fl, 1), get |-> Bit(fl, 2), lim |-> Bit(fl, 3),
   tests |-> tests]

(* ------------------------------- sets of config cases ------------------------------- *)
Prod(Vs, Ps, Cs, Zs, Ss, Ts, Ks, Gs, Ls, Ms) ==
  {[v |-> v, p |-> p, c |-> c, z |-> z, s |-> s, tls |-> t, cert |-> k, get |-> g, lim |-> l, cvm |-> m] :
     v \in Vs, p \in Ps, c \in Cs, z \in Zs, s \in Ss, t \in Ts, k \in Ks, g \in Gs, l \in Ls, m \in Ms}

\* what a real configuration can contain (docs/configuring_and_running_tests.md): gRPC needs HTTP/2, client
\* certs need TLS, GET is Connect-only, HTTP/3 needs TLS, full duplex needs more than HTTP/1.1
Feasible(c) == /\ (c.p = 2 => c.v = 2) /\ (c.cert => c.tls) /\ (c.get => c.p = 1)
               /\ (c.v = 3 => c.tls) /\ (c.s = 5 => c.v # 1) /\ c.cvm = 0

B == {FALSE, TRUE}
NCaseSets == 9
CaseSet(k) ==
  CASE k = 1 -> Prod({1}, {1}, {1}, {1}, {1}, {FALSE}, {FALSE}, {FALSE}, {FALSE}, {0})                      \* 1 case
    [] k = 2 -> {c \in Prod({1, 2}, {1, 2, 3}, {1, 2}, {1}, {1, 3}, {FALSE}, {FALSE}, {FALSE}, {FALSE}, {0}) : Feasible(c)}
    [] k = 3 -> {c \in Prod({2}, {1, 2}, {1}, {1, 2}, {1, 5}, B, B, {FALSE}, {FALSE}, {0}) : Feasible(c)}
    [] k = 4 -> {c \in Prod({1, 2}, {1, 3}, {1}, {1}, {1, 2}, B, {FALSE}, B, B, {0}) : Feasible(c)}
    [] k = 5 -> Prod({1, 2}, {1}, {1, 2}, {1}, {1}, {FALSE}, {FALSE}, B, {FALSE}, {0, 1, 2})              \* hand: cvm
    [] k = 6 -> {MkCase(<<1, 2, 1, 1, 1, FALSE, FALSE, FALSE, FALSE, 0>>),  \* hand: not feasible for a real peer
                 MkCase(<<1, 1, 1, 1, 1, FALSE, TRUE, FALSE, FALSE, 0>>),   \*   client certs without TLS
                 MkCase(<<2, 2, 1, 1, 1, FALSE, FALSE, TRUE, FALSE, 0>>),   \*   GET with gRPC
                 MkCase(<<3, 1, 1, 1, 1, FALSE, FALSE, FALSE, FALSE, 0>>),  \*   HTTP/3 without TLS
                 MkCase(<<1, 1, 3, 1, 1, FALSE, FALSE, FALSE, FALSE, 0>>),  \*   text codec
                 MkCase(<<1, 1, 1, 6, 1, FALSE, FALSE, FALSE, FALSE, 0>>),
                 MkCase(<<1, 1, 1, 1, 5, FALSE, FALSE, FALSE, FALSE, 0>>),  \*   full duplex over HTTP/1.1
                 MkCase(<<2, 1, 2, 2, 3, TRUE, TRUE, TRUE, TRUE, 0>>),
                 MkCase(<<2, 3, 1, 2, 4, TRUE, FALSE, FALSE, TRUE, 0>>),
                 MkCase(<<1, 1, 1, 1, 1, FALSE, FALSE, FALSE, FALSE, 0>>),
                 MkCase(<<1, 1, 1, 1, 1, TRUE, FALSE, FALSE, FALSE, 0>>),
                 MkCase(<<1, 1, 1, 1, 2, FALSE, FALSE, FALSE, FALSE, 0>>)}
    [] k = 7 -> Prod({1, 2, 3}, {1, 2, 3}, {1, 2}, {1, 3}, {1}, B, {FALSE}, {FALSE}, {FALSE}, {0})         \* gRPC filter
    [] k = 8 -> {c \in Prod({1, 2}, {1, 2, 3}, {1, 2}, {1, 2}, {1, 3, 5}, B, B, B, B, {0}) : Feasible(c)}    \* big
    [] k = 9 -> {c \in Prod({2}, {1, 2, 3}, {1}, {1, 2}, {1, 2, 3, 4, 5}, {FALSE}, {FALSE}, {FALSE}, B, {0}) : Feasible(c)}

(* ------------------------------- the lattice a .cfg selects ------------------------------- *)
CONSTANTS RunModes,        \* run modes explored                       (subset of 0..2)
          CaseSets,        \* case sets explored                       (subset of 1..NCaseSets)
          MaxSuites,       \* 1..3 suite files
          SNames, SModes, RelPs, RelVs, RelCs, RelZs, Flags, Cvms,     \* first suite: index/value sets
          TestIdx, TestLens,                                           \*   tests drawn from TestPool, list lengths
          SNames2, SModes2, RelPs2, RelVs2, RelCs2, RelZs2, Flags2, Cvms2, TestIdx2, TestLens2   \* further suites

SeqsOf(S, lens) == UNION {[1..n -> S] : n \in lens}

\* (operators with a parameter: TLC must not pre-compute the lattices where they are not used)
LatticeOf(NS, MS, PS, VS, CS, ZS, FS, KS, TI, TL) ==
  {MkSuite(n, m, ip, iv, ic, iz, fl, cv, [i \in DOMAIN tl |-> TestPool[tl[i]]]) :
     n \in NS, m \in MS, ip \in PS, iv \in VS, ic \in CS, iz \in ZS, fl \in FS, cv \in KS, tl \in SeqsOf(TI, TL)}
Lattice(k) == IF k = 1 THEN LatticeOf(SNames, SModes, RelPs, RelVs, RelCs, RelZs, Flags, Cvms, TestIdx, TestLens)
                       ELSE LatticeOf(SNames2, SModes2, RelPs2, RelVs2, RelCs2, RelZs2, Flags2, Cvms2, TestIdx2, TestLens2)

NamesWellFormed(suites) ==
  \A i \in DOMAIN suites : /\ (WellFormed(suites[i].name) \/ suites[i].name = <<>>)
                           /\ \A ti \in DOMAIN suites[i].tests :
                                WellFormed(suites[i].tests[ti].name) \/ suites[i].tests[ti].name = <<>>
=============================================================================
