---------------------------- MODULE Trace_RawHTTP ----------------------------
(* code -> spec binding for C17: every line of the recorded file is one execution of the real code
   (the definition or operation history it was given and what an independent observer saw); a line
   is accepted iff the observation satisfies the declarative operators:

     resp  a raw response definition sent through the real reference server     RawHTTPDecl!AcceptResp
     req   a raw request definition sent by rawRequestSender / the whole client  RawHTTPDecl!AcceptReq
     enc   a body given to the encoders, written to some sink                    BodyOK(EncBody) + round trip
     ops   a behaviour of the arbitration machine replayed on rawResponder       RawHTTP!Expected(history)

   Rejected lines are printed (REJECT <line> <clause>), not stopped at, so one run finds them all. *)
EXTENDS RawHTTPOps, Json, IOUtils, TLC

Recorded == ndJsonDeserialize(IOEnv.VERIF_TRACE)

(* ------------------------------ enc ------------------------------ *)
AlignedObs(segs) == \A i \in 1..Len(segs) : segs[i].k = "pfx" => segs[i].len = segs[i].dlen
\* what the envelope reader (by declared length) must return for item it
EnvOK(it, o) == /\ o.k = "env" /\ o.flags = it.flags
                /\ IF HasBytes(it.m)
                     THEN \/ o.z = ZNorm(it.m.z) /\ o.p = it.m.p
                          \/ it.m.p \in ZeroLen /\ o.z = 0 /\ o.p = "" /\ ZNorm(it.m.z) \in ZsOf(o)     \* AsImplemented_EmptyCompressed
                     ELSE o.z = 0 /\ o.p = ""
RoundTripOK(items, envs) == Len(envs) = Len(items) /\ \A i \in 1..Len(items) : EnvOK(items[i], envs[i])
WhyEnc(r) == IF r.obs.err # "" THEN "error"
             ELSE IF ~BodyOK(EncBody(r.body), r.obs.body) THEN "body"
             ELSE IF r.body.k = "stream" /\ AlignedObs(r.obs.body) /\ ~RoundTripOK(r.body.items, r.obs.envs) THEN "roundtrip"
             ELSE "ok"

(* ------------------------------ ops ------------------------------ *)
WhyOps(r) ==
  LET h == r.ops
      b == BareWire(h) IN
  IF r.setraw # ResOf(Lin(h), FALSE) THEN "setraw-results"
  ELSE IF r.unspent # 0 THEN "admitted-call-not-executed"
  ELSE IF \E i \in 1..Len(r.wret) : ~r.wret[i] THEN "write-result"
  ELSE IF RawWins(h) THEN WhyResp(RawDef(FinalRaw(h)), Snap, r.obs)
  ELSE IF ~r.same THEN "normal-response-differs-from-bare-handler"
  ELSE IF r.obs.status # b.status THEN "status"
  ELSE IF SelectSeq(r.obs.body, LAMBDA sg : sg.k # "zero") # b.body THEN "body"
  ELSE IF \E n \in Names \ {"Content-Type"} : ValuesOf(r.obs.hdrs, n) # b.hdrs[n] THEN "headers"
  ELSE IF b.hdrs["Content-Type"] # <<>> /\ ValuesOf(r.obs.hdrs, "Content-Type") # b.hdrs["Content-Type"] THEN "headers"
  ELSE "ok"

Why(r) == CASE r.kind = "resp" -> WhyResp(r.def, r.snap, r.obs)
            [] r.kind = "req"  -> WhyReq(r.def, r.obs)
            [] r.kind = "enc"  -> WhyEnc(r)
            [] r.kind = "ops"  -> WhyOps(r)
            [] r.kind = "summary" -> "ok"

VARIABLE l
TraceInit == l = 1
TraceNext == /\ l <= Len(Recorded)
             /\ l' = l + 1
             /\ LET w == Why(Recorded[l]) IN w = "ok" \/ PrintT("REJECT " \o ToString(l) \o " " \o w)
TraceSpec == TraceInit /\ [][TraceNext]_l
Consumed == (l = Len(Recorded) + 1) => PrintT("CONSUMED " \o ToString(Len(Recorded)))
=============================================================================
