CONSTANTS
  Family = "req"
  Level = "t"
INIT Init
NEXT Next
INVARIANT Emit
