-------------------------------- MODULE CLI --------------------------------
(* G4 (growth item, attached to C08) - the command-line contract of the `connectconformance` runner.

   An abstract command line `cl` is a record: for every flag of the runner whether it is given and
   with which CLASS of value, the positional words (command words, the "----" separator, words that
   look like an option of the runner), whether the "--" end-of-options marker precedes the words,
   and the state of every file a flag names.

   Outcome(cl) is the DECLARATIVE contract: an ordered list of (condition, message kind) clauses -
   the first clause whose condition holds names the usage error; if none holds the runner runs with
   the effective settings Eff(cl).  The source of the clauses is the flag help text / the long help
   of the command / docs/configuring_and_running_tests.md; their ORDER is as implemented (the
   documentation is silent about it) - see AsImplemented_* below.

   The MACHINE is the validation ladder of cmd/connectconformance/main.go `run` followed by the
   start of internal/app/connectconformance.Run, ONE ACTION PER CHECK in the code's order, with the
   working variables the code mutates (maxServers forced to 1 by a non-zero --port, the split of
   the words into the client and the server command).

   Theorem checked by TLC (MC_CLI*.cfg) on the whole bounded domain:
     DoneAgrees    at termination the machine's result is Outcome(cl)
     StopsAtFirstFailing  the machine stops exactly at the first check (in ladder order) whose stand-alone
                   condition holds on cl - no later check can change the message kind, no earlier
                   check is skipped
     Termination   <>Done                                                                         *)
EXTENDS Naturals, Sequences, FiniteSets, TLC

CONSTANTS MaxDev      \* a command line differs from one of the base command lines in <= MaxDev fields

Bool == {TRUE, FALSE}

(* positional words: "cmd" a command that PATH resolves; "nocmd" a name that resolves to nothing;
   "sep" the quadruple dash; "opt" a word that is spelled like an option of the runner ("-v")   *)
WordLists == { <<>>, <<"cmd">>, <<"nocmd">>, <<"opt">>, <<"sep">>,
               <<"cmd", "opt">>, <<"cmd", "opt", "cmd">>, <<"cmd", "cmd">>,
               <<"cmd", "sep">>, <<"sep", "cmd">>, <<"cmd", "sep", "cmd">>,
               <<"cmd", "opt", "sep", "cmd", "opt">>, <<"cmd", "sep", "cmd", "sep", "cmd">>,
               <<"cmd", "sep", "sep", "cmd">>, <<"nocmd", "sep", "cmd">>, <<"cmd", "sep", "nocmd">>,
               <<"cmd", "sep", "opt">>, <<"opt", "sep", "cmd">>, <<"cmd", "cmd", "sep", "cmd", "cmd">> }

Vals == [ ver    |-> Bool,
          parse  |-> {"ok", "unknown", "baduint"},      \* an extra argument the flag parser rejects
          mode   |-> {"absent", "client", "server", "both", "junk"},
          dd     |-> Bool,                               \* "--" before the positional words
          words  |-> WordLists,
          ms     |-> {"absent", "zero", "one", "many", "dflt"},   \* --max-servers: 0, 1, 2, 4 (4 = the default, given explicitly)
          port   |-> {"absent", "zero", "set"},                   \* --port: 0 (the default, given explicitly), a real port
          par    |-> {"absent", "zero", "one", "many", "dflt"},   \* --parallel / -p: 0, 1, 3, the default given explicitly
          cert   |-> {"absent", "empty", "ok", "bad"},            \* --cert: "", a readable file, an unreadable file
          key    |-> {"absent", "empty", "ok", "bad"},
          bind   |-> {"absent", "dflt", "other"},
          v      |-> Bool, vv |-> Bool, trace |-> Bool,
          run    |-> {"absent", "plain", "file", "bad"},          \* pattern flags: a pattern, @readable file, @unreadable file
          skip   |-> {"absent", "plain", "file", "bad"},
          kfail  |-> {"absent", "plain", "file", "bad"},
          kflaky |-> {"absent", "plain", "file", "bad"},
          conf   |-> {"absent", "ok", "bad", "invalid"},          \* --conf: readable valid, unreadable, readable but not a config
          tf     |-> {"ok", "bad"} ]                              \* --test-file (always given): readable / unreadable
Fields == DOMAIN Vals

BaseOf(m) == [ ver |-> FALSE, parse |-> "ok", mode |-> m, dd |-> TRUE,
               words |-> IF m = "both" THEN <<"cmd", "sep", "cmd">> ELSE <<"cmd">>,
               ms |-> "absent", port |-> "absent", par |-> "absent", cert |-> "absent", key |-> "absent",
               bind |-> "absent", v |-> FALSE, vv |-> FALSE, trace |-> FALSE,
               run |-> "absent", skip |-> "absent", kfail |-> "absent", kflaky |-> "absent",
               conf |-> "absent", tf |-> "ok" ]
Bases == { BaseOf("client"), BaseOf("server"), BaseOf("both"),
           [BaseOf("client") EXCEPT !.cert = "ok", !.key = "ok", !.port = "set", !.bind = "other", !.v = TRUE],
           [BaseOf("server") EXCEPT !.par = "many", !.ms = "many", !.kfail = "plain", !.kflaky = "file"] }

(* the bounded domain: every line obtained from a base line by overwriting up to MaxDev (2 or 3) fields *)
InDomain(c) == \E b \in Bases :
                 \E f1 \in Fields, f2 \in Fields : \E x1 \in Vals[f1], x2 \in Vals[f2] :
                   \E f3 \in (IF MaxDev >= 3 THEN Fields ELSE {f2}) : \E x3 \in (IF MaxDev >= 3 THEN Vals[f3] ELSE {x2}) :
                     c = [[[b EXCEPT ![f1] = x1] EXCEPT ![f2] = x2] EXCEPT ![f3] = x3]

(* ----------------------------- derived values ----------------------------- *)
NumMS(cl)  == CASE cl.ms = "zero" -> 0 [] cl.ms = "one" -> 1 [] cl.ms = "many" -> 2 [] OTHER -> 4
\* 99 stands for the default parallelism (4 x GOMAXPROCS)
NumPar(cl) == CASE cl.par = "zero" -> 0 [] cl.par = "one" -> 1 [] cl.par = "many" -> 3 [] OTHER -> 99

Strip(ws) == SelectSeq(ws, LAMBDA w : w # "opt")
(* docs/configuring_and_running_tests.md: after "--" anything that LOOKS like an option is a positional
   argument; without it the runner takes such a word for its own option (here: -v).                 *)
Positional(cl) == IF cl.dd THEN cl.words ELSE Strip(cl.words)
OptConsumed(cl) == ~cl.dd /\ \E i \in 1..Len(cl.words) : cl.words[i] = "opt"

HasSep(ws) == \E i \in 1..Len(ws) : ws[i] = "sep"
\* the FIRST "----" separates (README: client command first, followed by "----", then the server command)
SepPos(ws) == CHOOSE i \in 1..Len(ws) : ws[i] = "sep" /\ \A j \in 1..(i - 1) : ws[j] # "sep"
ClientCmd(cl) == LET ws == Positional(cl)
                 IN  CASE cl.mode = "client" -> ws
                       [] cl.mode = "both" /\ HasSep(ws) -> SubSeq(ws, 1, SepPos(ws) - 1)
                       [] OTHER -> <<>>
ServerCmd(cl) == LET ws == Positional(cl)
                 IN  CASE cl.mode = "server" -> ws
                       [] cl.mode = "both" /\ HasSep(ws) -> SubSeq(ws, SepPos(ws) + 1, Len(ws))
                       [] OTHER -> <<>>

Given(x) == x # "absent"                  \* pflag's Changed: the flag occurs, whatever the value
NonEmpty(x) == x \in {"ok", "bad"}        \* the string value is not ""

(* AsImplemented_SepNeedsDashDash: without "--" the flag parser rejects "----" ("bad flag syntax");
   README and the usage line always show "--" in mode both.                                        *)
AsImplemented_SepNeedsDashDash(cl) == ~cl.dd /\ HasSep(cl.words)

(* ------------------------- the clauses, in ladder order ------------------------- *)
(* AsImplemented_Order: the documentation names the conditions, the code fixes their order.       *)
Clause(cl) ==
  << [k |-> "parse",          c |-> cl.parse # "ok" \/ AsImplemented_SepNeedsDashDash(cl)],
     [k |-> "version",        c |-> cl.ver],
     [k |-> "nocommand",      c |-> Len(Positional(cl)) = 0],
     [k |-> "maxservers0",    c |-> cl.ms = "zero"],
     \* --port "implies --max-servers=1": an explicit larger --max-servers contradicts it
     [k |-> "maxserversport", c |-> cl.port = "set" /\ Given(cl.ms) /\ NumMS(cl) > 1],
     [k |-> "parallel0",      c |-> cl.par = "zero"],
     [k |-> "badmode",        c |-> cl.mode \in {"absent", "junk"}],
     [k |-> "nosep",          c |-> cl.mode = "both" /\ ~HasSep(Positional(cl))],
     [k |-> "emptyclient",    c |-> cl.mode = "both" /\ HasSep(Positional(cl)) /\ Len(ClientCmd(cl)) = 0],
     [k |-> "emptyserver",    c |-> cl.mode = "both" /\ HasSep(Positional(cl)) /\ Len(ServerCmd(cl)) = 0],
     \* "in client mode, ..." flags
     [k |-> "certmode",       c |-> cl.mode # "client" /\ Given(cl.cert)],
     [k |-> "keymode",        c |-> cl.mode # "client" /\ Given(cl.key)],
     [k |-> "portmode",       c |-> cl.mode # "client" /\ Given(cl.port)],
     [k |-> "bindmode",       c |-> cl.mode # "client" /\ Given(cl.bind)],
     \* "in server mode, ..." flag
     [k |-> "parmode",        c |-> cl.mode # "server" /\ Given(cl.par)],
     [k |-> "missingkey",     c |-> NonEmpty(cl.cert) /\ ~NonEmpty(cl.key)],
     [k |-> "missingcert",    c |-> ~NonEmpty(cl.cert) /\ NonEmpty(cl.key)],
     [k |-> "certfile",       c |-> cl.cert = "bad" /\ NonEmpty(cl.key)],
     [k |-> "keyfile",        c |-> cl.cert = "ok" /\ cl.key = "bad"],
     [k |-> "noclientcmd",    c |-> Len(ClientCmd(cl)) > 0 /\ ClientCmd(cl)[1] # "cmd"],
     [k |-> "noservercmd",    c |-> Len(ServerCmd(cl)) > 0 /\ ServerCmd(cl)[1] # "cmd"],
     [k |-> "runfile",        c |-> cl.run = "bad"],
     [k |-> "skipfile",       c |-> cl.skip = "bad"],
     [k |-> "kfailfile",      c |-> cl.kfail = "bad"],
     [k |-> "kflakyfile",     c |-> cl.kflaky = "bad"],
     [k |-> "conffile",       c |-> cl.conf = "bad"],
     [k |-> "confinvalid",    c |-> cl.conf = "invalid"],
     [k |-> "testfile",       c |-> cl.tf = "bad"] >>
NClauses == 28

Failing(cl) == {i \in 1..NClauses : Clause(cl)[i].c}
FirstFailing(cl) == CHOOSE i \in Failing(cl) : \A j \in Failing(cl) : i <= j

(* ------------------------------ effective settings ------------------------------ *)
(* The harness supplies test files in which every selected case FAILS at the peer (the helper answers
   every request with an error), --skip names one case, --known-failing all others but one, --known-flaky
   that one: the run is successful exactly when both --known-failing and --known-flaky are given.     *)
Eff(cl) == [ mode       |-> cl.mode,
             ccmd       |-> ClientCmd(cl),
             scmd       |-> ServerCmd(cl),
             \* "--port ... (implies --max-servers=1)"
             maxServers |-> IF cl.port = "set" THEN 1 ELSE NumMS(cl),
             par        |-> NumPar(cl),
             \* "--vv enables even more verbose output": everything -v shows and more
             verbose    |-> cl.v \/ cl.vv \/ OptConsumed(cl),
             vverbose   |-> cl.vv,
             trace      |-> cl.trace,
             port       |-> cl.port = "set",
             bind       |-> IF cl.bind = "other" THEN "other" ELSE "dflt",
             tls        |-> cl.cert = "ok" /\ cl.key = "ok",
             conf       |-> cl.conf = "ok",
             run        |-> Given(cl.run), skip |-> Given(cl.skip),
             kfail      |-> Given(cl.kfail), kflaky |-> Given(cl.kflaky),
             exit       |-> IF Given(cl.kfail) /\ Given(cl.kflaky) THEN 0 ELSE 1 ]

NoEff == [none |-> TRUE]
Outcome(cl) == IF Failing(cl) = {}
                 THEN [k |-> "run", eff |-> Eff(cl)]
                 ELSE [k |-> Clause(cl)[FirstFailing(cl)].k, eff |-> NoEff]

(* --------------------------------- the machine --------------------------------- *)
VARIABLES cl,        \* the command line (constant during a behaviour)
          pc,        \* the check about to be made
          res,       \* the result, once done
          maxServers,\* flags.maxServers as the code mutates it
          ccmd, scmd,\* clientCommand / serverCommand
          stopped    \* history: index of the ladder step that produced the result (0: ran)
vars == <<cl, pc, res, maxServers, ccmd, scmd, stopped>>

Steps == << "parse", "version", "nocommand", "maxservers0", "portmax", "parallel0", "mode",
            "certmode", "keymode", "portmode", "bindmode", "parmode", "certkey", "certfiles",
            "resolveclient", "resolveserver", "runpats", "skippats", "kfailpats", "kflakypats",
            "conf", "confparse", "testfiles", "execute" >>
NextStep(s) == Steps[(CHOOSE i \in 1..Len(Steps) : Steps[i] = s) + 1]

None == [k |-> "none", eff |-> NoEff]
Err(kind) == [k |-> kind, eff |-> NoEff]

Init == /\ InDomain(cl)
        /\ pc = "parse" /\ res = None /\ maxServers = NumMS(cl) /\ ccmd = <<>> /\ scmd = <<>> /\ stopped = 0

Fail(kind, idx) == /\ res' = Err(kind) /\ pc' = "done" /\ stopped' = idx
                   /\ UNCHANGED <<cl, maxServers, ccmd, scmd>>
Pass == /\ pc' = NextStep(pc) /\ UNCHANGED <<cl, res, maxServers, ccmd, scmd, stopped>>
\* a check with one condition
Check(step, cond, kind, idx) == pc = step /\ IF cond THEN Fail(kind, idx) ELSE Pass

\* cobra / pflag: rootCmd.Execute() fails -> exit status 2
Parse == Check("parse", cl.parse # "ok" \/ (~cl.dd /\ HasSep(cl.words)), "parse", 1)
\* if flags.version { print; return }
Version == Check("version", cl.ver, "version", 2)
NoCommand == Check("nocommand", Len(Positional(cl)) = 0, "nocommand", 3)
MaxServersZero == Check("maxservers0", maxServers = 0, "maxservers0", 4)
\* if flags.port != 0 { if flags.maxServers > 1 && Changed(max-servers) { fatal }; flags.maxServers = 1 }
PortMax == /\ pc = "portmax"
           /\ IF cl.port = "set"
                THEN IF maxServers > 1 /\ Given(cl.ms)
                       THEN Fail("maxserversport", 5)
                       ELSE /\ maxServers' = 1 /\ pc' = NextStep(pc)
                            /\ UNCHANGED <<cl, res, ccmd, scmd, stopped>>
                ELSE Pass
ParallelZero == Check("parallel0", NumPar(cl) = 0, "parallel0", 6)
\* switch flags.mode
Mode == /\ pc = "mode"
        /\ LET ws == Positional(cl) IN
           CASE cl.mode = "client" -> /\ ccmd' = ws /\ pc' = NextStep(pc)
                                      /\ UNCHANGED <<cl, res, maxServers, scmd, stopped>>
             [] cl.mode = "server" -> /\ scmd' = ws /\ pc' = NextStep(pc)
                                      /\ UNCHANGED <<cl, res, maxServers, ccmd, stopped>>
             [] cl.mode = "both" ->
                  IF ~HasSep(ws) THEN Fail("nosep", 8)
                  ELSE LET p == SepPos(ws) IN       \* positionOf: first occurrence
                       IF p = 1 THEN Fail("emptyclient", 9)
                       ELSE IF p = Len(ws) THEN Fail("emptyserver", 10)
                       ELSE /\ ccmd' = SubSeq(ws, 1, p - 1) /\ scmd' = SubSeq(ws, p + 1, Len(ws))
                            /\ pc' = NextStep(pc) /\ UNCHANGED <<cl, res, maxServers, stopped>>
             [] OTHER -> Fail("badmode", 7)
CertMode == Check("certmode", cl.mode # "client" /\ Given(cl.cert), "certmode", 11)
KeyMode  == Check("keymode",  cl.mode # "client" /\ Given(cl.key),  "keymode", 12)
PortMode == Check("portmode", cl.mode # "client" /\ Given(cl.port), "portmode", 13)
BindMode == Check("bindmode", cl.mode # "client" /\ Given(cl.bind), "bindmode", 14)
ParMode  == Check("parmode",  cl.mode # "server" /\ Given(cl.par),  "parmode", 15)
\* switch { case cert != "" && key == "": ... case cert == "" && key != "": ...
CertKey == /\ pc = "certkey"
           /\ IF NonEmpty(cl.cert) /\ ~NonEmpty(cl.key) THEN Fail("missingkey", 16)
              ELSE IF ~NonEmpty(cl.cert) /\ NonEmpty(cl.key) THEN Fail("missingcert", 17)
              ELSE Pass
\* case cert != "": open cert, then key
CertFiles == /\ pc = "certfiles"
             /\ IF NonEmpty(cl.cert)
                  THEN IF cl.cert = "bad" THEN Fail("certfile", 18)
                       ELSE IF cl.key = "bad" THEN Fail("keyfile", 19)
                       ELSE Pass
                  ELSE Pass
\* exec.LookPath(cmd[0]) for the client command, then the server command
ResolveClient == Check("resolveclient", Len(ccmd) > 0 /\ ccmd[1] # "cmd", "noclientcmd", 20)
ResolveServer == Check("resolveserver", Len(scmd) > 0 /\ scmd[1] # "cmd", "noservercmd", 21)
\* argsToPatterns x 4
RunPats    == Check("runpats",    cl.run = "bad",    "runfile", 22)
SkipPats   == Check("skippats",   cl.skip = "bad",   "skipfile", 23)
KFailPats  == Check("kfailpats",  cl.kfail = "bad",  "kfailfile", 24)
KFlakyPats == Check("kflakypats", cl.kflaky = "bad", "kflakyfile", 25)
\* connectconformance.Run: os.ReadFile(config), parseConfig, LoadTestSuitesFromFiles
Conf      == Check("conf",      cl.conf = "bad",     "conffile", 26)
ConfParse == Check("confparse", cl.conf = "invalid", "confinvalid", 27)
TestFiles == Check("testfiles", cl.tf = "bad",       "testfile", 28)
Execute == /\ pc = "execute"
           /\ res' = [k |-> "run",
                      eff |-> [Eff(cl) EXCEPT !.maxServers = maxServers, !.ccmd = ccmd, !.scmd = scmd]]
           /\ pc' = "done" /\ UNCHANGED <<cl, maxServers, ccmd, scmd, stopped>>

Next == \/ Parse \/ Version \/ NoCommand \/ MaxServersZero \/ PortMax \/ ParallelZero \/ Mode
        \/ CertMode \/ KeyMode \/ PortMode \/ BindMode \/ ParMode \/ CertKey \/ CertFiles
        \/ ResolveClient \/ ResolveServer \/ RunPats \/ SkipPats \/ KFailPats \/ KFlakyPats
        \/ Conf \/ ConfParse \/ TestFiles \/ Execute
Spec == Init /\ [][Next]_vars /\ WF_vars(Next)

(* ---------------------------------- properties ---------------------------------- *)
Done == pc = "done"
TypeOK == /\ maxServers \in {0, 1, 2, 4} /\ stopped \in 0..NClauses
          /\ pc \in {Steps[i] : i \in 1..Len(Steps)} \cup {"done"}
DoneAgrees == Done => res = Outcome(cl)
StopsAtFirstFailing == Done => IF Failing(cl) = {} THEN stopped = 0 /\ res.k = "run"
                                            ELSE stopped = FirstFailing(cl)
\* once a value is forced it is not raised again; the result is written once
MaxServersOnlyForcedDown == [][maxServers' <= maxServers]_vars
ResultOnce == [][res # None => res' = res]_vars
Termination == <>Done
\* laws of the declarative definition
Laws == Done => LET o == Outcome(cl) IN
        /\ (o.k = "run" => /\ o.eff.maxServers >= 1 /\ o.eff.par >= 1
                           /\ (o.eff.port => o.eff.maxServers = 1 /\ o.eff.mode = "client")
                           /\ (o.eff.tls => o.eff.mode = "client")
                           /\ (o.eff.vverbose => o.eff.verbose)
                           /\ (o.eff.par # 99 => o.eff.mode = "server")
                           /\ (o.eff.mode = "client" => Len(o.eff.ccmd) > 0 /\ o.eff.scmd = <<>>)
                           /\ (o.eff.mode = "server" => Len(o.eff.scmd) > 0 /\ o.eff.ccmd = <<>>)
                           /\ (o.eff.mode = "both" => Len(o.eff.scmd) > 0 /\ Len(o.eff.ccmd) > 0
                                                      /\ ~HasSep(o.eff.ccmd))
                           /\ (cl.dd => (IF o.eff.mode = "both"
                                           THEN o.eff.ccmd \o <<"sep">> \o o.eff.scmd
                                           ELSE o.eff.ccmd \o o.eff.scmd) = cl.words))
        /\ (cl.ver /\ cl.parse = "ok" /\ ~AsImplemented_SepNeedsDashDash(cl) => o.k = "version")
=============================================================================
