---- MODULE MC_RunnerCL ----
EXTENDS RunnerCL
PlanA == << [inst |-> "i1", cases |-> {"a", "b"}], [inst |-> "i2", cases |-> {"c"}], [inst |-> "i3", cases |-> {"d", "e"}], [inst |-> "i4", cases |-> {"f"}] >>
PlanQ == << [inst |-> "i1", cases |-> {"a", "b"}], [inst |-> "i2", cases |-> {"c"}], [inst |-> "i3", cases |-> {"d"}] >>
====
