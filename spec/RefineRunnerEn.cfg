CONSTANTS
  Plan <- PlanA
  MaxServers = 2
SPECIFICATION Spec
INVARIANTS EnabledOK
PROPERTIES FairMapped
