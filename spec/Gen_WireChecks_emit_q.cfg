CONSTANTS
  Kind = "emit"
  Tier = "q"
SPECIFICATION Spec
INVARIANTS TypeOK Agrees SilentIff EmitSilent Emit
