CONSTANTS
  Lits = {"a", "b"}
  MaxPat = 3
  MaxName = 3
  MaxSet = 2
  MaxVisit = 1
INIT Init
NEXT Next
INVARIANTS TypeOK CaseAgrees CreditSound DoneAgrees FirstHitIsMatch NoStuck
