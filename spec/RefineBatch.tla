----------------------------- MODULE RefineBatch -----------------------------
(* G5 (refinement links) - ServerBatch refines the per-batch fragment of Runner.

   Low level : ServerBatch.tla (runTestCasesForServer: one batch against one server process, fault
               scripts), unchanged, plus the *caller's frame* around it - the three lines of
               connectconformance.go that Runner.tla models and ServerBatch.tla does not:
                   sema.Acquire(ctx, 1)                    -> Acquire
                   go func() { defer sema.Release(1) ...   -> Release (after the call has returned)
                   wg.Wait(); closeSend; waitForResponses  -> FinishRun
               and two *stuttering marks* (auxiliary variables that add steps and change nothing of
               ServerBatch):
                   stopMarked : ServerBatch's "server died" iteration marks the rest of the batch and
                                returns in ONE step; Runner has two (Abandon, then Stop).  StopMark is
                                the second one (the deferred serverProcess.abort()).
                   goneMarked : ServerBatch has no "the process is gone" event: script.die fuses the
                                death with the k-th send, and the deferred abort();result() of the code
                                is inside the step that reaches stage "returned".  GoneMark is that
                                event (Runner's Gone): possible once the process died by itself or the
                                runner has returned having asked it to stop (aborts >= 1).
   High level: Runner.tla instantiated for the one-batch plan << [inst |-> "i1", cases |-> 1..N] >>,
               MaxServers = 1.

   Mapping (R below):
       srv[1]       <- idle / acquired (stages start, handshake) / up (stages loop, wait, and "returned"
                       through the server-died exit until StopMark) / stopped (returned) / released
       proc[1]      <- none (no process: stage start, or the start-failure script) / alive / gone (goneMarked)
       sent         <- sent
       setupFailed  <- the never-sent cases that have an outcome (UnsentAreSetupErrors: failedToStart,
                       serverDied, couldNotRun)
       addr[1]      <- 1 once the handshake succeeded, else 0        sem <- 1 while the slot is held
       nextAddr     <- 1 (unused by Runner)                          finished <- fin

   Checked by TLC (RefineBatch.cfg): Spec => AbsInit /\ AbsStep /\ AbsFair, i.e. Spec => Runner!Spec
   (R!FairMapped is WF_vars(Next) with ENABLED computed in Runner, see RefineRunnerEn.tla), and
   StepMap, the action-by-action correspondence (which low-level action is which Runner action).
   Hence every property of Runner that talks about one batch is inherited: AtMostOnce, Complete,
   NoneLeftRunning, AliveBound, Terminates (listed as INVARIANTS/PROPERTIES of the cfg through R!..).

   Assumption made explicit by the frame (AsAssumed_ResultMeansGone): serverProcess.result() returns
   only when the process has ended, so the slot is released only then.  Process.tla's "gave-up"
   outcome (a peer that ignores the stop request beyond the grace periods) is outside it.        *)
EXTENDS Naturals, Sequences, FiniteSets, TLC

CONSTANTS N, SrvKinds, DieVals, NoticeModes, AnsKinds, CbModes, CloseVals

VARIABLES script, stage, i, dead, noticed, nsent, sent, cbPending, outcome, aborts, wrote, drained,   \* ServerBatch
          slot,         \* the caller's semaphore slot for this batch: "idle", "held", "released"
          stopMarked, goneMarked,
          fin           \* the run as a whole is over

SB == INSTANCE ServerBatch
sbvars == <<script, stage, i, dead, noticed, nsent, sent, cbPending, outcome, aborts, wrote, drained>>
fvars == <<slot, stopMarked, goneMarked, fin>>
vars == <<sbvars, fvars>>
Cases == 1..N

(* ------------------------------- state functions ------------------------------- *)
ProcExists == stage # "start" /\ script.srv # "startFail"          \* startServer succeeded
WasUp == wrote /\ script.srv = "ok"                                 \* the handshake succeeded
ViaDied == \E c \in Cases : outcome[c] = "serverDied"               \* returned through the "server crashed" exit
SetupKinds == {"failedToStart", "serverDied", "couldNotRun"}

SrvA == IF slot = "idle" THEN "idle"
        ELSE IF slot = "released" THEN "released"
        ELSE IF stage \in {"start", "handshake"} THEN "acquired"
        ELSE IF stage \in {"loop", "wait"} THEN "up"
        ELSE IF WasUp /\ ViaDied /\ ~stopMarked THEN "up"
        ELSE "stopped"
ProcA == IF ~ProcExists THEN "none" ELSE IF goneMarked THEN "gone" ELSE "alive"
SetupFailedA == {c \in Cases : c \notin sent /\ outcome[c] # SB!NoneYet}

OnePlan == << [inst |-> "i1", cases |-> Cases] >>
R == INSTANCE RefineRunnerEn WITH
       Plan <- OnePlan, MaxServers <- 1,
       srv <- [b \in {1} |-> SrvA], addr <- [b \in {1} |-> IF WasUp THEN 1 ELSE 0],
       sem <- IF slot = "held" THEN 1 ELSE 0,
       sent <- sent, setupFailed <- SetupFailedA, nextAddr <- 1, finished <- fin,
       proc <- [b \in {1} |-> ProcA]

(* ------------------------------- the low-level system ------------------------------- *)
Init == SB!Init /\ slot = "idle" /\ stopMarked = FALSE /\ goneMarked = FALSE /\ fin = FALSE

Acquire == /\ slot = "idle" /\ slot' = "held"
           /\ UNCHANGED <<sbvars, stopMarked, goneMarked, fin>>

\* runTestCasesForServer runs while the slot is held
RunnerStep == /\ slot = "held"
              /\ SB!Start \/ SB!Handshake \/ SB!LoopStep \/ SB!LoopEnd \/ SB!Finish
              /\ UNCHANGED fvars
\* the other goroutines (process-done notice, client callbacks) are not tied to the slot
OtherStep == /\ SB!Notice \/ \E c \in Cases : SB!Callback(c) \/ SB!Drain(c)
             /\ UNCHANGED fvars

StopMark == /\ slot = "held" /\ stage = "returned" /\ WasUp /\ ViaDied /\ ~stopMarked
            /\ stopMarked' = TRUE
            /\ UNCHANGED <<sbvars, slot, goneMarked, fin>>

\* AsAssumed_ResultMeansGone: a process that was asked to stop ends
GoneMark == /\ ProcExists /\ ~goneMarked
            /\ dead \/ (stage = "returned" /\ aborts >= 1)
            /\ goneMarked' = TRUE
            /\ UNCHANGED <<sbvars, slot, stopMarked, fin>>

\* defer sema.Release(1): after runTestCasesForServer has returned, and its deferred
\* serverProcess.abort(); _ = serverProcess.result() has seen the process end
ReleaseGuard == ProcExists => goneMarked
Release == /\ slot = "held" /\ stage = "returned"
           /\ (WasUp /\ ViaDied) => stopMarked
           /\ ReleaseGuard
           /\ slot' = "released"
           /\ UNCHANGED <<sbvars, stopMarked, goneMarked, fin>>

FinishRun == /\ slot = "released" /\ ~fin /\ fin' = TRUE
             /\ UNCHANGED <<sbvars, slot, stopMarked, goneMarked>>

Next == Acquire \/ RunnerStep \/ OtherStep \/ StopMark \/ GoneMark \/ Release \/ FinishRun
Spec == Init /\ [][Next]_vars /\ WF_vars(Next)

(* ------------------------------- what is checked ------------------------------- *)
AbsInit == R!Init
AbsStep == [][R!Next]_R!vars          \* every step is a Runner step or leaves Runner's variables unchanged
AbsFair == R!FairMapped

\* which low-level action is which Runner action (b = 1); everything not listed stutters
Sends == stage = "loop" /\ i <= N /\ ~noticed /\ ~(script.closeAt # 0 /\ nsent + 1 >= script.closeAt)
StepMap ==
  [][ /\ Acquire => R!Acquire(1)
      /\ (slot = "held" /\ SB!Start /\ script.srv = "startFail") => R!StartFailed(1)
      /\ (slot = "held" /\ SB!Start /\ script.srv # "startFail") => R!Started(1)
      /\ (slot = "held" /\ SB!Handshake /\ script.srv = "ok") => R!Up(1, 1)
      /\ (slot = "held" /\ SB!Handshake /\ script.srv # "ok") => R!StartFailed(1)
      /\ (slot = "held" /\ SB!LoopStep /\ Sends) => R!Send(1, i, 1, "i1")
      /\ (slot = "held" /\ SB!LoopStep /\ ~Sends) => R!Abandon(1)           \* server died / client refused
      /\ (slot = "held" /\ SB!Finish) => R!Stop(1)
      /\ StopMark => R!Stop(1)
      /\ GoneMark => R!Gone(1)
      /\ Release => R!Release(1)
      /\ FinishRun => R!Finish
      /\ (SB!LoopEnd \/ OtherStep) => UNCHANGED R!vars
    ]_vars

\* inherited from Runner (stated so that TLC confirms them on this state space as well)
AtMostOnce == R!AtMostOnce
Complete == R!Complete
NoneLeftRunning == R!NoneLeftRunning
AliveBound == R!AliveBound
Terminates == R!Terminates
=============================================================================
