CONSTANTS
  MaxItems = 2
  FlagSet = {0, 2, 255, 256}
  LenSet = {0, 1, 3}
  PSet = {"absent", "nil", "empty", "a", "bb"}
  ZSet = {0, 1, 2}
  SinkKinds = {"buffer", "pipe"}
  AdoptClose = FALSE
SPECIFICATION Spec
INVARIANTS Exact OnlyRangeErrors SinkStaysOpen RoundTrip Misaligned Prefixes
PROPERTIES Terminates
