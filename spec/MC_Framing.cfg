CONSTANTS
  Lens = {0, 1, 2, 3}
  MaxMsgs = 3
  Limit = 2
  MaxTotal = 100
  KeepHist = FALSE
INIT Init
NEXT Next
INVARIANTS TypeOK Agrees Progress NoOverread
