CONSTANTS
  STs = {"unary", "client", "server", "half", "full"}
  MaxReqs = 2
  MaxResp = 3
  RDs = {0, 2}
  QDs = {0, 2}
  CloseAs = {0, 1, 3}
  Timeouts = {1, 3, 5, 99}
INIT GenInit
NEXT GenNext
INVARIANTS Emit Sound
