CONSTANTS
  TagLen = 1
  Bounds <- RealBounds
  Limit = 204800
  MaxTarget = 2147483647
  MaxMsgs = 3
  MaxDirs = 3
INIT GenInit
NEXT GenNext
INVARIANTS Emit
