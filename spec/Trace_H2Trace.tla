--------------------------- MODULE Trace_H2Trace ---------------------------
(* code -> spec binding for C15.  Every line of the recorded file is one connection between the real
   golang.org/x/net/http2 client and server, seen from one wrapped end: `hist` = the frames in the
   order in which the tracer handled them, decoded from the logged bytes by an independent frame
   reader and abstracted to the frame records of H2TraceDecl (body plans recovered from the DATA
   bytes), closed by the END event; `obs` = the traces the real TracingHTTP2Conn handed to its
   collector, abstracted the same way as in the replay.  A line is accepted iff the traffic is
   well-formed in the sense of H2TraceDecl and the observed traces are exactly Traces(hist, side),
   each once. *)
EXTENDS H2TraceDecl, Json, TLC, IOUtils

Rec == ndJsonDeserialize(IOEnv.VERIF_TRACE)

Range(sq) == {sq[i] : i \in 1..Len(sq)}

Accept(r) == /\ WellFormed(r.hist)
             /\ Range(r.obs) = Traces(r.hist, r.side)
             /\ Len(r.obs) = Cardinality(Range(r.obs))

VARIABLE l
TraceInit == l = 1
TraceNext == /\ l <= Len(Rec)
             /\ l' = l + 1
             /\ (Accept(Rec[l]) \/ PrintT("REJECT " \o ToString(l) \o IF WellFormed(Rec[l].hist) THEN " traces" ELSE " illformed"))
TraceSpec == TraceInit /\ [][TraceNext]_l
Consumed == (l = Len(Rec) + 1) => PrintT("CONSUMED " \o ToString(Len(Rec)))
=============================================================================
