CONSTANTS
  W = 2
  M = 1
  MsgSet <- MsgsB
  Known <- KnownNames
  AllowCrash = TRUE
  Paths = {"normal"}
  KeepHist = FALSE
SPECIFICATION Spec
INVARIANTS Mutex NoInterleave ReaderCorrect MessageLevel OnlyKnownRecorded ProcessedBeforeFinal
PROPERTIES ReaderFinishes Terminates
