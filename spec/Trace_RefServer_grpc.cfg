CONSTANTS
  NR = 3
  Kinds = {"unbounded"}
  Binds = {"free", "fixed", "taken"}
  CfgKinds = {"good", "bad", "unsup", "trunc"}
  AnnounceFirst = TRUE
  KeepHist = FALSE
INIT TInit
NEXT TNext
INVARIANTS TypeOK OneResponse NoResponseWithoutConfig SilentOnlyOnFailure ReturnedMeansStopped GracefulReturn ResultTruthful Accepted Progress
