--------------------------- MODULE Gen_ServerBatch ---------------------------
(* every quiescent end state of every fault script: the script with one outcome vector the
   specification allows for it.  The check groups lines by script: the real outcome vector must be
   one of the allowed ones (several when the death notice races with the send loop). *)
EXTENDS ServerBatch, Json

(* stderr side band of a reference server: lines of the form "<test name>: <message>" naming a case
   of this batch are attributed to that case (a later line for the same case replaces an earlier
   one); every other non-blank line is passed through verbatim, in order. *)
Fb(c, m) == [k |-> "fb", c |-> c, m |-> m]
Other(k) == [k |-> k, c |-> 0, m |-> ""]
LineSeqs == << <<>>,
               <<Fb(1, "m1")>>,
               <<Fb(1, "m1"), Other("unknownName"), Fb(1, "invalid value for x header: abc: not a number")>>,   \* the message has ": " itself
               <<Other("noColon"), Fb(N, "last"), Other("blank"), Other("noSpace")>>,
               <<Other("blank"), Other("unknownName"), Other("noColon")>>,
               <<Fb(N, "x: y"), Fb(1, "y"), Fb(N, "te: trailers header missing"), Other("noSpace")>>,
               <<Other("noColon"), Other("long"), Fb(1, "after-long"), Other("unknownName")>> >>   \* a very long diagnostic line
LinesOf(s) == LineSeqs[((s.die + s.closeAt + Cardinality({c \in Cases : s.ans[c] = "pass"})) % Len(LineSeqs)) + 1]

\* every feedback message printed for a case, in the order printed (Sideband.tla: FeedbackOf), as the report shows them
RECURSIVE AllFb(_, _, _)
AllFb(ls, c, j) == IF j > Len(ls) THEN ""
                   ELSE LET rest == AllFb(ls, c, j + 1) IN
                        IF ls[j].k = "fb" /\ ls[j].c = c
                          THEN (IF rest = "" THEN ls[j].m ELSE ls[j].m \o "; " \o rest)
                          ELSE rest
SidebandOf(ls) == [c \in Cases |-> AllFb(ls, c, 1)]
ForwardedOf(ls) == SelectSeq([j \in 1..Len(ls) |-> ls[j].k], LAMBDA k : k \notin {"fb", "blank"})
Emit == Quiescent => PrintT("SCN " \o ToJson([script |-> script, outcome |-> outcome,
                                              sent |-> [c \in Cases |-> c \in sent], aborted |-> aborts >= 1,
                                              lines |-> LinesOf(script), sideband |-> SidebandOf(LinesOf(script)),
                                              forwarded |-> ForwardedOf(LinesOf(script))]))
=============================================================================
