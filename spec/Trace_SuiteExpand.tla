-------------------------- MODULE Trace_SuiteExpand --------------------------
(* code -> spec binding for C07.  Every line of the recorded file is one execution of the real
   loader + newTestCaseLibrary (+ the gRPC-peer filter): the abstract suites (the embedded corpus as
   parseTestSuites delivered it, or seeded random suites), the config cases (as parseConfig
   delivered them for a shipped configuration, or random), the run mode, and what was observed:
   the rejection class, or the permutations with their names and request fields, the marked names
   of the gRPC-peer copies and the sizes of allPermutations.
   A line is accepted iff the observation is what SuiteExpandDecl!Outcome requires (set equality
   on permutations).  Rejected lines are reported with the difference. *)
EXTENDS SuiteExpandDecl, Json, IOUtils

Rec == ndJsonDeserialize(IOEnv.VERIF_TRACE)

VARIABLE l

Cases(r) == {MkCase(r.cases[i]) : i \in DOMAIN r.cases}
Want(r)  == Outcome(r.suites, Cases(r), r.mode)

Some(S, n) == IF Cardinality(S) <= n THEN S ELSE LET x == CHOOSE x \in S : TRUE IN {x}

Marked(r, O, cg, sg) == {g[1] : g \in GrpcPerms(r.suites, O.perms, cg, sg)}

AcceptOK(r, O) ==
  LET want == {PermTuple(q) : q \in O.perms}
      got  == Range(r.obs.perms)
  IN /\ O.k = "ok"
     /\ got = want /\ Len(r.obs.perms) = Cardinality(want)
     /\ r.wf => /\ Range(r.obs.gc) = Marked(r, O, TRUE, FALSE) /\ Len(r.obs.gc) = Cardinality(Marked(r, O, TRUE, FALSE))
                /\ Range(r.obs.gs) = Marked(r, O, FALSE, TRUE) /\ Len(r.obs.gs) = Cardinality(Marked(r, O, FALSE, TRUE))
                /\ Range(r.obs.gcs) = Marked(r, O, TRUE, TRUE) /\ Len(r.obs.gcs) = Cardinality(Marked(r, O, TRUE, TRUE))
                /\ r.obs.nall = <<AllPermCount(r.suites, O.perms, FALSE, FALSE), AllPermCount(r.suites, O.perms, TRUE, FALSE),
                                  AllPermCount(r.suites, O.perms, FALSE, TRUE), AllPermCount(r.suites, O.perms, TRUE, TRUE)>>

Accept(r) ==
  LET O == Want(r) IN
  IF r.obs.k = "ok" THEN AcceptOK(r, O)
  ELSE r.obs.k \in {"perr", "lerr"} /\ O.k = r.obs.k /\ r.obs.err \in O.errs

Explain(r, n) ==
  LET O    == Want(r)
      want == {PermTuple(q) : q \in O.perms}
      got  == Range(r.obs.perms)
  IN [line |-> n, want_k |-> O.k, want_errs |-> O.errs, want_n |-> Cardinality(want), got_k |-> r.obs.k, got_err |-> r.obs.err,
      got_n |-> Len(r.obs.perms), missing |-> Some(want \ got, 3), extra |-> Some(got \ want, 3),
      gc |-> IF O.k = "ok" /\ r.wf THEN Some((Range(r.obs.gc) \ Marked(r, O, TRUE, FALSE)) \cup (Marked(r, O, TRUE, FALSE) \ Range(r.obs.gc)), 3) ELSE {},
      gs |-> IF O.k = "ok" /\ r.wf THEN Some((Range(r.obs.gs) \ Marked(r, O, FALSE, TRUE)) \cup (Marked(r, O, FALSE, TRUE) \ Range(r.obs.gs)), 3) ELSE {}]

TraceInit == l = 1
TraceNext == /\ l <= Len(Rec)
             /\ l' = l + 1
             /\ (Accept(Rec[l]) \/ PrintT("REJECT " \o ToJson(Explain(Rec[l], l))))
Consumed == (l = Len(Rec) + 1) => PrintT("CONSUMED " \o ToString(Len(Rec)))
=============================================================================
