CONSTANTS
  Domain = "conc"
  NReq = 2
  Coarse = FALSE
  KeepHist = FALSE
  MaxLen = 0
  MaxDigits = 0
SPECIFICATION Spec
VIEW ViewNoHist
INVARIANTS TypeOK Agrees CountsConsistent RejectedIsSilent HandlerSeesCleanRequest
PROPERTIES Monotone Termination
