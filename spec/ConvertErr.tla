----------------------------- MODULE ConvertErr -----------------------------
(* C18 - an RPC error carried through its three forms:
       test-case form  conformance.v1.Error  {code, optional message, details: Any{type_url, value}}
       Connect form    *connect.Error        Code(), Message(), Details()[i].Type()/.Bytes()
       gRPC form       status error          google.rpc.Status{code, message, details: Any}

   Declarative meaning  : ToConnect / FromConnect / ToStatus / FromStatus / FromGoError (ConvertDecl)
   Operational machine  : one action per call and per iteration of the detail loops of
                          ConvertProtoToConnectError and ConvertConnectToProtoError; the gRPC
                          conversions have no loop (the detail list is handed over whole).
   Theorems checked by TLC: Agrees (the loops compute the declarative functions) and Laws (the
                          round trips preserve code, message, every detail's type and bytes,
                          in order; the only normalisations are message presence and, on the
                          Connect route, the type-URL prefix, which is restored to the default). *)
EXTENDS ConvertDecl, TLC

CONSTANTS Codes,        \* subset of 1..16
          Msgs,         \* message classes, subset of {"absent", "empty", "ascii", "utf8", "pct"}
          Pfxs,         \* type-URL prefixes of details: subset of {"std", "other", "none"}
          Types,        \* detail type names (rendered to registered message types)
          Vals,         \* detail payload ids (0 = empty payload)
          MaxDetails,
          Routes        \* subset of {"connect", "grpc", "goerr-nil", "goerr-plain", "goerr-connect", "goerr-wrapped", "grpc-plain"}

VARIABLES route, e,     \* the scenario
          pc, i,
          cerr,         \* Connect form under construction / result
          serr,         \* gRPC status form
          perr          \* proto form under construction / final result

vars == <<route, e, pc, i, cerr, serr, perr>>

Details == [pfx : Pfxs, type : Types, val : Vals]
Errs == [code : Codes, msg : Msgs, details : UNION {[1..n -> Details] : n \in 0..MaxDetails}]
None == [kind |-> "none"]

Init == /\ route \in Routes /\ e \in Errs
        /\ pc = "start" /\ i = 1 /\ cerr = None /\ serr = None /\ perr = None

(* ---------------- ConvertProtoToConnectError ---------------- *)
P2C_New    == /\ route = "connect" /\ pc = "start"
              /\ cerr' = [code |-> e.code, msg |-> MsgText(e.msg), details |-> <<>>]     \* connect.NewError(code, errors.New(GetMessage()))
              /\ pc' = "p2c" /\ i' = 1 /\ UNCHANGED <<route, e, serr, perr>>
P2C_Detail == /\ pc = "p2c" /\ i <= Len(e.details)                                        \* connectErr.AddDetail(NewErrorDetail(any))
              /\ cerr' = [cerr EXCEPT !.details = Append(@, [type |-> e.details[i].type, val |-> e.details[i].val])]
              /\ i' = i + 1 /\ UNCHANGED <<route, e, pc, serr, perr>>
P2C_Ret    == /\ pc = "p2c" /\ i > Len(e.details)
              /\ pc' = "have-connect" /\ UNCHANGED <<route, e, i, cerr, serr, perr>>

(* ---------------- ConvertErrorToProtoError: nil / errors.As ---------------- *)
\* the Go errors handed to ConvertErrorToProtoError are derived from the scenario's error
GoErr_Make == /\ route \in {"goerr-nil", "goerr-plain", "goerr-connect", "goerr-wrapped"} /\ pc = "start"
              /\ cerr' = IF route \in {"goerr-connect", "goerr-wrapped"} THEN ToConnect(e) ELSE None
              /\ pc' = "goerr" /\ UNCHANGED <<route, e, i, serr, perr>>
GoErr_Nil   == /\ pc = "goerr" /\ route = "goerr-nil"
               /\ perr' = [kind |-> "nil"] /\ pc' = "done" /\ UNCHANGED <<route, e, i, cerr, serr>>
GoErr_NotAs == /\ pc = "goerr" /\ route = "goerr-plain"                                   \* errors.As fails: Unknown + text
               /\ perr' = [kind |-> "err", err |-> [code |-> 2, msg |-> MsgText(e.msg), details |-> <<>>]]
               /\ pc' = "done" /\ UNCHANGED <<route, e, i, cerr, serr>>
GoErr_As    == /\ pc = "goerr" /\ route \in {"goerr-connect", "goerr-wrapped"}            \* errors.As finds the *connect.Error
               /\ pc' = "have-connect" /\ UNCHANGED <<route, e, i, cerr, serr, perr>>

(* ---------------- ConvertConnectToProtoError ---------------- *)
C2P_New    == /\ pc = "have-connect"
              /\ perr' = [code |-> cerr.code, msg |-> cerr.msg, details |-> <<>>]
              /\ pc' = "c2p" /\ i' = 1 /\ UNCHANGED <<route, e, cerr, serr>>
C2P_Detail == /\ pc = "c2p" /\ i <= Len(cerr.details)          \* TypeUrl: DefaultAnyResolverPrefix + detail.Type()
              /\ perr' = [perr EXCEPT !.details = Append(@, [pfx |-> StdPfx, type |-> cerr.details[i].type, val |-> cerr.details[i].val])]
              /\ i' = i + 1 /\ UNCHANGED <<route, e, pc, cerr, serr>>
C2P_Ret    == /\ pc = "c2p" /\ i > Len(cerr.details)
              /\ perr' = IF route = "connect" THEN perr ELSE [kind |-> "err", err |-> perr]
              /\ pc' = "done" /\ UNCHANGED <<route, e, i, cerr, serr>>

(* ---------------- ConvertProtoToGrpcError / ConvertGrpcToProtoError ---------------- *)
P2G == /\ route = "grpc" /\ pc = "start"                       \* status.ErrorProto(&Status{code, message, details})
       /\ serr' = [code |-> e.code, msg |-> MsgText(e.msg), details |-> e.details]
       /\ pc' = "have-status" /\ UNCHANGED <<route, e, i, cerr, perr>>
G2P == /\ pc = "have-status"                                   \* status.FromError: Code(), Message(), Proto().Details
       /\ perr' = [code |-> serr.code, msg |-> serr.msg, details |-> serr.details]
       /\ pc' = "done" /\ UNCHANGED <<route, e, i, cerr, serr>>
G2P_Plain == /\ route = "grpc-plain" /\ pc = "start"           \* not a status error: Unknown + text
             /\ perr' = [code |-> 2, msg |-> MsgText(e.msg), details |-> <<>>]
             /\ pc' = "done" /\ UNCHANGED <<route, e, i, cerr, serr>>

Next == P2C_New \/ P2C_Detail \/ P2C_Ret \/ GoErr_Make \/ GoErr_Nil \/ GoErr_NotAs \/ GoErr_As
        \/ C2P_New \/ C2P_Detail \/ C2P_Ret \/ P2G \/ G2P \/ G2P_Plain
Spec == Init /\ [][Next]_vars /\ WF_vars(Next)

(* ------------------------------ properties ------------------------------ *)
GoErrOf(r) == CASE r = "goerr-nil"     -> [kind |-> "nil"]
                [] r = "goerr-plain"   -> [kind |-> "plain", msg |-> MsgText(e.msg)]
                [] r = "goerr-connect" -> [kind |-> "connect", c |-> ToConnect(e)]
                [] r = "goerr-wrapped" -> [kind |-> "wrapped", c |-> ToConnect(e)]

Agrees == (pc = "done") =>
  CASE route = "connect"    -> cerr = ToConnect(e) /\ perr = FromConnect(ToConnect(e))
    [] route = "grpc"       -> serr = ToStatus(e) /\ perr = FromStatus(ToStatus(e))
    [] route = "grpc-plain" -> perr = FromPlainGrpc(MsgText(e.msg))
    [] OTHER                -> perr = FromGoError(GoErrOf(route))

Laws == (pc = "done") =>
  /\ (route = "connect") =>
       /\ perr = NormPfx(NormMsg(e))                   \* only presence and URL prefix are normalised
       /\ Essence(perr) = Essence(e)                   \* code, message, every detail (type, bytes), in order
       /\ ToConnect(perr) = cerr                       \* and the Connect form is a fixed point
  /\ (route = "grpc") =>
       /\ perr = NormMsg(e)                            \* the status route keeps the type URL as is
       /\ Essence(perr) = Essence(e)
       /\ ToStatus(perr) = serr
  /\ (route \in {"goerr-connect", "goerr-wrapped"}) => Essence(perr.err) = Essence(e)
  /\ (route \in {"goerr-plain", "grpc-plain"}) =>
       LET p == IF route = "grpc-plain" THEN perr ELSE perr.err IN p.code = 2 /\ p.msg = MsgText(e.msg) /\ p.details = <<>>

TypeOK == pc \in {"start", "p2c", "goerr", "have-connect", "c2p", "have-status", "done"} /\ i <= MaxDetails + 1
Terminates == <>(pc = "done")
=============================================================================
