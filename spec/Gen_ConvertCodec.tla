-------------------------- MODULE Gen_ConvertCodec --------------------------
(* Behaviour generator for the codec part of C18: every (codec, message shape, injection) with
   the verdict the declarative Unmarshal requires. *)
EXTENDS ConvertCodec, Json

Emit == (pc = "done") =>
          PrintT("SCN " \o ToJson([area |-> "codec", codec |-> c, inj |-> inj, wire |-> wire.body,
                                   exp |-> Unmarshal(c, wire).r]))
=============================================================================
