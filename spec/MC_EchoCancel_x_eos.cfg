CONSTANTS
  STs = {"client", "half", "full"}
  MaxReqs = 2
  MaxResp = 3
  RDs = {0, 2}
  QDs = {0, 2}
  CloseAs = {0, 1, 3}
  Timeouts = {1, 3, 5, 99}
  EosAnyway = TRUE
SPECIFICATION Spec
INVARIANTS TypeOK Sound
