----------------------------- MODULE Gen_Runner -----------------------------
(* scenario space of the end-to-end runs for C05: which configuration (instance mix), which slice
   of the embedded corpus, how many server slots, client parallelism, and whether every server of
   the run fails to start. *)
EXTENDS Naturals, Sequences, TLC, Json
Configs == {"h1-connect", "h1h2c-all", "tls-mix", "tls-certs", "tls-one-cert-instance"}   \* (the last: exactly one instance with client certificates)
Slices  == {"basic", "basic-unary", "errors-skip-stream", "two-suites", "client-certs"}
\* how the server under test behaves: answers and stops at once / takes a while to end after SIGTERM /
\* exits before answering / answers with garbage and takes a while to end
SrvFaults == {"none:0", "none:350", "failstart:1", "garbage:350"}
Scenarios == [config : Configs, slice : Slices, maxServers : 1..4, par : {1, 4, 16}, srvFault : SrvFaults]
VARIABLE s
Init == s \in Scenarios
Next == FALSE /\ s' = s
Emit == PrintT("SCN " \o ToJson(s))
=============================================================================
