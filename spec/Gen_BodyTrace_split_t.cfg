CONSTANTS
  FlagSet = {0, 2, 3}
  LenSet = {0, 1, 2}
  PcSet = {"plain", "comp"}
  EncSet = {"real"}
  HdrMode = "connect"
  SideSet = {"req", "resp"}
  EndSet = {"eof", "err", "close"}
  MaxEnvs = 2
  MaxTotal = 11
  ChunkSet = {1, 2, 3, 4, 5, 6, 7, 8, 9, 10, 11, 12, 13, 14, 15, 16}
  MaxPost = 0
  MaxOther = 0
  Grain = "call"
  ConsultBit = TRUE
  KeepHist = TRUE
INIT Init
NEXT Next
INVARIANTS Agrees Emit
