------------------------------- MODULE Runner -------------------------------
(* C05 - the runner's scheduling of server batches for one client.

   The plan is a sequence of batches; batch b = [inst, cases] where inst identifies the server
   instance (protocol, HTTP version, TLS, client certificates) and cases is the set of selected
   permutation names to be run against it.  At most MaxServers batches hold a server slot at
   any time.  Per batch:  Acquire -> Spawn -> (Up | StartFailed) -> Send* -> Stop -> Release.

   Observable events (logged by the wrapped peers through one sequencer): Up (the server has
   answered the runner with its address), Send (the client received a request), Stop (the
   server was told to stop).  Everything else is internal. *)
EXTENDS Naturals, Sequences, FiniteSets, TLC

CONSTANTS Plan, MaxServers
Batches == DOMAIN Plan
AllCases == UNION {Plan[b].cases : b \in Batches}

VARIABLES srv, addr, sem, sent, setupFailed, nextAddr, finished,
          proc     \* proc[b]: the server process of batch b: "none" (not started), "alive", "gone"
vars == <<srv, addr, sem, sent, setupFailed, nextAddr, finished, proc>>

Init == /\ srv = [b \in Batches |-> "idle"] /\ addr = [b \in Batches |-> 0]
        /\ sem = 0 /\ sent = {} /\ setupFailed = {} /\ nextAddr = 1 /\ finished = FALSE
        /\ proc = [b \in Batches |-> "none"]

Acquire(b) == /\ srv[b] = "idle" /\ sem < MaxServers /\ ~finished
              /\ \A c \in Batches : c < b => srv[c] # "idle"          \* batches are started in plan order
              /\ srv' = [srv EXCEPT ![b] = "acquired"] /\ sem' = sem + 1
              /\ UNCHANGED <<addr, sent, setupFailed, nextAddr, finished, proc>>
\* OBSERVABLE: the server process of batch b exists
Started(b) == /\ srv[b] = "acquired" /\ proc[b] = "none"
              /\ proc' = [proc EXCEPT ![b] = "alive"]
              /\ UNCHANGED <<srv, addr, sem, sent, setupFailed, nextAddr, finished>>
\* OBSERVABLE: the server process of batch b is gone
Gone(b) == /\ proc[b] = "alive"
           /\ proc' = [proc EXCEPT ![b] = "gone"]
           /\ UNCHANGED <<srv, addr, sem, sent, setupFailed, nextAddr, finished>>
\* OBSERVABLE: the server is up at a fresh address
Up(b, a) == /\ srv[b] = "acquired" /\ proc[b] = "alive" /\ a \notin {addr[c] : c \in {d \in Batches : srv[d] = "up"}}
            /\ srv' = [srv EXCEPT ![b] = "up"] /\ addr' = [addr EXCEPT ![b] = a]
            /\ UNCHANGED <<sem, sent, setupFailed, nextAddr, finished, proc>>
StartFailed(b) == /\ srv[b] = "acquired"
                  /\ srv' = [srv EXCEPT ![b] = "stopped"] /\ setupFailed' = setupFailed \cup Plan[b].cases
                  /\ UNCHANGED <<addr, sem, sent, nextAddr, finished, proc>>
\* OBSERVABLE: the client receives permutation n, completed with address a, described as instance i
Send(b, n, a, i) == /\ srv[b] = "up" /\ n \in Plan[b].cases /\ n \notin sent /\ n \notin setupFailed
                    /\ a = addr[b] /\ i = Plan[b].inst
                    /\ sent' = sent \cup {n}
                    /\ UNCHANGED <<srv, addr, sem, setupFailed, nextAddr, finished, proc>>
\* OBSERVABLE: the server at address a is told to stop
Stop(b) == /\ srv[b] = "up" /\ Plan[b].cases \subseteq sent \cup setupFailed
           /\ srv' = [srv EXCEPT ![b] = "stopped"]
           /\ UNCHANGED <<addr, sem, sent, setupFailed, nextAddr, finished, proc>>
\* the server died or the client refused further requests: the unsent rest of the batch is failed
Abandon(b) == /\ srv[b] = "up" /\ ~(Plan[b].cases \subseteq sent \cup setupFailed)
              /\ setupFailed' = setupFailed \cup (Plan[b].cases \ sent)
              /\ UNCHANGED <<srv, addr, sem, sent, nextAddr, finished, proc>>
\* the slot is given back only when the process is gone (or never existed)
Release(b) == /\ srv[b] = "stopped" /\ proc[b] # "alive"
              /\ srv' = [srv EXCEPT ![b] = "released"] /\ sem' = sem - 1
              /\ UNCHANGED <<addr, sent, setupFailed, nextAddr, finished, proc>>
Finish == /\ ~finished /\ \A b \in Batches : srv[b] = "released"
          /\ finished' = TRUE
          /\ UNCHANGED <<srv, addr, sem, sent, setupFailed, nextAddr, proc>>

Internal == \E b \in Batches : Acquire(b) \/ StartFailed(b) \/ Abandon(b) \/ Release(b)
Next == Internal \/ Finish
        \/ \E b \in Batches : Stop(b) \/ Started(b) \/ Gone(b) \/ (\E a \in 1..Cardinality(Batches) : Up(b, a))
                              \/ (\E n \in Plan[b].cases : Send(b, n, addr[b], Plan[b].inst))
Spec == Init /\ [][Next]_vars /\ WF_vars(Next)
\* (Started is optional in the design check: a start failure may happen before any process exists)

AliveBound == /\ Cardinality({b \in Batches : srv[b] \in {"acquired", "up", "stopped"}}) <= MaxServers /\ sem <= MaxServers
              /\ Cardinality({b \in Batches : proc[b] = "alive"}) <= MaxServers      \* server PROCESSES alive at once
NoneLeftRunning == finished => \A b \in Batches : proc[b] # "alive"
AtMostOnce == sent \cap setupFailed = {}
Complete == finished => (sent \cup setupFailed = AllCases /\ \A b \in Batches : srv[b] = "released")
DistinctAddrs == \A b, c \in Batches : (b # c /\ srv[b] = "up" /\ srv[c] = "up") => addr[b] # addr[c]
Terminates == <>finished
=============================================================================
