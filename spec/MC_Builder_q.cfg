CONSTANTS
  MaxOps = 5
  KeepHist = FALSE
INIT Init
NEXT Next
INVARIANTS AtMostOnce Agrees NoEventAfterFinish
