CONSTANTS
  FlagSet = {0, 2}
  LenSet = {0, 1}
  PcSet = {"plain", "comp"}
  EncSet = {"real"}
  HdrMode = "connect"
  SideSet = {"resp"}
  EndSet = {"eof", "err", "close"}
  MaxEnvs = 3
  MaxTotal = 18
  ChunkSet = {1, 2, 3, 4, 5, 6, 7, 8, 9, 10, 11, 12, 13, 14, 15, 16, 17, 18}
  MaxPost = 0
  MaxOther = 1
  Grain = "loop"
  ConsultBit = TRUE
  KeepHist = FALSE
INIT Init
NEXT Next
VIEW ViewNoHist
INVARIANTS TypeOK Agrees Eager Bookkeeping Consecutive EndsOnce Transparent NoCorrupt
PROPERTIES OutGrows
