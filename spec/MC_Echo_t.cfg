CONSTANTS
  STs = {"unary", "client", "server", "half", "full"}
  MaxReqs = 3
  MaxResp = 3
  ReqHdrNames = {"none", "mixed", "multi"}
  HdrNames = {"none", "rep", "bin", "multi", "shared"}
  ErrNames = {"none", "code", "msg", "full"}
  DataVariants = {"plain", "e1", "eL"}
  Decoys = {"none", "def", "flag", "both"}
  WFOnly = TRUE
SPECIFICATION Spec
INVARIANTS TypeOK Agrees ThreeWayInv ThreeWayDecl Progress OrderFull OrderHalf OneInFlight Unread
PROPERTIES Termination Monotone NoReceiveAfterEnd
