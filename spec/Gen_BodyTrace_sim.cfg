CONSTANTS
  FlagSet = {0, 1, 2, 3, 128, 129, 130, 4, 255}
  LenSet = {0, 1, 2, 3, 5}
  PcSet = {"plain", "comp", "compEmpty", "garbage"}
  EncSet = {"none", "identity", "real", "unknown"}
  HdrMode = "mixed"
  SideSet = {"req", "resp"}
  EndSet = {"eof", "err", "close", "closeerr"}
  MaxEnvs = 5
  MaxTotal = 45
  ChunkSet = {1, 2, 3, 4, 5, 6, 7, 9, 12, 20}
  MaxPost = 2
  MaxOther = 2
  Grain = "call"
  ConsultBit = TRUE
  KeepHist = TRUE
INIT Init
NEXT Next
INVARIANTS Agrees Emit
