------------------------------ MODULE Gen_Glob ------------------------------
(* Scenario generator for C08 (matching, selection, marking, unmatched report, ambiguity).
   Every scenario is printed together with what the DECLARATIVE definitions of GlobDecl require
   for it; the Go harness replays it on the real prefix tree / filter / Run and compares.

   Family   domain (exhaustive unless said otherwise)                       printed
   "pair"   every pattern up to MaxPat components                           the names (up to MaxName) it matches
   "set"    every list of 1..MaxSet patterns x every name set of NameFam    matched names, truly unmatched,
                                                                            possibly shadowed, first-hit report
   "filter" every (run, skip) of at most one pattern each (incl. none)      selected names
   "amb"    every (known-failing, known-flaky) of one pattern each          ambiguous names, reports
   "combo"  random (TLC -seed): SimSets random name sets x SimSets random   everything
            lists for each of run / skip / known-failing / known-flaky
            (each list also empty), up to MaxSet-ish patterns of up to
            MaxPat components over a larger alphabet                                                      *)
EXTENDS GlobDecl, TLC, Json, Randomization

CONSTANTS Family, Lits, MaxPat, MinName, MaxName, MaxSet, SimNames, SimSets

VARIABLE scn
PatComps == Lits \cup {Star, DStar}
SeqsBetween(S, lo, hi) == UNION {[1..m -> S] : m \in lo..hi}
Patterns == SeqsBetween(PatComps, 1, MaxPat)
Names    == SeqsBetween(Lits, MinName, MaxName)

PatSets1 == {{p} : p \in Patterns}
PatSets == PatSets1
             \cup (IF MaxSet >= 2 THEN {{p, q} : p \in Patterns, q \in Patterns} ELSE {})
             \cup (IF MaxSet >= 3 THEN {{p, q, r} : p \in Patterns, q \in Patterns, r \in Patterns} ELSE {})

\* name sets against which a list is validated: every single name (sharpest for "unmatched"),
\* all names, the names of one length, the names that start like the first literal
NameFam == {{n} : n \in Names} \cup {Names}
             \cup {{n \in Names : Len(n) = k} : k \in MinName..MaxName}
             \cup {{n \in Names : n[1] = l} : l \in Lits}

\* an operator with a parameter is re-evaluated at every use: the four lists draw independently
RandomLists(tag) == RandomSetOfSubsets(SimSets, MaxSet, Patterns) \cup {{}}

Combo(N, R, S, F, K) == [fam |-> "combo", names |-> N, run |-> R, skip |-> S, failing |-> F, flaky |-> K]

Init ==
  \/ Family = "pair"   /\ scn \in {[fam |-> "pair", p |-> p] : p \in Patterns}
  \/ Family = "set"    /\ scn \in {[fam |-> "set", pats |-> P, names |-> N] : P \in PatSets, N \in NameFam}
  \/ Family = "filter" /\ scn \in {Combo(Names, R, S, {}, {}) : R \in PatSets1 \cup {{}}, S \in PatSets1 \cup {{}}}
  \/ Family = "amb"    /\ scn \in {Combo(N, {}, {}, F, K) : N \in {Names} \cup {{n} : n \in Names}, F \in PatSets1, K \in PatSets1}
  \/ Family = "combo"  /\ scn \in {Combo(N, R, S, F, K) : N \in RandomSetOfSubsets(SimSets, SimNames, Names) \ {{}},
                                                             R \in RandomLists(1), S \in RandomLists(2),
                                                             F \in RandomLists(3), K \in RandomLists(4)}

Next == UNCHANGED scn

(* ------------------------------ what the specification requires ------------------------------ *)
ExpPair(s) == [matched |-> {n \in Names : Match(s.p, n)}, maxName |-> MaxName, lits |-> Lits]

ExpSet(s) == [matched |-> MarkedSet(s.names, s.pats),
              tu      |-> TrulyUnmatched(s.pats, s.names),
              sh      |-> AsImplemented_MaybeShadowed(s.pats, s.names),
              first   |-> AsImplemented_Reported(s.pats, s.names)]

ExpList(P, N) == [tu |-> TrulyUnmatched(P, N), sh |-> AsImplemented_MaybeShadowed(P, N),
                  first |-> AsImplemented_Reported(P, N), marked |-> MarkedSet(N, P)]

ExpCombo(s) == [sel     |-> SelectedSet(s.names, s.run, s.skip),
                run     |-> ExpList(s.run, s.names),
                skip    |-> ExpList(s.skip, s.names),
                failing |-> ExpList(s.failing, s.names),
                flaky   |-> ExpList(s.flaky, s.names),
                amb     |-> Ambiguous(s.names, s.failing, s.flaky)]

Exp(s) == CASE s.fam = "pair" -> ExpPair(s) [] s.fam = "set" -> ExpSet(s) [] OTHER -> ExpCombo(s)

Emit == PrintT("SCN " \o ToJson([scn |-> scn, exp |-> Exp(scn)]))
=============================================================================
