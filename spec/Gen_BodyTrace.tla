---------------------------- MODULE Gen_BodyTrace ----------------------------
(* Behaviour generator for C14: every finished behaviour of the machine (Grain = "call": one step
   per Read/Write/Close call, so a behaviour IS a way of splitting the body across calls) prints
   the scenario, the calls that were made and the events the declarative definition requires.
   Used exhaustively (all splittings of short bodies; all flag/encoding/header combinations with
   few splittings) and under -simulate (longer bodies). *)
EXTENDS BodyTrace, Json

Emit == (pc = "done") =>
          PrintT("SCN " \o ToJson([body |-> body, avail |-> avail, end |-> end, side |-> side, hdr |-> hdr,
                                   calls |-> hist, exp |-> Events(body, avail, end, side, hdr),
                                   expNoBit |-> EventsIgnoringBit(body, avail, end, side, hdr)]))
=============================================================================
