CONSTANTS
  MaxLen = 3
  MaxDigits = 12
INIT TInit
NEXT TNext
INVARIANTS TimeoutLaws DurationMonotone DecNatSane
