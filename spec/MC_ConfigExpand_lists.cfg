\* design check with entries: <= 2 includes and <= 1 exclude from a 10-entry mixed pool x 3 version sets x 4 flag seeds; all laws
CONSTANTS
  NZ = 2
  AxisVs <- ListVs
  AxisPs = {{}}
  AxisCs = {{}}
  AxisZs = {{}}
  AxisSs = {{}}
  TriH2c = {"unset", "false"}
  TriTls = {"unset", "false"}
  TriCerts = {"unset"}
  TriTrailers = {"unset"}
  TriHdh1 = {"unset"}
  TriGet = {"unset"}
  TriLim = {"unset"}
  EntryPool <- EntryTenPool
  MaxInc = 2
  MaxExc = 1
INIT Init
NEXT Next
VIEW View
INVARIANTS TypeOK Agrees Exact ResolveAgrees AccInv AllPossible CodeInjective MustImpliesEmpty Monotone IncludeThenExclude WildcardEntryIsFeatures
