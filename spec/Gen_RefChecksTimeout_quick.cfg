CONSTANTS
  MaxLen = 3
  MaxDigits = 12
INIT Init
NEXT Next
INVARIANTS OnlyTimeout Emit
