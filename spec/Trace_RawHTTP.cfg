CONSTANTS
  Proto = "h1"
  Alphabet = "full"
INIT TraceInit
NEXT TraceNext
INVARIANT Consumed
