CONSTANTS
  MaxArgs = 4
  MaxLines = 2
INIT Init
NEXT Next
INVARIANTS DoneAgrees Emit
