CONSTANTS
  Sides = {"server"}
  MaxSid = 3
  MaxFrames = 5
  MinFrames = 0
  Names = {"a"}
  BodyPlans <- PlansTiny
  DataCuts = {3}
  Conts = {0, 1}
  MaxOther = 0
  MaxGoAway = 1
  AllowUnnamed = TRUE
  AllowReqTrailers = FALSE
  AllowClientGoAway = TRUE
  AllowTimer = TRUE
  AllowEarlyEnd = FALSE
  MaxCall = 4
  FrameAligned = TRUE
  MaxAhead = 1
  MaxTimeouts = 0
  EndKinds = {"close"}
  KeepCalls = FALSE
  Variant = "intended"
INIT Init
NEXT Next
VIEW ViewNoCalls
INVARIANTS TypeOK Agrees Reassembly EnvWellFormed NeverBroken HpackInSync Transparent EachNamedStreamOnce StreamsAgree
