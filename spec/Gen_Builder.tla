----------------------------- MODULE Gen_Builder -----------------------------
(* all operation sequences of length MaxOps with the delivery the specification requires after
   each prefix length (the replayer checks every prefix) *)
EXTENDS BuilderDecl, Json, TLC
CONSTANTS MaxOps
VARIABLES ops, named
Init == ops = <<>> /\ named \in BOOLEAN
Next == Len(ops) < MaxOps /\ \E k \in OpKinds : ops' = Append(ops, k) /\ named' = named
Emit == (Len(ops) = MaxOps) =>
          PrintT("SCN " \o ToJson([ops |-> ops, named |-> named,
                                   exp |-> [j \in 1..Len(ops) |-> Delivered(SubSeq(ops, 1, j), named)]]))
=============================================================================
