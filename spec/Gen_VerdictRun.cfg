CONSTANTS
  Ns = {3}
INIT Init
NEXT Next
INVARIANT Emit
