CONSTANTS
  P = 2
  N = 4
  KeepHist = FALSE
SPECIFICATION Spec
INVARIANTS InFlight ReadAhead EncMutex ExactlyOnce FailureIsReported
PROPERTIES NoSpawnAfterFailureSeen Terminates
