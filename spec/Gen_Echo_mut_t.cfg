CONSTANTS
  STs = {"unary", "client", "server", "half", "full"}
  MaxReqs = 3
  MaxResp = 2
  ReqHdrNames = {"plain"}
  HdrNames = {"none", "plain"}
  ErrNames = {"none", "code", "full"}
  DataVariants = {"plain"}
  Decoys = {"none", "both"}
  WFOnly = FALSE
  MutKinds = {"none", "mtSame", "mtOther", "mtOtherNoDef", "mtNon", "mtLater", "noRequest"}
INIT GenInit
NEXT GenNext
INVARIANTS Emit Sound
