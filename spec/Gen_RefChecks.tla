---------------------------- MODULE Gen_RefChecks ----------------------------
(* C12 behaviour generator: behaviours of the machine RefChecks with several requests served by
   one middleware instance, under Coarse scheduling (a request's checks run while the others are
   idle, parked inside the inner handler, or finished - the interleavings a harness can enforce
   by starting requests one after the other and blocking them inside the inner handler).
   Every terminal state prints the requests, the script of start/release events that led there
   and, per request, the outcome RefChecksDecl!Outcome requires (rank = position among the
   requests with the same test name in the order of their Count steps). *)
EXTENDS RefChecks, Json

WireJ(w) == w @@ [ct |-> CtString(w.fam, w.sub)]
ReqJ(r) == [name |-> rq[r].name, e |-> rq[r].e, x |-> ExpectHeaders(rq[r].e), w |-> WireJ(rq[r].w),
            ctm |-> rq[r].ctm, gtm |-> rq[r].gtm]
ExpJ(r) == ExpJson(rq[r], Rank(r))

Emit == AllDone =>
          PrintT("SCN " \o ToJson(
            [kind |-> "script", pre |-> 0, script |-> hist,
             reqs |-> [r \in Reqs |-> ReqJ(r)], exp |-> [r \in Reqs |-> ExpJ(r)],
             key |-> [diff |-> {}, wellformed |-> TRUE]]))
=============================================================================
