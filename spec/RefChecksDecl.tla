---------------------------- MODULE RefChecksDecl ----------------------------
(* C12 - declarative meaning of "the reference server flags exactly the requests that deviate
   from the test setup".  Constant-level only; shared by the machine (RefChecks), the generators
   (the Gen_RefChecks modules) and the acceptor of recorded executions (Trace_RefChecks).

   Three layers:
   1. ASPECTS.  The runner announces what it expects as a tuple E (HTTP version, method, protocol,
      codec, compression, TLS, client certificate); a client acts according to a tuple A.
      Diff(E, A) is the set of aspect classes in which the two differ.
   2. WIRE.  What the server receives is not A but an HTTP request.  Render(A, v) builds it by the
      protocols' own rules (content-type family and "+codec" suffix, encoding/compression query
      parameters for Connect GET, Content-Encoding / Connect-Content-Encoding / Grpc-Encoding,
      "TE: trailers" for gRPC); v selects between equivalent spellings (bare application/grpc,
      explicit "identity", unary/streaming Connect) and adds decoys (encoding headers and query
      parameters that the protocol in use does not look at).  Observe reads the aspects back.
      Feedback(E, w) is defined on the wire.  The theorems that tie it to layer 1 are checked by
      TLC in RefChecksLaws.tla (RoundTrip, ExactOnWellFormed, EveryDifferenceFlagged).
   3. TIMEOUT.  Grammar of Connect-Timeout-Ms and Grpc-Timeout on character sequences, the exact
      duration on decimal digit sequences (saturating at 2^63-1 ns), and what must be true of the
      header, the context and the echoed timeout_ms afterwards. *)
EXTENDS RefChecksDecNat, FiniteSets, TLC

(* ------------------------------------------------------------------ aspects *)
Versions     == 1..3
Methods      == {"GET", "POST"}
Protocols    == 1..3            \* conformancev1.Protocol: 1 Connect, 2 gRPC, 3 gRPC-Web
Codecs       == 1..2            \* 1 proto, 2 json
Compressions == 1..6            \* identity gzip br zstd deflate snappy (conformancev1.Compression)

ProtoName == <<"PROTOCOL_CONNECT", "PROTOCOL_GRPC", "PROTOCOL_GRPC_WEB">>
CodecName == <<"proto", "json">>
CompName  == <<"identity", "gzip", "br", "zstd", "deflate", "snappy">>
ClientCertName == "Conformance Client"          \* internal.ClientCertName
OtherCertName  == "Somebody Else"

Tuples == [ver : Versions, method : Methods, proto : Protocols, codec : Codecs,
           comp : Compressions, tls : BOOLEAN, cert : BOOLEAN]

\* TLS / client certificate is ONE aspect with three values; a certificate without TLS does not exist
TlsUse(t) == IF ~t.tls THEN "plain" ELSE IF t.cert THEN "mtls" ELSE "tls"

Cond(b, x) == IF b THEN {x} ELSE {}

Diff(E, A) ==
     Cond(E.ver # A.ver, "version") \cup Cond(E.method # A.method, "method")
\cup Cond(E.proto # A.proto, "protocol") \cup Cond(E.codec # A.codec, "codec")
\cup Cond(E.comp # A.comp, "compression")
\cup Cond(E.tls # A.tls, "tls") \cup Cond(E.tls /\ A.tls /\ E.cert # A.cert, "cert")

\* numeric position of a tuple (used for sharding and for pseudo-random variant choice)
TupleIndex(t) == ((((((t.ver - 1) * 2 + (IF t.method = "GET" THEN 0 ELSE 1)) * 3 + (t.proto - 1)) * 2
                   + (t.codec - 1)) * 6 + (t.comp - 1)) * 2 + (IF t.tls THEN 1 ELSE 0)) * 2
                 + (IF t.cert THEN 1 ELSE 0)

\* the x-expect-* headers the runner adds for E (server_runner.go); "none" = header not sent
ExpectHeaders(E) ==
  [version |-> ToString(E.ver), method |-> E.method, protocol |-> ToString(E.proto),
   codec |-> ToString(E.codec), compression |-> ToString(E.comp),
   tls |-> IF E.tls THEN "true" ELSE "false",
   cert |-> IF E.cert THEN ClientCertName ELSE "none"]

(* --------------------------------------------------------------------- wire *)
None == "none"      \* header / parameter not present

Fams == {"none", "grpc", "grpc-web", "connect-stream", "connect-unary"}

\* the Content-Type header for a family and a sub-format ("" = no header)
CtString(fam, sub) ==
  LET suffix == IF sub = None THEN "" ELSE "+" \o sub
  IN CASE fam = "none"           -> ""
       [] fam = "grpc"           -> "application/grpc" \o suffix
       [] fam = "grpc-web"       -> "application/grpc-web" \o suffix
       [] fam = "connect-stream" -> "application/connect+" \o sub
       [] fam = "connect-unary"  -> "application/" \o sub

Variants == [stream : BOOLEAN,      \* Connect POST: streaming content type instead of unary
             bare : BOOLEAN,        \* gRPC(-Web) with proto: "application/grpc" without "+proto"
             explicitId : BOOLEAN,  \* identity spelled out instead of leaving the header away
             decoy : BOOLEAN,       \* headers/parameters of OTHER protocols carry other values
             noTe : BOOLEAN]        \* gRPC without "TE: trailers"
Plain == [stream |-> FALSE, bare |-> FALSE, explicitId |-> FALSE, decoy |-> FALSE, noTe |-> FALSE]

\* the variants that make a difference for A (the others would render the same request twice)
VariantsFor(A) == {v \in Variants :
                     /\ v.stream => (A.proto = 1 /\ A.method = "POST")
                     /\ v.bare => (A.proto # 1 /\ A.codec = 1)
                     /\ v.explicitId => A.comp = 1
                     /\ v.noTe => A.proto = 2}

\* only Connect (unary) has a GET form; gRPC requires TE: trailers
WellFormed(A, v) == (A.method = "GET" => A.proto = 1) /\ ~v.noTe

Render(A, v) ==
  LET get  == A.method = "GET"
      cn   == CodecName[A.codec]
      encv == IF A.comp = 1 /\ ~v.explicitId THEN None ELSE CompName[A.comp]
      dec  == IF v.decoy THEN CompName[(A.comp % 6) + 1] ELSE None
      fam  == CASE A.proto = 2 -> "grpc"
                [] A.proto = 3 -> "grpc-web"
                [] A.proto = 1 -> IF get THEN "none" ELSE IF v.stream THEN "connect-stream" ELSE "connect-unary"
      sub  == IF fam = "none" THEN None ELSE IF A.proto # 1 /\ A.codec = 1 /\ v.bare THEN None ELSE cn
      inQ  == get /\ A.proto = 1          \* codec and compression travel in the query string
  IN [major |-> A.ver, method |-> A.method, fam |-> fam, sub |-> sub,
      te |-> IF A.proto = 2 THEN ~v.noTe ELSE v.decoy,
      ce  |-> IF fam = "connect-unary" THEN encv ELSE dec,
      cce |-> IF fam = "connect-stream" THEN encv ELSE dec,
      ge  |-> IF fam \in {"grpc", "grpc-web"} THEN encv ELSE dec,
      qenc  |-> IF inQ THEN cn ELSE IF v.decoy THEN CodecName[3 - A.codec] ELSE None,
      qcomp |-> IF inQ THEN encv ELSE dec,
      body |-> ~get, tls |-> A.tls,
      peer |-> IF A.tls /\ A.cert THEN "ok" ELSE "none",
      trailers |-> 0]

(* what a server can read back from a request, by the protocols' rules *)
ObsProto(w) == CASE w.fam = "grpc" -> 2
                 [] w.fam = "grpc-web" -> 3
                 [] w.fam \in {"connect-stream", "connect-unary"} -> 1
                 [] OTHER -> IF w.method = "GET" THEN 1 ELSE 0        \* 0: cannot be determined
ObsCodec(w) == IF w.method = "GET" THEN (IF w.qenc = None THEN "missing" ELSE w.qenc)
               ELSE IF w.fam = "none" THEN "undetermined"
               ELSE IF w.sub = None THEN "proto" ELSE w.sub
ObsComp(w)  == LET h == IF w.method = "GET" THEN w.qcomp
                        ELSE CASE w.fam \in {"grpc", "grpc-web"} -> w.ge
                               [] w.fam = "connect-stream" -> w.cce
                               [] w.fam = "connect-unary" -> w.ce
                               [] OTHER -> "undetermined"
               IN IF h = None THEN "identity" ELSE h
PeerName(w) == CASE w.peer = "ok" -> ClientCertName [] w.peer = "other" -> OtherCertName [] OTHER -> ""

\* Observe(Render(A, v)) = A for well-formed (A, v): theorem RoundTrip in RefChecksLaws.tla
ObserveMatches(w, A) ==
  /\ w.major = A.ver /\ w.method = A.method /\ ObsProto(w) = A.proto
  /\ ObsCodec(w) = CodecName[A.codec] /\ ObsComp(w) = CompName[A.comp]
  /\ w.tls = A.tls /\ (w.tls => (w.peer = "ok") = A.cert)

(* ----------------------------------------------------------------- feedback *)
\* one feedback line = class + detail; the test name prefix is common to all of them
It(c, d) == [c |-> c, d |-> d]
ItemStr(i) == IF i.d = "" THEN i.c ELSE i.c \o "|" \o i.d
Classes(F) == {i.c : i \in F}

FbVersion(E, w)  == Cond(E.ver # w.major, It("version", ToString(E.ver) \o "|" \o ToString(w.major)))
FbMethod(E, w)   == Cond(E.method # w.method, It("method", E.method \o "|" \o w.method))
FbProtocol(E, w) ==
  LET o == ObsProto(w)
  IN IF o = 0 THEN {It("protocol", "?")}
     ELSE IF o # E.proto THEN {It("protocol", ProtoName[E.proto] \o "|" \o ProtoName[o])}
     ELSE Cond(o = 2 /\ ~w.te, It("te", ""))
FbCodec(E, w) ==
  LET o == ObsCodec(w)  get == w.method = "GET"
  IN      Cond(get /\ w.fam # "none", It("getshape", "ctype"))
     \cup Cond(get /\ w.body, It("getshape", "body"))
     \cup (IF o = "missing" THEN {It("codec", "missing")}
           ELSE IF o = "undetermined" THEN {}
           ELSE Cond(o # CodecName[E.codec], It("codec", CodecName[E.codec] \o "|" \o o)))
FbCompression(E, w) ==
  LET o == ObsComp(w)
  IN IF o = "undetermined" THEN {}
     ELSE Cond(o # CompName[E.comp], It("compression", CompName[E.comp] \o "|" \o o))
FbTls(E, w) ==
  IF E.tls # w.tls THEN {It("tls", IF E.tls THEN "tls|plain" ELSE "plain|tls")}
  ELSE IF ~w.tls THEN {}
  ELSE LET want == IF E.cert THEN ClientCertName ELSE ""
       IN Cond(want # PeerName(w), It("cert", want \o "|" \o PeerName(w)))
FbTrailers(w) == Cond(w.trailers > 0, It("trailers", ToString(w.trailers)))

Feedback(E, w) == FbVersion(E, w) \cup FbMethod(E, w) \cup FbProtocol(E, w) \cup FbCodec(E, w)
                  \cup FbCompression(E, w) \cup FbTls(E, w) \cup FbTrailers(w)

\* the k-th request that carries the same test name is a repetition
FbRepeat(k) == Cond(k > 1, It("repeat", ToString(k)))

(* ------------------------------------------------------------------ timeout *)
Units == {"H", "M", "S", "m", "u", "n"}
\* nanoseconds per unit = K * 10^Z
UnitK(u) == CASE u = "H" -> 36 [] u = "M" -> 6 [] OTHER -> 1
UnitZ(u) == CASE u = "H" -> 11 [] u = "M" -> 10 [] u = "S" -> 9 [] u = "m" -> 6 [] u = "u" -> 3 [] u = "n" -> 0

IsDigits(s) == \A i \in 1..Len(s) : s[i] \in DigitSet
ButLast(s) == SubSeq(s, 1, Len(s) - 1)

\* Connect:  Timeout-Milliseconds -> integer as ASCII string of at most 10 digits
GrammarConnect(s) == Len(s) \in 1..10 /\ IsDigits(s)
\* gRPC:     TimeoutValue TimeoutUnit, TimeoutValue -> integer as ASCII string of at most 8 digits
GrammarGrpc(s) == Len(s) \in 2..9 /\ s[Len(s)] \in Units /\ IsDigits(ButLast(s))

\* exact duration in ns, saturating at 2^63-1
DurNs(digs, k, z) == LET raw == Shift(Mul(digs, k), z) IN IF Cmp(raw, MaxInt64) > 0 THEN MaxInt64 ELSE raw
Saturates(digs, k, z) == Cmp(Shift(Mul(digs, k), z), MaxInt64) > 0

NoHdr == [p |-> FALSE, s |-> <<>>]
HdrOf(s) == [p |-> TRUE, s |-> s]

\* ep: protocol the runner expects (AsImplemented_TimeoutByExpectedProtocol: the header that is
\* examined is the one of the EXPECTED protocol; for a request of the expected protocol this is
\* the protocol's own header).  ctm / gtm: the Connect-Timeout-Ms / Grpc-Timeout headers sent.
TimeoutAccepts(ep, h) == h.p /\ (IF ep = 1 THEN GrammarConnect(h.s) ELSE GrammarGrpc(h.s))
TimeoutNs(ep, h) == IF ep = 1 THEN DurNs(ToDigits(h.s), 1, 6)
                    ELSE LET u == h.s[Len(h.s)] IN DurNs(ToDigits(ButLast(h.s)), UnitK(u), UnitZ(u))
TimeoutOutcome(ep, ctm, gtm) ==
  LET h  == IF ep = 1 THEN ctm ELSE gtm
      ok == TimeoutAccepts(ep, h)
  IN [fb    |-> Cond(h.p /\ ~ok, It("timeout", "")),
      ctx   |-> IF ok THEN DStr(TimeoutNs(ep, h)) ELSE None,              \* duration the handler's context carries
      ms    |-> IF ok THEN DStr(DivPow10(TimeoutNs(ep, h), 6)) ELSE None, \* echoed RequestInfo.timeout_ms
      seenC |-> ctm.p /\ ep # 1,      \* the examined header is removed (accepted or not),
      seenG |-> gtm.p /\ ep = 1]      \* the other one is not touched

(* the acceptance rule the code under test uses (strconv.ParseInt, then limits on the VALUE);
   DeviationShape names the strings on which it differs from the grammar - theorem
   DeviationCharacterised in RefChecksLaws.tla; the shape is part of every timeout scenario so a
   reported disagreement can be told apart from a different one. *)
SignedDigits(s) == Len(s) >= 2 /\ s[1] \in {"+", "-"} /\ IsDigits(Tail(s))
AsCoded_NumberOK(s, limit) ==
  \/ Len(s) >= 1 /\ IsDigits(s) /\ Len(Norm(ToDigits(s))) <= limit
  \/ SignedDigits(s) /\ Len(Norm(ToDigits(Tail(s)))) <= limit /\ (s[1] = "+" \/ IsZero(ToDigits(Tail(s))))
AsCoded_Accepts(ep, s) == IF ep = 1 THEN AsCoded_NumberOK(s, 10)
                          ELSE Len(s) >= 1 /\ s[Len(s)] \in Units /\ AsCoded_NumberOK(ButLast(s), 8)
NumberShape(s, limit) ==
  IF SignedDigits(s) /\ Len(Norm(ToDigits(Tail(s)))) <= limit
    THEN IF s[1] = "+" \/ IsZero(ToDigits(Tail(s))) THEN "signed_nonneg" ELSE "signed_neg"
  ELSE IF Len(s) > limit /\ IsDigits(s)
    THEN IF Len(Norm(ToDigits(s))) <= limit THEN "overlong_zero_padded" ELSE "overlong"
  ELSE "other"
DeviationShape(ep, s) ==
  IF ep = 1 THEN (IF GrammarConnect(s) THEN "grammatical" ELSE NumberShape(s, 10))
  ELSE IF GrammarGrpc(s) THEN "grammatical"
  ELSE IF Len(s) >= 1 /\ s[Len(s)] \in Units THEN NumberShape(ButLast(s), 8) ELSE "other"

(* ------------------------------------------------------------------ request *)
\* what must be observable of one request; k = its rank among the requests with the same test
\* name, in the order in which the server counted them
Outcome(req, k) ==
  IF req.name = ""
    THEN [rejected |-> TRUE, ran |-> FALSE, fb |-> {}, ctx |-> None, ms |-> None,
          seenC |-> FALSE, seenG |-> FALSE]
    ELSE LET t == TimeoutOutcome(req.e.proto, req.ctm, req.gtm)
         IN [rejected |-> FALSE, ran |-> TRUE,
             fb |-> Feedback(req.e, req.w) \cup t.fb \cup FbRepeat(k),
             ctx |-> t.ctx, ms |-> t.ms, seenC |-> t.seenC, seenG |-> t.seenG]

\* how the examined timeout header relates to the grammar ("absent": no header)
ShapeOf(req) == LET h == IF req.e.proto = 1 THEN req.ctm ELSE req.gtm
                IN IF req.name = "" \/ ~h.p THEN "absent" ELSE DeviationShape(req.e.proto, h.s)

\* the outcome as the generators print it (feedback items in their canonical text form)
ExpJson(req, k) == LET o == Outcome(req, k)
                   IN [rejected |-> o.rejected, ran |-> o.ran, fb |-> {ItemStr(i) : i \in o.fb},
                       ctx |-> o.ctx, ms |-> o.ms, seenC |-> o.seenC, seenG |-> o.seenG,
                       shape |-> ShapeOf(req)]
=============================================================================
