CONSTANTS
  Lits = {"a"}
  MaxPat = 1
  MaxName = 1
  MaxArgs = 2
  MaxLines = 2
  Mode = "collect"
INIT Init
NEXT Next
INVARIANTS CollectLaws
