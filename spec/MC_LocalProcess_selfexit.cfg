CONSTANTS
  Kind = "selfexit"
  Callbacks = {"c1", "c2"}
  Callers = {"k1", "k2"}
SPECIFICATION Spec
INVARIANTS BoundedStop CallbacksAtMostOnce CallbacksAfterReturn PoliteNeverGivenUp StubbornGivenUp Emit
PROPERTIES EveryCallReturns
