CONSTANTS
  Family = "body"
  Level = "t"
INIT Init
NEXT Next
INVARIANT Emit
