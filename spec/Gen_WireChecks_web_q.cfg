CONSTANTS
  Kind = "web"
  Tier = "q"
SPECIFICATION Spec
INVARIANTS TypeOK Agrees SilentIff EmitSilent Emit
