CONSTANTS
  Variant = "fixed"
  EncSet = {"gzip"}
  Sides = {"D", "C"}
  Grammars = {"free", "pool", "tracer", "raw"}
  Discipline = "first"
  MaxOps = 24
  MaxRd = 8
  MaxW = 8
  KeepHist = TRUE
INIT Init
NEXT Next
INVARIANTS Emit

