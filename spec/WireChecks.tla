------------------------------ MODULE WireChecks ------------------------------
(* C13 - the reference client's wire examiners as machines: one action per loop iteration /
   per check of the code, early exits where the code returns early.

     block    examineGRPCEndStream      : one action per line of the split text + the summary
     pct      the grpc-message scanner  : one action per byte + the end-of-string check
     trio     checkGRPCStatus           : status, message (scanner), details in four steps
     web      gRPC-Web end-stream       : block machine, then the trio on the parsed fields
     err      examineConnectError       : unmarshal, nil, duplicate keys, per key, required,
                                          then per detail element the same five steps + debug
     es       examineConnectEndStream   : the same pipeline, then the nested error
     bin      checkBinaryMetadata       : one action per value, stops at the first bad one
     dispatch examineWireDetails        : the content-type switch, then the HTTP trailer rule

   Theorem (TLC, MC_WireChecks_*.cfg):  when a machine is done its feedback set equals the
   declarative Expected... of WireChecksDecl for every input of the bounded domain, and it is
   empty exactly for the well-formed inputs and the listed AsImplemented leniencies.           *)
EXTENDS WireChecksDecl, TLC

CONSTANTS Kind,      \* which examiner / input family this run explores
          Tier       \* "q" | "t": size of the family

VARIABLES job,       \* the input (chosen in Init, never changes)
          pc, fb,    \* control state and feedback classes so far
          i, j,      \* loop indices
          a          \* machine-local record (counters, flags)

vars == <<job, pc, fb, i, j, a>>

(* ------------------------------ input families ------------------------------ *)
Thorough == Tier = "t"

\* 1a every byte-class string up to a length; 1b up to three/four lines drawn from line shapes
LineShapes == { <<>>,                                   \* blank
                <<"l", ":", "w", "t">>,                 \* fine
                <<"l", ":">>,                           \* fine, empty value
                <<"l", "t", ":", "w", "t", "w">>,       \* fine, trailing OWS
                <<"l", ":", "t", "v", "t">>,            \* fine, non-token byte in value
                <<"l", ":", "t", ":", "t">>,            \* fine, colon in value
                <<"U", ":", "t">>, <<"l", "U", ":", "t">>,
                <<"l">>, <<"l", "w", "t">>,             \* no colon
                <<"l", "w", ":", "t">>,                 \* space before colon
                <<"v", ":", "t">>, <<"c", "l", ":", "t">>,
                <<":", "t">>,                           \* empty name
                <<"l", ":", "c">>, <<"l", ":", "t", "r", "t">>, <<"l", ":", "r">>,
                <<"w", "t">>, <<"w", ":", "t">>, <<"w", "l", ":", "c">>,   \* continuation lines
                <<"U", "v", ":", "c">> }                \* everything at once
LineEnds  == { <<"r", "n">>, <<"n">> }
LastEnds  == { <<"r", "n">>, <<"n">>, <<>>, <<"r">> }
\* three-line blocks: a smaller set of shapes (one per class of line)
LineShapes3 == { <<>>, <<"l", ":", "w", "t">>, <<"l", ":">>, <<"U", ":", "t">>, <<"l", "w", "t">>, <<"l", "w", ":", "t">>,
                 <<":", "t">>, <<"l", ":", "c">>, <<"w", "t">>, <<"w", "l", ":", "c">> }
BlocksOfLines(m, Sh) == { Flatten([x \in 1..m |-> c[1][x] \o (IF x = m THEN c[3] ELSE c[2][x])]) :
                            c \in [1..m -> Sh] \X [1..m -> LineEnds] \X LastEnds }
BlockJobs == { [kind |-> "block", s |-> s] :
               s \in SeqsUpTo(BSym, IF Thorough THEN 5 ELSE 4)
                     \cup BlocksOfLines(1, LineShapes) \cup BlocksOfLines(2, LineShapes)
                     \cup (IF Thorough THEN BlocksOfLines(3, LineShapes3) ELSE {}) }

PctJobs == { [kind |-> "pct", s |-> s] : s \in SeqsUpTo(PSym, IF Thorough THEN 6 ELSE 4) }

\* 3/4 the trio: every combination of the three headers, over a set of message shapes
StKinds == { [k |-> "absent"], [k |-> "dup"], [k |-> "nonInt"] }
           \cup { [k |-> "int", v |-> v, plus |-> FALSE] : v \in {0 - 1, 0, 3, 16, 17} }
           \cup { [k |-> "int", v |-> 3, plus |-> TRUE] }
MsgShapes == { <<>>, <<"g">>, <<"g", "s", "g">>, <<"p", "x", "x">>, <<"g", "p", "x", "x", "x">>,
               <<"p", "g">>, <<"p", "x">>, <<"p">>, <<"c">>, <<"g", "h">>, <<"s", "g">>, <<"g", "s">>,
               <<"p", "p", "x", "x">>, <<"s">> }
MsgKinds == { [k |-> "absent"] } \cup { [k |-> "val", s |-> s, dup |-> d] : s \in MsgShapes, d \in BOOLEAN }
DetKinds == { [k |-> "absent"] }
            \cup { [k |-> "val", dup |-> d, enc |-> e, parse |-> p, code |-> c, rel |-> r, nd |-> n] :
                   d \in BOOLEAN, e \in {"raw", "padded", "bad"}, p \in BOOLEAN, c \in {0, 3, 7},
                   r \in {"same", "differ"}, n \in {0, 1} }
\* undecodable / unparsable payloads make the remaining fields irrelevant: keep one representative
DetNorm(d) == d.k = "absent" \/ ((d.enc = "bad" => d.parse) /\ (~d.parse \/ d.enc = "bad" => (d.code = 3 /\ d.rel = "same" /\ d.nd = 0)))
TrioJobs == { [kind |-> "trio", st |-> s, msg |-> m, det |-> d] :
              s \in StKinds, m \in MsgKinds, d \in {x \in DetKinds : DetNorm(x)} }
\* quick: no repeated message / details header, one details code, five status kinds
WebQuick(x) == /\ x.st \in { [k |-> "absent"], [k |-> "dup"] } \cup { [k |-> "int", v |-> v, plus |-> FALSE] : v \in {0, 3, 17} }
               /\ (x.msg.k = "val" => ~x.msg.dup)
               /\ (x.det.k = "val" => ~x.det.dup /\ x.det.code = 3)
WebJobs  == { [kind |-> "web", st |-> t.st, msg |-> t.msg, det |-> t.det, mal |-> ml] :
              t \in { x \in TrioJobs : Thorough \/ WebQuick(x) }, ml \in WebMals }

\* 5 Connect error JSON
CodeVals == {"codeName", "otherStr", "null", "num", "obj"}
GoodElem == Obj(<<E("type", V("valid")), E("value", V("b64"))>>)
BadElem  == Obj(<<E("type", V("badName")), E("value", V("padded")), E("extra", V("str"))>>)
DupElem  == Obj(<<E("type", V("valid")), E("type", V("valid")), E("value", V("b64"))>>)
TopPairs == { E("code", V(v)) : v \in CodeVals } \cup { E("Code", V(v)) : v \in {"codeName", "null", "num"} }
            \cup { E("message", V(v)) : v \in {"str", "null", "num", "arr"} }
            \cup { E("details", V(v)) : v \in {"null", "str", "obj"} }
            \cup { E("details", VList(l)) : l \in { <<>>, <<GoodElem>>, <<GoodElem, BadElem>>, <<NonObj("null")>>,
                                                    <<NonObj("num"), GoodElem>>, <<DupElem>> } }
            \cup { E("extra", V(v)) : v \in {"str", "null", "objDup", "arr"} }
ErrTops == { NonObj(k) : k \in NonObjKinds }
           \cup { Obj(es) : es \in SeqsUpTo(TopPairs, IF Thorough THEN 3 ELSE 2) }
ElemPairs == { E("type", V(v)) : v \in {"valid", "unknownType", "badName", "null", "num"} }
             \cup { E("value", V(v)) : v \in {"b64", "junk", "padded", "badChars", "null", "num"} }
             \cup { E("debug", V(v)) : v \in {"agree", "agreeAny", "disagree", "anyWrongType", "unparsable", "null", "objDup"} }
             \cup { E("extra", V(v)) : v \in {"str", "objDup"} }
Distinct(es) == ~DupKeys(es)
Elems == { NonObj(k) : k \in {"null", "str", "num", "arr"} }
         \cup { Obj(es) : es \in SeqsUpTo(ElemPairs, IF Thorough THEN 3 ELSE 2) }
         \cup { Obj(es) : es \in { x \in [1..3 -> ElemPairs] : Distinct(x) } }
         \cup (IF Thorough THEN { Obj(es) : es \in { x \in [1..4 -> ElemPairs] : Distinct(x) } } ELSE {})
ErrJobs == { [kind |-> "err", top |-> t] : t \in ErrTops }
           \cup { [kind |-> "err", top |-> Obj(<<E("code", V("codeName")), E("details", VList(l))>>)] :
                  l \in { <<el>> : el \in Elems } \cup { <<GoodElem, el>> : el \in Elems } }

\* 6 Connect end-stream JSON
MetaVals == { V("null"), V("str"), V("num"), V("obj") }
            \cup { VList(l) : l \in { <<>>, <<"ok">>, <<"ctl">>, <<"ok", "null">>, <<"num">>, <<"ok", "ok">>, <<"ok", "ctl">> } }
MetaEnts == { ME(n, v) : n \in {"lower", "upper", "badName", "emptyName"}, v \in MetaVals }
MetaMaps == { VMap(m) : m \in SeqsUpTo(MetaEnts, 2) }
SmallMaps == { VMap(<<>>), VMap(<<ME("lower", VList(<<"ok">>))>>), VMap(<<ME("badName", VList(<<"ctl">>))>>),
               VMap(<<ME("lower", V("null")), ME("upper", VList(<<"null">>))>>) }
InnerErrs == { Obj(<<E("code", V("codeName")), E("message", V("str"))>>), Obj(<<>>),
               Obj(<<E("code", V("otherStr"))>>), Obj(<<E("code", V("codeName")), E("code", V("codeName"))>>),
               Obj(<<E("code", V("num"))>>),
               Obj(<<E("code", V("codeName")), E("details", VList(<<GoodElem, BadElem>>))>>),
               NonObj("null"), NonObj("str"), NonObj("arr") }
EsPairs == { E("error", VErr(t)) : t \in InnerErrs }
           \cup { E("metadata", v) : v \in SmallMaps \cup {V("null"), V("str"), V("arr")} }
           \cup { E("extra", V(v)) : v \in {"str", "null", "objDup"} }
EsTops == { NonObj(k) : k \in NonObjKinds }
          \cup { Obj(es) : es \in SeqsUpTo(EsPairs, IF Thorough THEN 3 ELSE 2) }
          \cup { Obj(<<E("metadata", m)>>) : m \in MetaMaps }
          \cup { Obj(<<E("error", VErr(Obj(<<E("code", V("codeName")), E("message", V("str"))>>))), E("metadata", m)>>) : m \in MetaMaps }
EsJobs == { [kind |-> "es", top |-> t] : t \in EsTops }

\* 7 binary metadata
BinEnts == { [name |-> n, vals |-> v] : n \in {"plain", "bin", "BIN", "statusDetails"},
                                         v \in SeqsUpTo({"raw", "padded", "bad"}, 2) }
BinJobs == { [kind |-> "bin", ents |-> e] : e \in SeqsUpTo(BinEnts, IF Thorough THEN 3 ELSE 2) }

\* 8 dispatch
CtFamilies == {"json", "proto", "connectStream", "grpcWeb", "grpcWebPlus", "grpc", "grpcPlus", "grpcOther", "other", "none"}
DispatchJobs == { [kind |-> "dispatch", r |-> [ct |-> c, ok |-> o, es |-> e, data |-> d, tr |-> t, err |-> x]] :
                  c \in CtFamilies, o \in BOOLEAN, e \in BOOLEAN, d \in BOOLEAN,
                  t \in {"none", "declared", "present"}, x \in BOOLEAN }

\* 9 what a conformant gRPC encoder emits for an application error: 16 codes x messages x 0..2 details
EmitJobs == { EmitJob(pth, c, m, nd) : pth \in {"emitHdr", "emitWeb"}, c \in (IF Thorough THEN 1..16 ELSE {1, 8, 16}),
              m \in SeqsUpTo(MSym, IF Thorough THEN 4 ELSE 3), nd \in 0..2 }

Jobs == CASE Kind = "block"    -> BlockJobs
          [] Kind = "emit"     -> EmitJobs
          [] Kind = "pct"      -> PctJobs
          [] Kind = "trio"     -> TrioJobs
          [] Kind = "web"      -> WebJobs
          [] Kind = "err"      -> ErrJobs
          [] Kind = "es"       -> EsJobs
          [] Kind = "bin"      -> BinJobs
          [] Kind = "dispatch" -> DispatchJobs

(* ------------------------------ start ------------------------------ *)
BlockAcc == [noCR |-> 0, blanks |-> 0, blankAtEnd |-> FALSE, endsCRLF |-> FALSE, folds |-> 0, P |-> <<>>]
StartPc(kd) == CASE kd \in {"block", "web", "emitWeb"} -> "line"
                 [] kd = "pct"      -> "scan"
                 [] kd \in {"trio", "emitHdr"} -> "status"
                 [] kd \in {"err", "es"} -> "unmarshal"
                 [] kd = "bin"      -> "binValue"
                 [] kd = "dispatch" -> "body"
StartAcc(jb) == CASE jb.kind = "block" -> [BlockAcc EXCEPT !.P = SplitLF(jb.s)]
                  [] jb.kind \in {"web", "emitWeb"} -> [BlockAcc EXCEPT !.P = SplitLF(WebBlock(jb.st, jb.msg, jb.det, jb.mal))]
                  [] jb.kind = "pct"  -> [hex |-> 0, stop |-> FALSE]
                  [] jb.kind \in {"trio", "emitHdr"} -> [known |-> FALSE, code |-> 0]
                  [] jb.kind = "err"  -> [what |-> "err", cur |-> jb.top, hasCode |-> FALSE, hasDetails |-> FALSE]
                  [] jb.kind = "es"   -> [what |-> "es", cur |-> jb.top, hasError |-> FALSE]
                  [] OTHER            -> [none |-> TRUE]
Init == /\ job \in Jobs
        /\ pc = StartPc(job.kind) /\ fb = {} /\ i = 1 /\ j = 1 /\ a = StartAcc(job)

Say(c) == fb' = fb \cup c

(* ------------------------------ block: examineGRPCEndStream ------------------------------ *)
Pieces   == a.P          \* strings.Split(endStream, "\n"), done once before the loop

BlockLine ==
  /\ pc = "line" /\ i <= Len(Pieces)
  /\ LET N == Len(Pieces)  piece == Pieces[i]  last == (i = N) IN
     IF last /\ piece = <<>>
       THEN /\ a' = [a EXCEPT !.endsCRLF = TRUE] /\ UNCHANGED fb
       ELSE LET lacksCR == ~last /\ (piece = <<>> \/ Last(piece) # "r")
                line == IF ~last /\ ~lacksCR THEN Front(piece) ELSE piece
                a1   == IF lacksCR THEN [a EXCEPT !.noCR = @ + 1] ELSE a
                key  == KeyOf(line)
            IN IF line = <<>>
                 THEN /\ a' = [a1 EXCEPT !.blanks = @ + 1, !.blankAtEnd = (@ \/ i = N - 1)] /\ UNCHANGED fb
               ELSE IF (i - 1) > a.blanks /\ key # <<>> /\ key[1] = "w"
                 THEN /\ a' = [a1 EXCEPT !.folds = @ + 1] /\ UNCHANGED fb
               ELSE IF ColonPos(line) = 0
                 THEN /\ a' = a1 /\ Say({"missingColon"})
               ELSE /\ a' = a1
                    /\ Say(If(key = <<>> \/ Range(key) \ NameSym # {}, "badName")
                           \cup If("U" \in Range(key), "upperKey")
                           \cup If(Range(ValOf(line)) \cap BadVal # {}, "badValue"))
  /\ i' = i + 1
  /\ UNCHANGED <<job, pc, j>>

BlockSummary ==
  /\ pc = "line" /\ i > Len(Pieces)
  /\ Say(If(a.folds > 0, "obsFold")
         \cup (IF a.blanks = 0 THEN {} ELSE IF a.blanks = 1 /\ a.blankAtEnd THEN {"blankAtEnd"} ELSE {"blankLines"})
         \cup If(a.noCR > 0, "lfOnly") \cup If(~a.endsCRLF, "noFinalCRLF"))
  /\ IF job.kind \in {"web", "emitWeb"} THEN /\ pc' = "status" /\ a' = [known |-> FALSE, code |-> 0] /\ i' = 1
                         ELSE /\ pc' = "done" /\ UNCHANGED <<a, i>>
  /\ UNCHANGED <<job, j>>

(* ------------------------------ pct: the grpc-message scanner ------------------------------ *)
TheMsg == CASE job.kind = "pct"  -> [k |-> "val", s |-> job.s, dup |-> FALSE]
            [] job.kind \in {"trio", "emitHdr"} -> job.msg
            [] job.kind \in {"web", "emitWeb"}  -> WebMsg(job.msg)
TheDet == IF job.kind \in {"web", "emitWeb"} THEN WebDet(job.msg, job.det) ELSE job.det
AfterScan == IF job.kind = "pct" THEN "done" ELSE "msgPost"

PctByte ==
  /\ pc = "scan" /\ i <= Len(TheMsg.s) /\ ~a.stop
  /\ LET ch == TheMsg.s[i] IN
     IF a.hex > 0
       THEN IF ch \in PHex THEN /\ a' = [a EXCEPT !.hex = @ - 1] /\ UNCHANGED fb
            ELSE /\ a' = [a EXCEPT !.hex = 0, !.stop = TRUE] /\ Say({"pctBadHex"})
     ELSE IF ch = "p" THEN /\ a' = [a EXCEPT !.hex = 2] /\ UNCHANGED fb
     ELSE IF ch \notin PPlain THEN /\ a' = [a EXCEPT !.stop = TRUE] /\ Say({"pctUnescaped"})
     ELSE UNCHANGED <<a, fb>>
  /\ i' = i + 1
  /\ UNCHANGED <<job, pc, j>>

PctEnd ==
  /\ pc = "scan" /\ (i > Len(TheMsg.s) \/ a.stop)
  /\ Say(If(a.hex > 0, "pctIncomplete"))
  /\ pc' = AfterScan
  /\ UNCHANGED <<job, i, j, a>>

(* ------------------------------ trio: checkGRPCStatus ------------------------------ *)
TheSt == job.st

TrioStatus ==
  /\ pc = "status"
  /\ Say(CASE TheSt.k = "dup"    -> {"statusDup"}
           [] TheSt.k = "absent" -> {"statusMissing"}
           [] TheSt.k = "nonInt" -> {"statusNonInt"}
           [] OTHER              -> If(TheSt.v < 0 \/ TheSt.v > 16, "statusRange"))
  /\ IF TheMsg.k = "absent"
       THEN /\ pc' = "details" /\ a' = [known |-> TheSt.k = "int", code |-> IF TheSt.k = "int" THEN TheSt.v ELSE 0, msg |-> "none"]
       ELSE /\ pc' = "msgDup"  /\ a' = [known |-> TheSt.k = "int", code |-> IF TheSt.k = "int" THEN TheSt.v ELSE 0, hex |-> 0, stop |-> FALSE]
  /\ i' = 1 /\ UNCHANGED <<job, j>>

TrioMsgDup ==
  /\ pc = "msgDup"
  /\ Say(If(TheMsg.dup, "messageDup"))
  /\ pc' = "scan"
  /\ UNCHANGED <<job, i, j, a>>

TrioMsgPost ==
  /\ pc = "msgPost"
  /\ Say(If(a.known /\ a.code = 0 /\ TheMsg.s # <<>>, "okWithMessage"))
  /\ a' = [known |-> a.known, code |-> a.code, msg |-> IF Decodable(TheMsg.s) THEN "decoded" ELSE "none"]
  /\ pc' = "details"
  /\ UNCHANGED <<job, i, j>>

TrioDetails ==
  /\ pc = "details"
  /\ IF TheDet.k = "absent" THEN /\ pc' = "done" /\ UNCHANGED fb
     ELSE /\ Say(If(TheDet.dup, "detailsDup")) /\ pc' = "detDecode"
  /\ UNCHANGED <<job, i, j, a>>

TrioDetDecode ==
  /\ pc = "detDecode"
  /\ IF TheDet.enc = "bad" THEN /\ Say({"detailsBadB64"}) /\ pc' = "done"
     ELSE /\ Say(If(TheDet.enc = "padded", "detailsPadded")) /\ pc' = "detParse"
  /\ UNCHANGED <<job, i, j, a>>

TrioDetParse ==
  /\ pc = "detParse"
  /\ IF ~TheDet.parse THEN /\ Say({"detailsUnparsable"}) /\ pc' = "done"
     ELSE /\ UNCHANGED fb /\ pc' = "detCompare"
  /\ UNCHANGED <<job, i, j, a>>

TrioDetCompare ==
  /\ pc = "detCompare"
  /\ Say(If(a.known /\ TheDet.code # a.code, "codeMismatch")
         \cup If(TheDet.code = 0 /\ TheDet.nd > 0, "okWithDetails")
         \cup If(a.msg = "decoded" /\ TheDet.rel = "differ", "msgMismatch"))
  /\ pc' = "done"
  /\ UNCHANGED <<job, i, j, a>>

(* ------------------------------ err / es: examineJSON pipelines ------------------------------ *)
P(c) == IF a.what = "es" THEN "es." \o c ELSE c
Cur  == a.cur

EsTypeError(es) == \E x \in DOMAIN es : es[x].key = "metadata" /\
                     (es[x].v.k \in {"str", "num", "arr"} \/ (es[x].v.k = "map" /\ MetaTypeError(es[x].v.x)))
EsDup(es) == DupKeys(es)
             \/ (\E x \in DOMAIN es : (es[x].v.k = "objDup")
                                      \/ (es[x].v.k = "map" /\ MetaDup(es[x].v.x))
                                      \/ (es[x].v.k = "err" /\ TopNestedDup(es[x].v.x[1])))

JUnmarshal ==            \* json.Unmarshal into the typed struct
  /\ pc = "unmarshal"
  /\ IF Cur.k \notin {"obj", "null"} \/ (Cur.k = "obj" /\ IF a.what = "es" THEN EsTypeError(Cur.e) ELSE ErrTypeError(Cur.e))
       THEN /\ Say({P("jsonError")}) /\ pc' = "done"
       ELSE /\ UNCHANGED fb /\ pc' = "nil"
  /\ UNCHANGED <<job, i, j, a>>

JNil ==                  \* "expecting an object but got <nil>"
  /\ pc = "nil"
  /\ IF Cur.k = "null" THEN /\ Say({P("notObject")}) /\ pc' = "done"
     ELSE /\ UNCHANGED fb /\ pc' = "dup"
  /\ UNCHANGED <<job, i, j, a>>

JDup ==                  \* checkNoDuplicateKeys walks the whole text, nested values included
  /\ pc = "dup"
  /\ IF (IF a.what = "es" THEN EsDup(Cur.e) ELSE DupKeys(Cur.e) \/ ErrNestedDup(Cur.e))
       THEN /\ Say({P("dupKey")}) /\ pc' = "done"
       ELSE /\ UNCHANGED fb /\ pc' = "keys"
  /\ i' = 1 /\ UNCHANGED <<job, j, a>>

ErrKey ==                \* forEachKey callback of examineConnectError
  /\ pc = "keys" /\ a.what = "err" /\ i <= Len(Cur.e)
  /\ LET en == Cur.e[i] IN
     CASE en.key = "code" ->
            /\ a' = [a EXCEPT !.hasCode = TRUE]
            /\ Say(If(en.v.k = "otherStr", "badCode") \cup If(en.v.k = "null", "codeType"))
       [] en.key = "message" -> /\ UNCHANGED a /\ Say(If(en.v.k = "null", "messageType"))
       [] en.key = "details" -> /\ a' = [a EXCEPT !.hasDetails = TRUE] /\ Say(If(en.v.k # "list", "detailsType"))
       [] OTHER -> /\ UNCHANGED a /\ Say({"invalidKey"})
  /\ i' = i + 1
  /\ UNCHANGED <<job, pc, j>>

ErrRequired ==
  /\ pc = "keys" /\ a.what = "err" /\ i > Len(Cur.e)
  /\ Say(If(~a.hasCode, "missingCode"))
  /\ IF a.hasDetails /\ ValAt(Cur.e, "details").k = "list" /\ ValAt(Cur.e, "details").x # <<>>
       THEN pc' = "dUnmarshal" ELSE pc' = "done"
  /\ j' = 1 /\ UNCHANGED <<job, i, a>>

Elem     == ValAt(Cur.e, "details").x[j]
NextElem == IF j < Len(ValAt(Cur.e, "details").x) THEN /\ pc' = "dUnmarshal" /\ j' = j + 1
                                                  ELSE /\ pc' = "done" /\ UNCHANGED j
DSay(c)  == Say({Pfx(j, x) : x \in c})

DUnmarshal ==
  /\ pc = "dUnmarshal"
  /\ IF Elem.k \notin {"obj", "null"}
        \/ (Elem.k = "obj" /\ \E x \in DOMAIN Elem.e : Elem.e[x].key \in {"type", "value"} /\ Elem.e[x].v.k \in {"num", "obj"})
       THEN /\ DSay({"jsonError"}) /\ NextElem
     ELSE IF Elem.k = "null" THEN /\ DSay({"notObject"}) /\ NextElem
     ELSE /\ UNCHANGED <<fb, j>> /\ pc' = "dKeys"      \* duplicate keys were excluded by the outer walk
  /\ i' = 1
  /\ a' = [what |-> "err", cur |-> a.cur, hasCode |-> a.hasCode, hasDetails |-> a.hasDetails,
           ty |-> "absent", va |-> "absent", db |-> "absent"]
  /\ UNCHANGED job

DKey ==
  /\ pc = "dKeys" /\ i <= Len(Elem.e)
  /\ LET en == Elem.e[i] IN
     CASE en.key = "type"  -> /\ a' = [a EXCEPT !.ty = en.v.k]
                              /\ DSay(If(en.v.k = "badName", "badType") \cup If(en.v.k = "null", "typeType"))
       [] en.key = "value" -> /\ a' = [a EXCEPT !.va = en.v.k]
                              /\ DSay(If(en.v.k \in {"padded", "badChars"}, "badBase64") \cup If(en.v.k = "null", "valueType"))
       [] en.key = "debug" -> /\ a' = [a EXCEPT !.db = en.v.k] /\ UNCHANGED fb
       [] OTHER            -> /\ UNCHANGED a /\ DSay({"invalidKey"})
  /\ i' = i + 1
  /\ UNCHANGED <<job, pc, j>>

DRequired ==
  /\ pc = "dKeys" /\ i > Len(Elem.e)
  /\ DSay(If(a.ty = "absent", "missingType") \cup If(a.va = "absent", "missingValue"))
  /\ IF a.ty \in {"valid", "unknownType", "badName"} /\ a.va \in {"b64", "junk"} /\ a.db # "absent"
       THEN /\ pc' = "dDebug" /\ UNCHANGED j
       ELSE NextElem
  /\ UNCHANGED <<job, i, a>>

DDebug ==                \* examineConnectErrorDetailDebugData
  /\ pc = "dDebug"
  /\ DSay(IF a.ty # "valid" THEN {"debugUnresolvable"}
          ELSE IF a.va = "junk" THEN {"valueUnparsable"}
          ELSE CASE a.db \in {"agree", "agreeAny"} -> {}
                 [] a.db = "disagree"     -> {"debugMismatch"}
                 [] a.db = "anyWrongType" -> {"debugWrongType"}
                 [] OTHER                 -> {"debugUnparsable"})
  /\ NextElem
  /\ UNCHANGED <<job, i, a>>

EsKey ==                 \* forEachKey callback of examineConnectEndStream
  /\ pc = "keys" /\ a.what = "es" /\ i <= Len(Cur.e)
  /\ LET en == Cur.e[i] IN
     CASE en.key = "error" ->
            IF en.v.k = "err" /\ en.v.x[1].k = "obj"
              THEN /\ a' = [a EXCEPT !.hasError = TRUE] /\ UNCHANGED fb
              ELSE /\ UNCHANGED a /\ Say({"es.errorType"})
       [] en.key = "metadata" ->
            /\ UNCHANGED a
            /\ IF en.v.k # "map" THEN Say({"es.metadataType"})
               ELSE LET m == en.v.x IN
                    Say(If(\E x \in DOMAIN m : m[x].name \in {"badName", "emptyName"}, "es.badName")
                        \cup If(\E x \in DOMAIN m : m[x].v.k # "list", "es.metaValueType")
                        \cup If(\E x \in DOMAIN m : m[x].v.k = "list" /\ "null" \in Range(m[x].v.x), "es.metaElemType")
                        \cup If(\E x \in DOMAIN m : m[x].v.k = "list" /\ "ctl" \in Range(m[x].v.x), "es.badValue"))
       [] OTHER -> /\ UNCHANGED a /\ Say({"es.invalidKey"})
  /\ i' = i + 1
  /\ UNCHANGED <<job, pc, j>>

EsNested ==              \* examineConnectError(endStream.Error)
  /\ pc = "keys" /\ a.what = "es" /\ i > Len(Cur.e)
  /\ IF a.hasError
       THEN /\ pc' = "unmarshal"
            /\ a' = [what |-> "err", cur |-> ValAt(Cur.e, "error").x[1], hasCode |-> FALSE, hasDetails |-> FALSE]
       ELSE /\ pc' = "done" /\ UNCHANGED a
  /\ UNCHANGED <<job, fb, i, j>>

(* ------------------------------ bin: checkBinaryMetadata ------------------------------ *)
BinStep ==
  /\ pc = "binValue"
  /\ IF i > Len(job.ents) THEN /\ pc' = "done" /\ UNCHANGED <<fb, i, j>>
     ELSE LET en == job.ents[i] IN
          IF en.name \notin {"bin", "BIN"} \/ j > Len(en.vals)
            THEN /\ i' = i + 1 /\ j' = 1 /\ UNCHANGED <<pc, fb>>
          ELSE IF en.vals[j] = "bad" THEN /\ Say({"binBad"}) /\ pc' = "done" /\ UNCHANGED <<i, j>>
          ELSE /\ Say(If(en.vals[j] = "padded", "binPadded")) /\ j' = j + 1 /\ UNCHANGED <<pc, i>>
  /\ UNCHANGED <<job, a>>

(* ------------------------------ dispatch: examineWireDetails ------------------------------ *)
DispatchBody ==
  /\ pc = "body"
  /\ LET r == job.r IN
     Say(CASE r.ct = "json" /\ ~r.ok -> {"badCode"}
           [] r.ct = "connectStream" -> If(r.es, "es.jsonError")
           [] r.ct \in {"grpcWeb", "grpcWebPlus"} ->
                IF r.es THEN {"upperKey", "statusMissing"} ELSE If(TrailersOnly(r), "statusRange")
           [] r.ct \in GrpcFamily ->
                IF TrailersOnly(r) THEN {"statusRange"}
                ELSE IF r.tr = "present" THEN {"statusNonInt"} ELSE If(r.tr = "declared", "statusMissing")
           [] OTHER -> {})
  /\ pc' = "trailers"
  /\ UNCHANGED <<job, i, j, a>>

DispatchTrailers ==
  /\ pc = "trailers"
  /\ Say(If(job.r.ct \notin {"grpc", "grpcPlus"} /\ job.r.tr # "none", "httpTrailers"))
  /\ pc' = "done"
  /\ UNCHANGED <<job, i, j, a>>

(* ------------------------------ all together ------------------------------ *)
Next == \/ BlockLine \/ BlockSummary
        \/ PctByte \/ PctEnd
        \/ TrioStatus \/ TrioMsgDup \/ TrioMsgPost \/ TrioDetails \/ TrioDetDecode \/ TrioDetParse \/ TrioDetCompare
        \/ JUnmarshal \/ JNil \/ JDup \/ ErrKey \/ ErrRequired \/ DUnmarshal \/ DKey \/ DRequired \/ DDebug
        \/ EsKey \/ EsNested
        \/ BinStep
        \/ DispatchBody \/ DispatchTrailers

Spec == Init /\ [][Next]_vars /\ WF_vars(Next)

(* ------------------------------ theorem ------------------------------ *)
\* Expected(job) / Accepted(job): WireChecksDecl, section 10
Done == pc = "done"

\* the design theorem
Agrees    == Done => fb = Expected(job)
SilentIff == Done => ((fb = {}) <=> Accepted(job))
\* everything a conformant encoder emits is silent - except in the one corner where the gRPC
\* encoding rule (SP travels unencoded) meets the HTTP rule (SP around a field value is not part of it)
EmitSilent == Done /\ job.kind \in {"emitHdr", "emitWeb"} => ((fb = {}) <=> ~EmitConflict(job))
\* feedback only grows, and only names classes the declarative side knows for this input
Monotone  == [][fb \subseteq fb']_vars
Sound     == fb \subseteq Expected(job)
Terminates == <>Done
TypeOK    == pc \in {"line", "scan", "status", "msgDup", "msgPost", "details", "detDecode", "detParse", "detCompare",
                     "unmarshal", "nil", "dup", "keys", "dUnmarshal", "dKeys", "dDebug", "binValue", "body", "trailers", "done"}
=============================================================================
