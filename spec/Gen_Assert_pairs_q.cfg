CONSTANTS
  StreamTypes = {"unary"}
  ErrKinds = {"ei"}
  PayloadCounts = {0}
  Kits = {"lean"}
  Profiles = {"E"}
  MaxLen = 2
  MaxDev = 1
  RunChecker = FALSE
INIT Init
NEXT Next
VIEW ViewNoHist
INVARIANTS LenientPass DeviationFlagged Emit
