------------------------------ MODULE GlobDecl ------------------------------
(* C08 - declarative meaning of test-name patterns, of run/skip selection, of the
   known-failing / known-flaky marking, of the "unmatched pattern" report, of the
   failing-vs-flaky ambiguity check and of the collection of patterns from repeated flag
   values and @files.   Constant-level only; shared by the trie machine (Glob), the collection
   machine (GlobCollect), the generators (Gen_Glob, Gen_GlobCollect) and the acceptor of recorded
   executions (Trace_Glob).

   A test name and a pattern are sequences of components (the text between slashes).  A pattern
   component is a literal, "*" (exactly one component) or "**" (zero or more components).
   docs/configuring_and_running_tests.md, "Selecting Test Cases":
     "An asterisk matches one name component. A double-asterisk matches zero or more
      components. [...] Wildcards cannot be used to match partial name components [...] the
      asterisk is matched exactly instead of being treated as a wildcard."                     *)
EXTENDS Naturals, Sequences, FiniteSets

Star  == "*"
DStar == "**"
IsWild(c) == c = Star \/ c = DStar

Range(s) == {s[i] : i \in 1..Len(s)}

(* ------------------------------------------------------------------------------------------
   1. The statement read literally: p matches n iff the name can be cut into Len(p) consecutive
      segments, one per pattern component, such that a literal owns exactly one equal component,
      "*" owns exactly one component and "**" owns any number (including none).
      f[i] is the number of name components owned by p[1..i].                                 *)
Cut(f, i) == IF i = 0 THEN 0 ELSE f[i]

SegmentOK(p, n, f, i) ==
  LET len == Cut(f, i) - Cut(f, i - 1) IN
  CASE p[i] = DStar -> TRUE
    [] p[i] = Star  -> len = 1
    [] OTHER        -> len = 1 /\ n[f[i]] = p[i]

MatchDecl(p, n) ==
  \E f \in [1..Len(p) -> 0..Len(n)] :
     /\ Cut(f, Len(p)) = Len(n)
     /\ \A i \in 1..Len(p) : Cut(f, i - 1) <= Cut(f, i) /\ SegmentOK(p, n, f, i)

(* ------------------------------------------------------------------------------------------
   2. The same relation by structural recursion (used everywhere else: it is cheap).          *)
RECURSIVE Match(_, _)
Match(p, n) ==
  IF p = <<>> THEN n = <<>>
  ELSE LET h == Head(p)
           t == Tail(p) IN
       CASE h = DStar -> Match(t, n) \/ (n # <<>> /\ Match(p, Tail(n)))
         [] h = Star  -> n # <<>> /\ Match(t, Tail(n))
         [] OTHER     -> n # <<>> /\ Head(n) = h /\ Match(t, Tail(n))

(* ------------------------------------------------------------------------------------------
   3. The same relation as a position-set automaton (no backtracking): a state is the set of
      numbers of pattern components already consumed.                                         *)
RECURSIVE Eps(_, _)
Eps(p, S) ==            \* "**" may own nothing: i -> i+1 without reading
  LET T == S \cup {i + 1 : i \in {j \in S : j < Len(p) /\ p[j + 1] = DStar}} IN
  IF T = S THEN S ELSE Eps(p, T)

Step(p, S, c) ==
  {i + 1 : i \in {j \in S : j < Len(p) /\ (p[j + 1] = Star \/ (~IsWild(p[j + 1]) /\ p[j + 1] = c))}}
    \cup {i \in S : i < Len(p) /\ p[i + 1] = DStar}

RECURSIVE RunNFA(_, _, _)
RunNFA(p, S, n) == IF n = <<>> THEN S ELSE RunNFA(p, Eps(p, Step(p, S, Head(n))), Tail(n))

MatchNFA(p, n) == Len(p) \in RunNFA(p, Eps(p, {0}), n)

(* consecutive "**" collapse: x/**/**/y means x/**/y *)
RECURSIVE Norm(_)
Norm(p) == IF Len(p) < 2 THEN p
           ELSE IF p[1] = DStar /\ p[2] = DStar THEN Norm(Tail(p))
           ELSE <<Head(p)>> \o Norm(Tail(p))

(* ------------------------------------------------------------------------------------------
   Pattern sets.                                                                              *)
Matching(P, n) == {p \in P : Match(p, n)}
MatchAny(P, n) == \E p \in P : Match(p, n)

\* "a case is run iff it matches some --run pattern (or none were given) and no --skip pattern"
Selected(n, R, S) == (R = {} \/ MatchAny(R, n)) /\ ~MatchAny(S, n)
SelectedSet(N, R, S) == {n \in N : Selected(n, R, S)}

\* "is known-failing or known-flaky iff it matches such a pattern"
Marked(n, P) == MatchAny(P, n)
MarkedSet(N, P) == {n \in N : Marked(n, P)}

\* "a pattern that matches no permutation is reported as an error"
TrulyUnmatched(P, N) == {p \in P : \A n \in N : ~Match(p, n)}

(* As implemented (the statement is silent): the matcher stops at the first pattern that matches
   a name, so a pattern all of whose names are also matched by ANOTHER pattern of the same list
   may be reported although it does match.  The report must contain every truly unmatched pattern
   and may additionally contain such shadowed patterns - nothing else.                        *)
AsImplemented_MaybeShadowed(P, N) ==
  {p \in P : /\ \E n \in N : Match(p, n)
             /\ \A n \in N : Match(p, n) => \E q \in P \ {p} : Match(q, n)}

ReportOK(P, N, rep) ==
  /\ TrulyUnmatched(P, N) \subseteq rep
  /\ rep \subseteq TrulyUnmatched(P, N) \cup AsImplemented_MaybeShadowed(P, N)

\* "a name matched as both known-failing and known-flaky is rejected"
Ambiguous(N, F, K) == {n \in N : MatchAny(F, n) /\ MatchAny(K, n)}

(* ------------------------------------------------------------------------------------------
   As implemented: WHICH pattern is credited when several match.  The patterns of a list are
   merged into a prefix tree; at every node the search prefers the literal child, then "*", then
   "**" (which first tries to own nothing, then one component, ...).  FirstHit returns <<q>> for
   the credited pattern q or <<>> when none matches.  The trie machine in Glob.tla is proved
   (by TLC, bounded) to credit exactly FirstHit; the verdict on the real code only uses ReportOK. *)
IsNode(P, q) == \E p \in P : Len(q) <= Len(p) /\ SubSeq(p, 1, Len(q)) = q

RECURSIVE FirstHitAt(_, _, _), FirstHitDStar(_, _, _, _)
FirstHitAt(P, q, r) ==
  IF r = <<>>
    THEN IF q \in P THEN <<q>>
         ELSE IF IsNode(P, Append(q, DStar)) THEN FirstHitAt(P, Append(q, DStar), <<>>)
         ELSE <<>>
    ELSE LET lit == IF IsNode(P, Append(q, Head(r)))
                      THEN FirstHitAt(P, Append(q, Head(r)), Tail(r)) ELSE <<>> IN
         IF lit # <<>> THEN lit
         ELSE LET st == IF IsNode(P, Append(q, Star))
                          THEN FirstHitAt(P, Append(q, Star), Tail(r)) ELSE <<>> IN
              IF st # <<>> THEN st
              ELSE IF IsNode(P, Append(q, DStar)) THEN FirstHitDStar(P, Append(q, DStar), r, 0)
              ELSE <<>>
FirstHitDStar(P, q, r, k) ==       \* "**" owns the first k components of r
  IF k > Len(r) THEN <<>>
  ELSE LET h == FirstHitAt(P, q, SubSeq(r, k + 1, Len(r))) IN
       IF h # <<>> THEN h ELSE FirstHitDStar(P, q, r, k + 1)

AsImplemented_FirstHit(P, n) == FirstHitAt(P, <<>>, n)
AsImplemented_Credited(P, N) == UNION {Range(AsImplemented_FirstHit(P, n)) : n \in N}
AsImplemented_Reported(P, N) == P \ AsImplemented_Credited(P, N)

(* ------------------------------------------------------------------------------------------
   Collection of patterns from the values of one repeatable flag.
   docs: "All four of these options can be provided multiple times on the command-line, to
   provide multiple test case patterns, refer to multiple files, or both."  and, for a file,
   "leading and trailing whitespace is discarded from each line, blank lines are ignored, and
   lines that start with a pound-sign are treated as comments and ignored."

   An argument list is a sequence of
       [k |-> "lit",     lines |-> <<>>]      a pattern given directly
       [k |-> "file",    lines |-> <<...>>]   "@path" of a readable file with these lines, each
                                              "pat" | "blank" | "comment"
       [k |-> "missing", lines |-> <<>>]      "@path" of a file that cannot be read
       [k |-> "bare",    lines |-> <<>>]      "@" alone (AsImplemented_BareAt: contributes nothing)
   A pattern is identified by WHERE it was supplied: Tok(i, 0) is the literal value of argument i,
   Tok(i, j) the pattern on line j of the file named by argument i.  (The Go side turns every
   token into a distinct concrete pattern, and lines into bytes: blanks, tabs, CR LF, "#".)   *)
Tok(i, j) == <<i, j>>

RECURSIVE PatLines(_, _)
PatLines(lines, j) ==         \* indices >= j of the lines that carry a pattern, in order
  IF j > Len(lines) THEN <<>>
  ELSE (IF lines[j] = "pat" THEN <<j>> ELSE <<>>) \o PatLines(lines, j + 1)

FilePatterns(i, lines) == LET sel == PatLines(lines, 1) IN [m \in 1..Len(sel) |-> Tok(i, sel[m])]

AsImplemented_BareAt == <<>>

Contribution(args, i) ==
  CASE args[i].k = "lit"  -> <<Tok(i, 0)>>
    [] args[i].k = "file" -> FilePatterns(i, args[i].lines)
    [] OTHER              -> AsImplemented_BareAt

RECURSIVE CollectFrom(_, _)
CollectFrom(args, i) ==
  IF i > Len(args) THEN <<>> ELSE Contribution(args, i) \o CollectFrom(args, i + 1)

\* every supplied pattern takes part, in the order given
Collect(args) == CollectFrom(args, 1)

Unreadable(args) == {i \in 1..Len(args) : args[i].k = "missing"}

\* ... and a file that cannot be read is an error, wherever it stands
CollectResult(args) ==
  IF Unreadable(args) # {} THEN [err |-> TRUE, pats |-> <<>>]
  ELSE [err |-> FALSE, pats |-> Collect(args)]
=============================================================================
