---------------------------- MODULE TraceHandoff ----------------------------
(* C16 (slots) - hand-off of completed traces from producers to waiters, keyed by test name.

   A name's slot has a *generation* (the identity of its done channel): Init installs a fresh
   pending generation, Complete fills the current generation once, Clear removes the slot.  A
   waiter that begins to wait captures the current generation under the lock; it later obtains
   that generation's trace when it is completed, or fails with its context's error.

   Each action below is one critical section of the tracer's mutex (or, for AwaitWake/CtxExpire,
   one arm of the waiter's select). *)
EXTENDS Naturals, Sequences, FiniteSets, TLC

CONSTANTS Names, Waiters, MaxOps, MaxGen, KeepHist

VARIABLES cur,      \* cur[n]  : current generation of name n, 0 = absent (never initialised / cleared)
          comp,     \* comp[g] : id of the trace completed for generation g, 0 = still pending
          nextGen, nextTrace,
          w,        \* w[i]    : [st, n, g, val]
          nops,
          hist      \* sequence of controller operations with the settled observation (generator only)

vars == <<cur, comp, nextGen, nextTrace, w, nops, hist>>

Gens == 1..MaxGen
Idle == [st |-> "idle", n |-> "", g |-> 0, val |-> 0]

Init == /\ cur = [n \in Names |-> 0]
        /\ comp = [g \in Gens |-> 0]
        /\ nextGen = 1 /\ nextTrace = 1
        /\ w = [i \in Waiters |-> Idle]
        /\ nops = 0 /\ hist = <<>>

(* ---- what an observer sees of the waiters once every woken waiter has returned ---- *)
Settled(ww, cc) == [i \in Waiters |->
                      IF ww[i].st = "blocked" /\ cc[ww[i].g] # 0
                        THEN [ww[i] EXCEPT !.st = "got", !.val = cc[ww[i].g]]
                        ELSE ww[i]]
Obs(ww) == [i \in Waiters |-> [st |-> ww[i].st, val |-> ww[i].val]]

Log(op) == /\ nops' = nops + 1
           /\ hist' = IF KeepHist THEN Append(hist, op) ELSE hist

(* ---- controller-visible operations ---- *)
DoInit(n) ==
  /\ nops < MaxOps /\ nextGen <= MaxGen
  /\ cur' = [cur EXCEPT ![n] = nextGen] /\ nextGen' = nextGen + 1
  /\ UNCHANGED <<comp, nextTrace, w>>
  /\ Log([op |-> "Init", n |-> n, i |-> "", t |-> 0, obs |-> Obs(Settled(w, comp))])

DoComplete(n) ==
  /\ nops < MaxOps
  /\ LET g == cur[n] IN
       comp' = IF g # 0 /\ comp[g] = 0 THEN [comp EXCEPT ![g] = nextTrace] ELSE comp
  /\ nextTrace' = nextTrace + 1
  /\ UNCHANGED <<cur, nextGen, w>>
  /\ Log([op |-> "Complete", n |-> n, i |-> "", t |-> nextTrace, obs |-> Obs(Settled(w, comp'))])

DoClear(n) ==
  /\ nops < MaxOps
  /\ cur' = [cur EXCEPT ![n] = 0]
  /\ UNCHANGED <<comp, nextGen, nextTrace, w>>
  /\ Log([op |-> "Clear", n |-> n, i |-> "", t |-> 0, obs |-> Obs(Settled(w, comp))])

\* the waiter's critical section: look the slot up, capture generation
AwaitEnter(i, n) ==
  /\ nops < MaxOps
  /\ w[i].st # "blocked"                      \* a waiter that returned may wait again
  /\ LET g == cur[n] IN
     w' = [w EXCEPT ![i] = IF g = 0 THEN [st |-> "failed", n |-> n, g |-> 0, val |-> 0]
                           ELSE IF comp[g] # 0 THEN [st |-> "got", n |-> n, g |-> g, val |-> comp[g]]
                           ELSE [st |-> "blocked", n |-> n, g |-> g, val |-> 0]]
  /\ UNCHANGED <<cur, comp, nextGen, nextTrace>>
  /\ Log([op |-> "Await", n |-> n, i |-> i, t |-> 0, obs |-> Obs(Settled(w', comp))])

\* the waiter's channel was closed and it takes that arm of the select
AwaitWake(i) ==
  /\ w[i].st = "blocked" /\ comp[w[i].g] # 0
  /\ w' = [w EXCEPT ![i].st = "got", ![i].val = comp[w[i].g]]
  /\ UNCHANGED <<cur, comp, nextGen, nextTrace, nops, hist>>

\* the waiter's context ends while it is blocked.  (If its generation is already completed the
\* select may take either arm; the generator issues CtxExpire only for still-pending generations
\* so that the replay has a single expected outcome; the design check explores both.)
CtxExpire(i) ==
  /\ nops < MaxOps
  /\ w[i].st = "blocked"
  /\ (KeepHist => comp[w[i].g] = 0)
  /\ w' = [w EXCEPT ![i].st = "ctx"]
  /\ UNCHANGED <<cur, comp, nextGen, nextTrace>>
  /\ Log([op |-> "Ctx", n |-> w[i].n, i |-> i, t |-> 0, obs |-> Obs(Settled(w', comp))])

Next == \/ \E n \in Names : DoInit(n) \/ DoComplete(n) \/ DoClear(n)
        \/ \E i \in Waiters : (\E n \in Names : AwaitEnter(i, n)) \/ AwaitWake(i) \/ CtxExpire(i)

Fairness == \A i \in Waiters : WF_vars(AwaitWake(i))
Spec == Init /\ [][Next]_vars /\ Fairness

(* ------------------------------ properties ------------------------------ *)
TypeOK == /\ \A n \in Names : cur[n] \in 0..MaxGen
          /\ \A i \in Waiters : w[i].st \in {"idle", "blocked", "got", "failed", "ctx"}

\* a completed generation never changes its trace: "the FIRST trace completed" and
\* "completing an already-completed test has no effect"
FirstWins == [][\A g \in Gens : comp[g] # 0 => comp'[g] = comp[g]]_vars

\* completing an unknown, cleared or already-completed name has no effect: a Complete step
\* changes at most one generation, which was pending and current for some name
CompleteOnlyPendingCurrent ==
  [][nextTrace' # nextTrace =>
        /\ cur' = cur /\ w' = w
        /\ \A g \in Gens : comp'[g] # comp[g] => (comp[g] = 0 /\ \E n \in Names : cur[n] = g)]_vars

\* what a waiter got is the trace of the generation it captured, which was current for its
\* name when it began to wait
GotRight == \A i \in Waiters : w[i].st = "got" => (w[i].g # 0 /\ w[i].val = comp[w[i].g] /\ w[i].val # 0)

\* waiting on a cleared / never-initialised name fails immediately: it is never blocked on gen 0
NeverBlockedOnAbsent == \A i \in Waiters : w[i].st = "blocked" => w[i].g # 0

\* generations are never shared between names
GenOwner == \A n1, n2 \in Names : (n1 # n2 /\ cur[n1] # 0) => cur[n1] # cur[n2]

\* no lost wake-up: a blocked waiter whose generation is completed eventually returns with it
NoLostWakeup == \A i \in Waiters : (w[i].st = "blocked" /\ comp[w[i].g] # 0) ~> (w[i].st # "blocked")

\* a wait never outlives its context: cancellation is always possible while blocked
CtxAlwaysPossible == \A i \in Waiters : (w[i].st = "blocked" /\ nops < MaxOps /\ ~KeepHist) => ENABLED CtxExpire(i)

ViewNoHist == <<cur, comp, nextGen, nextTrace, w, nops>>
=============================================================================
