CONSTANTS
  TagLen = 1
  Bounds <- SmallBounds
  Limit = 40
  MaxTarget = 85
  Algo = "direct"
  MaxAdj = 2
  Guard = FALSE
  W = 1
  Huge = FALSE
SPECIFICATION SpecSmall
INVARIANTS TypeOK Correct NeverWrongSize NoCrash AdjBound
PROPERTY Termination
