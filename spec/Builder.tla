------------------------------- MODULE Builder -------------------------------
(* C16 (builder) - the finish-once trace builder as a machine: one action per call of add/build
   (each is one critical section of the builder's mutex; the collector is called after the lock
   is released, modelled as the separate step Deliver so that other calls may slip in between). *)
EXTENDS BuilderDecl, FiniteSets, TLC

CONSTANTS MaxOps, KeepHist
VARIABLES named, open, evs, nreq, nresp, err, pend, completes, delivered, ops

vars == <<named, open, evs, nreq, nresp, err, pend, completes, delivered, ops>>
NoTrace == [events |-> <<>>, err |-> "none"]

Init == /\ named \in BOOLEAN
        /\ open = TRUE /\ evs = <<[k |-> "RequestStart", idx |-> 0]>> /\ nreq = 0 /\ nresp = 0
        /\ err = "none" /\ pend = <<>> /\ completes = 0 /\ delivered = NoTrace /\ ops = <<>>

Add(k) ==
  /\ Len(ops) < MaxOps
  /\ ops' = Append(ops, k)
  /\ IF ~open \/ ~named
       THEN UNCHANGED <<named, open, evs, nreq, nresp, err, pend, completes, delivered>>
       ELSE LET idx  == IF k = "ReqData" THEN nreq ELSE IF k = "RespData" THEN nresp ELSE 0
                e    == [k |-> k, idx |-> idx]
                nerr == IF k = "RespErr" THEN "resp"
                        ELSE IF err # "none" THEN err ELSE ErrOf(k)
            IN /\ nreq' = IF k = "ReqData" THEN nreq + 1 ELSE nreq
               /\ nresp' = IF k = "RespData" THEN nresp + 1 ELSE nresp
               /\ err' = nerr
               /\ IF k \in Finishing
                    THEN /\ open' = FALSE /\ evs' = <<>>
                         /\ pend' = Append(pend, [events |-> Append(evs, e), err |-> nerr])
                    ELSE /\ evs' = Append(evs, e) /\ UNCHANGED <<open, pend>>
               /\ UNCHANGED <<named, completes, delivered>>

Build ==
  /\ Len(ops) < MaxOps
  /\ ops' = Append(ops, "Build")
  /\ IF open /\ named
       THEN /\ open' = FALSE /\ evs' = <<>> /\ pend' = Append(pend, [events |-> evs, err |-> err])
       ELSE UNCHANGED <<open, evs, pend>>
  /\ UNCHANGED <<named, nreq, nresp, err, completes, delivered>>

\* the collector call, outside the lock
Deliver ==
  /\ pend # <<>>
  /\ delivered' = Head(pend) /\ completes' = completes + 1 /\ pend' = Tail(pend)
  /\ UNCHANGED <<named, open, evs, nreq, nresp, err, ops>>

Next == (\E k \in EventKinds : Add(k)) \/ Build \/ Deliver
Spec == Init /\ [][Next]_vars

(* properties *)
AtMostOnce == completes + Len(pend) <= 1
\* once nothing is pending, what was delivered is exactly what the declarative definition says
Agrees == (pend = <<>>) =>
            LET d == Delivered(ops, named) IN
            /\ completes = d.completes
            /\ (d.completes = 1 => (delivered.events = d.events /\ delivered.err = d.err))
NoEventAfterFinish == (~open) => evs = <<>>
=============================================================================
