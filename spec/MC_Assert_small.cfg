CONSTANTS
  StreamTypes = {"unary", "server_stream"}
  ErrKinds = {"none", "ei"}
  PayloadCounts = {0, 2}
  Kits = {"rich"}
  Profiles = {"A"}
  MaxLen = 1
  MaxDev = 1
  RunChecker = TRUE
INIT Init
NEXT Next
VIEW ViewNoHist
INVARIANTS TypeOK Reflexive LenientPass DeviationFlagged CheckerAgrees CheckerSound MergedOnlyWhereDocumented
