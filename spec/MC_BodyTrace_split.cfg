CONSTANTS
  FlagSet = {0, 2, 3}
  LenSet = {0, 1, 2}
  PcSet = {"plain", "comp"}
  EncSet = {"none", "real"}
  HdrMode = "connect"
  SideSet = {"req", "resp"}
  EndSet = {"eof", "err", "close", "closeerr"}
  MaxEnvs = 2
  MaxTotal = 12
  ChunkSet = {1, 2, 3, 4, 5, 6, 7, 8, 9, 10, 11, 12, 13, 14, 15, 16}
  MaxPost = 1
  MaxOther = 1
  Grain = "loop"
  ConsultBit = TRUE
  KeepHist = FALSE
INIT Init
NEXT Next
VIEW ViewNoHist
INVARIANTS TypeOK Agrees Eager Bookkeeping Consecutive EndsOnce Transparent NoCorrupt
PROPERTIES OutGrows
