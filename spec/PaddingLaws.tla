----------------------------- MODULE PaddingLaws -----------------------------
(* C19 - laws of the declarative definitions, checked by TLC for EVERY (base, target) of a box in
   the scaled-down arithmetic and for every point of a box around each real boundary.  They are
   what makes the closed forms used on real numbers trustworthy and they state where exactly
   "one extra data byte costs two bytes". *)
EXTENDS PaddingDecl, TLC

CONSTANTS Bs,      \* bases
          Ds,      \* values of t - base
          NMax,    \* data lengths 0..NMax for the case-level laws
          SearchMax \* largest t - base for which the defining search is evaluated

VARIABLES b, d
Init == b \in Bs /\ d \in Ds
Next == UNCHANGED <<b, d>>

t == b + d

\* the closed form is the definition, and there is never more than one solution
\* (the definition searches every length: evaluated only where d is small enough to do so)
ClosedForm  == (d <= SearchMax) => (PadLens(b, t) = PadLensDef(b, t) /\ Cardinality(PadLensDef(b, t)) <= 1)
AtMostOne   == Cardinality(PadLens(b, t)) <= 1
\* reason: the size is strictly increasing in the data length (d >= 0 is used as a length here)
Monotone    == (d >= 0) => Size(b, d + 1) > Size(b, d)
\* one more data byte costs two bytes exactly at a boundary (and tag+2 bytes from empty)
StepCost    == (d >= 0) => Size(b, d + 1) - Size(b, d) =
                 (IF d = 0 THEN TagLen + 2 ELSE IF \E i \in DOMAIN Bounds : d + 1 = Bounds[i] THEN 2 ELSE 1)

\* the unreachable sizes, in closed form: below the base, the TagLen+1 sizes right above it, and one
\* size at each varint boundary
Gaps        == {x \in 1..(TagLen + 1) : TRUE} \cup {Bounds[i] + TagLen + i : i \in DOMAIN Bounds}
Unreachable == (~Reachable(b, t)) <=> (d < 0 \/ d \in Gaps)

\* the padded message is admitted by the receiver iff the requested offset is not positive
SharpAtOffset == \A off \in {t - Limit} :
                   LET r == ExpandOne(Msg(TRUE, b, 0), off) IN
                   (r.k = "padded") => /\ Size(b, r.n) = Limit + off
                                       /\ Admit(Size(b, r.n), Limit) <=> (off <= 0)
\* the result does not depend on the data the message had before (only the padding field changes
\* and it is fully determined by base and target)
DataIndependent == \A n0 \in 0..NMax : ExpandOne(Msg(TRUE, b, n0), t - Limit) = ExpandOne(Msg(TRUE, b, 0), t - Limit)
\* expansion is idempotent: a padded message is a fixed point
Idempotent  == LET r == ExpandOne(Msg(TRUE, b, 0), t - Limit) IN
               (r.k = "padded") => ExpandOne(Msg(TRUE, b, r.n), t - Limit) = r

(* case level: locality and the directive-count rule *)
M1 == Msg(TRUE, b, 3)
M2 == Msg(FALSE, b, 0)
O  == t - Limit
CaseLaws ==
  /\ ExpandCase(<<M1>>, <<>>).ns = <<3>>                                     \* no directive: untouched
  /\ ExpandCase(<<M1>>, <<Dir(FALSE, O)>>).ns = <<3>>                       \* directive without size: untouched
  /\ ExpandCase(<<M1>>, <<Dir(TRUE, O), Dir(FALSE, 0)>>).why = "count"      \* more directives than messages
  /\ ExpandCase(<<>>, <<>>).k = "padded"
  /\ LET one == ExpandOne(M1, O)
         two == ExpandCase(<<M1, M1, M2>>, <<Dir(FALSE, 0), Dir(TRUE, O)>>)
     IN  IF one.k = "padded" THEN two.k = "padded" /\ two.ns = <<3, one.n, 0>>
         ELSE two.k = "rejected" /\ two.at = 2 /\ two.why = one.why
  /\ ExpandCase(<<M2, M1>>, <<Dir(FALSE, O)>>).k = "padded"                 \* no field is fine when not expanded
  /\ LET r == ExpandCase(<<M2, M1>>, <<Dir(TRUE, O), Dir(TRUE, O)>>)        \* first failing directive decides
     IN r.k = "rejected" /\ r.at = 1 /\ r.why = (IF ValidTarget(t) THEN "nofield" ELSE "invalid")

\* the compression in use is not an input of the admission rule
ZIndependent == \A z \in 1..6 : RpcOutcomeZ(<<t>>, Limit, z) = RpcOutcome(<<t>>, Limit)
SharpLimit   == /\ RpcOutcome(<<Limit - 1>>, Limit) = "ok" /\ RpcOutcome(<<Limit>>, Limit) = "ok"
                /\ RpcOutcome(<<Limit + 1>>, Limit) = "resource_exhausted"
                /\ RpcOutcome(<<Limit, Limit + 1, 1>>, Limit) = "resource_exhausted"
                /\ RpcOutcome(<<>>, Limit) = "ok"

SmallBounds == <<8, 24, 64>>
SmallDs     == -3..90
RealBounds  == <<128, 16384, 2097152, 268435456>>
\* real arithmetic: differences around 0 and around each boundary + header
RealDs == (-3..140) \cup UNION {{RealBounds[i] + j : j \in -8..12} : i \in 1..4} \cup {204800, 1048576}
=============================================================================
