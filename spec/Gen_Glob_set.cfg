CONSTANTS
  Family = "set"
  Lits = {"a", "b"}
  MaxPat = 3
  MinName = 1
  MaxName = 3
  MaxSet = 2
  SimNames = 0
  SimSets = 0
INIT Init
NEXT Next
INVARIANTS Emit
