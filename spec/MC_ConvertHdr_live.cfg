CONSTANTS
  Ops = {"h2md", "out", "md2h", "addh", "addt", "map2h"}
  Bases = {"a"}
  Styles = {"l", "u"}
  MaxEntries = 2
  MinVals = 0
  MaxVals = 1
  Rich = FALSE
SPECIFICATION Spec
INVARIANTS TypeOK Agrees Laws
PROPERTIES Terminates
