---------------------------- MODULE RefineCompose ----------------------------
(* G5 (refinement links) - the composition step: the run as a whole (Runner.tla with a plan of several
   batches) restricted to ONE batch b is again Runner.tla, for the one-batch plan << Plan[b] >> with one
   slot - the very specification that ServerBatch (plus the caller's frame) refines in RefineBatch.tla.

       RefineBatch :  ServerBatch + frame   =>  Runner(<< Plan[b] >>, 1)          (per batch, any script)
       here        :  Runner(Plan, MaxServers) projected on b  =>  Runner(<< Plan[b] >>, 1)   (safety)

   So the per-batch story told by Runner.tla and the one told by ServerBatch.tla are the same story:
   both are behaviours of the one-batch Runner, under mappings that agree on the shared vocabulary
   (server state, process state, sent, setupFailed, released).  What MC_Runner adds - and what no
   per-batch link can give - are the cross-batch facts: AliveBound (the semaphore), DistinctAddrs, the
   start order, and Terminates for the whole plan.  What is NEW here relative to MC_Runner: the
   projection is a refinement (every step of the whole run is a step of the one-batch machine of exactly
   one batch, or concerns no batch at all), given that the case sets of different batches are disjoint
   (PlanOK - the planner's job: C06-C08) - e.g. a Send of one batch can never be explained only by
   another batch's state.                                                                          *)
EXTENDS RefineRunnerEn

PlanOK == \A b, c \in Batches : b # c => Plan[b].cases \cap Plan[c].cases = {}
ASSUME PlanOK

P(b) == INSTANCE Runner WITH
          Plan <- << Plan[b] >>, MaxServers <- 1,
          srv <- [x \in {1} |-> srv[b]], proc <- [x \in {1} |-> proc[b]],
          addr <- [x \in {1} |-> IF addr[b] = 0 THEN 0 ELSE 1],           \* addresses are only distinct ACROSS batches
          sem <- IF srv[b] \in {"acquired", "up", "stopped"} THEN 1 ELSE 0,
          sent <- sent \cap Plan[b].cases, setupFailed <- setupFailed \cap Plan[b].cases,
          nextAddr <- nextAddr, finished <- finished

ProjInit == \A b \in Batches : P(b)!Init
ProjStep1 == [][P(1)!Next]_P(1)!vars
ProjStep2 == [][P(2)!Next]_P(2)!vars
ProjStep3 == [][P(3)!Next]_P(3)!vars
\* a step changes the projection of at most one batch (Finish: of all, consistently - finished is shared)
OneAtATime == [][finished' = finished => Cardinality({b \in Batches : P(b)!vars' # P(b)!vars}) <= 1]_vars
\* the global invariants that are conjunctions of per-batch ones + disjointness
AtMostOnceFromBatches == (\A b \in Batches : P(b)!AtMostOnce) => AtMostOnce
CompleteFromBatches == (\A b \in Batches : P(b)!Complete) /\ (finished => \A b \in Batches : srv[b] = "released") => Complete
NoneLeftFromBatches == (\A b \in Batches : P(b)!NoneLeftRunning) => NoneLeftRunning
=============================================================================
