--------------------------- MODULE RefineClientAbs ---------------------------
(* G5 (refinement links) - the client interface that ServerBatch.tla (and, through it, Runner.tla's
   ClientAnswers assumption) takes for granted, as a machine of its own.

   The interface is  sendRequest(name, callback) -> nil | error  plus the callbacks:
     (A1) every accepted send (sendRequest returned nil) is answered by exactly one callback - with a
          response or with an error -, eventually;
     (A2) a refused send says so (sendRequest returns an error) and never gets a callback;
     (A3) after a failure nothing is accepted: a sendRequest *called* once the client has failed or
          its send side is closed is refused  (ServerBatch: script.closeAt = k refuses the k-th send
          and all later ones);
     (A4) a send is refused only for a reason: the client has failed / is closed, the name is
          already outstanding, or the write itself fails (which is then the failure);
     (A5) every sendRequest returns.
   ServerBatch's callbacks may run inside sendRequest (cbmode "sync") or later ("async"), so a
   request counts from the moment it is taken (registered), not from the return; a send whose write
   fails after it was taken is retracted (RetFail) - unless it was already answered (then the call
   returns nil: RetOk).

   Bookkeeping is per name (acc = sends taken and not retracted, ans = callbacks), which is per
   request wherever names are unique - they are for everything Runner sends (AtMostOnce).          *)
EXTENDS Naturals, FiniteSets

CONSTANTS Callers, Names

VARIABLES cst,      \* cst[s] : "idle", "calling", "taken", "ret"
          cn,       \* cn[s]  : the name of the call in progress, "-" when idle
          rv,       \* rv[s]  : "ok" / "err" while cst[s] = "ret", else "-"
          late,     \* late[s]: the client was already failed / closed when the current (last) call of s began
          acc, ans, \* per name
          closed    \* the client has failed or its send side was closed
vars == <<cst, cn, rv, late, acc, ans, closed>>

Out(n) == acc[n] - ans[n]            \* outstanding requests under name n

Init == /\ cst = [s \in Callers |-> "idle"] /\ cn = [s \in Callers |-> "-"] /\ rv = [s \in Callers |-> "-"]
        /\ late = [s \in Callers |-> FALSE]
        /\ acc = [n \in Names |-> 0] /\ ans = [n \in Names |-> 0] /\ closed = FALSE

Call(s, n) == /\ cst[s] = "idle"
              /\ cst' = [cst EXCEPT ![s] = "calling"] /\ cn' = [cn EXCEPT ![s] = n]
              /\ late' = [late EXCEPT ![s] = closed]
              /\ UNCHANGED <<rv, acc, ans, closed>>
\* the request is taken: from now on a callback is owed                                   (A3)
Take(s) == /\ cst[s] = "calling" /\ ~late[s]
           /\ acc' = [acc EXCEPT ![cn[s]] = @ + 1] /\ cst' = [cst EXCEPT ![s] = "taken"]
           /\ UNCHANGED <<cn, rv, late, ans, closed>>
\* refused before anything was taken                                                     (A2, A4)
Refuse(s) == /\ cst[s] = "calling" /\ (closed \/ Out(cn[s]) > 0)
             /\ cst' = [cst EXCEPT ![s] = "ret"] /\ rv' = [rv EXCEPT ![s] = "err"]
             /\ UNCHANGED <<cn, late, acc, ans, closed>>
RetOk(s) == /\ cst[s] = "taken"
            /\ cst' = [cst EXCEPT ![s] = "ret"] /\ rv' = [rv EXCEPT ![s] = "ok"]
            /\ UNCHANGED <<cn, late, acc, ans, closed>>
\* the write failed after the request was taken and before it was answered: retracted; this is a failure
RetFail(s) == /\ cst[s] = "taken" /\ Out(cn[s]) > 0
              /\ acc' = [acc EXCEPT ![cn[s]] = @ - 1] /\ closed' = TRUE
              /\ cst' = [cst EXCEPT ![s] = "ret"] /\ rv' = [rv EXCEPT ![s] = "err"]
              /\ UNCHANGED <<cn, late, ans>>
Return(s) == /\ cst[s] = "ret"
             /\ cst' = [cst EXCEPT ![s] = "idle"] /\ cn' = [cn EXCEPT ![s] = "-"] /\ rv' = [rv EXCEPT ![s] = "-"]
             /\ UNCHANGED <<late, acc, ans, closed>>
\* a callback (with a response or with an error): only for something outstanding         (A1, A2)
Callback(n) == /\ Out(n) > 0
               /\ ans' = [ans EXCEPT ![n] = @ + 1]
               /\ UNCHANGED <<cst, cn, rv, late, acc, closed>>
Shut == /\ ~closed /\ closed' = TRUE
        /\ UNCHANGED <<cst, cn, rv, late, acc, ans>>

Progress(s) == Take(s) \/ Refuse(s) \/ RetOk(s) \/ RetFail(s) \/ Return(s)
Next == \/ \E s \in Callers : (\E n \in Names : Call(s, n)) \/ Progress(s)
        \/ \E n \in Names : Callback(n)
        \/ Shut

SafeSpec == Init /\ [][Next]_vars
Spec == SafeSpec /\ (\A n \in Names : WF_vars(Callback(n))) /\ (\A s \in Callers : WF_vars(Progress(s)))      \* (A1), (A5)

(* the fairness conjuncts in the form that survives a refinement mapping: ENABLED written out by hand
   (EnabledOK is checked on this module, RefineClientAbs.cfg) *)
CallbackEnabled(n) == Out(n) > 0
ProgressEnabled(s) == cst[s] # "idle"
LateMeansClosed == \A s \in Callers : (cst[s] = "calling" /\ late[s]) => closed
EnabledOK == /\ \A n \in Names : CallbackEnabled(n) <=> ENABLED <<Callback(n)>>_vars
             /\ \A s \in Callers : ProgressEnabled(s) <=> ENABLED <<Progress(s)>>_vars
FairMapped == /\ \A n \in Names : ([]<>~CallbackEnabled(n)) \/ ([]<><<Callback(n)>>_vars)
              /\ \A s \in Callers : ([]<>~ProgressEnabled(s)) \/ ([]<><<Progress(s)>>_vars)

(* what a user of the interface gets *)
TypeOK == /\ cst \in [Callers -> {"idle", "calling", "taken", "ret"}]
          /\ \A n \in Names : acc[n] \in Nat /\ ans[n] \in Nat
AtMostOnce == \A n \in Names : ans[n] <= acc[n]                                   \* (A1) never more callbacks than accepted sends
RefusedLate == [][\A s \in Callers : (cst[s] = "calling" /\ late[s]) =>           \* (A3)
                     (cst'[s] = "calling" \/ (cst'[s] = "ret" /\ rv'[s] = "err" /\ acc' = acc))]_vars
Answered == \A n \in Names : [](Out(n) > 0 => <>(Out(n) = 0))                     \* (A1), names sent once at a time
CallsReturn == \A s \in Callers : [](cst[s] # "idle" => <>(cst[s] = "idle"))      \* (A5)

Bounded == \A n \in Names : acc[n] <= 2 /\ ans[n] <= 2      \* CONSTRAINT for checking this module alone
=============================================================================
