------------------------------- MODULE Compress -------------------------------
(* C20 - one pooled compressor or decompressor instance of one encoding, driven through a
   history of calls.  One action per method call of the wrapper (Reset / Read / Close /
   Write); the environment chooses the call and - where the model of a decoder is
   nondeterministic - the outcome.

   Declarative meaning   : DReq(ops) / CReq(ops) of CompressDecl - obligations that depend on
                           the calls only
   Operational machine   : the wrapper designs of CompressImpl over the library contracts
   Theorem checked by TLC: every observation of every reachable call satisfies its obligation
                           (Conforms), for histories of ANY length (with KeepHist = FALSE the
                           reachable state space is finite and no length bound is imposed; only
                           the chunk counter saturates at MaxRd and a segment takes MaxW Writes),
                           under each usage grammar:
       free    any call sequence that starts with Reset (Discipline = "first")
       pool    connect's compressionPool: Get, Reset(src), ReadFrom [after a limited read],
               Close, Reset(http.NoBody), Put - the instance is dropped when Reset or Close fail
       tracer  dataTracer / wire_details: Reset(buffer), ReadFrom - never Close
       raw     WriteRawStreamContents: a fresh compressor per item, all on one shared sink     *)
EXTENDS CompressImpl, TLC

CONSTANTS EncSet,      \* encodings explored
          Sides,       \* subset of {"D", "C"}
          Grammars,    \* subset of {"free", "pool", "tracer", "raw"}
          Discipline,  \* "full" | "first" | "none": how much of the usage discipline callers keep
          MaxOps,      \* history length bound (only with KeepHist)
          MaxRd,       \* saturation of the chunk counter
          MaxW,        \* Writes per segment (Reset..Reset)
          KeepHist     \* TRUE: remember the calls (behaviour generation); FALSE: design check

VARIABLES enc, side, gram,   \* the scenario (chosen in Init)
          dst,               \* decompressor wrapper state
          cst, pipeOpen,     \* compressor wrapper state, shared pipe sink still open
          bind,              \* declarative binding (DAfter / CAfter of the calls so far)
          phase,             \* position in the usage grammar
          last,              \* last call: [o, ret]
          obl, ob,           \* obligation and observation of the last call
          hist, n            \* calls so far (observation only), their number

vars == <<enc, side, gram, dst, cst, pipeOpen, bind, phase, last, obl, ob, hist, n>>

NoLast == [o |-> None, ret |-> None]
NoOb   == [ret |-> "ok", eq |-> <<>>, from |-> 0, w |-> <<>>]

Init == /\ enc \in EncSet /\ side \in Sides /\ gram \in Grammars
        /\ (gram = "tracer" => side = "D") /\ (gram = "raw" => side = "C")
        /\ dst = DNewW(enc) /\ cst = CNewW /\ pipeOpen = TRUE
        /\ bind = IF side = "D" THEN DBind0 ELSE CBind0
        /\ phase = "get" /\ last = NoLast /\ obl = Free /\ ob = NoOb /\ hist = <<>> /\ n = 0

(* ------------------------------ usage grammars ------------------------------ *)
\* DGram(op) : may the decompressor's user make call op now?  DPhase(op, ret) : where it is then
DGram(op) ==
  CASE gram = "free"   -> DDiscipline(Discipline, last.o, last.ret, op)
    [] gram = "pool"   ->
         (CASE phase = "get"     -> op.o = "Reset" /\ op.k # "nobody"
           [] phase = "read"    -> op.o \in {"Read1", "ReadAll"}     \* readMaxBytes: limited, then drained
           [] phase = "read1"   -> op.o = "ReadAll"
           [] phase = "close"   -> op.o = "Close"
           [] phase = "recycle" -> op = DReset(Stream("nobody", None))
           [] phase = "dropped" -> FALSE)
    [] gram = "tracer" ->
         (CASE phase = "get"  -> op.o = "Reset"
           [] phase = "read" -> op.o = "ReadAll")
DPhase(op, ret) ==
  CASE gram = "free"   -> "get"
    [] gram = "pool"   ->
         (CASE phase = "get"     -> IF ret = "ok" THEN "read" ELSE "dropped"
           [] phase = "read"    -> IF op.o = "Read1" THEN "read1" ELSE "close"
           [] phase = "read1"   -> "close"
           [] phase = "close"   -> IF ret = "ok" THEN "recycle" ELSE "dropped"
           [] phase = "recycle" -> "get")                              \* error ignored by the pool
    [] gram = "tracer" ->
         (CASE phase = "get"  -> IF ret = "ok" THEN "read" ELSE "get"
           [] phase = "read" -> "get")

CGram(op) ==
  CASE gram = "free" -> op.o # "New" /\ CDiscipline(Discipline, bind.k, op)
    [] gram = "pool" ->
         (CASE phase = "get"     -> op.o = "Reset" /\ op.k \in {"buf", "fail"}
           [] phase = "write"   -> op.o \in {"Write", "Close"}        \* empty message: no Write at all
           [] phase = "close"   -> op.o = "Close"
           [] phase = "recycle" -> op = CReset("discard")
           [] phase = "dropped" -> FALSE)
    [] gram = "raw"  ->
         (CASE phase = "get"   -> op.o = "New"
           [] phase = "new"   -> op.o = "Reset" /\ op.k = "pipe"
           [] phase = "write" -> op.o = "Write"
           [] phase = "close" -> op.o = "Close")
CPhase(op, ret) ==
  CASE gram = "free" -> "get"
    [] gram = "pool" ->
         (CASE phase = "get"     -> "write"
           [] phase = "write"   -> IF op.o = "Write" THEN "close"
                                   ELSE IF ret = "ok" THEN "recycle" ELSE "dropped"
           [] phase = "close"   -> IF ret = "ok" THEN "recycle" ELSE "dropped"
           [] phase = "recycle" -> "get")
    [] gram = "raw"  ->
         (CASE phase = "get"   -> "new"
           [] phase = "new"   -> "write"
           [] phase = "write" -> "close"
           [] phase = "close" -> "get")

(* ------------------------------ actions ------------------------------ *)
Record(op) == /\ hist' = IF KeepHist THEN Append(hist, op) ELSE hist
              /\ n' = IF KeepHist THEN n + 1 ELSE n
Bounded == KeepHist => n < MaxOps

\* one call on the decompressor: Reset(s) / Read1 / ReadAll / Close
DCall(op) ==
  /\ side = "D" /\ Bounded /\ DGram(op)
  /\ \E o \in DStep(enc, dst, op, MaxRd) :
       /\ dst' = o.st
       /\ ob' = [ret |-> o.ret, eq |-> o.eq, from |-> o.from, w |-> <<>>]
       /\ last' = [o |-> op.o, ret |-> o.ret]
       /\ phase' = DPhase(op, o.ret)
  /\ obl' = DObl(bind, op)
  /\ bind' = DAfter(bind, op, MaxRd)
  /\ Record(op)
  /\ UNCHANGED <<enc, side, gram, cst, pipeOpen>>

\* one call on the compressor: Reset(sink) / Write(p) / Close (/ New: instance replaced)
CCall(op) ==
  /\ side = "C" /\ Bounded /\ CGram(op)
  /\ op.o = "Write" => Len(cst.pend) < MaxW
  /\ \E o \in CStep(enc, cst, pipeOpen, op) :
       /\ cst' = o.st /\ pipeOpen' = o.pipeOpen
       /\ ob' = [ret |-> o.ret, eq |-> <<>>, from |-> 0, w |-> o.w]
       /\ last' = [o |-> op.o, ret |-> o.ret]
       /\ phase' = CPhase(op, o.ret)
  /\ obl' = CObl(bind, op)
  /\ bind' = CAfter(bind, op)
  /\ Record(op)
  /\ UNCHANGED <<enc, side, gram, dst>>

Next == (\E op \in DOps : DCall(op)) \/ (\E op \in COps : CCall(op))

Spec == Init /\ [][Next]_vars

(* ------------------------------ properties ------------------------------ *)
TypeOK == /\ dst.w \in {"nil", "err", "live"}
          /\ phase \in {"get", "read", "read1", "close", "recycle", "dropped", "write", "new"}
          /\ ob.ret \in {"ok", "err", "panic"}

\* THE THEOREM: whatever the history, every call meets its obligation
\*   - a valid stream decodes to its payload after any earlier calls (incl. failed decodes, Close)
\*   - what a compressor wrote between Reset and Close is the stream of exactly what was written
\*   - nothing panics
Conforms == ObsOK(obl, ob)

\* why it holds (inductive core, D side): once a Reset on a valid stream has succeeded the
\* library object under the wrapper is alive, clean, bound to that very stream and has consumed
\* exactly what the history says - until the next Close
RefinesBinding ==
  (side = "D" /\ bind.k = "valid" /\ ~bind.closed) =>
     /\ dst.w = "live" /\ dst.L.alive /\ dst.L.clean /\ ~dst.L.err
     /\ dst.L.src = Stream("valid", bind.p) /\ dst.L.rd = bind.rd

\* a closed zstd decoder is never kept (R2), and the sentinel only stands in after a bad header
WrapperShape ==
  /\ (side = "D" /\ enc = "zstd" /\ dst.w = "live") => dst.L.alive
  /\ (side = "D" /\ dst.w = "err") => enc = "deflate"

\* every call the grammar allows has an outcome (the model never "hangs")
Returns == /\ \A op \in DOps : (side = "D" /\ DGram(op)) => DStep(enc, dst, op, MaxRd) # {}
           /\ \A op \in COps : (side = "C" /\ CGram(op)) => CStep(enc, cst, pipeOpen, op) # {}

\* the shared sink stays usable: a compressor's Close must not close what it writes to
SinkStaysOpen == pipeOpen

\* the repository's own clients (pool, tracer) happen to keep both rules of the usage discipline
GrammarWithinDiscipline ==
  [][\A op \in DOps : (side = "D" /\ gram # "free" /\ DCall(op)) => DDiscipline("full", last.o, last.ret, op)]_vars

ViewNoHist == <<enc, side, gram, dst, cst, pipeOpen, bind, phase, last, obl, ob>>
ViewHist   == <<enc, side, gram, hist>>
\* generation only: states that differ in nothing the grammars look at are one history
ViewGen    == <<enc, side, gram, hist, phase, last>>
=============================================================================
