----------------------------- MODULE Gen_RefServer -----------------------------
(* environment schedules for the server life cycle: projections of random behaviours of RefServer
   to the steps the harness decides (hist), together with the shutdown kind and the bind mode.
   deep = TRUE biases the random walk towards long lives (the generator may look at the program's
   state for that; the schedule it emits is still nothing but a sequence of environment steps):
   the config is good, stdout is not closed, stdin is closed only after the config, the context is
   cancelled only after the announcement was read and a connection was attempted. *)
EXTENDS RefServer, Json
CONSTANT DeepModes
VARIABLE deep
AtEnd == ret # "none" /\ ~cfgPend /\ ~outPend /\ \A i \in Rpcs : rpc[i] \notin {"dialing", "refused", "done", "cut"} /\ ~acc[i]
DeepObservable ==
  \/ CfgCall("good") \/ CfgRet \/ ReadCall \/ (\E r \in {"resp", "eof"} : ReadRet(r)) \/ Break \/ Grace
  \/ cfgSent /\ CloseStdin
  \/ got = "resp" /\ (\E i \in Rpcs : rpc[i] # "none") /\ Cancel
  \/ \E i \in Rpcs : ConnCall(i) \/ (\E r \in {"ok", "fail", "stuck"} : ConnRet(i, r)) \/ Finish(i)
                     \/ (\E r \in {"clean", "cut"} : RpcEnd(i, r))
GInit == Init /\ deep \in DeepModes /\ (deep => bind # "taken")
GNext == ~AtEnd /\ (Internal \/ IF deep THEN DeepObservable ELSE Observable) /\ UNCHANGED deep
Emit == AtEnd => PrintT("SCN " \o ToJson([kind |-> kind, bind |-> bind, deep |-> deep, hist |-> hist]))
=============================================================================
