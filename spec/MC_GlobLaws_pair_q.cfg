CONSTANTS
  Lits = {"a", "b"}
  MaxPat = 2
  MaxName = 4
  MaxArgs = 0
  MaxLines = 0
  Mode = "pair"
INIT Init
NEXT Next
INVARIANTS SelectLaws ReportLaws
