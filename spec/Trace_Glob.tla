----------------------------- MODULE Trace_Glob -----------------------------
(* code -> spec binding for C08.  Every line of the recorded file is one execution of the real
   code on an input chosen by the seeded Go driver (beyond the TLC-enumerated domain: longer
   patterns and names, more patterns per list, the shipped known-failing files against the names of
   the embedded test suites, random argument lists); it carries the input and what was observed.
   A line is accepted iff the observation satisfies the declarative definitions of GlobDecl.

     t = "list"     one pattern list validated against a set of names by tryMatchPatterns:
                    which names matched (matchPattern), the reported patterns
     t = "combo"    run / skip / known-failing / known-flaky lists and a set of names: the names the
                    filter accepts, the marking of outcomes, and the outcome of connectconformance.Run
                    (kind "unmatched" + list + reported | "ambiguous" + names | "started" + counts)
     t = "collect"  an argument list of one flag through argsToPatterns                          *)
EXTENDS GlobDecl, Json, TLC, IOUtils

Rec == ndJsonDeserialize(IOEnv.VERIF_TRACE)

VARIABLE l

AcceptList(r) ==
  LET P == Range(r.pats)
      N == Range(r.names) IN
  /\ Range(r.matched) = MarkedSet(N, P)       \* fresh tree per name, patterns inserted in reverse order
  /\ Range(r.matched2) = MarkedSet(N, P)      \* the tree used by tryMatchPatterns, asked again afterwards
  /\ ReportOK(P, N, Range(r.rep))

ListOf(r, what) == CASE what = "run" -> Range(r.run) [] what = "skip" -> Range(r.skip)
                     [] what = "failing" -> Range(r.failing) [] what = "flaky" -> Range(r.flaky)

\* outcome of the whole validation in Run: the statement fixes no order between the checks
AcceptRun(r, N) ==
  LET o == r.runobs
      F == Range(r.failing)
      K == Range(r.flaky) IN
  CASE o.kind = "none"      -> TRUE                \* not driven through Run (a name of one component)
    [] o.kind = "unmatched" -> /\ o.what \in {"run", "skip", "failing", "flaky"}
                               /\ Range(o.rep) # {}
                               /\ ReportOK(ListOf(r, o.what), N, Range(o.rep))
    [] o.kind = "ambiguous" -> /\ Range(o.amb) \subseteq Ambiguous(N, F, K)    \* rejected because of names
                               /\ Range(o.amb) # {}                            \* that really are ambiguous
    [] o.kind = "started"   -> /\ \A w \in {"run", "skip", "failing", "flaky"} : TrulyUnmatched(ListOf(r, w), N) = {}
                               /\ Ambiguous(N, F, K) = {}
                               /\ o.total = Cardinality(N)
                               /\ o.filtered = Cardinality(SelectedSet(N, Range(r.run), Range(r.skip)))
    [] OTHER                -> FALSE

AcceptCombo(r) ==
  LET N == Range(r.names)
      R == Range(r.run)
      S == Range(r.skip)
      F == Range(r.failing)
      K == Range(r.flaky) IN
  /\ Range(r.sel) = SelectedSet(N, R, S)
  /\ Range(r.markF) = MarkedSet(N, F)
  /\ Range(r.markK) = MarkedSet(N, K)
  /\ AcceptRun(r, N)

AcceptCollect(r) ==
  LET c == CollectResult(r.args) IN
  /\ r.err = c.err
  /\ r.pats = c.pats

Accept(r) == CASE r.t = "list"    -> AcceptList(r)
               [] r.t = "combo"   -> AcceptCombo(r)
               [] r.t = "collect" -> AcceptCollect(r)
               [] OTHER           -> FALSE

TraceInit == l = 1
TraceNext == /\ l <= Len(Rec)
             /\ l' = l + 1
             /\ (Accept(Rec[l]) \/ PrintT("REJECT " \o ToString(l)))
TraceSpec == TraceInit /\ [][TraceNext]_l
Consumed == (l = Len(Rec) + 1) => PrintT("CONSUMED " \o ToString(Len(Rec)))
=============================================================================
