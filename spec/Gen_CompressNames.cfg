INIT Init
NEXT Next
INVARIANTS LawsAgree TableInjective Emit
