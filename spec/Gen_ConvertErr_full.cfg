CONSTANTS
  Codes = {1, 2, 3, 4, 5, 6, 7, 8, 9, 10, 11, 12, 13, 14, 15, 16}
  Msgs = {"absent", "empty", "ascii", "utf8", "pct"}
  Pfxs = {"std", "other", "none"}
  Types = {"t1", "t2", "t3"}
  Vals = {0, 1, 2, 3}
  MaxDetails = 2
  Routes = {"connect"}
INIT Init
NEXT Next
INVARIANTS Agrees Laws Emit
