---------------------------- MODULE BodyTraceDecl ----------------------------
(* C14 - declarative meaning of the body part of an HTTP trace.

   A body is a sequence of ENVELOPES  [flags, len, pc]:
     flags  the first prefix byte (0..255); bit 1 = "payload is compressed", bits 2 / 128 =
            "this is the end-of-stream message" (Connect streaming / gRPC-Web)
     len    the declared payload length (prefix bytes 2..5, big endian)
     pc     the class of the len payload bytes: "plain" (not compressed text), "comp" (a valid
            stream of the negotiated encoding whose content is non-empty), "compEmpty" (a valid
            stream of the negotiated encoding whose content is empty), "garbage" (bytes the
            negotiated decoder rejects)
   Only the first `avail` bytes of the body are ever seen (truncation point; avail = Total(body)
   means nothing is missing) and the body then ends in one of the ways of EndKinds.  The body is
   seen on one SIDE ("req" / "resp") of a call whose headers are h = [ct, ce, cce, ge]:
     ct   class of Content-Type      "connect" application/connect+*, "grpc" application/grpc*,
                                     "grpcweb" application/grpc-web*, "unary" anything else
     ce   Content-Encoding           "none" (absent) or "set": the WHOLE body is encoded
     cce  Connect-Content-Encoding   an encoding class, see EncClasses
     ge   Grpc-Encoding              an encoding class

   Events(body, avail, end, side, h) is the sequence of body events the trace must contain for
   that side - independently of how the avail bytes were split across Read/Write calls (the split
   is not even a parameter).  All events are records of one shape so that they can be compared
   with what the Go harness records:   [k, i, env, flags, declared, len, c]
     Data       i = message index (0,1,2.. per side), env = 1 with flags/declared from the prefix
                and len = payload bytes actually seen; env = 0 (no envelope known) with len = the
                bytes seen of an incomplete prefix, or the byte count of a non-stream body
     EndStream  i = index of the message it belongs to, c = "raw" (content is the payload as is)
                or "orig" (content is the decompressed payload)
     BodyEnd    c = class of the error the body ended with

   Constant level only: shared by the machine (BodyTrace), the generator (Gen_BodyTrace) and the
   acceptor of recorded executions (Trace_BodyTrace). *)
EXTENDS Integers, Sequences

PrefixLen == 5

EndKinds   == {"eof", "err", "close", "closeerr"}
EncClasses == {"none", "identity", "real", "unknown"}
   \* none: header absent; identity: "identity"; real: one of gzip br zstd deflate snappy;
   \* unknown: any other name
PayloadClasses == {"plain", "comp", "compEmpty", "garbage"}

(* ------------------------------ flags ------------------------------ *)
Bit(f, b)        == (f \div b) % 2 = 1
Compressed(f)    == Bit(f, 1)
\* The documentation (docs/configuring_and_running_tests.md, "Test Output") calls the final
\* message of Connect streaming (flag bit 2) and gRPC-Web (flag bit 128) the end of stream.  The
\* tracer does not tie the bit to the protocol: either bit marks an end-of-stream message in any
\* enveloped RESPONSE body.  The statement is silent on the pairing, so this is how it is modelled.
AsImplemented_EndStreamMask(f) == Bit(f, 2) \/ Bit(f, 128)

(* ------------------------------ headers ------------------------------ *)
IsStream(h) == h.ct \in {"connect", "grpc", "grpcweb"} /\ h.ce = "none"
Enc(h)      == IF h.ct = "connect" THEN h.cce ELSE h.ge      \* only meaningful when IsStream(h)

(* ------------------------------ end-of-stream content ------------------------------ *)
\* what the negotiated decoder makes of a payload of class pc:
\*   "raw" the payload itself, "orig" the text that had been compressed, "none" nothing
Decoded(enc, pc) ==
  CASE enc \in {"none", "identity"} -> "raw"          \* the identity decoder
    [] enc = "real"                 -> IF pc = "comp" THEN "orig" ELSE "none"
    [] OTHER                        -> "none"         \* no decoder for that name
\* THE clause of the statement: "decompressed exactly when the message's compressed flag is set".
\* consult = FALSE describes the wrong reading "always run the negotiated decoder"; it exists only
\* so that a disagreement of the code can be attributed to exactly that cause (and as a mutant
\* of the machine that TLC must reject).
ContentP(consult, enc, e) == IF Compressed(e.flags) \/ ~consult THEN Decoded(enc, e.pc) ELSE "raw"
Content(enc, e) == ContentP(TRUE, enc, e)

\* An end-of-stream message whose content is empty or cannot be decoded is listed as a plain
\* data event only (there is no content to show); the statement does not say otherwise.
AsImplemented_NoEventWithoutContent(c) == c = "none"

(* ------------------------------ events ------------------------------ *)
Data(i, e, n)   == [k |-> "Data", i |-> i, env |-> 1, flags |-> e.flags, declared |-> e.len, len |-> n, c |-> ""]
Bare(i, n)      == [k |-> "Data", i |-> i, env |-> 0, flags |-> 0, declared |-> 0, len |-> n, c |-> ""]
EndStream(i, c) == [k |-> "EndStream", i |-> i, env |-> 0, flags |-> 0, declared |-> 0, len |-> 0, c |-> c]
BodyEnd(c)      == [k |-> "BodyEnd", i |-> 0, env |-> 0, flags |-> 0, declared |-> 0, len |-> 0, c |-> c]

\* error reported by the body-end event, per way of ending:
\*   eof       the final read returned io.EOF                      -> no error
\*   err       the final read/write returned another error X       -> X
\*   close     closed before EOF was seen, Close returned nil      -> "closed before fully consumed"
\*   closeerr  closed before EOF was seen, Close returned X        -> "close: X"
EndErr(end) == CASE end = "eof" -> "nil" [] end = "err" -> "inner" [] end = "close" -> "closedEarly"
                 [] end = "closeerr" -> "closeInner"

\* The statement promises a final partial event for a body cut "part-way through a prefix or a
\* payload".  A cut exactly between a complete prefix (declared length > 0) and the first payload
\* byte is neither; the tracer then lists nothing for that message, and so does the model.
AsImplemented_SilentCutAfterPrefix == TRUE

EndStreamEventsP(consult, i, e, side, enc) ==
  IF side = "resp" /\ AsImplemented_EndStreamMask(e.flags) /\ e.len > 0
       /\ ~AsImplemented_NoEventWithoutContent(ContentP(consult, enc, e))
    THEN <<EndStream(i, ContentP(consult, enc, e))>>
    ELSE <<>>
EndStreamEvents(i, e, side, enc) == EndStreamEventsP(TRUE, i, e, side, enc)

RECURSIVE Total(_)
Total(body) == IF body = <<>> THEN 0 ELSE PrefixLen + Head(body).len + Total(Tail(body))

\* events of envelopes j, j+1, .. when `av` bytes are left to be seen
RECURSIVE MsgEventsP(_, _, _, _, _, _)
MsgEventsP(consult, body, j, av, side, enc) ==
  IF av = 0 \/ j > Len(body) THEN <<>>
  ELSE IF av < PrefixLen THEN <<Bare(j - 1, av)>>                    \* cut inside the prefix
  ELSE LET e == body[j] IN
       IF av - PrefixLen < e.len                                     \* cut inside the payload
         THEN IF av = PrefixLen /\ AsImplemented_SilentCutAfterPrefix
                THEN <<>> ELSE <<Data(j - 1, e, av - PrefixLen)>>
         ELSE <<Data(j - 1, e, e.len)>> \o EndStreamEventsP(consult, j - 1, e, side, enc)
              \o MsgEventsP(consult, body, j + 1, av - PrefixLen - e.len, side, enc)
MsgEvents(body, j, av, side, enc) == MsgEventsP(TRUE, body, j, av, side, enc)

EventsP(consult, body, avail, end, side, h) ==
  (IF IsStream(h) THEN MsgEventsP(consult, body, 1, avail, side, Enc(h))
   ELSE IF avail > 0 THEN <<Bare(0, avail)>> ELSE <<>>)               \* not enveloped: one byte count
  \o <<BodyEnd(EndErr(end))>>
Events(body, avail, end, side, h) == EventsP(TRUE, body, avail, end, side, h)
\* what a tracer that never looks at the compressed flag would list (see ContentP)
EventsIgnoringBit(body, avail, end, side, h) == EventsP(FALSE, body, avail, end, side, h)

\* the events that are already determined once `n` bytes have been seen (eager emission)
RECURSIVE DoneEvents(_, _, _, _, _)
DoneEvents(body, j, n, side, enc) ==
  IF j > Len(body) \/ n < PrefixLen + body[j].len THEN <<>>
  ELSE <<Data(j - 1, body[j], body[j].len)>> \o EndStreamEvents(j - 1, body[j], side, enc)
       \o DoneEvents(body, j + 1, n - PrefixLen - body[j].len, side, enc)

(* ------------------------------ bytes ------------------------------ *)
\* The byte stream of a body, as cells <<j, x>>: a prefix cell is <<0, byte value>>, payload cell o
\* of envelope j is <<j, o>> (its value is irrelevant, its identity is not: the captured
\* end-of-stream content must be exactly the payload, in order).
BE32(n) == <<n \div 16777216, (n \div 65536) % 256, (n \div 256) % 256, n % 256>>
UnBE32(s) == ((s[1] * 256 + s[2]) * 256 + s[3]) * 256 + s[4]
PrefixCells(e) == LET p == <<e.flags>> \o BE32(e.len) IN [n \in 1..PrefixLen |-> <<0, p[n]>>]
PayloadCells(j, e) == [o \in 1..e.len |-> <<j, o>>]
RECURSIVE StreamFrom(_, _)
StreamFrom(body, j) == IF j > Len(body) THEN <<>>
                       ELSE PrefixCells(body[j]) \o PayloadCells(j, body[j]) \o StreamFrom(body, j + 1)
Stream(body) == StreamFrom(body, 1)
=============================================================================
