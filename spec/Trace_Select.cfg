INIT TraceInit
NEXT TraceNext
INVARIANT Consumed
