CONSTANTS
  Codecs = {"proto", "json"}
  Top = "UREQ"
  Depth = 3
  MaxRep = 1
  ProtoKinds = {"varint", "fixed32", "fixed64", "bytes", "group"}
  JsonKinds = {"scalar", "object", "null"}
INIT Init
NEXT Next
INVARIANTS Agrees Emit
