CONSTANTS
  W = 3
  M = 2
  MsgSet <- MsgsGen
  Known <- KnownNames
  AllowCrash = FALSE
  Paths = {"normal", "early"}
  KeepHist = TRUE
  MinOrder = 3
INIT Init
NEXT GNext
INVARIANTS Mutex EndInv Emit
