---------------------------- MODULE Trace_Assert ----------------------------
(* code -> spec binding for C03: every line of the recorded file is one execution of the real
   testResults.assert: the expected result of a corpus test case and a rewritten reported result
   (both projected onto the abstract result of AssertDecl), the stream type and other allowed
   codes, the recorded outcome (ok = no failure recorded) and the discrepancies named by the
   failure text (obs).  A line is accepted iff
     - the outcome is "passed" exactly when the declarative relation holds, and
     - every discrepancy the relation contains is named by the failure text.
   Lines whose values fall outside the domain of the relation (a header name in two entries) are
   reported as OUTSIDE and not judged. *)
EXTENDS AssertDecl, Json, IOUtils

Rec == ndJsonDeserialize(IOEnv.VERIF_TRACE)

VARIABLE l
TraceInit == l = 1
InDomain(r) == ResultOK(r.exp) /\ ResultOK(r.act)
Accept(r)   == LET D == Disc(r.exp, r.act, r.tc)
               IN  (r.ok <=> D = {}) /\ D \subseteq Range(r.obs)
TraceNext == /\ l <= Len(Rec)
             /\ l' = l + 1
             /\ IF ~InDomain(Rec[l]) THEN PrintT("OUTSIDE " \o ToString(l))
                ELSE \/ Accept(Rec[l])
                     \/ PrintT("REJECT " \o ToJson([line |-> l, disc |-> Disc(Rec[l].exp, Rec[l].act, Rec[l].tc)]))
TraceSpec == TraceInit /\ [][TraceNext]_l
Consumed == (l = Len(Rec) + 1) => PrintT("CONSUMED " \o ToString(Len(Rec)))
=============================================================================
