CONSTANTS
  Kind = "emit"
  Tier = "t"
SPECIFICATION Spec
INVARIANTS TypeOK Agrees SilentIff EmitSilent Emit
