--------------------------- MODULE EchoCancelCases ---------------------------
(* G2 - the bounded scenario space of cancellation / timeout test cases (stream type x number of
   requests and responses x error at the end x response / request delay x cancel kind and position
   x timeout against the delays), shared by the design check (EchoCancel) and the generator
   (Gen_EchoCancel). *)
EXTENDS EchoCancelDecl

CONSTANTS STs,        \* stream types explored
          MaxReqs,    \* client / bidi streams carry 0..MaxReqs requests
          MaxResp,    \* stream definitions carry 0..MaxResp response data
          RDs, QDs,   \* response_delay_ms / request_delay_ms in units (even; 0 = none)
          CloseAs,    \* after_close_send_ms: 0 = eps, odd = long
          Timeouts    \* timeout_ms in units (odd), Far = beyond the call; without 0 (= unset)

Ns(st) == IF st \in {"unary", "server"} THEN {1} ELSE 0..MaxReqs
Ms(st) == IF Single(st) THEN {1} ELSE 0..MaxResp
Cancels(st, m) ==
  {<<"none", 0>>} \cup {<<"close", a>> : a \in CloseAs}
  \cup (IF Uploads(st) THEN {<<"before", 0>>} ELSE {})
  \cup (IF Single(st) THEN {} ELSE {<<"num", k>> : k \in 1..MaxResp})

\* written with quantifiers so that TLC enumerates it without building one huge set
IsCase(T) ==
  \E st \in STs : \E n \in Ns(st) : \E m \in (IF n = 0 /\ ~Single(st) THEN {0} ELSE Ms(st)) :
  \E derr \in (IF Single(st) \/ n = 0 THEN {FALSE} ELSE BOOLEAN) :
  \E rd \in (IF n = 0 THEN {0} ELSE RDs) : \E qd \in (IF Uploads(st) /\ n > 0 THEN QDs ELSE {0}) :
    /\ (st = "full" => n <= m)
    /\ \/ \E c \in Cancels(st, m) : T = Case(st, n, m, derr, rd, qd, c[1], c[2], 0)
       \/ \E to \in Timeouts : T = Case(st, n, m, derr, rd, qd, "none", 0, to)
=============================================================================
