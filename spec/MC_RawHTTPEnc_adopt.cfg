CONSTANTS
  MaxItems = 2
  FlagSet = {0}
  LenSet = {1}
  PSet = {"a"}
  ZSet = {1, 2}
  SinkKinds = {"buffer", "pipe"}
  AdoptClose = TRUE
SPECIFICATION Spec
INVARIANTS OnlyRangeErrors
