CONSTANTS
  N = 2
  SrvKinds = {"ok", "startFail", "writeFail", "closeFail", "truncated", "oversize", "garbage", "empty", "noCert"}
  DieVals = {0, 1, 2}
  NoticeModes = {"sync", "async"}
  AnsKinds = {"pass", "mismatch", "cerr", "empty", "none"}
  CbModes = {"sync", "async"}
  CloseVals = {0, 1, 2}
INIT Init
NEXT Next
INVARIANTS ExactlyOneOutcome Emit

