------------------------------ MODULE Gen_Echo ------------------------------
(* Behaviour generator for C02.  A test case is built message by message (so that the same module
   enumerates the bounded scenario space exhaustively under BFS and draws long random cases under
   -simulate); every finished case is printed with what the SPECIFICATION requires of it:
     wf    - is it a well-formed case of the deterministic fragment
     load  - "ok" / "reject" / "any": what loading it must do (never crash in all three)
     exp   - Expect(T), the expectation the runner must derive          (wf cases)
   With Mutants the finished case is additionally damaged in one of the ways a suite author can
   get a case wrong while the file still parses (wrong message type for the stream type, a message
   that is no request at all, wrong number of messages, full_duplex flag against the stream type). *)
EXTENDS EchoCases, Json, TLC

CONSTANTS MutKinds      \* subset of {"none", "mtSame", "mtOther", "mtOtherNoDef", "mtNon", "mtLater", "noRequest"}

VARIABLES t, ph
gvars == <<t, ph>>

GenInit == /\ ph = "build"
           /\ \E st \in STs : \E q \in ReqHdrNames : t = Case(st, HdrShape("q", q), <<>>)

Bound(st) == IF WFOnly /\ st \in {"unary", "server"} THEN 1 ELSE MaxReqs
MayStop(c) == ~WFOnly \/ Len(c.reqs) \in Counts(c.st)

AddReq == /\ ph = "build" /\ Len(t.reqs) < Bound(t.st)
          /\ \E r \in IF t.reqs = <<>> THEN FirstReqs(t.st) ELSE LaterReqs(t.st, t.reqs[1]) :
               t' = [t EXCEPT !.reqs = Append(@, r)]
          /\ ph' = ph

OtherSt(st)  == CASE st = "unary" -> "client" [] st = "client" -> "unary" [] st = "server" -> "half" [] OTHER -> "server"
CrossSt(st)  == IF Kind(st) = "u" THEN "server" ELSE "unary"
Mutate(c, mk) ==
  CASE mk = "mtSame"       -> [c EXCEPT !.reqs[1].mt = MethodMsg(OtherSt(c.st)), !.reqs[1].fd = FALSE]
    [] mk = "mtOther"      -> [c EXCEPT !.reqs[1] = Req(MethodMsg(CrossSt(c.st)), DecoyDef(CrossSt(c.st)), FALSE)]
    [] mk = "mtOtherNoDef" -> [c EXCEPT !.reqs[1] = Req(MethodMsg(CrossSt(c.st)), NoneV, FALSE)]
    [] mk = "mtNon"        -> [c EXCEPT !.reqs[1] = Req("other", NoneV, FALSE)]
    [] mk = "mtLater"      -> [c EXCEPT !.reqs[Len(c.reqs)] = Req("other", NoneV, FALSE)]
    [] mk = "noRequest"    -> [c EXCEPT !.st = "norequest", !.reqs = <<>>]     \* the entry has no request field at all
    [] OTHER               -> c
Applicable(c, mk) == mk \in {"none", "noRequest"} \/ (Len(c.reqs) >= 1 /\ (mk = "mtLater" => Len(c.reqs) >= 2))

Stop == /\ ph = "build" /\ MayStop(t)
        /\ \E mk \in MutKinds : Applicable(t, mk) /\ t' = Mutate(t, mk)
        /\ ph' = "done"

GenNext == AddReq \/ Stop

Line(c) == LET wf == WellFormed(c) IN
           [t |-> c, wf |-> wf, load |-> LoadVerdict(c),
            exp  |-> IF wf THEN Expect(c) ELSE NoneV]

Emit == (ph = "done") => PrintT("SCN " \o ToJson(Line(t)))

\* the design theorem once more, on exactly the cases handed to the Go side
Sound == (ph = "done" /\ WellFormed(t)) => ThreeWay(t)
=============================================================================
