CONSTANTS
  Sides = {"client"}
  MaxSid = 1
  MaxFrames = 4
  MinFrames = 0
  Names = {"a"}
  BodyPlans <- PlansTiny
  DataCuts = {3}
  Conts = {0}
  MaxOther = 0
  MaxGoAway = 0
  AllowUnnamed = FALSE
  AllowReqTrailers = FALSE
  AllowClientGoAway = FALSE
  AllowTimer = TRUE
  AllowEarlyEnd = FALSE
  MaxCall = 4
  FrameAligned = TRUE
  MaxAhead = 1
  MaxTimeouts = 0
  EndKinds = {"close"}
  KeepCalls = FALSE
  Variant = "intended"
SPECIFICATION Spec
INVARIANTS TypeOK
PROPERTIES HeldBackIsReleased TransparentStep
