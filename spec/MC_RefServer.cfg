CONSTANTS
  NR = 2
  Kinds = {"tracked", "hijacked", "abrupt"}
  Binds = {"free", "fixed", "taken"}
  CfgKinds = {"good", "bad", "unsup", "trunc"}
  AnnounceFirst = FALSE
  KeepHist = FALSE
SPECIFICATION Spec
INVARIANTS TypeOK OneResponse NoResponseWithoutConfig SilentOnlyOnFailure ReturnedMeansStopped GracefulReturn ResultTruthful
PROPERTIES AcceptOnlyWhileUp DrainBounded NoCutWhileServing WriteOnce Terminates
