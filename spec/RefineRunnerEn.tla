--------------------------- MODULE RefineRunnerEn ---------------------------
(* G5 (refinement links) - Runner.tla plus a hand-written state predicate that says when Runner's
   next-state action is enabled.

   Why: Runner!Spec has the conjunct WF_vars(Next).  To check "Low!Spec => Runner!Spec" under a
   refinement mapping, TLC would have to evaluate ENABLED <<Next>>_vars with Runner's variables
   replaced by state functions of the lower level, which it cannot do (and which would not be the
   right formula anyway: substitution does not distribute over ENABLED).  The right formula is
   ENABLED computed in Runner and *then* mapped - NextEnabled below.  EnabledOK is checked on
   Runner itself (RefineRunnerEn.cfg, the constants of MC_Runner), where TLC can evaluate ENABLED. *)
EXTENDS Runner

NextEnabled ==
  \/ \E b \in Batches :
       \/ srv[b] = "idle" /\ sem < MaxServers /\ ~finished /\ \A c \in Batches : c < b => srv[c] # "idle"     \* Acquire
       \/ srv[b] = "acquired"                                                                              \* StartFailed
       \/ srv[b] = "up"                                                                                    \* Abandon or Stop
       \/ srv[b] = "stopped" /\ proc[b] # "alive"                                                          \* Release
       \/ proc[b] = "alive"                                                                                \* Gone
       \* Started, Up, Send are enabled only where StartFailed / Abandon-or-Stop are
  \/ ~finished /\ \A b \in Batches : srv[b] = "released"                                                    \* Finish

EnabledOK == NextEnabled <=> ENABLED <<Next>>_vars

\* the fairness conjunct of Spec, in the form that survives a refinement mapping
FairMapped == ([]<>~NextEnabled) \/ ([]<><<Next>>_vars)
SafeSpec == Init /\ [][Next]_vars

PlanA == << [inst |-> "i1", cases |-> {"a", "b"}], [inst |-> "i2", cases |-> {"c"}], [inst |-> "i3", cases |-> {"d", "e"}] >>
=============================================================================
