--------------------------- MODULE Trace_Framing ---------------------------
(* code -> spec binding for C09: every line of the recorded file is one execution of a real
   reader over a real (long, randomly chunked) stream: its input description and the observed
   result sequence.  A line is accepted iff the observation equals the declarative Decode. *)
EXTENDS FramingDecl, Json, TLC, IOUtils

Rec == ndJsonDeserialize(IOEnv.VERIF_TRACE)

VARIABLE l
TraceInit == l = 1
Accept(r) == r.obs = DecodeL(r.lens, r.avail, r.end, r.limit)
TraceNext == /\ l <= Len(Rec)
             /\ l' = l + 1
             /\ (Accept(Rec[l]) \/ PrintT("REJECT " \o ToString(l)))
TraceSpec == TraceInit /\ [][TraceNext]_l
Consumed == (l = Len(Rec) + 1) => PrintT("CONSUMED " \o ToString(Len(Rec)))
=============================================================================
