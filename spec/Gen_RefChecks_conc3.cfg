CONSTANTS
  Domain = "conc3"
  NReq = 3
  Coarse = TRUE
  KeepHist = TRUE
  MaxLen = 0
  MaxDigits = 0
INIT Init
NEXT Next
INVARIANTS Agrees CountsConsistent SerialOrder Emit
