--------------------------- MODULE Trace_Compress ---------------------------
(* code -> spec binding for C20: every line of the recorded file is one history of a real
   compressor or decompressor instance (up to 40 calls, payloads up to 1 MiB, every source kind):
   the calls made and what each call returned, expressed in payload tokens by the recorder.
     REJECT l i : line l is not accepted by the LAW - call i misses its obligation DReq / CReq
     DRIFT  l i : the law is met but the operational model (CompressImpl, Variant as configured)
                  has no outcome for call i that matches the recorded result and the recorded
                  wrapper state - the model no longer describes the code (a note, not a verdict) *)
EXTENDS CompressImpl, Json, TLC, IOUtils

Rec == ndJsonDeserialize(IOEnv.VERIF_TRACE)
Cap == 1000

Obls(r) == IF r.side = "D" THEN DReq(r.ops, Cap) ELSE CReq(r.ops)
Accept(r) == AllOK(Obls(r), r.obs)

\* set-of-states simulation of the model along the recorded results; 0 = followed to the end
RECURSIVE FollowD(_, _, _, _, _)
FollowD(z, S, ops, obs, i) ==
  IF i > Len(ops) THEN 0
  ELSE LET outs == UNION {DStep(z, st, ops[i], Cap) : st \in S}
           ok(x) == /\ x.ret = obs[i].ret
                    /\ DAbs(z, x.st) = obs[i].wst
                    /\ (x.eq # <<>> => (InSeq(x.eq[1], obs[i].eq) /\ x.from = obs[i].from))
           S2 == {x.st : x \in {y \in outs : ok(y)}}
       IN IF S2 = {} THEN i ELSE FollowD(z, S2, ops, obs, i + 1)

RECURSIVE FollowC(_, _, _, _, _)
FollowC(z, S, ops, obs, i) ==
  IF i > Len(ops) THEN 0
  ELSE LET outs == UNION {CStep(z, s.st, s.pipeOpen, ops[i]) : s \in S}
           ok(x) == /\ x.ret = obs[i].ret
                    /\ (ops[i].o = "Close" /\ obs[i].w # <<>>) => x.w = obs[i].w
           S2 == {[st |-> x.st, pipeOpen |-> x.pipeOpen] : x \in {y \in outs : ok(y)}}
       IN IF S2 = {} THEN i ELSE FollowC(z, S2, ops, obs, i + 1)

Drift(r) == IF r.side = "D" THEN FollowD(r.enc, {DNewW(r.enc)}, r.ops, r.obs, 1)
            ELSE FollowC(r.enc, {[st |-> CNewW, pipeOpen |-> TRUE]}, r.ops, r.obs, 1)

VARIABLE l
TraceInit == l = 1
TraceNext == /\ l <= Len(Rec)
             /\ l' = l + 1
             /\ IF Accept(Rec[l])
                  THEN LET d == Drift(Rec[l]) IN
                       (d = 0 \/ PrintT("DRIFT " \o ToString(l) \o " " \o ToString(d)))
                  ELSE PrintT("REJECT " \o ToString(l) \o " " \o
                              ToString(IF Len(Rec[l].obs) = Len(Rec[l].ops)
                                         THEN FirstBad(Obls(Rec[l]), Rec[l].obs) ELSE 0))
TraceSpec == TraceInit /\ [][TraceNext]_l
Consumed == (l = Len(Rec) + 1) => PrintT("CONSUMED " \o ToString(Len(Rec)))
=============================================================================
