\* one suite: the relevance lattice (lists of every shape on all four axes) x TLS reliance x suite mode x run mode (sampled by VERIF_STRIDE)
CONSTANTS
  RunModes = {0, 1}
  CaseSets = {2, 3, 7, 9}
  MaxSuites = 1
  SNames = {1}
  SModes = {0, 1}
  RelPs = {1, 2, 3, 4, 6, 7, 8, 10, 11, 12}
  RelVs = {1, 2, 3, 5, 8, 9}
  RelCs = {1, 2, 3, 5, 8}
  RelZs = {1, 2, 5, 13, 14}
  Flags = {0, 1}
  Cvms = {0}
  TestIdx = {1, 4}
  TestLens = {1, 2}
  SNames2 = {}
  SModes2 = {}
  RelPs2 = {}
  RelVs2 = {}
  RelCs2 = {}
  RelZs2 = {}
  Flags2 = {}
  Cvms2 = {}
  TestIdx2 = {}
  TestLens2 = {}
  MaxRestricted = 2
INIT GInit
NEXT GNext
INVARIANTS Emit
