CONSTANTS
  Lens = {0, 1, 2, 3}
  MaxMsgs = 2
  Limit = 2
  MaxTotal = 11
  KeepHist = TRUE
INIT Init
NEXT Next
INVARIANTS Agrees Emit
