----------------------------- MODULE FramingDecl -----------------------------
(* C09 - declarative meaning of a length-prefixed stream that is cut after `av` bytes and then
   either ends ("eof") or stalls ("stall"); L is the receive limit.  Constant-level only, shared
   by the machine (Framing), the generator (Gen_Framing) and the trace acceptor (Trace_Framing). *)
EXTENDS Naturals, Sequences

RECURSIVE Total(_)
Total(s) == IF s = <<>> THEN 0 ELSE 4 + Head(s) + Total(Tail(s))

(* ------------------------------ declarative ------------------------------ *)
Msg(i, n)            == [k |-> "Msg", i |-> i, n |-> n]
EOFr                 == [k |-> "EOF"]
UEOF                 == [k |-> "UnexpectedEOF"]
TooLarge(n)          == [k |-> "TooLarge", n |-> n]
Timeout(r, w, ph)    == [k |-> "Timeout", read |-> r, want |-> w, ph |-> ph]

RECURSIVE DecodeFrom(_, _, _, _, _)
DecodeFrom(s, i, av, e, L) ==
  IF i > Len(s) \/ av < 4
    THEN IF av = 0
           THEN IF e = "eof" THEN <<EOFr>> ELSE <<Timeout(0, 4, "none")>>
           ELSE IF e = "eof" THEN <<UEOF>> ELSE <<Timeout(av, 4, "length prefix")>>
    ELSE LET n == s[i] IN
         IF n > L THEN <<TooLarge(n)>>
         ELSE IF av - 4 < n
                THEN IF e = "eof" THEN <<UEOF>> ELSE <<Timeout(av - 4, n, "message")>>
                ELSE <<Msg(i, n)>> \o DecodeFrom(s, i + 1, av - 4 - n, e, L)

DecodeL(s, av, e, L) == DecodeFrom(s, 1, av, e, L)
NoLimit == 2147483647

=============================================================================
