---------------------------- MODULE Gen_Framing ----------------------------
(* Behaviour generator for C09: every terminal state prints the scenario (stream, cut, end kind,
   the chunking that led here) together with the result sequence the declarative definition
   requires.  Used exhaustively (small MaxTotal) and under -simulate (long streams). *)
EXTENDS Framing, Json

Emit == (phase = "done") =>
          PrintT("SCN " \o ToJson([lens |-> lens, avail |-> avail, end |-> end, chunks |-> hist,
                                   limit |-> Limit, exp |-> Decode(lens, avail, end),
                                   expNoLimit |-> DecodeL(lens, avail, end, NoLimit)]))
=============================================================================
