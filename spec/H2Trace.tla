------------------------------- MODULE H2Trace -------------------------------
(* C15 - the tracing wrapper around one HTTP/2 connection: operational machine + environment.

   ENVIRONMENT (well-formed traffic).  Two endpoints put frames on the wire: the client into
   direction "req", the server into direction "resp".  A sender decides on what it has sent itself
   and on what it can have seen of the other direction - which is at most what has gone through
   the tracer (a client-side tracer sees a response before the client does and a request when the
   client writes it; symmetrically on the server side).  So a frame may be put on the wire only
   if it is legal with respect to the sender's own frames and the HANDLED frames of the peer;
   frames that race with a reset or an END_STREAM of the peer are legal and are generated.
   Bytes are then moved through the wrapper by Read/Write calls of arbitrary size (Deliver):
   several frames in a call, a call ending inside a frame header or inside a payload, partial
   frames of one direction lying around while the other direction progresses.

   MACHINE.  One action per Read/Write call; inside it, one iteration of Feed per iteration of
   the loop of http2FrameTracer.trace (preface / traceHeaderLocked / traceFrameLocked+emitFrame)
   and one application of Handle per critical section of handleFrame.  Calls of the two
   directions never share state outside Handle (each direction has its own frame tracer and
   HPACK decoder, Handle runs under the connection mutex), so an execution with overlapping Read
   and Write calls is equivalent to the sequential execution of the pieces of those calls
   between consecutive Handle steps - which is a behaviour of this machine with finer chunks.

   THEOREM (checked by TLC as invariants): whatever the interleaving of streams and the split of
   bytes into calls,  (Reassembly) the frames handled in a direction are exactly the frames whose
   last byte has passed, in order;  (Agrees) the traces handed to the collector = Traces(handled
   events)  (module H2TraceDecl), each exactly once;  (NeverBroken, HpackInSync) the tracer never
   gives up on well-formed traffic and its HPACK decoders stay in step with the encoders;
   (Transparent) every byte offered to a call is passed through, whatever the tracer thinks;
   (EachNamedStreamOnce) at the end of the connection every stream that carried a test name has
   its one trace, or was refused and retried;  (HeldBackIsReleased, under fairness of the timer)
   a held-back trace does not stay held back.
   Consequence used by the replay: the traces depend on the ORDER in which frames are completed
   only, so cutting a call into consecutive calls of the same direction changes nothing - the Go
   harness does that at arbitrary byte offsets on top of the chunkings in units generated here. *)
EXTENDS H2TraceDecl, TLC

CONSTANTS Sides,        \* subset of {"client", "server"}
          MaxSid,       \* highest stream id opened (1, 3, 5)
          MaxFrames,    \* bound on the number of wire frames of both directions together
          MinFrames,    \* the connection does not end before this many frames are on the wire
          Names,        \* test names
          BodyPlans,    \* set of bodies (sequences of envelopes [fl, len])
          DataCuts,     \* sizes of DATA frames that do not take the whole rest of a body
          Conts,        \* numbers of CONTINUATION frames a header block may be spread over
          MaxOther,     \* number of connection-level frames (SETTINGS, PING, ..) generated
          MaxGoAway,    \* number of GOAWAY frames generated
          AllowUnnamed, AllowReqTrailers, AllowClientGoAway, AllowTimer, AllowEarlyEnd,
          MaxCall,      \* largest Read/Write call in units
          FrameAligned, \* TRUE: every call ends exactly at the end of the frame it starts in (design
                        \* checks of the stream logic; the reassembly is checked with FALSE)
          MaxAhead,     \* the environment adds to a direction only while fewer units than this are pending
          MaxTimeouts,  \* number of Read calls that return a timeout error (the connection goes on)
          EndKinds,     \* ways the connection ends: subset of {"close", "readerr", "writeerr"}
          KeepCalls,    \* TRUE: remember the calls (behaviour generation)
          Variant       \* "intended", or the name of a deliberately wrong machine (mutant)

Dirs == {"req", "resp"}
\* named body-plan sets for the cfg files (a cfg cannot spell records)
Env(fl, len) == [fl |-> fl, len |-> len]
PlansTiny  == {<<>>, <<Env(2, 2)>>}
PlansSmall == {<<>>, <<Env(0, 0), Env(2, 3)>>}
PlansFull  == {<<>>, <<Env(0, 4)>>, <<Env(0, 0), Env(2, 3)>>, <<Env(1, 2), Env(0, 7), Env(128, 1)>>}
HU   == 2      \* units of a 9-byte frame header: a call can end inside it
PreU == 2      \* units of the 24-byte client preface
SidSet == {s \in 1..MaxSid : s % 2 = 1}
Other(d) == IF d = "req" THEN "resp" ELSE "req"

VARIABLES side,
          \* environment
          wire,        \* [Dirs -> Seq(frame)] everything put on the wire so far
          est,         \* [SidSet -> env view of the stream]
          nextSid, hsq, nOther, nGoAway, srvLast,
          \* bytes
          pos,         \* [Dirs -> units delivered through the wrapper]
          out,         \* [Dirs -> units the caller got back] (transparency)
          \* machine
          ft,          \* [Dirs -> frame tracer]
          m,           \* shared part: streams, maxSid, waiting, collected, dec, sync, hist
          ended, calls, nTO

vars == <<side, wire, est, nextSid, hsq, nOther, nGoAway, srvLast, pos, out, ft, m, ended, calls, nTO>>

(* ------------------------------ units ------------------------------ *)
Units(f) == IF f.t = "PREFACE" THEN PreU ELSE HU + f.pu
RECURSIVE SumUnits(_)
SumUnits(fs) == IF fs = <<>> THEN 0 ELSE Units(Head(fs)) + SumUnits(Tail(fs))
Pending(d) == SumUnits(wire[d]) - pos[d]

\* units from the current position of direction d to the end of the frame it lies in
RECURSIVE ToEnd(_, _)
ToEnd(fs, p) == IF p < Units(Head(fs)) THEN Units(Head(fs)) - p ELSE ToEnd(Tail(fs), p - Units(Head(fs)))
ToFrameEnd(d) == IF Pending(d) = 0 THEN 0 ELSE ToEnd(wire[d], pos[d])

(* ============================== MACHINE ============================== *)
NoTrace  == [s |-> 0, nm |-> "", ev |-> <<>>, st |-> 0, tr |-> FALSE, rtr |-> FALSE, err |-> "nil"]
DT0      == [pfx |-> 0, exp |-> 0, act |-> 0, mi |-> 1, cnt |-> 0]
NoStream == [on |-> FALSE, live |-> FALSE, nm |-> "", ev |-> <<>>, st |-> 0, tr |-> FALSE, rtr |-> FALSE,
             gr |-> FALSE, rdt |-> DT0, pdt |-> DT0, rb |-> <<>>, pb |-> <<>>]
FT0      == [broken |-> FALSE, pre |-> 0, hdr |-> 0, exp |-> 0, act |-> 0, fi |-> 1, hb |-> FALSE]
M0       == [streams |-> [s \in SidSet |-> NoStream], maxSid |-> 0,
             waiting |-> [n \in Names |-> NoTrace], collected |-> <<>>,
             dec |-> [d \in Dirs |-> 0], sync |-> TRUE, hist |-> <<>>]

(* ---- dataTracer (reader.go): trace / tracePrefixLocked / traceMessageLocked / emitUnfinished ---- *)
RECURSIVE DTFeed(_, _, _, _)
DTFeed(dt, body, n, d) ==
  IF n = 0 \/ dt.mi > Len(body) THEN [dt |-> dt, ev |-> <<>>]
  ELSE IF dt.exp = 0
    THEN LET need == PrefixLen - dt.pfx IN
         IF n < need THEN [dt |-> [dt EXCEPT !.pfx = @ + n], ev |-> <<>>]
         ELSE LET e == body[dt.mi] IN
              IF e.len = 0
                THEN LET r == DTFeed([dt EXCEPT !.pfx = 0, !.mi = @ + 1, !.cnt = @ + 1], body, n - need, d)
                     IN [dt |-> r.dt, ev |-> <<DataEv(d, dt.cnt, e, 0)>> \o r.ev]
                ELSE DTFeed([dt EXCEPT !.pfx = 0, !.exp = e.len, !.act = 0], body, n - need, d)
    ELSE LET need == dt.exp - dt.act IN
         IF n < need THEN [dt |-> [dt EXCEPT !.act = @ + n], ev |-> <<>>]
         ELSE LET e == body[dt.mi]
                  r == DTFeed([dt EXCEPT !.exp = 0, !.act = 0, !.mi = @ + 1, !.cnt = @ + 1], body, n - need, d)
              IN [dt |-> r.dt, ev |-> <<DataEv(d, dt.cnt, e, e.len)>> \o EosOf(d, dt.cnt, e) \o r.ev]

DTFlush(dt, body, d) ==
  LET unfinished == IF dt.exp = 0 /\ dt.pfx > 0 THEN dt.pfx ELSE dt.act IN
  IF unfinished = 0 THEN [dt |-> [dt EXCEPT !.pfx = 0, !.exp = 0, !.act = 0], ev |-> <<>>]
  ELSE [dt |-> [dt EXCEPT !.pfx = 0, !.exp = 0, !.act = 0, !.cnt = @ + 1],
        ev |-> IF dt.exp = 0 THEN <<BareEv(d, dt.cnt, unfinished)>>
               ELSE <<DataEv(d, dt.cnt, body[dt.mi], unfinished)>>]

(* ---- builder (builder.go): add / finish, and the retry collector (http2RetryCollector) ---- *)
\* a stream record doubles as its builder; events are kept only while the builder is live and named
AddEv(x, evs) == IF x.live /\ x.nm # "" THEN [x EXCEPT !.ev = @ \o evs] ELSE x
MTrace(x, s, e) == [s |-> s, nm |-> x.nm, ev |-> x.ev, st |-> x.st, tr |-> x.tr, rtr |-> x.rtr, err |-> e]

\* http2RetryCollector.Complete
Complete(M, t) ==
  IF Retryable(t.err) THEN [M EXCEPT !.waiting[t.nm] = t]
  ELSE IF M.waiting[t.nm] # NoTrace THEN M        \* another attempt of that name is held back: dropped
  ELSE [M EXCEPT !.collected = Append(@, t)]

\* add a finishing event to stream s (already flushed): the trace is built and handed over
Finish(M, s, x, endEv) ==
  LET y == AddEv(x, <<endEv>>) IN
  IF x.live /\ x.nm # "" THEN Complete([M EXCEPT !.streams[s] = NoStream], MTrace(y, s, endEv.e))
  ELSE [M EXCEPT !.streams[s] = NoStream]

FlushReqM(x)  == LET r == DTFlush(x.rdt, x.rb, "req") IN [AddEv(x, r.ev) EXCEPT !.rdt = r.dt]
FlushRespM(x) == LET r == DTFlush(x.pdt, x.pb, "resp") IN [AddEv(x, r.ev) EXCEPT !.pdt = r.dt]

(* ---- tracingHTTP2Conn: closeStreamLocked / setMaxStreamIDLocked / cancelAll ---- *)
CloseStream(M, s, isReq, e) ==
  LET x == M.streams[s] IN
  IF isReq
    THEN LET y == AddEv(FlushReqM(x), <<ReqEnd(e)>>) IN
         IF e # "nil" THEN Finish(M, s, FlushReqM(x), ReqEnd(e))
         ELSE [M EXCEPT !.streams[s] = y]
    ELSE IF Variant = "rstSilent" /\ ~x.gr
           THEN [M EXCEPT !.streams[s] = NoStream]     \* mutant: a reset before the response leaves no trace
           ELSE Finish(M, s, FlushRespM(FlushReqM(x)), RespEnd(e))

RECURSIVE CutAbove(_, _, _, _)
CutAbove(M, S, last, e) ==
  IF S = {} THEN M
  ELSE LET s == CHOOSE x \in S : \A y \in S : x <= y IN
       CutAbove(IF M.streams[s].on /\ s > last
                  THEN Finish(M, s, FlushRespM(FlushReqM(M.streams[s])), RespEnd(e)) ELSE M,
                S \ {s}, last, e)
SetMax(M, last, e) == CutAbove([M EXCEPT !.maxSid = last], SidSet, last, e)

RECURSIVE FlushWaiting(_, _)
FlushWaiting(M, N) ==
  IF N = {} THEN M
  ELSE LET n == CHOOSE x \in N : TRUE IN
       FlushWaiting(IF M.waiting[n] # NoTrace
                      THEN [M EXCEPT !.collected = Append(@, M.waiting[n]), !.waiting[n] = NoTrace] ELSE M,
                    N \ {n})
RECURSIVE CancelStreams(_, _, _)
CancelStreams(M, S, e) ==
  IF S = {} THEN M
  ELSE LET s == CHOOSE x \in S : \A y \in S : x <= y
           x == M.streams[s] IN
       CancelStreams(IF ~x.on THEN M
                     ELSE IF side = "server" THEN Finish(M, s, FlushRespM(FlushReqM(x)), RespEnd(e))
                     ELSE Finish(M, s, FlushReqM(x), ReqEnd(e)),
                     S \ {s}, e)
CancelAll(M, e) == FlushWaiting(CancelStreams(M, SidSet, e), Names)

(* ---- handleFrame: one critical section ---- *)
HandleBlock(M0_, f, d) ==
  LET M == [M0_ EXCEPT !.sync = @ /\ (f.hs = M0_.dec[d]), !.dec[d] = @ + 1]   \* HPACK decode of the block
      x == M.streams[f.s]
      isReq == d = "req" IN
  IF ~x.on THEN
     IF ~isReq THEN M
     ELSE IF M.maxSid # 0 /\ f.s > M.maxSid THEN M
     ELSE LET n == [NoStream EXCEPT !.on = TRUE, !.live = TRUE, !.nm = f.nm, !.ev = <<ReqStart>>, !.rb = f.bp]
              M1 == [M EXCEPT !.streams[f.s] = n,
                              !.waiting = IF f.nm # "" THEN [@ EXCEPT ![f.nm] = NoTrace] ELSE @]   \* newAttempt
          IN IF f.es THEN CloseStream(M1, f.s, TRUE, "nil") ELSE M1
  ELSE LET y == CASE ~isReq /\ ~x.gr -> [AddEv(x, <<RespStart(f.st)>>) EXCEPT !.gr = TRUE, !.st = f.st, !.pb = f.bp]
                  [] isReq           -> [x EXCEPT !.rtr = TRUE]
                  [] OTHER           -> [x EXCEPT !.tr = TRUE]
           M1 == [M EXCEPT !.streams[f.s] = y]
       IN IF f.es THEN CloseStream(M1, f.s, isReq, "nil") ELSE M1

Handle(M, f, d) ==
  CASE IsBlockEnd(f) -> HandleBlock(M, f, d)
    [] f.t = "DATA" ->
         LET x == M.streams[f.s] IN
         IF ~x.on THEN M
         ELSE LET r  == IF d = "req" THEN DTFeed(x.rdt, x.rb, f.n, "req") ELSE DTFeed(x.pdt, x.pb, f.n, "resp")
                  y  == IF d = "req" THEN [AddEv(x, r.ev) EXCEPT !.rdt = r.dt] ELSE [AddEv(x, r.ev) EXCEPT !.pdt = r.dt]
                  M1 == [M EXCEPT !.streams[f.s] = y]
              IN IF f.es THEN CloseStream(M1, f.s, d = "req", "nil") ELSE M1
    [] f.t = "RST" -> IF M.streams[f.s].on THEN CloseStream(M, f.s, d = "req", RstErr(f.code)) ELSE M
    [] f.t = "GOAWAY" -> IF d = "resp" \/ Variant = "clientGoAway" THEN SetMax(M, f.last, GoAwayErr(f.code)) ELSE M
    [] OTHER -> M

(* ---- http2FrameTracer: trace / traceHeaderLocked / traceFrameLocked / emitFrame ---- *)
\* a complete frame f has been reassembled in direction d
EmitFrame(t, M, f, d) ==
  LET M1 == [M EXCEPT !.hist = Append(@, f)] IN
  IF f.t \in {"HEADERS", "CONT"} /\ ~f.eh
    THEN IF Variant = "contBreaks" THEN [ft |-> [t EXCEPT !.broken = TRUE], m |-> M1]
         ELSE [ft |-> [t EXCEPT !.hb = TRUE, !.fi = @ + 1], m |-> M1]         \* keep the fragment, wait for the rest
    ELSE [ft |-> [t EXCEPT !.hb = FALSE, !.fi = @ + 1], m |-> Handle(M1, f, d)]

RECURSIVE Feed(_, _, _, _)
Feed(t, M, d, n) ==
  IF t.broken \/ n = 0 THEN [ft |-> t, m |-> M]
  ELSE LET f == wire[d][t.fi] IN
       IF f.t = "PREFACE"
         THEN LET need == PreU - t.pre IN
              IF n < need THEN [ft |-> [t EXCEPT !.pre = @ + n], m |-> M]
              ELSE Feed([t EXCEPT !.pre = PreU, !.fi = @ + 1], [M EXCEPT !.hist = Append(@, f)], d, n - need)
       ELSE IF t.exp = 0
         THEN LET need == HU - t.hdr IN
              IF n < need THEN [ft |-> [t EXCEPT !.hdr = @ + n], m |-> M]
              ELSE IF f.pu = 0
                     THEN LET r == EmitFrame([t EXCEPT !.hdr = 0], M, f, d) IN Feed(r.ft, r.m, d, n - need)
                     ELSE Feed([t EXCEPT !.hdr = 0, !.exp = f.pu, !.act = 0], M, d, n - need)
         ELSE LET need == t.exp - t.act IN
              IF n < need THEN [ft |-> [t EXCEPT !.act = @ + n], m |-> M]
              ELSE LET r == EmitFrame([t EXCEPT !.exp = 0, !.act = 0], M, f, d) IN Feed(r.ft, r.m, d, n - need)

(* ============================== ENVIRONMENT ============================== *)
E0 == [on |-> FALSE, nm |-> "", rb |-> <<>>, rsent |-> 0, rcl |-> 0, pst |-> 0, pb |-> <<>>, psent |-> 0]
   \* rcl: 0 client side open, 1 END_STREAM sent, 2 RST sent;  pst: 0 nothing sent, 1 headers sent, 2 closed

NFrames == Len(wire["req"]) + Len(wire["resp"])
Room(k) == NFrames + k <= MaxFrames

\* In frame-aligned design checks a frame is handled before anything else is put on the wire,
\* unless the other direction is in the middle of a header block (so that frames still come
\* between a HEADERS and its CONTINUATION).  No order of handled frames is lost by this: the
\* guards of the senders never look at the peer's frames that are still under way.
Quiet(d) == Pending(d) = 0 /\ (Pending(Other(d)) = 0 \/ ft[Other(d)].hb)
Put(d, fs) == /\ IF FrameAligned THEN Quiet(d) ELSE Pending(d) < MaxAhead
              /\ wire' = [wire EXCEPT ![d] = @ \o fs]

\* a header block spread over 1 + c frames
Block(d, s, hk, nm, es, st, bp, c) ==
  [j \in 1..(c + 1) |-> Fr(IF j = 1 THEN "HEADERS" ELSE "CONT", d, s, hk, nm, es, j = c + 1, 0, st, "", 0, bp, hsq[d], 2, "")]

HandledOpen(s) == \E i \in 1..Len(m.hist) : IsBlockEnd(m.hist[i]) /\ m.hist[i].d = "req" /\ m.hist[i].s = s
\* names that a client would not use for a new call: an attempt of that name is still running
Busy == {est[s].nm : s \in {x \in SidSet : est[x].on /\ ~View(m.hist, x, side).fin}}

DataSizes(left) == {left} \cup {k \in DataCuts : k < left}

OpenStream ==
  /\ nextSid <= MaxSid
  /\ \E nm \in (Names \ Busy) \cup (IF AllowUnnamed THEN {""} ELSE {}), bp \in BodyPlans, c \in Conts, es \in BOOLEAN :
       /\ es => bp = <<>>
       /\ Room(c + 1)
       /\ Put("req", Block("req", nextSid, "request", nm, es, 0, bp, c))
       /\ est' = [est EXCEPT ![nextSid] = [E0 EXCEPT !.on = TRUE, !.nm = nm, !.rb = bp, !.rcl = IF es THEN 1 ELSE 0]]
  /\ nextSid' = nextSid + 2 /\ hsq' = [hsq EXCEPT !["req"] = @ + 1]
  /\ UNCHANGED <<nOther, nGoAway, srvLast>>

SendReqData ==
  /\ \E s \in SidSet : /\ est[s].on /\ est[s].rcl = 0 /\ Room(1)
       /\ LET left == Total(est[s].rb) - est[s].rsent IN
          \E n \in DataSizes(left), es \in BOOLEAN :
            /\ (n = 0) => es
            /\ Put("req", <<Fr("DATA", "req", s, "", "", es, FALSE, n, 0, "", 0, <<>>, 0, IF n = 0 THEN 0 ELSE 2, "")>>)
            /\ est' = [est EXCEPT ![s].rsent = @ + n, ![s].rcl = IF es THEN 1 ELSE 0]
  /\ UNCHANGED <<nextSid, hsq, nOther, nGoAway, srvLast>>

SendReqTrailers ==
  /\ AllowReqTrailers
  /\ \E s \in SidSet, c \in Conts : /\ est[s].on /\ est[s].rcl = 0 /\ Room(c + 1)
       /\ Put("req", Block("req", s, "trailers", "", TRUE, 0, <<>>, c))
       /\ est' = [est EXCEPT ![s].rcl = 1]
  /\ hsq' = [hsq EXCEPT !["req"] = @ + 1]
  /\ UNCHANGED <<nextSid, nOther, nGoAway, srvLast>>

SendReqRst ==
  \* any error code resets the stream, NO_ERROR included
  /\ \E s \in SidSet, code \in {"cancel", "no"} : /\ est[s].on /\ est[s].rcl \in {0, 1} /\ Room(1)
       /\ Put("req", <<Fr("RST", "req", s, "", "", FALSE, FALSE, 0, 0, code, 0, <<>>, 0, 2, "")>>)
       /\ est' = [est EXCEPT ![s].rcl = 2]
  /\ UNCHANGED <<nextSid, hsq, nOther, nGoAway, srvLast>>

\* the server acts on a stream only once the request block has reached it, and not on streams
\* above the last id of a GOAWAY it has sent
ServerMay(s) == est[s].on /\ HandledOpen(s) /\ (srvLast < 0 \/ s <= srvLast)

SendRespHeaders ==
  /\ \E s \in SidSet, bp \in BodyPlans, c \in Conts, es \in BOOLEAN :
       /\ ServerMay(s) /\ est[s].pst = 0 /\ Room(c + 1)
       /\ es => bp = <<>>
       \* the status has no influence on the behaviour; it is a function of the stream so that a
       \* response attributed to the wrong call shows
       /\ Put("resp", Block("resp", s, "response", "", es, 200 + s, bp, c))
       /\ est' = [est EXCEPT ![s].pst = IF es THEN 2 ELSE 1, ![s].pb = bp]
  /\ hsq' = [hsq EXCEPT !["resp"] = @ + 1]
  /\ UNCHANGED <<nextSid, nOther, nGoAway, srvLast>>

SendRespData ==
  /\ \E s \in SidSet : /\ ServerMay(s) /\ est[s].pst = 1 /\ Room(1)
       /\ LET left == Total(est[s].pb) - est[s].psent IN
          \E n \in DataSizes(left), es \in BOOLEAN :
            /\ (n = 0) => es
            /\ Put("resp", <<Fr("DATA", "resp", s, "", "", es, FALSE, n, 0, "", 0, <<>>, 0, IF n = 0 THEN 0 ELSE 2, "")>>)
            /\ est' = [est EXCEPT ![s].psent = @ + n, ![s].pst = IF es THEN 2 ELSE 1]
  /\ UNCHANGED <<nextSid, hsq, nOther, nGoAway, srvLast>>

SendRespTrailers ==
  /\ \E s \in SidSet, c \in Conts : /\ ServerMay(s) /\ est[s].pst = 1 /\ Room(c + 1)
       /\ Put("resp", Block("resp", s, "trailers", "", TRUE, 0, <<>>, c))
       /\ est' = [est EXCEPT ![s].pst = 2]
  /\ hsq' = [hsq EXCEPT !["resp"] = @ + 1]
  /\ UNCHANGED <<nextSid, nOther, nGoAway, srvLast>>

SendRespRst ==
  /\ \E s \in SidSet, code \in {"refused", "cancel", "no"} :
       /\ ServerMay(s) /\ Room(1)
       \* a refusal comes instead of a response; after the end of its response a server may still
       \* reset the stream (NO_ERROR: "stop sending", RFC 9113 8.1) - once here
       /\ CASE code = "refused" -> est[s].pst = 0
            [] code = "cancel"  -> est[s].pst \in {0, 1}
            [] OTHER            -> est[s].pst \in {1, 2}    \* NO_ERROR in the middle of a response is a reset like any other
       /\ Put("resp", <<Fr("RST", "resp", s, "", "", FALSE, FALSE, 0, 0, code, 0, <<>>, 0, 2, "")>>)
       /\ est' = [est EXCEPT ![s].pst = IF code = "no" /\ est[s].pst = 2 THEN 3 ELSE 2]
  /\ UNCHANGED <<nextSid, hsq, nOther, nGoAway, srvLast>>

SendGoAway ==
  /\ nGoAway < MaxGoAway /\ Room(1)
  /\ \/ \E last \in {0} \cup {s \in SidSet : est[s].on}, code \in {"no", "proto"} :
          /\ srvLast < 0 \/ last <= srvLast          \* RFC 9113 6.8: the last id never increases
          /\ Put("resp", <<Fr("GOAWAY", "resp", 0, "", "", FALSE, FALSE, 0, 0, code, last, <<>>, 0, 2, "")>>)
          /\ srvLast' = last
     \/ /\ AllowClientGoAway
        /\ Put("req", <<Fr("GOAWAY", "req", 0, "", "", FALSE, FALSE, 0, 0, "no", 0, <<>>, 0, 2, "")>>)
        /\ UNCHANGED srvLast
  /\ nGoAway' = nGoAway + 1
  /\ UNCHANGED <<est, nextSid, hsq, nOther>>

SendOther ==
  /\ nOther < MaxOther /\ Room(1)
  /\ \E d \in Dirs, k \in {"settings", "settingsack", "ping", "winupd", "unknown"} :
       Put(d, <<Fr("OTHER", d, 0, "", "", FALSE, FALSE, 0, 0, "", 0, <<>>, 0, IF k = "settingsack" THEN 0 ELSE 2, k)>>)
  /\ nOther' = nOther + 1
  /\ UNCHANGED <<est, nextSid, hsq, nGoAway, srvLast>>

EnvSend == /\ ~ended
           /\ (OpenStream \/ SendReqData \/ SendReqTrailers \/ SendReqRst \/ SendRespHeaders \/ SendRespData
               \/ SendRespTrailers \/ SendRespRst \/ SendGoAway \/ SendOther)
           /\ UNCHANGED <<side, pos, out, ft, m, ended, calls, nTO>>

(* ------------------------------ calls ------------------------------ *)
Rec(c) == calls' = IF KeepCalls THEN Append(calls, c) ELSE calls

\* one Read (d is the direction this side reads) or Write call moving n units
Deliver(d, n) ==
  /\ ~ended /\ n >= 1 /\ n <= Pending(d) /\ n <= MaxCall
  /\ FrameAligned => n = ToFrameEnd(d)
  /\ LET r == Feed(ft[d], m, d, n) IN
       /\ ft' = [ft EXCEPT ![d] = r.ft]
       /\ m' = r.m
  /\ pos' = [pos EXCEPT ![d] = @ + n]
  /\ out' = [out EXCEPT ![d] = @ + n]
  /\ Rec([d |-> d, u |-> n, e |-> ""])
  /\ UNCHANGED <<side, wire, est, nextSid, hsq, nOther, nGoAway, srvLast, ended, nTO>>

\* the retry timer of a held-back trace fires
TimesUp(nm) ==
  /\ AllowTimer /\ ~ended /\ m.waiting[nm] # NoTrace
  /\ m' = [m EXCEPT !.collected = Append(@, m.waiting[nm]), !.waiting[nm] = NoTrace, !.hist = Append(@, TimerEv(nm))]
  /\ Rec([d |-> "", u |-> 0, e |-> "timer:" \o nm])
  /\ UNCHANGED <<side, wire, est, nextSid, hsq, nOther, nGoAway, srvLast, pos, out, ft, ended, nTO>>

\* a Read returns (0, timeout error): the HTTP/2 server plays with read deadlines on new
\* connections; the error goes to the caller, nothing else happens
ReadDir == IF side = "server" THEN "req" ELSE "resp"
ReadTimeout ==
  /\ ~ended /\ nTO < MaxTimeouts
  /\ nTO' = nTO + 1
  /\ Rec([d |-> ReadDir, u |-> 0, e |-> "timeout"])
  /\ UNCHANGED <<side, wire, est, nextSid, hsq, nOther, nGoAway, srvLast, pos, out, ft, m, ended>>

\* the connection ends: Close, or a Read / Write returning an error that is not a timeout
End(kind) ==
  /\ ~ended
  /\ NFrames >= MinFrames
  /\ AllowEarlyEnd \/ (Pending("req") = 0 /\ Pending("resp") = 0)
  /\ m' = CancelAll([m EXCEPT !.hist = Append(@, EndEv(kind))], EndErr(kind))
  /\ ended' = TRUE
  /\ Rec([d |-> "", u |-> 0, e |-> kind])
  /\ UNCHANGED <<side, wire, est, nextSid, hsq, nOther, nGoAway, srvLast, pos, out, ft, nTO>>

Init ==
  /\ side \in Sides
  /\ wire = [d \in Dirs |-> IF d = "req" THEN <<Fr("PREFACE", "req", 0, "", "", FALSE, FALSE, 0, 0, "", 0, <<>>, 0, 0, "")>> ELSE <<>>]
  /\ est = [s \in SidSet |-> E0]
  /\ nextSid = 1 /\ hsq = [d \in Dirs |-> 0] /\ nOther = 0 /\ nGoAway = 0 /\ srvLast = -1
  /\ pos = [d \in Dirs |-> 0] /\ out = [d \in Dirs |-> 0]
  /\ ft = [d \in Dirs |-> FT0] /\ m = M0 /\ ended = FALSE /\ calls = <<>> /\ nTO = 0

Next == EnvSend
        \/ (\E d \in Dirs, n \in 1..MaxCall : Deliver(d, n))
        \/ (\E nm \in Names : TimesUp(nm))
        \/ (\E k \in EndKinds : End(k))
        \/ ReadTimeout

Spec == Init /\ [][Next]_vars /\ \A nm \in Names : WF_vars(TimesUp(nm))

(* ============================== PROPERTIES ============================== *)
Range(sq) == {sq[i] : i \in 1..Len(sq)}

TypeOK == /\ \A d \in Dirs : pos[d] <= SumUnits(wire[d]) /\ ft[d].fi <= Len(wire[d]) + 1
          /\ m.maxSid >= 0

\* the design theorem: at EVERY moment what the collector has been given is what the declarative
\* definition says for the events handled so far - exactly once each
Agrees == /\ Range(m.collected) = Traces(m.hist, side)
          /\ Len(m.collected) = Cardinality(Range(m.collected))

\* the environment generates well-formed traffic only (so Agrees is about the right domain)
EnvWellFormed == WellFormed(m.hist)

\* reassembly: the frames handled in a direction are exactly the frames of that direction whose last
\* byte has gone through the wrapper - none lost, none twice, in order - whatever the chunking.
\* (Stated on the wire and the byte position alone, independently of the frame tracer: Agrees by
\* itself would be satisfied by a tracer that stops looking.)
RECURSIVE Whole(_, _)
Whole(fs, p) == IF fs = <<>> \/ p < Units(Head(fs)) THEN 0 ELSE 1 + Whole(Tail(fs), p - Units(Head(fs)))
Reassembly == \A d \in Dirs :
                 SelectSeq(m.hist, LAMBDA f : IsFrame(f) /\ f.d = d) = SubSeq(wire[d], 1, Whole(wire[d], pos[d]))

\* on well-formed traffic the tracer never gives up, and its HPACK decoders see every block in order
NeverBroken == \A d \in Dirs : ~ft[d].broken
HpackInSync == m.sync

\* transparency: what a call is given is what the caller gets, no matter what the tracer thinks
Transparent == \A d \in Dirs : out[d] = pos[d]
TransparentStep == [][\A d \in Dirs : out'[d] - out[d] = pos'[d] - pos[d]]_vars

\* the statement read on the declarative side alone: once the connection has ended every stream
\* that carried a test name (and was not above a GOAWAY) has its trace in the collector - or a
\* later attempt under the same name was opened after it had been refused
EachNamedStreamOnce ==
  ended => \A s \in Sids(m.hist) :
     LET V == View(m.hist, s, side) IN
     (V.open /\ V.nm # "") =>
        /\ V.fin
        /\ \/ \E t \in Range(m.collected) : t.s = s /\ t.nm = V.nm /\ t.ev = V.ev /\ t.err = V.err
           \/ /\ Retryable(V.err)
              /\ \E s2 \in Sids(m.hist) : LET W == View(m.hist, s2, side) IN W.open /\ W.nm = V.nm /\ W.openAt > V.finAt

\* open streams of the machine are exactly the opened, unfinished streams of the declarative view
\* (named streams only: request trailers that race with the end of their call find no entry and
\* create a new, nameless one - a HEADERS frame in direction req is taken for a new request - which
\* can never produce a trace and is dropped at the end of the connection)
StreamsAgree == \A s \in SidSet : (m.streams[s].on /\ m.streams[s].nm # "")
                                     = (LET V == View(m.hist, s, side) IN V.open /\ ~V.fin /\ V.nm # "")

\* nothing stays held back for ever (needs the fairness of the timer)
HeldBackIsReleased == \A nm \in Names : (m.waiting[nm] # NoTrace) ~> (m.waiting[nm] = NoTrace \/ ended)

Terminal == ended
ViewNoCalls == <<side, wire, est, nextSid, hsq, nOther, nGoAway, srvLast, pos, out, ft, m, ended, nTO>>
=============================================================================
