CONSTANTS
  N = 3
  SrvKinds = {"ok", "startFail", "writeFail", "closeFail", "truncated", "oversize", "garbage", "empty", "noCert"}
  DieVals = {0, 1, 2, 3}
  NoticeModes = {"sync", "async"}
  AnsKinds = {"pass", "mismatch", "cerr", "empty", "none"}
  CbModes = {"sync", "async"}
  CloseVals = {0, 1, 2, 3}
SPECIFICATION Spec
INVARIANTS AtMostOnce Complete NoneLeftRunning AliveBound
PROPERTIES AbsInit AbsStep AbsFair StepMap Terminates
