--------------------------- MODULE MC_ConfigExpand ---------------------------
(* Bounded configuration domains for the design check of C06 (see MC_ConfigExpand_*.cfg). *)
EXTENDS ConfigExpand

AllVs == SUBSET Versions
AllPs == SUBSET Protocols

\* stream-type subsets by what matters: has half-duplex / full-duplex / anything else
StreamClasses == {{}, {UNARY}, {HALFDUP}, {FULLDUP}, {HALFDUP, FULLDUP}, {UNARY, HALFDUP},
                  {UNARY, SERVERS, FULLDUP}, StreamTypes}
StreamSome    == {{}, {UNARY}, {HALFDUP}, {FULLDUP}, {UNARY, HALFDUP, FULLDUP}}
ProtoSome     == {{}, {CONNECT, GRPCWEB}, {GRPC}, Protocols}
CodecClasses  == {{}, {PROTO}, {TEXT}, {JSON, TEXT}}
CompClasses   == {{}, {2}}

\* feature axes used together with entries
EntVs == {{}, {H1}, {H2}, {H1, H2}, {H1, H3}, {H1, H2, H3}}
EntPs == {{}, {CONNECT, GRPCWEB}, {GRPC}}
EntSs == {{}, {UNARY}, {UNARY, HALFDUP}}
EntPs2 == {{}, {GRPC}}
EntSs2 == {{}, {UNARY, HALFDUP}}

\* every combination of the interacting entry fields; passive fields (codec, compression, limit) fixed
EntryCorePool == [v : 0..3, p : 0..3, c : {0}, z : {0}, s : {0, UNARY, HALFDUP, FULLDUP},
                  tls : Tri, cert : Tri, lim : {"unset"}]
\* entries that vary the passive fields (incl. the deprecated TEXT codec) on a few core shapes
EntryPassivePool == [v : {0, H2}, p : {0, CONNECT}, c : {0, JSON, TEXT}, z : {0, 1, 2}, s : {0, HALFDUP},
                     tls : {"unset", "true"}, cert : {"unset"}, lim : Tri]
EntryGenPool == EntryCorePool \cup EntryPassivePool

\* pools for the generator
AllSs       == SUBSET StreamTypes
AllCs       == SUBSET CodecsAll
CompSome    == {{}, {1}, {2}, {1, 2}, {3, 4}, {1, 5, 6}, {2, 3, 4, 5, 6}, Compressions}
ListVs      == {{}, {H1}, {H1, H3}}

\* a small mixed pool for pairs/triples of entries
EntrySmallPool ==
  { AnyEntry,
    [AnyEntry EXCEPT !.v = H2, !.c = PROTO, !.s = SERVERS],                  \* the example of the docs
    [AnyEntry EXCEPT !.p = GRPC],
    [AnyEntry EXCEPT !.p = GRPC, !.tls = "false"],
    [AnyEntry EXCEPT !.v = H3],
    [AnyEntry EXCEPT !.v = H3, !.tls = "true", !.cert = "true"],
    [AnyEntry EXCEPT !.v = H1, !.s = HALFDUP],
    [AnyEntry EXCEPT !.s = FULLDUP, !.tls = "false"],
    [AnyEntry EXCEPT !.p = CONNECT, !.z = 2, !.s = UNARY],
    [AnyEntry EXCEPT !.tls = "false", !.cert = "false"],
    [AnyEntry EXCEPT !.cert = "false"],
    [AnyEntry EXCEPT !.cert = "true"],
    [AnyEntry EXCEPT !.c = TEXT],
    [AnyEntry EXCEPT !.v = H2, !.tls = "false", !.lim = "true"],
    [AnyEntry EXCEPT !.p = GRPCWEB, !.c = JSON, !.lim = "false"],
    [AnyEntry EXCEPT !.v = H1, !.p = CONNECT, !.tls = "true"] }

\* ten of them, for lists of three entries
EntryTenPool ==
  { AnyEntry,
    [AnyEntry EXCEPT !.v = H2, !.c = PROTO, !.s = SERVERS],
    [AnyEntry EXCEPT !.p = GRPC, !.tls = "false"],
    [AnyEntry EXCEPT !.v = H3],
    [AnyEntry EXCEPT !.v = H1, !.s = HALFDUP],
    [AnyEntry EXCEPT !.s = FULLDUP, !.tls = "false"],
    [AnyEntry EXCEPT !.tls = "false", !.cert = "false"],
    [AnyEntry EXCEPT !.cert = "true"],
    [AnyEntry EXCEPT !.c = TEXT],
    [AnyEntry EXCEPT !.p = GRPCWEB, !.c = JSON, !.lim = "false"] }

(* ---- worked examples of docs/configuring_and_running_tests.md, checked when TLC starts ---- *)
NoFeatures == [vs |-> {}, ps |-> {}, cs |-> {}, zs |-> {}, ss |-> {}, h2c |-> "unset", tls |-> "unset", certs |-> "unset",
               trailers |-> "unset", hdh1 |-> "unset", get |-> "unset", lim |-> "unset"]

\* "Config Cases": {version: HTTP_VERSION_2, codec: CODEC_PROTO, stream_type: STREAM_TYPE_SERVER_STREAM}
\* "expands to config cases with the above properties for all three protocols ... [and] into config
\* cases that represent TLS and those that do not"
DocEntry == [AnyEntry EXCEPT !.v = H2, !.c = PROTO, !.s = SERVERS]
ASSUME LET S == EntryCases(Resolve(NoFeatures), DocEntry) IN
         /\ \A c \in S : c.v = H2 /\ c.c = PROTO /\ c.s = SERVERS
         /\ {c.p : c \in S} = Protocols
         /\ {c.tls : c \in S} = BOOLEAN
         /\ EntryMust(Resolve(NoFeatures), DocEntry) = {}

\* "Configuration Files": an implementation supporting Connect and gRPC (not gRPC-Web), HTTP 1.1 and
\* HTTP/2, proto and json: "a config case for the Connect protocol over HTTP 1.1 using json applies ...
\* But a config case for the gRPC-Web protocol over HTTP/3 does not."
ASSUME LET f == [NoFeatures EXCEPT !.vs = {H1, H2}, !.ps = {CONNECT, GRPC}, !.cs = {PROTO, JSON}]
           S == FeatureCases(Resolve(f)) IN
         /\ FeatErrs(f) = {}
         /\ \E c \in S : c.p = CONNECT /\ c.v = H1 /\ c.c = JSON
         /\ ~\E c \in S : c.p = GRPCWEB \/ c.v = H3

\* "Features": defaults - HTTP 1.1 and HTTP/2, all three protocols, proto and json, identity and gzip,
\* all stream types, TLS and H2C supported, no client certs, GET and receive limit supported
ASSUME LET D == Resolve(NoFeatures) IN
         /\ D.vs = {H1, H2} /\ D.ps = Protocols /\ D.cs = {PROTO, JSON} /\ D.zs = {1, 2} /\ D.ss = StreamTypes
         /\ D.h2c /\ D.tls /\ ~D.certs /\ D.trailers /\ ~D.hdh1 /\ D.get /\ D.lim
         /\ FeatErrs(NoFeatures) = {}
=============================================================================
