--------------------------- MODULE MC_ConfigExpand ---------------------------
(* Bounded configuration domains for the design check of C06 (see MC_ConfigExpand_*.cfg). *)
EXTENDS ConfigExpand

AllVs == SUBSET Versions
AllPs == SUBSET Protocols

\* stream-type subsets by what matters: has half-duplex / full-duplex / anything else
StreamClasses == {{}, {UNARY}, {HALFDUP}, {FULLDUP}, {HALFDUP, FULLDUP}, {UNARY, HALFDUP},
                  {UNARY, SERVERS, FULLDUP}, StreamTypes}
StreamSome    == {{}, {UNARY}, {HALFDUP}, {FULLDUP}, {UNARY, HALFDUP, FULLDUP}}
ProtoSome     == {{}, {CONNECT, GRPCWEB}, {GRPC}, Protocols}
CodecClasses  == {{}, {PROTO}, {TEXT}, {JSON, TEXT}}
CompClasses   == {{}, {2}}

\* feature axes used together with entries
EntVs == {{}, {H1}, {H2}, {H1, H2}, {H1, H3}, {H1, H2, H3}}
EntPs == {{}, {CONNECT, GRPCWEB}, {GRPC}}
EntSs == {{}, {UNARY}, {UNARY, HALFDUP}}
EntPs2 == {{}, {GRPC}}
EntSs2 == {{}, {UNARY, HALFDUP}}

\* every combination of the interacting entry fields; passive fields (codec, compression, limit) fixed
EntryCorePool == [v : 0..3, p : 0..3, c : {0}, z : {0}, s : {0, UNARY, HALFDUP, FULLDUP},
                  tls : Tri, cert : Tri, lim : {"unset"}]
\* entries that vary the passive fields (incl. the deprecated TEXT codec) on a few core shapes
EntryPassivePool == [v : {0, H2}, p : {0, CONNECT}, c : {0, JSON, TEXT}, z : {0, 1, 2}, s : {0, HALFDUP},
                     tls : {"unset", "true"}, cert : {"unset"}, lim : Tri]
EntryGenPool == EntryCorePool \cup EntryPassivePool

\* pools for the generator
AllSs       == SUBSET StreamTypes
AllCs       == SUBSET CodecsAll
CompSome    == {{}, {1}, {2}, {1, 2}, {3, 4}, {1, 5, 6}, {2, 3, 4, 5, 6}, Compressions}
ListVs      == {{}, {H1}, {H1, H3}}

\* a small mixed pool for pairs/triples of entries
EntrySmallPool ==
  { AnyEntry,
    [AnyEntry EXCEPT !.v = H2, !.c = PROTO, !.s = SERVERS],                  \* the example of the docs
    [AnyEntry EXCEPT !.p = GRPC],
    [AnyEntry EXCEPT !.p = GRPC, !.tls = "false"],
    [AnyEntry EXCEPT !.v = H3],
    [AnyEntry EXCEPT !.v = H3, !.tls = "true", !.cert = "true"],
    [AnyEntry EXCEPT !.v = H1, !.s = HALFDUP],
    [AnyEntry EXCEPT !.s = FULLDUP, !.tls = "false"],
    [AnyEntry EXCEPT !.p = CONNECT, !.z = 2, !.s = UNARY],
    [AnyEntry EXCEPT !.tls = "false", !.cert = "false"],
    [AnyEntry EXCEPT !.cert = "false"],
    [AnyEntry EXCEPT !.cert = "true"],
    [AnyEntry EXCEPT !.c = TEXT],
    [AnyEntry EXCEPT !.v = H2, !.tls = "false", !.lim = "true"],
    [AnyEntry EXCEPT !.p = GRPCWEB, !.c = JSON, !.lim = "false"],
    [AnyEntry EXCEPT !.v = H1, !.p = CONNECT, !.tls = "true"] }
=============================================================================
