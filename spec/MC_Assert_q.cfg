CONSTANTS
  StreamTypes = {"unary", "client_stream", "server_stream", "half_duplex", "full_duplex"}
  ErrKinds = {"none", "e3", "ei"}
  PayloadCounts = {0, 1, 3}
  Kits = {"lean", "rich"}
  Profiles = {"A", "B", "D", "E"}
  MaxLen = 1
  MaxDev = 1
  RunChecker = TRUE
INIT Init
NEXT Next
VIEW ViewNoHist
INVARIANTS TypeOK Reflexive LenientPass DeviationFlagged CheckerAgrees CheckerSound MergedOnlyWhereDocumented
