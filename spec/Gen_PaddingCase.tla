--------------------------- MODULE Gen_PaddingCase ---------------------------
(* Behaviour generator for C19, whole test cases: every sequence of up to MaxMsgs messages from a
   pool x every sequence of up to MaxDirs directives from a pool (absent size, reachable,
   unreachable, invalid, and sizes on which the loop as written gives up or panics), with the
   outcome ExpandCase requires: directive-count rule, untouched messages, first failing directive. *)
EXTENDS PaddingCode, Json, IOUtils, TLC

CONSTANTS MaxMsgs, MaxDirs
RealBounds == <<128, 16384, 2097152, 268435456>>

NShard == atoi(IOEnv.VERIF_NSHARD)
Shard  == atoi(IOEnv.VERIF_SHARD)

MsgPool == {Msg(TRUE, 5, 0), Msg(TRUE, 50, 7), Msg(FALSE, 0, 0), Msg(TRUE, Limit - 16390, 3)}
DirPool == {Dir(FALSE, 0), Dir(TRUE, 0), Dir(TRUE, 10), Dir(TRUE, -1),
            Dir(TRUE, 5 + 1 - Limit),        \* target = base+1 of the first pool message: unreachable
            Dir(TRUE, -300000),              \* negative target: invalid
            Dir(TRUE, -4)}                   \* for the last pool message: ns = 16383, needs a third adjustment

SeqsUpTo(S, k) == UNION {[1..l -> S] : l \in 0..k}

VARIABLES msgs, dirs
GenInit == /\ msgs \in SeqsUpTo(MsgPool, MaxMsgs)
           /\ dirs \in SeqsUpTo(DirPool, MaxDirs)
           /\ Len(dirs) <= Len(msgs) + 1
           /\ (Len(msgs) * 5 + Len(dirs) + (IF Len(dirs) > 0 THEN dirs[1].off % 7 ELSE 0)
                 + (IF Len(msgs) > 0 THEN msgs[Len(msgs)].base ELSE 0)) % NShard = Shard
GenNext == UNCHANGED <<msgs, dirs>>

Emit == PrintT("SCN " \o ToJson([msgs |-> msgs, dirs |-> dirs, exp |-> ExpandCase(msgs, dirs),
                                 model |-> CaseWith(CodeOutcome, msgs, dirs)]))
=============================================================================
