CONSTANTS
  MaxLen = 4
  MaxDigits = 12
INIT Init
NEXT Next
INVARIANTS OnlyTimeout Emit
