CONSTANTS
  Ops = {"h2md", "out", "md2h", "addh", "addt", "map2h"}
  Bases = {"a", "b"}
  Styles = {"l", "u"}
  MaxEntries = 2
  MinVals = 0
  MaxVals = 2
  Rich = FALSE
INIT Init
NEXT Next
VIEW ViewRun
INVARIANTS TypeOK Agrees Laws
