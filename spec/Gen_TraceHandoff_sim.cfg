CONSTANTS
  Names = {"a", "b", "c"}
  Waiters = {"w1", "w2", "w3"}
  MaxOps = 14
  MaxGen = 14
  KeepHist = TRUE
INIT Init
NEXT Next
INVARIANTS GotRight Emit
