-------------------------- MODULE Gen_ConfigExpand --------------------------
(* Behaviour generator for C06.  The behaviours are the construction steps of a configuration file
   (ConfigExpand!Build: flags, axes, then include/exclude entries one at a time); every complete
   configuration is printed together with what the declarative meaning (ConfigExpandDecl) requires
   of the loader:
       ferr  - the feature contradictions present (a rejection naming one of them is required)
       ent   - per entry (includes, then excludes): the directly broken clauses (rejection required)
               and whether the entry matches nothing only indirectly (rejection tolerated)
       fp    - fingerprint (size and three sums over the integer codes) of the required case set
   Used exhaustively (BFS) over the pools of MC_ConfigExpand and under -simulate for long lists.
   VERIF_STRIDE / VERIF_ESTRIDE / VERIF_PHASE sample the flag seeds / pool entries (tiers, VERIF_SEED). *)
EXTENDS MC_ConfigExpand, Json, IOUtils

Env(name, default) == IF name \in DOMAIN IOEnv THEN IOEnv[name] ELSE default

T3(t) == CASE t = "unset" -> 0 [] t = "true" -> 1 [] t = "false" -> 2
SeedNo(f) == T3(f.h2c) + 3 * T3(f.tls) + 9 * T3(f.certs) + 27 * T3(f.trailers) + 81 * T3(f.hdh1)
             + 243 * T3(f.get) + 729 * T3(f.lim)

EntryNo(e) == e.v + 4 * e.p + 16 * e.c + 64 * e.z + 448 * e.s + 2688 * T3(e.tls) + 8064 * T3(e.cert) + 24192 * T3(e.lim)

Stride  == atoi(Env("VERIF_STRIDE", "1"))      \* every Stride-th flag seed ...
EStride == atoi(Env("VERIF_ESTRIDE", "1"))     \* ... and every EStride-th entry of the pool
Phase   == atoi(Env("VERIF_PHASE", "0"))

EntryOK(e) == (EntryNo(e) * 11 + Phase) % EStride = 0

GenInit == Init /\ ((SeedNo(cfg.f) * 7 + Phase) % Stride = 0)
GenNext == \/ PickAxes
           \/ AddInclude /\ EntryOK(cfg'.inc[Len(cfg'.inc)])
           \/ AddExclude /\ EntryOK(cfg'.exc[Len(cfg'.exc)])

Expectation(c) ==
  LET fe == FeatErrs(c.f) IN
  IF fe # {}
    THEN [ferr |-> fe, ent |-> <<>>, fp |-> FP({})]
    ELSE LET G  == Resolve(c.f)
             es == Entries(c)
         IN [ferr |-> {},
             ent  |-> [i \in DOMAIN es |-> [must |-> EntryMust(G, es[i]), gap |-> EntryGap(G, es[i])]],
             fp   |-> FP(Codes(Result(G, c)))]

Emit == (pc = "features") => PrintT("SCN " \o ToJson([cfg |-> cfg, exp |-> Expectation(cfg)]))
=============================================================================
