-------------------------- MODULE Gen_ConfigExpand --------------------------
(* Behaviour generator for C06.  The behaviours are the construction steps of a configuration file
   (ConfigExpand!Build: flags, axes, then include/exclude entries one at a time); every complete
   configuration is printed together with what the declarative meaning (ConfigExpandDecl) requires
   of the loader:
       ferr  - the feature contradictions present (a rejection naming one of them is required)
       ent   - per entry (includes, then excludes): the directly broken clauses (rejection required)
               and whether the entry matches nothing only indirectly (rejection tolerated)
       fp    - fingerprint (size and three sums over the integer codes) of the required case set
   Used exhaustively (BFS) over the pools of MC_ConfigExpand and under -simulate for long lists.
   VERIF_STRIDE / VERIF_ESTRIDE / VERIF_PHASE sample the flag seeds / pool entries (tiers, VERIF_SEED). *)
EXTENDS MC_ConfigExpand, Json, IOUtils

Env(name, default) == IF name \in DOMAIN IOEnv THEN IOEnv[name] ELSE default

T3(t) == CASE t = "unset" -> 0 [] t = "true" -> 1 [] t = "false" -> 2
SeedNo(f) == T3(f.h2c) + 3 * T3(f.tls) + 9 * T3(f.certs) + 27 * T3(f.trailers) + 81 * T3(f.hdh1)
             + 243 * T3(f.get) + 729 * T3(f.lim)

EntryNo(e) == e.v + 4 * e.p + 16 * e.c + 64 * e.z + 448 * e.s + 2688 * T3(e.tls) + 8064 * T3(e.cert) + 24192 * T3(e.lim)

Stride  == atoi(Env("VERIF_STRIDE", "1"))      \* every Stride-th flag seed ...
EStride == atoi(Env("VERIF_ESTRIDE", "1"))     \* ... and every EStride-th entry of the pool
Phase   == atoi(Env("VERIF_PHASE", "0"))

Mix(n)     == ((n + 1 + 131 * (Phase % 97)) * 7919) % 10007          \* decorrelates the sample from the fields
EntryOK(e) == Mix(EntryNo(e)) % EStride = 0

GenInit == Init /\ (Mix(SeedNo(cfg.f)) % Stride = 0)
GenNext == \/ PickAxes
           \/ AddInclude /\ EntryOK(cfg'.inc[Len(cfg'.inc)])
           \/ AddExclude /\ EntryOK(cfg'.exc[Len(cfg'.exc)])

(* Random walks over the WHOLE quantifier domain of the property (-simulate): every subset of the five
   repeated fields, every tri-state of the seven flags, up to MaxInc + MaxExc entries with any fields
   omitted.  RandomElement makes each step a single random successor (TLC's simulator evaluates the
   invariants on every successor of a step, so wide steps would be slow). *)
OneOf(seq)    == seq[RandomElement(1..Len(seq))]
\* (the dummy parameter keeps TLC from caching these as constants)
SomeTri(d)    == OneOf(<<"unset", "unset", "unset", "unset", "true", "false">>)
SomeSubset(S) == IF RandomElement(1..3) = 1 THEN {} ELSE RandomElement(SUBSET S)
SomeField(n)  == IF RandomElement(1..5) <= 3 THEN 0 ELSE RandomElement(1..n)
SomeEntry(d)  == [v |-> SomeField(3), p |-> SomeField(3), c |-> SomeField(3), z |-> SomeField(NZ), s |-> SomeField(5),
                  tls |-> SomeTri(d), cert |-> SomeTri(d), lim |-> SomeTri(d)]

WalkInit == /\ cfg = [f |-> [vs |-> {}, ps |-> {}, cs |-> {}, zs |-> {}, ss |-> {}, h2c |-> "unset", tls |-> "unset",
                             certs |-> "unset", trailers |-> "unset", hdh1 |-> "unset", get |-> "unset", lim |-> "unset"],
                      inc |-> <<>>, exc |-> <<>>]
            /\ pc = "pick" /\ feat = Null /\ acc = {} /\ ix = 1 /\ out = Null

WalkNext ==
  \/ /\ pc = "pick"
     /\ cfg' = [cfg EXCEPT !.f = [vs |-> SomeSubset(Versions), ps |-> SomeSubset(Protocols), cs |-> SomeSubset(CodecsAll),
                                  zs |-> SomeSubset(Compressions), ss |-> SomeSubset(StreamTypes),
                                  h2c |-> SomeTri(1), tls |-> SomeTri(2), certs |-> SomeTri(3), trailers |-> SomeTri(4),
                                  hdh1 |-> SomeTri(5), get |-> SomeTri(6), lim |-> SomeTri(7)]]
     /\ pc' = "features" /\ UNCHANGED <<feat, acc, ix, out>>
  \/ /\ pc = "features" /\ Len(cfg.inc) < MaxInc /\ cfg.exc = <<>>
     /\ cfg' = [cfg EXCEPT !.inc = Append(cfg.inc, SomeEntry(Len(cfg.inc)))]
     /\ UNCHANGED <<pc, feat, acc, ix, out>>
  \/ /\ pc = "features" /\ Len(cfg.exc) < MaxExc
     /\ cfg' = [cfg EXCEPT !.exc = Append(cfg.exc, SomeEntry(Len(cfg.exc)))]
     /\ UNCHANGED <<pc, feat, acc, ix, out>>

Expectation(c) ==
  LET fe == FeatErrs(c.f) IN
  IF fe # {}
    THEN [ferr |-> fe, ent |-> <<>>, fp |-> FP({})]
    ELSE LET G  == Resolve(c.f)
             es == Entries(c)
         IN [ferr |-> {},
             ent  |-> [i \in DOMAIN es |-> [must |-> EntryMust(G, es[i]), gap |-> EntryGap(G, es[i])]],
             fp   |-> FP(Codes(Result(G, c)))]

Emit == (pc = "features") => PrintT("SCN " \o ToJson([cfg |-> cfg, exp |-> Expectation(cfg)]))
=============================================================================
