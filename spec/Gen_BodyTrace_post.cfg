CONSTANTS
  FlagSet = {0, 2}
  LenSet = {0, 1}
  PcSet = {"plain"}
  EncSet = {"none"}
  HdrMode = "connect"
  SideSet = {"req", "resp"}
  EndSet = {"eof", "err", "close", "closeerr"}
  MaxEnvs = 1
  MaxTotal = 6
  ChunkSet = {2}
  MaxPost = 2
  MaxOther = 1
  Grain = "call"
  ConsultBit = TRUE
  KeepHist = TRUE
INIT Init
NEXT Next
INVARIANTS Agrees Emit
