------------------------------- MODULE Padding -------------------------------
(* C19 - operational machine of expandRequestData (internal/app/connectconformance/
   test_case_library.go) for ONE directive applied to ONE request message, with one action per
   statement group / loop iteration of the Go code, and the design theorems that relate it to the
   declarative meaning (PaddingDecl!ExpandOne).

   Algo = "iter"   : the loop as written: measure proto.Size, stop when delta = 0, give up after
                     MaxAdj adjustments, otherwise grow (append delta bytes) or shrink (re-slice to
                     len+delta).  Guard = FALSE models the Go slice expression as it is: a negative
                     new length is a run-time panic ("crashed").  Guard = TRUE turns it into an error.
   Algo = "direct" : the repaired algorithm (fixes/C19-*.patch): clear the field, measure the rest,
                     compute the one data length that gives the target size.

   Theorems checked by TLC (see MC_Padding*.cfg):
     Correct       (direct)            at termination the outcome IS ExpandOne
     CodeTheorem   (iter, 2, unguarded) the outcome is ExpandOne EXCEPT on two exactly characterised
                                       sets: CrashCond (panic) and NeedsThird (reachable target
                                       rejected because a third adjustment would be needed)
     NeverWrongSize, AdjBound, Termination (all)
   The x_ configurations show that the theorem Correct is NOT vacuous: it fails for the loop as
   written, and it still fails when the loop is merely guarded and given more adjustments. *)
EXTENDS PaddingCode, TLC

CONSTANTS Algo,        \* "iter" | "direct"
          MaxAdj,      \* adjustments allowed before giving up (2 in the code)
          Guard        \* BOOLEAN, see above

VARIABLES m, off,      \* the scenario (chosen in Init, never changed: "changing nothing but the padding")
          pc,          \* "range" | "field" | "measure" | "adjust" | "clear" | "solve" | "done"
          n,           \* current length of request_data
          adj,         \* adjustCount
          out          \* outcome

vars == <<m, off, pc, n, adj, out>>

None    == [k |-> "none",    n |-> -1, why |-> ""]

T == Target(off)

\* the scenario domain is chosen by the including module (MC_Padding: InitSmall, InitReal)
InitWith(mm, o) == /\ m = mm /\ off = o /\ n = mm.n0
                   /\ pc = "range" /\ adj = 0 /\ out = None

Finish(o) == out' = o /\ pc' = "done"

\* totalSize := limit + offset; if totalSize < 0 || totalSize > MaxUint32 { return error }
CheckRange ==
  /\ pc = "range"
  /\ IF ValidTarget(T) THEN pc' = "field" /\ UNCHANGED out ELSE Finish(Rejected("invalid"))
  /\ UNCHANGED <<m, off, n, adj>>

\* field := Fields().ByName("request_data"); if field == nil || not singular bytes { return error }
CheckField ==
  /\ pc = "field"
  /\ IF m.has THEN pc' = (IF Algo = "iter" THEN "measure" ELSE "clear") /\ UNCHANGED out
              ELSE Finish(Rejected("nofield"))
  /\ UNCHANGED <<m, off, n, adj>>

(* ------------------------------ the loop as written ------------------------------ *)
Delta == T - Size(m.base, n)

\* top of the loop body: size := proto.Size(req); delta := total - size; break / give up / go on
Measure ==
  /\ pc = "measure"
  /\ IF Delta = 0 THEN Finish(Padded(n))
     ELSE IF adj >= MaxAdj THEN Finish(Rejected("unreachable"))
     ELSE pc' = "adjust" /\ UNCHANGED out
  /\ UNCHANGED <<m, off, n, adj>>

\* delta > 0: bytesVal = append(bytesVal, make([]byte, delta)...)
Grow ==
  /\ pc = "adjust" /\ Delta > 0
  /\ n' = n + Delta /\ adj' = adj + 1 /\ pc' = "measure"
  /\ UNCHANGED <<m, off, out>>

\* delta < 0: bytesVal = bytesVal[:len(bytesVal)+delta]
Shrink ==
  /\ pc = "adjust" /\ Delta < 0
  /\ IF n + Delta >= 0
       THEN n' = n + Delta /\ adj' = adj + 1 /\ pc' = "measure" /\ UNCHANGED out
       ELSE /\ Finish(IF Guard THEN Rejected("unreachable") ELSE Crashed)
            /\ UNCHANGED <<n, adj>>
  /\ UNCHANGED <<m, off>>

(* ------------------------------ the repaired algorithm ------------------------------ *)
\* data := Get(field).Bytes(); Clear(field); baseSize := proto.Size(req)
Clear ==
  /\ pc = "clear"
  /\ n' = 0 /\ pc' = "solve"
  /\ UNCHANGED <<m, off, adj, out>>

\* the data length whose field encoding fills target-baseSize bytes exactly, if there is one
Solve ==
  /\ pc = "solve"
  /\ LET c == {l \in PadLens(Size(m.base, n), T) : TRUE} IN
       IF c = {} THEN Finish(Rejected("unreachable")) /\ UNCHANGED <<n, adj>>
       ELSE /\ n' = CHOOSE l \in c : TRUE
            /\ adj' = adj + (IF n' = m.n0 THEN 0 ELSE 1)
            /\ Finish(Padded(n'))
  /\ UNCHANGED <<m, off>>

Next == CheckRange \/ CheckField \/ Measure \/ Grow \/ Shrink \/ Clear \/ Solve

(* ------------------------------ properties ------------------------------ *)
TypeOK == /\ pc \in {"range", "field", "measure", "adjust", "clear", "solve", "done"}
          /\ n >= 0 /\ adj \in 0..MaxAdj
          /\ out.k \in {"none", "padded", "rejected", "crashed"}
          /\ (pc = "done") <=> (out # None)

\* THE theorem: the machine computes the declarative meaning
Correct == (pc = "done") => (out = ExpandOne(m, off))

\* weaker, holds for every variant: a request declared padded has exactly the target size
NeverWrongSize == (out.k = "padded") => (m.has /\ ValidTarget(T) /\ Size(m.base, out.n) = T /\ out.n = n)

NoCrash == out.k # "crashed"

\* "at most two adjustments"
AdjBound == adj <= MaxAdj

Termination == <>(pc = "done")

(* The closed-form characterisation CrashCondOf / NeedsThirdOf / CodeOutcome of where the loop as
   written departs from the statement lives in PaddingCode (constant level). *)
CodeTheorem == (pc = "done") =>
  /\ (out = Crashed) <=> CrashCondOf(m, off)
  /\ (out = Rejected("unreachable") /\ ValidTarget(T) /\ m.has /\ Reachable(m.base, T)) <=> NeedsThirdOf(m, off)
  /\ out = CodeOutcome(m, off)

\* design-check view: nothing but the live variables
View == vars
=============================================================================
