--------------------------- MODULE Gen_VerdictRun ---------------------------
(* process-fate scenarios for the Run()-level binding of C04: N cases in one batch, the client
   under test (a wrapper around the reference client) or the server under test misbehaves at a
   chosen point, some cases are marked known-failing / known-flaky. *)
EXTENDS Naturals, Sequences, FiniteSets, TLC, Json
CONSTANTS Ns
ClientFaults(n) == {<<"none">>} \cup {<<"tamper", j>> : j \in 1..n}
                   \cup {<<k, j, c>> : k \in {"exitAfterReq", "exitAfterResp"}, j \in 0..(n - 1), c \in {0, 1}}
                   \cup {<<"garbageAfterResp", j>> : j \in 1..n}
ServerFaults == {<<"none">>, <<"failstart", 1>>, <<"failstart", 0>>, <<"garbage">>}
MarkSets(n) == {<<{}, {}>>} \cup {<<{i}, {}>> : i \in 1..n} \cup {<<{}, {i}>> : i \in 1..n} \cup {<<{1}, {n}>>}
Scenarios == {[mode |-> "client", n |-> n, fault |-> f, failing |-> m[1], flaky |-> m[2]] :
                 n \in Ns, f \in UNION {ClientFaults(k) : k \in Ns}, m \in UNION {MarkSets(k) : k \in Ns}}
             \cup {[mode |-> "server", n |-> n, fault |-> f, failing |-> m[1], flaky |-> m[2]] :
                 n \in Ns, f \in ServerFaults, m \in {<<{}, {}>>, <<{1}, {}>>, <<{}, {1}>>}}
VARIABLE s
Init == s \in Scenarios
Next == FALSE /\ s' = s
Emit == PrintT("SCN " \o ToJson(s))
=============================================================================
