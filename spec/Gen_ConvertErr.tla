--------------------------- MODULE Gen_ConvertErr ---------------------------
(* Behaviour generator for the error part of C18: one line per abstract error with the value
   every conversion route must produce for it, computed by the declarative operators. *)
EXTENDS ConvertErr, Json

Emit == (pc = "done" /\ route = "connect") =>
          PrintT("SCN " \o ToJson([area |-> "err", e |-> e,
                                   c   |-> ToConnect(e),                  \* ConvertProtoToConnectError
                                   p_c |-> FromConnect(ToConnect(e)),     \* ... then ConvertConnectToProtoError / ConvertErrorToProtoError
                                   s   |-> ToStatus(e),                   \* ConvertProtoToGrpcError
                                   p_s |-> FromStatus(ToStatus(e)),       \* ... then ConvertGrpcToProtoError
                                   plain |-> FromPlainGrpc(MsgText(e.msg))]))
=============================================================================
