CONSTANTS
  Domain = "conc3"
  NReq = 3
  Coarse = FALSE
  KeepHist = FALSE
  MaxLen = 0
  MaxDigits = 0
SPECIFICATION Spec
VIEW ViewNoHist
INVARIANTS TypeOK Agrees CountsConsistent RejectedIsSilent HandlerSeesCleanRequest
PROPERTIES Monotone Termination
