CONSTANTS
  Codes = {3, 13}
  Msgs = {"absent", "utf8"}
  Pfxs = {"std", "other", "none"}
  Types = {"t1", "t2"}
  Vals = {0, 3}
  MaxDetails = 4
  Routes = {"connect"}
INIT Init
NEXT Next
INVARIANTS Agrees Laws Emit
