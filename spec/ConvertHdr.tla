----------------------------- MODULE ConvertHdr -----------------------------
(* C18 - header lists <-> gRPC metadata / http.Header: the conversions as loops.

   Declarative meaning   : HdrToMD, MDToHdr, Outgoing, AddHdr, AddTrl, MapToHdr (ConvertDecl)
   Operational machine   : the input is built entry by entry (phase "build"), then ONE ACTION
                           PER LOOP ITERATION of the converting function runs (phase "run"; for
                           AppendToOutgoingContext also the per-pair loop inside grpc-go's
                           metadata, phase "grpc"); Go map iteration order is a nondeterministic
                           choice of the next unvisited key.
   Theorems checked by TLC: Agrees (the loops compute the declarative functions, for every
                           iteration order), and the round-trip laws of the statement (Laws).  *)
EXTENDS ConvertDecl, TLC

CONSTANTS Ops,          \* subset of {"h2md", "out", "md2h", "addh", "addt", "map2h"}
          Bases,        \* name stems, e.g. {"a", "abin"}
          Styles,       \* letter-case styles of a name: subset of {"l", "u", "m"}
          MaxEntries,   \* entries in a header list
          MaxVals,      \* values per entry
          MinVals,      \* an entry is closed only once it has this many values (0; 1 steers random walks)
          Rich          \* TRUE: larger value vocabulary

VARIABLES op, pre,      \* the operation; what the destination held before (out/addh/addt)
          h,            \* the header list (for md2h / map2h: the listing of the source map)
          pc, i, j, acc, kv, seen, out

vars == <<op, pre, h, pc, i, j, acc, kv, seen, out>>

(* ------------------------------ scenario space ------------------------------ *)
PlainVals   == IF Rich THEN {Txt(1), Txt(2), B64(Bytes(1), FALSE)} ELSE {Txt(1), B64(Bytes(1), FALSE)}
\* wire form under a -bin key: unpadded / padded base64, not base64 at all, base64 of base64
WireBinVals == IF Rich THEN {B64(Bytes(1), FALSE), B64(Bytes(2), TRUE), Txt(1), B64(B64(Bytes(1), FALSE), FALSE)}
                       ELSE {B64(Bytes(1), FALSE), B64(Bytes(2), TRUE), Txt(1)}
\* API form under a -bin key: raw octets, text, and octets that happen to be base64 text
ApiBinVals  == IF Rich THEN {Bytes(1), Bytes(2), Txt(1), B64(Bytes(1), FALSE)} ELSE {Bytes(1), Txt(1), B64(Bytes(1), FALSE)}

Names == {Name(b, s, bin) : b \in Bases, s \in Styles, bin \in BOOLEAN}
FromMap == op \in {"md2h", "map2h"}        \* the input is a Go map: distinct, normalised keys
Used == {h[x].name : x \in 1..Len(h)}
NamesAllowed == CASE op = "md2h"  -> {n \in Names : n.style = "l"} \ Used     \* gRPC metadata keys are lower-case
                  [] op = "map2h" -> {n \in Names : n.style = "u"} \ Used     \* http.Header keys are canonical
                  [] OTHER        -> Names
ValsAllowed(n) == IF ~n.bin THEN PlainVals ELSE IF op = "md2h" THEN ApiBinVals ELSE WireBinVals

Old == Name("a", "l", FALSE)
OldBin == Name("a", "l", TRUE)
Pres(o) == CASE o = "out"  -> {EmptyF, (Old :> <<Txt(9)>>) @@ (OldBin :> <<Bytes(9)>>)}
             [] o = "addh" -> {EmptyF, (Canon(Old) :> <<Txt(9)>>)}
             [] OTHER      -> {EmptyF}

SrcMap == [k \in Used |-> h[CHOOSE x \in 1..Len(h) : h[x].name = k].vals]     \* only when FromMap

Init == /\ op \in Ops /\ pre \in Pres(op)
        /\ h = <<>> /\ pc = "build" /\ i = 1 /\ j = 1 /\ acc = EmptyF /\ kv = <<>> /\ seen = {} /\ out = <<>>

Closed == IF h = <<>> THEN TRUE ELSE Len(h[Len(h)].vals) >= MinVals
AddEntry(n) == /\ pc = "build" /\ Len(h) < MaxEntries /\ n \in NamesAllowed /\ Closed
               /\ h' = Append(h, [name |-> n, vals |-> <<>>])
               /\ UNCHANGED <<op, pre, pc, i, j, acc, kv, seen, out>>
AddVal(v)   == /\ pc = "build" /\ h # <<>> /\ Len(h[Len(h)].vals) < MaxVals /\ v \in ValsAllowed(h[Len(h)].name)
               /\ h' = [h EXCEPT ![Len(h)].vals = Append(@, v)]
               /\ UNCHANGED <<op, pre, pc, i, j, acc, kv, seen, out>>
Start       == /\ pc = "build" /\ Closed /\ pc' = "run"
               /\ acc' = IF op \in {"addh", "addt"} THEN pre ELSE EmptyF
               /\ UNCHANGED <<op, pre, h, i, j, kv, seen, out>>

(* ------------------ ConvertProtoHeaderToMetadata: for _, hdr := range src ------------------ *)
H2MD_Iter == /\ op = "h2md" /\ pc = "run" /\ i <= Len(h)
             /\ LET key  == Lower(h[i].name)
                    vals == IF key.bin THEN [x \in 1..Len(h[i].vals) |-> Dec1(h[i].vals[x])] ELSE h[i].vals
                IN acc' = Put(acc, key, Get(acc, key) \o vals)      \* append, never replace
             /\ i' = i + 1
             /\ UNCHANGED <<op, pre, h, pc, j, kv, seen, out>>
H2MD_Ret  == /\ op = "h2md" /\ pc = "run" /\ i > Len(h)
             /\ out' = acc /\ pc' = "done"
             /\ UNCHANGED <<op, pre, h, i, j, acc, kv, seen>>

(* ------------------ AppendToOutgoingContext: nested loops, then grpc-go ------------------ *)
Out_Inner   == /\ op = "out" /\ pc = "run" /\ i <= Len(h) /\ j <= Len(h[i].vals)
               /\ kv' = Append(kv, <<h[i].name, WireToApi(Lower(h[i].name), h[i].vals[j])>>)
               /\ j' = j + 1
               /\ UNCHANGED <<op, pre, h, pc, i, acc, seen, out>>
Out_NextHdr == /\ op = "out" /\ pc = "run" /\ i <= Len(h) /\ j > Len(h[i].vals)
               /\ i' = i + 1 /\ j' = 1
               /\ UNCHANGED <<op, pre, h, pc, acc, kv, seen, out>>
Out_Call    == /\ op = "out" /\ pc = "run" /\ i > Len(h)            \* metadata.AppendToOutgoingContext(ctx, kv...)
               /\ pc' = "grpc" /\ acc' = pre /\ i' = 1
               /\ UNCHANGED <<op, pre, h, j, kv, seen, out>>
Grpc_Pair   == /\ pc = "grpc" /\ i <= Len(kv)                       \* key lower-cased, value appended
               /\ acc' = Put(acc, Lower(kv[i][1]), Get(acc, Lower(kv[i][1])) \o <<kv[i][2]>>)
               /\ i' = i + 1
               /\ UNCHANGED <<op, pre, h, pc, j, kv, seen, out>>
Grpc_Ret    == /\ pc = "grpc" /\ i > Len(kv)
               /\ out' = acc /\ pc' = "done"
               /\ UNCHANGED <<op, pre, h, i, j, acc, kv, seen>>

(* ------------- ConvertMetadataToProtoHeader / ConvertToProtoHeader: for key, value := range src ------------- *)
Map_Iter == /\ FromMap /\ pc = "run"
            /\ \E k \in Used \ seen :                               \* Go map order: any unvisited key
                 /\ out' = Append(out, [name |-> k,
                                        vals |-> IF op = "md2h" THEN [x \in 1..Len(SrcMap[k]) |-> ApiToWire(k, SrcMap[k][x])]
                                                 ELSE SrcMap[k]])
                 /\ seen' = seen \cup {k}
            /\ UNCHANGED <<op, pre, h, pc, i, j, acc, kv>>
Map_Ret  == /\ FromMap /\ pc = "run" /\ seen = Used
            /\ pc' = "done"
            /\ UNCHANGED <<op, pre, h, i, j, acc, kv, seen, out>>

(* ------------------ AddHeaders / AddTrailers: nested loops over dest.Add ------------------ *)
Add_Inner   == /\ op \in {"addh", "addt"} /\ pc = "run" /\ i <= Len(h) /\ j <= Len(h[i].vals)
               /\ LET key == Canon(h[i].name)          \* both canonicalise the name (AddTrailers since /repo 2c8246b)
                  IN acc' = Put(acc, key, Get(acc, key) \o <<h[i].vals[j]>>)
               /\ j' = j + 1
               /\ UNCHANGED <<op, pre, h, pc, i, kv, seen, out>>
Add_NextHdr == /\ op \in {"addh", "addt"} /\ pc = "run" /\ i <= Len(h) /\ j > Len(h[i].vals)
               /\ i' = i + 1 /\ j' = 1
               /\ UNCHANGED <<op, pre, h, pc, acc, kv, seen, out>>
Add_Ret     == /\ op \in {"addh", "addt"} /\ pc = "run" /\ i > Len(h)
               /\ out' = acc /\ pc' = "done"
               /\ UNCHANGED <<op, pre, h, i, j, acc, kv, seen>>

Build == (\E n \in Names : AddEntry(n)) \/ (\E v \in PlainVals \cup WireBinVals \cup ApiBinVals : AddVal(v)) \/ Start
Run   == H2MD_Iter \/ H2MD_Ret \/ Out_Inner \/ Out_NextHdr \/ Out_Call \/ Grpc_Pair \/ Grpc_Ret
         \/ Map_Iter \/ Map_Ret \/ Add_Inner \/ Add_NextHdr \/ Add_Ret
Next == Build \/ Run
Spec == Init /\ [][Next]_vars /\ WF_vars(Next)

(* ------------------------------ properties ------------------------------ *)
TypeOK == /\ pc \in {"build", "run", "grpc", "done"} /\ Len(h) <= MaxEntries
          /\ \A x \in 1..Len(h) : Len(h[x].vals) <= MaxVals

\* what the statement requires of the result (a map, or a set of entries for the map-sourced ops)
Expected == CASE op = "h2md"  -> HdrToMD(h)
              [] op = "out"   -> Outgoing(pre, h)
              [] op = "addh"  -> AddHdr(pre, h)
              [] op = "addt"  -> AddTrl(pre, h)
              [] op = "md2h"  -> MDToHdr(SrcMap)
              [] op = "map2h" -> MapToHdr(SrcMap)

Agrees == (pc = "done") =>
            IF FromMap THEN Range(out) = Expected /\ Len(out) = Cardinality(Used)     \* each key exactly once
            ELSE Entries(out) = Entries(Expected)    \* a key without values is not observable

\* the round-trip laws of the statement, evaluated on every completed scenario
AsFun(S) == [k \in {e.name : e \in S} |-> (CHOOSE e \in S : e.name = k).vals]
Laws == (pc = "done") =>
  /\ (op = "h2md") =>
       /\ DOMAIN out = {Lower(h[x].name) : x \in 1..Len(h)}                         \* every key, up to case
       /\ \A k \in DOMAIN out : Len(out[k]) = Len(ValsFor(h, k, Lower, Same))       \* every value
       /\ HdrToMD(SomeSeq(MDToHdr(out))) = out                                       \* there and back loses nothing
       /\ CanonList(h) => AsFun(MDToHdr(out)) = [k \in KeysOf(h, Lower) |-> ValsFor(h, k, Lower, Same)]   \* encoded exactly once
  /\ (op = "md2h") =>
       /\ HdrToMD(out) = SrcMap                                                      \* exact inverse, in any entry order
       /\ \A x \in 1..Len(out) : out[x].name.bin => \A y \in 1..Len(out[x].vals) : CanonWire(out[x].vals[y]) /\ out[x].vals[y].of = SrcMap[out[x].name][y]
  /\ (op = "out") =>
       /\ \A k \in DOMAIN pre : SubSeq(out[k], 1, Len(pre[k])) = pre[k]              \* appends, keeps what was there
       /\ pre = EmptyF => Entries(out) = Entries(HdrToMD(h))                                          \* same meaning as the server-side conversion
  /\ (op = "addh" /\ pre = EmptyF) =>
       Entries(HdrToMD(SomeSeq(MapToHdr(out)))) = Entries(HdrToMD(h))          \* through http.Header and back
  /\ (op = "addt") => \A x \in 1..Len(h) : h[x].vals # <<>> => Canon(h[x].name) \in DOMAIN out

Terminates == <>(pc = "done")
\* design checks do not need the construction history
ViewRun == <<op, pre, h, pc, i, j, acc, kv, seen, out>>
=============================================================================
