CONSTANTS
  TagLen = 1
  Bounds <- SmallBounds
  Limit = 40
  MaxTarget = 85
  Bs = {0, 1, 2, 3, 7, 40}
  Ds <- SmallDs
  NMax = 80
  SearchMax = 100
INIT Init
NEXT Next
INVARIANTS ClosedForm AtMostOne Monotone StepCost Unreachable SharpAtOffset DataIndependent Idempotent CaseLaws ZIndependent SharpLimit
