\* one exclude entry from the 1008-entry pool x 24 axis sets x 16 flag seeds
CONSTANTS
  NZ = 6
  AxisVs <- EntVs
  AxisPs = {{}, {2}}
  AxisCs = {{}}
  AxisZs = {{}}
  AxisSs = {{}, {1, 4}}
  TriH2c = {"unset", "false"}
  TriTls = {"unset", "false"}
  TriCerts = {"unset", "true"}
  TriTrailers = {"unset"}
  TriHdh1 = {"unset", "true"}
  TriGet = {"unset"}
  TriLim = {"unset"}
  EntryPool <- EntryGenPool
  MaxInc = 0
  MaxExc = 1
INIT GenInit
NEXT GenNext
INVARIANTS Emit
