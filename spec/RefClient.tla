------------------------------ MODULE RefClient ------------------------------
(* Reference client main loop (referenceclient.Run): reads requests from stdin one at a time,
   bounds the number of RPCs in flight with a semaphore of size P, runs each RPC in its own
   goroutine, and serialises the writing of responses to stdout with one mutex.  The runner
   relies on this (C09/C10): responses on stdout are never interleaved, every request that was
   read gets exactly one response, and a failure to write stops the client.

     Loop     : ReadReq | ReadEOF -> Acquire -> Check (failure latched?) -> Spawn -> ...
                at the end: WaitAll -> Return
     Worker i : Invoke (the RPC reaches the server) -> [server answers] -> LockEnc -> Write
                (synchronous pipe: completes when the runner reads it, fails if stdout is closed)
                -> UnlockEnc -> ReleaseSem
     Environment (the harness): offers requests on stdin (a write completes when the loop reads
                it), lets the server answer an RPC, reads one response from stdout, closes stdin,
                closes stdout.

   Observable events (logged by the harness): OfferCall/OfferRet, Arrive(i), Answer(i),
   DrainCall/DrainRet(i), CloseStdin, CloseStdout, RunRet(r).  Everything else is silent. *)
EXTENDS Naturals, Sequences, FiniteSets, TLC

CONSTANTS P, N, KeepHist
Reqs == 1..N

VARIABLES lpc, consumed, stdinW, stdinClosed, stdoutClosed, sem, enc, wk, failure, ret,
          offerPend, drainPend, drained, seenArr, hist
vars == <<lpc, consumed, stdinW, stdinClosed, stdoutClosed, sem, enc, wk, failure, ret,
          offerPend, drainPend, drained, seenArr, hist>>

H(e) == hist' = IF KeepHist THEN Append(hist, e) ELSE hist

Init == /\ lpc = "read" /\ consumed = 0 /\ stdinW = 0 /\ stdinClosed = FALSE /\ stdoutClosed = FALSE
        /\ sem = 0 /\ enc = 0 /\ wk = [i \in Reqs |-> "none"] /\ failure = FALSE /\ ret = "none"
        /\ offerPend = FALSE /\ drainPend = FALSE /\ drained = 0 /\ seenArr = {} /\ hist = <<>>

(* ------------------------------ environment (observable) ------------------------------ *)
OfferCall == /\ ~offerPend /\ ~stdinClosed /\ consumed < N
             /\ stdinW = 0
             /\ stdinW' = consumed + 1 /\ offerPend' = TRUE /\ H(<<"O">>)
             /\ UNCHANGED <<lpc, consumed, stdinClosed, stdoutClosed, sem, enc, wk, failure, ret, drainPend, drained, seenArr>>
\* the write returned: the loop has read the request (or the client has gone and the pipe broke)
OfferRet(ok) == /\ offerPend /\ offerPend' = FALSE
                /\ IF ok THEN stdinW = 0 ELSE (ret # "none" /\ stdinW' = 0)
                /\ (ok => UNCHANGED stdinW)
                /\ UNCHANGED <<lpc, consumed, stdinClosed, stdoutClosed, sem, enc, wk, failure, ret, drainPend, drained, seenArr, hist>>
Arrive(i) == /\ wk[i] = "atserver" /\ i \notin seenArr /\ seenArr' = seenArr \cup {i}
             /\ UNCHANGED <<lpc, consumed, stdinW, stdinClosed, stdoutClosed, sem, enc, wk, failure, ret, offerPend, drainPend, drained, hist>>
Answer(i) == /\ wk[i] = "atserver" /\ i \in seenArr
             /\ wk' = [wk EXCEPT ![i] = "responded"] /\ H(<<"A", i>>)
             /\ UNCHANGED <<lpc, consumed, stdinW, stdinClosed, stdoutClosed, sem, enc, failure, ret, offerPend, drainPend, drained, seenArr>>
DrainCall == /\ ~drainPend /\ ~stdoutClosed /\ drainPend' = TRUE /\ drained' = 0 /\ H(<<"D">>)
             /\ UNCHANGED <<lpc, consumed, stdinW, stdinClosed, stdoutClosed, sem, enc, wk, failure, ret, offerPend, seenArr>>
\* the read returned response i (i = 0: end of stream, the client has finished)
DrainRet(i) == /\ drainPend /\ drainPend' = FALSE
               /\ IF i = 0 THEN ret # "none" /\ drained = 0 ELSE drained = i
               /\ UNCHANGED <<lpc, consumed, stdinW, stdinClosed, stdoutClosed, sem, enc, wk, failure, ret, offerPend, drained, seenArr, hist>>
CloseStdin == /\ ~stdinClosed /\ ~offerPend /\ stdinClosed' = TRUE /\ H(<<"CI">>)
              /\ UNCHANGED <<lpc, consumed, stdinW, stdoutClosed, sem, enc, wk, failure, ret, offerPend, drainPend, drained, seenArr>>
CloseStdout == /\ ~stdoutClosed /\ ~drainPend /\ stdoutClosed' = TRUE /\ H(<<"CO">>)
               /\ UNCHANGED <<lpc, consumed, stdinW, stdinClosed, sem, enc, wk, failure, ret, offerPend, drainPend, drained, seenArr>>
RunRet(r) == /\ ret = r /\ r # "none"
             /\ UNCHANGED vars

(* ------------------------------ the client (silent) ------------------------------ *)
ReadReq == /\ lpc = "read" /\ stdinW # 0
           /\ consumed' = stdinW /\ stdinW' = 0 /\ lpc' = "acquire"
           /\ UNCHANGED <<stdinClosed, stdoutClosed, sem, enc, wk, failure, ret, offerPend, drainPend, drained, seenArr, hist>>
ReadEOF == /\ lpc = "read" /\ stdinW = 0 /\ stdinClosed
           /\ lpc' = "waitok"
           /\ UNCHANGED <<consumed, stdinW, stdinClosed, stdoutClosed, sem, enc, wk, failure, ret, offerPend, drainPend, drained, seenArr, hist>>
Acquire == /\ lpc = "acquire" /\ sem < P
           /\ sem' = sem + 1 /\ lpc' = "check"
           /\ UNCHANGED <<consumed, stdinW, stdinClosed, stdoutClosed, enc, wk, failure, ret, offerPend, drainPend, drained, seenArr, hist>>
Check == /\ lpc = "check"
         /\ IF failure THEN lpc' = "waiterr" /\ UNCHANGED wk      \* (the acquired slot is not given back; the client is ending)
                       ELSE lpc' = "read" /\ wk' = [wk EXCEPT ![consumed] = "invoking"]
         /\ UNCHANGED <<consumed, stdinW, stdinClosed, stdoutClosed, sem, enc, failure, ret, offerPend, drainPend, drained, seenArr, hist>>
Busy(i) == wk[i] \in {"invoking", "atserver", "responded", "locked", "writing", "wrote", "wfail"}
WaitAll == /\ lpc \in {"waitok", "waiterr"} /\ \A i \in Reqs : ~Busy(i)
           /\ ret' = (IF lpc = "waiterr" \/ failure THEN "err" ELSE "ok") /\ lpc' = "done"
           /\ UNCHANGED <<consumed, stdinW, stdinClosed, stdoutClosed, sem, enc, wk, failure, offerPend, drainPend, drained, seenArr, hist>>

Invoke(i) == /\ wk[i] = "invoking" /\ wk' = [wk EXCEPT ![i] = "atserver"]
             /\ UNCHANGED <<lpc, consumed, stdinW, stdinClosed, stdoutClosed, sem, enc, failure, ret, offerPend, drainPend, drained, seenArr, hist>>
LockEnc(i) == /\ wk[i] = "responded" /\ enc = 0 /\ enc' = i /\ wk' = [wk EXCEPT ![i] = "writing"]
              /\ UNCHANGED <<lpc, consumed, stdinW, stdinClosed, stdoutClosed, sem, failure, ret, offerPend, drainPend, drained, seenArr, hist>>
\* the runner's pending read takes the whole response
WriteTaken(i) == /\ wk[i] = "writing" /\ drainPend /\ drained = 0 /\ ~stdoutClosed
                 /\ drained' = i /\ wk' = [wk EXCEPT ![i] = "wrote"]
                 /\ UNCHANGED <<lpc, consumed, stdinW, stdinClosed, stdoutClosed, sem, enc, failure, ret, offerPend, drainPend, seenArr, hist>>
WriteFails(i) == /\ wk[i] = "writing" /\ stdoutClosed
                 /\ failure' = TRUE /\ wk' = [wk EXCEPT ![i] = "wfail"]
                 /\ UNCHANGED <<lpc, consumed, stdinW, stdinClosed, stdoutClosed, sem, enc, ret, offerPend, drainPend, drained, seenArr, hist>>
Unlock(i) == /\ wk[i] \in {"wrote", "wfail"} /\ enc = i
             /\ enc' = 0 /\ sem' = sem - 1 /\ wk' = [wk EXCEPT ![i] = IF wk[i] = "wrote" THEN "done" ELSE "failed"]
             /\ UNCHANGED <<lpc, consumed, stdinW, stdinClosed, stdoutClosed, failure, ret, offerPend, drainPend, drained, seenArr, hist>>

Internal == ReadReq \/ ReadEOF \/ Acquire \/ Check \/ WaitAll
            \/ \E i \in Reqs : Invoke(i) \/ LockEnc(i) \/ WriteTaken(i) \/ WriteFails(i) \/ Unlock(i)
Observable == OfferCall \/ (\E ok \in BOOLEAN : OfferRet(ok)) \/ DrainCall \/ (\E i \in 0..N : DrainRet(i))
              \/ CloseStdin \/ CloseStdout \/ (\E i \in Reqs : Arrive(i) \/ Answer(i))
Finished == ret # "none" /\ ~offerPend /\ ~drainPend /\ UNCHANGED vars
Next == Internal \/ Observable \/ Finished

\* fairness: the client's own steps, and an environment that keeps answering, draining and finally
\* closes stdin (the runner does)
Fair == /\ WF_vars(ReadReq) /\ WF_vars(ReadEOF) /\ WF_vars(Acquire) /\ WF_vars(Check) /\ WF_vars(WaitAll)
        /\ \A i \in Reqs : WF_vars(Invoke(i)) /\ WF_vars(LockEnc(i)) /\ WF_vars(WriteTaken(i)) /\ WF_vars(WriteFails(i))
                           /\ WF_vars(Unlock(i)) /\ WF_vars(Arrive(i)) /\ WF_vars(Answer(i))
        /\ WF_vars(DrainCall) /\ (\A i \in 0..N : WF_vars(DrainRet(i))) /\ WF_vars(CloseStdin)
        /\ (\A ok \in BOOLEAN : WF_vars(OfferRet(ok)))
Spec == Init /\ [][Next]_vars /\ Fair

(* ------------------------------ properties ------------------------------ *)
InFlight == Cardinality({i \in Reqs : Busy(i)}) <= sem /\ sem <= P
\* the loop never reads more than one request beyond what it may run
ReadAhead == consumed <= Cardinality({i \in Reqs : wk[i] \in {"done", "failed"}}) + P + 1
EncMutex == Cardinality({i \in Reqs : wk[i] \in {"writing", "wrote", "wfail"}}) <= 1
            /\ (enc # 0 <=> \E i \in Reqs : wk[i] \in {"writing", "wrote", "wfail"})
\* a clean return means every request that was read has been answered on stdout
ExactlyOnce == (ret = "ok") => \A i \in 1..consumed : wk[i] = "done"
\* once a write failed, nothing new is started after the loop's next check
NoSpawnAfterFailureSeen == [][(failure /\ lpc = "check") => (\A i \in Reqs : wk[i] = "none" => wk'[i] = "none")]_vars
FailureIsReported == (ret = "ok") => ~failure
Terminates == <>(ret # "none")
=============================================================================
