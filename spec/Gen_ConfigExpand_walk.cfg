\* random walks (-simulate) over the whole domain: any subsets, any flags, up to 4 includes and 4 excludes of any shape
CONSTANTS
  NZ = 6
  AxisVs = {}
  AxisPs = {}
  AxisCs = {}
  AxisZs = {}
  AxisSs = {}
  TriH2c = {}
  TriTls = {}
  TriCerts = {}
  TriTrailers = {}
  TriHdh1 = {}
  TriGet = {}
  TriLim = {}
  EntryPool = {}
  MaxInc = 4
  MaxExc = 4
INIT WalkInit
NEXT WalkNext
INVARIANTS Emit
