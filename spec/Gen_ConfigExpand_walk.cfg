\* random walks (-simulate): up to 4 includes and 4 excludes from the 1008-entry pool
CONSTANTS
  NZ = 6
  AxisVs <- EntVs
  AxisPs <- EntPs
  AxisCs = {{}, {1, 3}}
  AxisZs = {{}, {2, 4}}
  AxisSs <- EntSs
  TriH2c = {"unset", "false"}
  TriTls = {"unset", "false"}
  TriCerts = {"unset", "true"}
  TriTrailers = {"unset", "false"}
  TriHdh1 = {"unset", "true"}
  TriGet = {"unset", "false"}
  TriLim = {"unset", "false"}
  EntryPool <- EntryGenPool
  MaxInc = 4
  MaxExc = 4
INIT GenInit
NEXT GenNext
INVARIANTS Emit
