---------------------------- MODULE SidebandTrace ----------------------------
(* code -> spec binding for the printer part of Sideband.tla: each line holds the messages that W goroutines printed
   through the real internal.NewPrinter and the Write calls the underlying writer saw (in order, as tokens).
   Accepted iff the Write calls are explained, one by one, by the printer machine's WritePfx / WriteMsg / WriteNL
   actions (Begin, Lock and Unlock are silent), with Mutex and NoInterleave holding all along. *)
EXTENDS SidebandMC, Json, IOUtils
Recs == ndJsonDeserialize(IOEnv.VERIF_TRACE)
VARIABLES ti, l
Script == Recs[ti].sent
Obs == Recs[ti].writes
TInit == Init /\ ti \in 1..Len(Recs) /\ l = 1
BeginT(w) == Len(sent[w]) < Len(Script[w]) /\ Begin(w, Script[w][Len(sent[w]) + 1])
TNext == \/ (\E w \in Writers : BeginT(w) \/ Lock(w) \/ Unlock(w)) /\ UNCHANGED <<ti, l>>
         \/ /\ l <= Len(Obs)
            /\ \E w \in Writers : WritePfx(w) \/ WriteMsg(w) \/ WriteNL(w)
            /\ SubSeq(written', Len(written) + 1, Len(written')) = Obs[l]
            /\ l' = l + 1 /\ ti' = ti
AllPrinted == \A w \in Writers : pc[w] = "idle" /\ Len(sent[w]) = Len(Script[w])
Accepted == (l = Len(Obs) + 1 /\ AllPrinted) => PrintT("ACCEPT " \o ToString(ti))
=============================================================================
