\* design check (thorough): up to three suite files in any order
CONSTANTS
  RunModes = {0, 1, 2}
  CaseSets = {2}
  MaxSuites = 3
  SNames = {1, 3}
  SModes = {0, 1}
  RelPs = {2}
  RelVs = {2}
  RelCs = {2}
  RelZs = {2}
  Flags = {0}
  Cvms = {0}
  TestIdx = {1, 18}
  TestLens = {1}
  SNames2 = {1, 2, 6}
  SModes2 = {0, 2}
  RelPs2 = {1}
  RelVs2 = {2}
  RelCs2 = {2}
  RelZs2 = {2}
  Flags2 = {0}
  Cvms2 = {0}
  TestIdx2 = {18}
  TestLens2 = {0, 1}
INIT Init
NEXT Next
VIEW View
INVARIANTS TypeOK Correct UniqueNames Sound Partition ModeSplit NameSpells CleanIsJoin GrpcSound Progress
