CONSTANTS
  NR = 3
  Kinds = {"tracked", "hijacked", "abrupt"}
  Binds = {"free", "fixed", "taken"}
  CfgKinds = {"good", "bad", "unsup", "trunc"}
  AnnounceFirst = FALSE
  KeepHist = FALSE
INIT TInit
NEXT TNext
INVARIANTS TypeOK OneResponse NoResponseWithoutConfig SilentOnlyOnFailure ReturnedMeansStopped GracefulReturn ResultTruthful Accepted Progress
