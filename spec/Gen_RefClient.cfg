CONSTANTS
  P = 2
  N = 4
  KeepHist = TRUE
INIT Init
NEXT GNext
INVARIANTS InFlight EncMutex Emit
