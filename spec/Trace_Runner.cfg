CONSTANTS
  Plan <- TracePlan
  MaxServers <- TraceMax
INIT TInit
NEXT TNext
INVARIANTS AliveBound AtMostOnce DistinctAddrs NoneLeftRunning SkippedUntouched OnlyAfterLoss Accepted
