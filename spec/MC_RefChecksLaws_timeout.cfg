CONSTANTS
  MaxLen = 4
  MaxDigits = 12
INIT TInit
NEXT TNext
INVARIANTS TimeoutLaws DurationMonotone DecNatSane
