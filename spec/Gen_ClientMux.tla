---------------------------- MODULE Gen_ClientMux ----------------------------
(* Generator of controller schedules for C10: random (or, for tiny instances, all) behaviours of
   the full ClientMux specification; the schedule is the projection to the steps the harness
   decides (sender starts, client reads/writes/exit).  The harness executes it against the real
   runClient and the recorded execution is then validated by Trace_ClientMux. *)
EXTENDS ClientMux, Json
ScriptA == [s \in Senders |-> IF s = "s1" THEN <<"a", "b">> ELSE <<"a">>]
ScriptB == [s \in Senders |-> IF s = "s1" THEN <<"a", "b", "a">> ELSE <<"c", "a">>]
GNext == Internal \/ Observable
AtEnd == SendersDone /\ wpc = "ret" /\ cpc = "exited" /\ pdone
Emit == AtEnd => PrintT("SCN " \o ToJson([hist |-> hist]))
=============================================================================
