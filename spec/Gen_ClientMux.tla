---------------------------- MODULE Gen_ClientMux ----------------------------
(* Generator of controller schedules for C10: random (or, for tiny instances, all) behaviours of
   the full ClientMux specification; the schedule is the projection to the steps the harness
   decides (sender starts, client reads/writes/exit).  The harness executes it against the real
   runClient and the recorded execution is then validated by Trace_ClientMux. *)
EXTENDS ClientMux, Json
ScriptA == [s \in Senders |-> IF s = "s1" THEN <<"a", "b">> ELSE <<"a">>]
ScriptB == [s \in Senders |-> IF s = "s1" THEN <<"a", "b", "a">> ELSE <<"c", "a">>]
GNext == Internal \/ Observable
\* a conformant client: answers only requests it has received and that are still waiting for their answer, and
\* leaves when its stdin ends - long fault-free runs, in which a name is sent again after it was answered
PoliteNext == \/ Internal
              \/ \E s \in Senders : SendCall(s) \/ SendRet(s)
              \/ ReadCall \/ ReadRet
              \/ (\E n \in inbox \cap pending : WriteCall("resp", n)) \/ WriteRet
              \/ (closedSend /\ wif = NoW /\ Exit(FALSE))
              \/ CbStep \/ CloseCall \/ CloseRet \/ WaitCall \/ WaitRet
\* a conformant client that, at some point, goes quiet for good (answers nothing more, reads nothing more, stays)
StallNext == \/ PoliteNext
             \/ StallCall \/ WaitAbortRet
             \/ (cpc = "mustexit" /\ Exit(FALSE))
AtEnd == SendersDone /\ wpc = "ret" /\ cpc = "exited" /\ pdone
Emit == AtEnd => PrintT("SCN " \o ToJson([hist |-> hist]))
=============================================================================
