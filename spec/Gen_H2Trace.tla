---------------------------- MODULE Gen_H2Trace ----------------------------
(* Behaviour generator for C15: every behaviour of H2Trace that reaches the end of the connection
   prints the scenario - which side the tracer is on, the frames put on the wire per direction,
   the Read/Write calls (direction, size in chunking units; timer and end events in between) -
   together with the set of traces the DECLARATIVE definition requires for the events handled.
   Exhaustive for small bounds, -simulate for long multi-stream exchanges.  The design theorem
   (Agrees etc.) is checked along every generated behaviour as well. *)
EXTENDS H2Trace, Json

SetToSeq(S) == LET RECURSIVE F(_) 
                   F(T) == IF T = {} THEN <<>> ELSE LET x == CHOOSE y \in T : TRUE IN <<x>> \o F(T \ {x})
               IN F(S)

Emit == ended =>
          PrintT("SCN " \o ToJson([side |-> side, req |-> wire["req"], resp |-> wire["resp"], calls |-> calls,
                                   nh |-> Len(m.hist),
                                   exp |-> SetToSeq(Traces(m.hist, side))]))
=============================================================================
