CONSTANTS
  Lits = {"a", "b"}
  MaxPat = 2
  MaxName = 3
  MaxSet = 2
  MaxVisit = 2
SPECIFICATION Spec
INVARIANTS TypeOK CaseAgrees CreditSound DoneAgrees FirstHitIsMatch NoStuck
PROPERTIES Termination CreditMonotone
