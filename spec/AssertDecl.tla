----------------------------- MODULE AssertDecl -----------------------------
(* C03 - declarative meaning of "the reported result conforms to the expected one".

   Constant-level only; shared by the design machine (Assert), the behaviour generator
   (Gen_Assert) and the acceptor of recorded executions (Trace_Assert).

   Abstract values (every record has a fixed field set so that values read back from JSON
   compare with `=`):

     Part    [l, a, r]        one comma-separated piece of a header value: l leading blanks,
                              the text a (no commas, no blank at either end; may be ""), r
                              trailing blanks.  Normal form: a = "" => r = 0 (an all-blank
                              piece counts its blanks in l).
     Value   Seq(Part)        one string of Header.value, cut at its commas (never empty)
     Hdr     [n, c, v]        n: the name in lower case, c: spelling variant of the name
                              (0 lower, 1 Title-Case, 2 UPPER), v: Seq(Value)
     Info    [h, t, q, rq]    request info: echoed headers, timeout in ms (Unset = -1), query
                              parameters (connect_get_info), echoed request ids
     Payload [d, i]           data id, Info
     Detail  [k, id, i]       k = "msg": an opaque detail message id; k = "info": a RequestInfo
     Err     [on, code, ms, m, det]   on: present; ms: message present; det: Seq(Detail)
     Result  [e, p, h, tr, s, u]      error, payloads, response headers, trailers, HTTP status
                                      (Unset = -1), unsent-request count
     Case    [st, oc]         stream type, other allowed error codes (sequence)

   Disc(x, a, tc) is the set of discrepancies (tags) between the expected result x and the
   reported result a; Conforms == Disc = {}.  A tag names the discrepancy the way the property
   statement requires the failure text to name it: class, which list, position, name.      *)
EXTENDS Integers, Sequences, FiniteSets, TLC

Unset == -1
Grace == 500                       \* timeoutCheckGracePeriodMillis, from the property statement

Min(a, b) == IF a < b THEN a ELSE b
Max(a, b) == IF a > b THEN a ELSE b
Range(s)  == {s[i] : i \in DOMAIN s}

RECURSIVE Flatten(_)
Flatten(ss) == IF ss = <<>> THEN <<>> ELSE Head(ss) \o Flatten(Tail(ss))

Tag(c, w, p, n) == [c |-> c, w |-> w, p |-> p, n |-> n]
Cnt(e, a)       == ToString(e) \o "/" \o ToString(a)

(* ------------------------------ header values ------------------------------
   "values joined or split on commas": the meaning of a header is the sequence of its
   comma-separated pieces over all of its values, where ONE blank next to a comma (the blank a
   library inserts when it folds values into one line) does not count.  Blanks at the outer ends
   of a value are significant and so is any blank beyond the first next to a comma.           *)
TrimLead(p)  == IF p.l > 0 THEN [p EXCEPT !.l = @ - 1] ELSE p
TrimTrail(p) == IF p.a = "" THEN (IF p.l > 0 THEN [p EXCEPT !.l = @ - 1] ELSE p)
                ELSE IF p.r > 0 THEN [p EXCEPT !.r = @ - 1] ELSE p

CanonValue(v) == [k \in 1..Len(v) |->
                    LET p1 == IF k > 1 THEN TrimLead(v[k]) ELSE v[k]
                    IN  IF k < Len(v) THEN TrimTrail(p1) ELSE p1]
Canon(vals)   == Flatten([i \in 1..Len(vals) |-> CanonValue(vals[i])])

PartOK(p)  == p.l >= 0 /\ p.r >= 0 /\ (p.a = "" => p.r = 0)
ValueOK(v) == Len(v) >= 1 /\ \A k \in DOMAIN v : PartOK(v[k])

(* ------------------------------ header lists ------------------------------
   Names are compared without regard to case (field n; the spelling variant c is ignored).
   A key that repeats is ONE Header entry with several values (service.proto, message Header);
   should a name nevertheless occur in several entries the values combine in order.          *)
Find(list, n)   == {i \in DOMAIN list : list[i].n = n}
Names(list)     == {list[i].n : i \in DOMAIN list}
UniqueNames(list) == \A i, j \in DOMAIN list : list[i].n = list[j].n => i = j
ValsOf(list, n) == LET Is(h) == h.n = n
                       sel == SelectSeq(list, Is)
                   IN  Flatten([i \in 1..Len(sel) |-> sel[i].v])

\* every expected name present with the same canonical values; extra names are allowed
HdrDisc(w, e, a) ==
     {Tag("missing", w, 0, n) : n \in {n \in Names(e) : Find(a, n) = {}}}
  \cup {Tag("values", w, 0, n) : n \in {n \in Names(e) : /\ Find(a, n) # {}
                                                         /\ Canon(ValsOf(e, n)) # Canon(ValsOf(a, n))}}

\* headers and trailers as one bag: a name's values are its header values then its trailer values
MergeHdrs(h, t) ==
  LET ns  == Names(h) \cup Names(t)
      RECURSIVE Build(_)
      Build(S) == IF S = {} THEN <<>>
                  ELSE LET n == CHOOSE x \in S : TRUE
                       IN  <<[n |-> n, c |-> 0, v |-> ValsOf(h, n) \o ValsOf(t, n)]>> \o Build(S \ {n})
  IN  Build(ns)

(* ------------------------------ request info ------------------------------ *)
\* echoed timeout inside the grace window [max(0, t - Grace), t]
TimeoutOK(et, at) == at # Unset /\ at <= et /\ at >= Max(0, et - Grace)
TimeoutDisc(et, at) ==
  IF et # Unset
    THEN IF at = Unset THEN {Tag("timeout.missing", "", 0, "")}
         ELSE IF TimeoutOK(et, at) THEN {} ELSE {Tag("timeout.mismatch", "", 0, "")}
    ELSE IF at # Unset THEN {Tag("timeout.unexpected", "", 0, "")} ELSE {}

(* Documented leniency that is not in the statement's list (service.proto, connect_get_info:
   "If a server implementation is unable to populate this ... it may be an empty message"):
   expected query parameters are not enforced when the reported result has none at all.
   A partially missing or altered parameter remains a discrepancy.                           *)
AsImplemented_QueryInfoEmpty(eq, aq) == eq # <<>> /\ aq = <<>>
Lenient_QueryInfoEmpty(eq, aq)       == AsImplemented_QueryInfoEmpty(eq, aq)     \* the name used in DESIGN.md
QueryDisc(eq, aq) == IF AsImplemented_QueryInfoEmpty(eq, aq) THEN {}
                     ELSE HdrDisc("request query params", eq, aq)

\* echoed requests: same number, same messages in the same order
ReqsDisc(er, ar) ==
     (IF Len(er) # Len(ar) THEN {Tag("requests.count", "", 0, Cnt(Len(er), Len(ar)))} ELSE {})
  \cup {Tag("request", "", k, "") : k \in {k \in 1..Min(Len(er), Len(ar)) : er[k] # ar[k]}}

(* Request headers, timeout and query parameters are echoed in the FIRST response only
   (service.proto / docs/testing_servers.md: "should only set this information in the first
   response sent"), so they are compared there only; echoed requests are compared everywhere. *)
InfoDisc(e, a, first) ==
     (IF first THEN HdrDisc("request headers", e.h, a.h) \cup TimeoutDisc(e.t, a.t) \cup QueryDisc(e.q, a.q)
               ELSE {})
  \cup ReqsDisc(e.rq, a.rq)

(* ------------------------------ error ------------------------------ *)
MsgOf(e) == IF e.ms THEN e.m ELSE ""

\* a RequestInfo detail is compared by the request-info rule, any other detail must be equal
DetailDisc(ed, ad, k) ==
  IF ed.k = "info" /\ ad.k = "info" THEN InfoDisc(ed.i, ad.i, TRUE)
  ELSE IF ed = ad THEN {} ELSE {Tag("err.detail", "", k, "")}

ErrDisc(e, a, oc) ==
  IF ~e.on /\ ~a.on THEN {}
  ELSE IF ~e.on THEN {Tag("err.unexpected", "", 0, "")}
  ELSE IF ~a.on THEN {Tag("err.missing", "", 0, "")}
  ELSE   (IF a.code # e.code /\ a.code \notin Range(oc) THEN {Tag("err.code", "", 0, "")} ELSE {})
    \cup (IF e.ms /\ MsgOf(e) # MsgOf(a) THEN {Tag("err.msg", "", 0, "")} ELSE {})
    \cup (IF Len(e.det) # Len(a.det) THEN {Tag("err.details.count", "", 0, Cnt(Len(e.det), Len(a.det)))} ELSE {})
    \cup UNION {DetailDisc(e.det[k], a.det[k], k) : k \in 1..Min(Len(e.det), Len(a.det))}

(* ------------------------------ payloads ------------------------------ *)
PayloadsDisc(e, a) ==
     (IF Len(e) # Len(a) THEN {Tag("payloads.count", "", 0, Cnt(Len(e), Len(a)))} ELSE {})
  \cup UNION {   (IF e[k].d # a[k].d THEN {Tag("payload.data", "", k, "")} ELSE {})
             \cup InfoDisc(e[k].i, a[k].i, k = 1)
             : k \in 1..Min(Len(e), Len(a))}

(* ------------------------------ response metadata ------------------------------
   Unary and client-stream RPCs that end in an error have zero payloads (docs/testing_clients.md)
   and their client API may expose only one bag of "error metadata": then the result conforms
   with normal attribution, or with everything reported as headers, or everything as trailers. *)
MergedApplies(x, tc) == x.e.on /\ x.p = <<>> /\ tc.st \in {"unary", "client_stream"}

MetaDisc(x, a, tc) ==
  LET normal == HdrDisc("response headers", x.h, a.h) \cup HdrDisc("response trailers", x.tr, a.tr)
      merged == MergeHdrs(x.h, x.tr)
  IN  IF MergedApplies(x, tc)
        THEN IF \/ normal = {}
                \/ HdrDisc("response metadata", merged, a.h) = {}
                \/ HdrDisc("response metadata", merged, a.tr) = {}
               THEN {} ELSE normal
        ELSE normal

\* "absent HTTP status": compared only when both sides carry one
StatusDisc(x, a) == IF x.s # Unset /\ a.s # Unset /\ x.s # a.s THEN {Tag("status", "", 0, "")} ELSE {}

(* ------------------------------ the relation ------------------------------
   The unsent-request count (field u) is not compared.                                        *)
Disc(x, a, tc) == ErrDisc(x.e, a.e, tc.oc) \cup PayloadsDisc(x.p, a.p) \cup MetaDisc(x, a, tc) \cup StatusDisc(x, a)

Conforms(x, a, tc) == Disc(x, a, tc) = {}

(* ------------------------------ well-formedness of the domain ------------------------------ *)
HdrListOK(l) == UniqueNames(l) /\ \A i \in DOMAIN l : \A j \in DOMAIN l[i].v : ValueOK(l[i].v[j])
InfoOK(i)    == HdrListOK(i.h) /\ HdrListOK(i.q) /\ i.t >= Unset
ResultOK(r)  == /\ HdrListOK(r.h) /\ HdrListOK(r.tr)
                /\ \A k \in DOMAIN r.p : InfoOK(r.p[k].i)
                /\ \A k \in DOMAIN r.e.det : InfoOK(r.e.det[k].i)
=============================================================================
