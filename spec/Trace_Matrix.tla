---------------------------- MODULE Trace_Matrix ----------------------------
(* C01 - acceptor of the reference-matrix runs.  Each line is one real run of the runner against
   a reference / gRPC peer binary over (a stated part of) the shipped matrix: per selected case
   its realised fate and marking, whether exactly the selected names have outcomes, and the
   verdict.  Accepted iff the run was successful in the sense of VerdictDecl - every unmarked case
   passed, every known-failing case ran and failed (so the shipped lists are exact), nothing was
   a setup error - and the outcome map covers exactly the selected permutations. *)
EXTENDS VerdictDecl, Json, TLC, IOUtils
Rec == ndJsonDeserialize(IOEnv.VERIF_TRACE)
VARIABLE l
TraceInit == l = 1
Accept(r) == /\ r.ok
             /\ r.namesExact
             /\ Len(r.cases) = r.selected /\ r.selected > 0
             /\ Success(r.cases)
             /\ Count(r.cases, "couldNotRun") = 0
TraceNext == /\ l <= Len(Rec) /\ l' = l + 1
             /\ (Accept(Rec[l]) \/ PrintT("REJECT " \o ToString(l)))
Consumed == (l = Len(Rec) + 1) => PrintT("CONSUMED " \o ToString(Len(Rec)))
=============================================================================
