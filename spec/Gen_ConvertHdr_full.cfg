CONSTANTS
  Ops = {"h2md", "out", "md2h", "addh", "addt", "map2h"}
  Bases = {"a"}
  Styles = {"l", "u", "m"}
  MaxEntries = 2
  MinVals = 0
  MaxVals = 2
  Rich = TRUE
INIT Init
NEXT Next
INVARIANTS Agrees Emit
