CONSTANTS
  Ops = {"h2md", "out", "md2h", "addh", "addt", "map2h"}
  Bases = {"a", "b", "abin"}
  Styles = {"l", "u", "m"}
  MaxEntries = 5
  MinVals = 1
  MaxVals = 3
  Rich = TRUE
INIT Init
NEXT Next
INVARIANTS Agrees Laws Emit
