CONSTANTS
  Family = "resp"
  Level = "t"
INIT Init
NEXT Next
INVARIANT Emit
