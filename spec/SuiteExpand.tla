---------------------------- MODULE SuiteExpand ----------------------------
(* C07 - operational machine of loading and expanding test suites, one action per loop iteration
   of the code, and the design theorems that tie it to the declarative meaning (SuiteExpandDecl).

     ParseFile(i)  one iteration of `for testFilePath, data := range testFileData`   (parseTestSuites)
     BeginSuite(i) one iteration of `for file, suite := range allSuites` up to the nested loops
                   (newTestCaseLibrary + the directive checks of expandSuite)
     ExpandCase    one call of expandCases: the next candidate config case, in the order of the
                   nested loops, that is a member of the config-case set
     EndSuite      the nested loops are exhausted
     Finish        "no test cases apply" check and groupTestCases

   Both outer loops range over Go maps: the order in which files/suites are visited is NOT
   determined.  The machine picks any unvisited one; the theorems hold for every order.

   Theorems (checked by TLC over the lattice selected by the .cfg):
     Correct        at termination: rejected iff the declarative outcome is a rejection, with one of the
                    classes it allows; otherwise the library is exactly DeclPerms            (every order)
     UniqueNames    a library never holds two permutations with one full name
     Partition      the groups are a partition of the library; members share their instance
     ModeSplit      permutations in mode m = those of mode-less suites (+) those of mode-m suites
     NameSpells     within a suite+test, two met cases have one name iff they agree on the open axes,
                    and met cases always agree on the closed ones (so the name determines the case)
     CleanIsJoin    for well-formed names path cleaning is plain joining
     GrpcSound      marked copies: subset of the library, proto/identity|gzip/no TLS/no Connect, own names *)
EXTENDS SuiteExpandPools

VARIABLES suites, cases, mode,      \* the scenario (chosen in Init)
          pc,                       \* "parse" | "lib" | "done"
          todoP,                    \* files not yet parsed
          todoL,                    \* suites not yet visited by newTestCaseLibrary
          index,                    \* suitesIndex: names of visited suites
          cur, pending,             \* suite being expanded (0 = none), its remaining met candidate cases
          lib,                      \* testCases: set of permutations (keyed by name, see UniqueNames)
          groups,                   \* casesByServer
          err                       \* "none" or the rejection class returned

vars == <<suites, cases, mode, pc, todoP, todoL, index, cur, pending, lib, groups, err>>

Init == /\ \E n \in 1..MaxSuites : \E a \in Lattice(1), rest \in [1..(n - 1) -> Lattice(2)] : suites = <<a>> \o rest
        /\ \E k \in CaseSets : cases = CaseSet(k)
        /\ mode \in RunModes
        /\ pc = "parse" /\ todoP = DOMAIN suites /\ todoL = DOMAIN suites /\ index = {}
        /\ cur = 0 /\ pending = <<>> /\ lib = {} /\ groups = <<>> /\ err = "none"

Fail(class) == /\ err' = class /\ pc' = "done"
               /\ UNCHANGED <<suites, cases, mode, todoP, todoL, index, cur, pending, lib, groups>>

(* ------------------------------- parseTestSuites ------------------------------- *)
\* first failing check of the first failing test case of a file (the checks are sequential)
TestParseErr(s, t) ==
  IF t.raw = "req" /\ s.mode # 2 THEN "rawreq_mode"
  ELSE IF t.raw \in {"resp", "respnoexp"} /\ s.mode # 1 THEN "rawresp_mode"
  ELSE IF t.raw = "respnoexp" THEN "rawresp_noexp"
  ELSE IF t.expand /\ (Len(s.relC) > 1 \/ ~(\E i \in DOMAIN s.relC : s.relC[i] = 1)) THEN "expand_codec"
  ELSE "none"

RECURSIVE FileParseErr(_, _)
FileParseErr(s, ti) ==
  IF ti > Len(s.tests) THEN "none"
  ELSE LET e == TestParseErr(s, s.tests[ti]) IN IF e # "none" THEN e ELSE FileParseErr(s, ti + 1)

ParseFile(i) ==
  /\ pc = "parse" /\ i \in todoP
  /\ LET e == FileParseErr(suites[i], 1) IN
     IF e # "none" THEN Fail(e)
     ELSE /\ todoP' = todoP \ {i}
          /\ pc' = IF todoP' = {} THEN "lib" ELSE "parse"
          /\ UNCHANGED <<suites, cases, mode, todoL, index, cur, pending, lib, groups, err>>

(* ------------------------------- newTestCaseLibrary ------------------------------- *)
\* the candidate config cases of a suite in the order of the nested loops of expandSuite:
\* protocol, HTTP version, TLS (true before false), codec, compression, stream type
CandSeq(s) ==
  LET P  == Cands(s.relP, AllP)
      V  == Cands(s.relV, AllV)
      TL == IF s.tls THEN <<TRUE>> ELSE <<TRUE, FALSE>>
      C  == Cands(s.relC, AllC)
      Z  == Cands(s.relZ, AllZ)
      S  == AllS
      nS == Len(S)  nZ == Len(Z)  nC == Len(C)  nT == Len(TL)  nV == Len(V)  nP == Len(P)
      N  == nP * nV * nT * nC * nZ * nS
  IN [k \in 1..N |->
        LET j  == k - 1
            iS == j % nS                 j1 == j \div nS
            iZ == j1 % nZ                j2 == j1 \div nZ
            iC == j2 % nC                j3 == j2 \div nC
            iT == j3 % nT                j4 == j3 \div nT
            iV == j4 % nV                iP == j4 \div nV
        IN [v |-> V[iV + 1], p |-> P[iP + 1], c |-> C[iC + 1], z |-> Z[iZ + 1], s |-> S[iS + 1],
            tls |-> TL[iT + 1], cert |-> s.cert, get |-> s.get, lim |-> s.lim, cvm |-> s.cvm]]

MetSeq(s) == SelectSeq(CandSeq(s), LAMBDA c : c \in cases)

BeginSuite(i) ==
  /\ pc = "lib" /\ cur = 0 /\ i \in todoL
  /\ LET s == suites[i] IN
     IF IsEmptyName(s.name) THEN Fail("noname")
     ELSE IF s.tests = <<>> THEN Fail("notests")
     ELSE IF NameStr(s.name) \in index THEN Fail("dupsuite")
     ELSE IF ~Admits(s, mode)                                 \* skip it (but remember the name)
       THEN /\ index' = index \cup {NameStr(s.name)} /\ todoL' = todoL \ {i}
            /\ UNCHANGED <<suites, cases, mode, pc, todoP, cur, pending, lib, groups, err>>
     ELSE IF s.cert /\ ~s.tls THEN Fail("cert_without_tls")
     ELSE IF s.get /\ ~OnlyConnect(s.relP) THEN Fail("get_not_connect")
     ELSE IF s.cvm # 0 /\ ~OnlyConnect(s.relP) THEN Fail("cvm_not_connect")
     ELSE /\ index' = index \cup {NameStr(s.name)}
          /\ cur' = i /\ pending' = MetSeq(s)
          /\ UNCHANGED <<suites, cases, mode, pc, todoP, todoL, lib, groups, err>>

\* expandCases(cfgCase, prefix, tests): fold over the tests; acc = [err, add]
RECURSIVE ExpandTests(_, _, _, _, _)
ExpandTests(i, s, c, ti, add) ==
  IF ti > Len(s.tests) THEN [err |-> "none", add |-> add]
  ELSE LET t == s.tests[ti] IN
       IF IsEmptyName(t.name) THEN [err |-> "unnamed", add |-> add]
       ELSE IF t.st = 0 THEN [err |-> "nostream", add |-> add]
       ELSE IF t.st # c.s THEN ExpandTests(i, s, c, ti + 1, add)
       ELSE IF t.svc = "" /\ t.mth # "" THEN [err |-> "method_nosvc", add |-> add]
       ELSE IF t.svc # "" /\ t.mth = "" THEN [err |-> "svc_nomethod", add |-> add]
       ELSE LET q == PermOf(i, s, c, ti) IN
            IF q.name \in {r.name : r \in lib \cup add} THEN [err |-> "dup_fullname", add |-> add]
            ELSE ExpandTests(i, s, c, ti + 1, add \cup {q})

ExpandCase ==
  /\ pc = "lib" /\ cur # 0 /\ pending # <<>>
  /\ LET r == ExpandTests(cur, suites[cur], Head(pending), 1, {}) IN
     IF r.err # "none" THEN Fail(r.err)
     ELSE /\ lib' = lib \cup r.add /\ pending' = Tail(pending)
          /\ UNCHANGED <<suites, cases, mode, pc, todoP, todoL, index, cur, groups, err>>

EndSuite ==
  /\ pc = "lib" /\ cur # 0 /\ pending = <<>>
  /\ cur' = 0 /\ todoL' = todoL \ {cur}
  /\ UNCHANGED <<suites, cases, mode, pc, todoP, index, pending, lib, groups, err>>

Finish ==
  /\ pc = "lib" /\ cur = 0 /\ todoL = {}
  /\ IF lib = {} THEN Fail("nocases")
     ELSE /\ groups' = Groups(lib) /\ pc' = "done"
          /\ UNCHANGED <<suites, cases, mode, todoP, todoL, index, cur, pending, lib, err>>

Next == \/ \E i \in DOMAIN suites : ParseFile(i) \/ BeginSuite(i)
        \/ ExpandCase \/ EndSuite \/ Finish

Spec == Init /\ [][Next]_vars /\ WF_vars(Next)

(* ------------------------------- theorems ------------------------------- *)
TypeOK == /\ pc \in {"parse", "lib", "done"} /\ todoP \subseteq DOMAIN suites /\ todoL \subseteq DOMAIN suites
          /\ cur \in {0} \cup DOMAIN suites /\ (err # "none" => pc = "done")

Decl == Outcome(suites, cases, mode)

Correct == (pc = "done") =>
             IF err # "none" THEN Decl.k # "ok" /\ err \in Decl.errs
                                  /\ (Decl.k = "perr") = (err \in {"rawreq_mode", "rawresp_mode", "rawresp_noexp", "expand_codec"})
             ELSE Decl.k = "ok" /\ lib = Decl.perms

\* holds in every reachable state, not only at the end: a name is never bound twice
UniqueNames == \A q, r \in lib : q.name = r.name => q = r

\* everything in the library so far is a declared permutation (the machine never invents one)
Sound == (pending = <<>>) => lib \subseteq DeclPerms(suites, cases, mode)

Partition == (pc = "done" /\ err = "none") =>
               /\ UNION {groups[k] : k \in DOMAIN groups} = lib
               /\ \A k \in DOMAIN groups : groups[k] # {} /\ \A q \in groups[k] : InstanceOf(q) = k
               /\ \A q \in lib : Cardinality({k \in DOMAIN groups : q \in groups[k]}) = 1

\* laws of the scenario alone are evaluated once per scenario (in its initial state)
AtStart == pc = "parse" /\ todoP = DOMAIN suites

OnlyMode(m) == SelectSeq(suites, LAMBDA s : s.mode = m)
ModeSplit == AtStart =>
  LET strip(P) == {PermTuple(q) : q \in P}
      here  == strip(DeclPerms(suites, cases, mode))
      unsp  == strip(DeclPerms(OnlyMode(0), cases, mode))
      mine  == IF mode = 0 THEN {} ELSE strip(DeclPerms(OnlyMode(mode), cases, mode))
  IN here = unsp \cup mine

\* the name spells out exactly the open axes
NameSpells == AtStart =>
  \A i \in DOMAIN suites :
    LET s == suites[i] IN
    (WellFormed(s.name) /\ \A ti \in DOMAIN s.tests : WellFormed(s.tests[ti].name)) =>
      \A pr1, pr2 \in Pairs(s, cases) :
        pr1[2] = pr2[2] =>
          LET t == s.tests[pr1[2]] c1 == pr1[1] c2 == pr2[1] IN
          /\ (FullName(s, c1, t) = FullName(s, c2, t)) = (OpenProj(s, c1) = OpenProj(s, c2))
          /\ (OpenProj(s, c1) = OpenProj(s, c2)) => c1 = c2

CleanIsJoin == AtStart =>
  \A i \in DOMAIN suites :
    LET s == suites[i] IN
    \A ti \in DOMAIN s.tests :
      (WellFormed(s.name) /\ WellFormed(s.tests[ti].name)) =>
         \A c \in cases : FullName(s, c, s.tests[ti]) = JoinSlash(FullNameSegs(s, c, s.tests[ti]))

GrpcSound ==
  (pc = "done" /\ err = "none" /\ NamesWellFormed(suites)) =>
    \A cg, sg \in BOOLEAN :
      (cg \/ sg) =>
        LET G == GrpcPerms(suites, lib, cg, sg) IN
        /\ \A g \in G : \E q \in lib : /\ q.name = g[2] /\ q.p # 1 /\ q.c = 1 /\ q.z \in {1, 2} /\ ~q.tls
                                       /\ (q.p = 2 => q.v = 2) /\ (cg => q.p = 2)
        /\ Cardinality({g[1] : g \in G}) = Cardinality(G)          \* marked names are unique ...
        /\ Cardinality(G) = Cardinality({q \in lib : GrpcApplies(q, cg, sg)})

\* nothing hangs: until the end something is enabled; and the run ends
Progress   == (pc # "done") => ENABLED Next
Terminates == <>(pc = "done")

\* design checks do not need to distinguish orders that led to the same data
View == <<suites, cases, mode, pc, todoP, todoL, index, cur, pending, lib, groups, err>>
=============================================================================
