CONSTANTS
  MaxLen = 0
  MaxDigits = 0
INIT MInit
NEXT MNext
INVARIANTS MatrixLaws SpellingsDistinct
