-------------------------- MODULE SuiteExpandDecl --------------------------
(* C07 - declarative meaning of "expanding test suites against a set of config cases".
   Constant-level only; shared by the machine (SuiteExpand), the behaviour generator
   (Gen_SuiteExpand) and the acceptor of recorded executions (Trace_SuiteExpand).

   Abstract data (enum numbers = protobuf numbers):
     case  = [v, p, c, z, s : Nat, tls, cert, get, lim : BOOLEAN, cvm : Nat]
     test  = [name : Seq(STRING) (path segments; <<>> = unnamed), st : 0..5, svc, mth : STRING ("" = unset),
              raw : {"none","req","resp","respnoexp"}, expand, pre : BOOLEAN]
     suite = [name : Seq(STRING), mode : 0..2, relP, relV, relC, relZ : Seq(Nat), cvm : 0..2,
              tls, cert, get, lim : BOOLEAN, tests : Seq(test)]
   A run is (suites : Seq(suite) - one per file, cases : SUBSET case, mode : 0..2).

   The statement of C07, clause by clause:
     Admits / CaseOf / st equality ........ "a permutation exists exactly when ..."
     FullName, OpenAxes .................... "spells out exactly the axes the suite leaves open"
     PermOf ................................ "its request carries that case's ... markers, default service/method"
     InstanceOf ............................ "grouped under exactly one server instance"
     GrpcApplies / MarkedName .............. gRPC-peer applicability (anchor: filterGRPCImplTestCases)
     ParseDefects .......................... mode-specific payload restrictions (anchor: parseTestSuites)
     LibDefects ............................ the rejection classes; uniqueness of names is enforced by rejection
   Operators named AsImplemented_* model behaviour on which the statement is silent. *)
EXTENDS Naturals, Sequences, FiniteSets, TLC

Range(f)      == {f[i] : i \in DOMAIN f}
Count(seq, x) == Cardinality({i \in DOMAIN seq : seq[i] = x})

(* ------------------------------- enums ------------------------------- *)
AllV == <<1, 2, 3>>
AllP == <<1, 2, 3>>                \* 1 Connect, 2 gRPC, 3 gRPC-Web
AllC == <<1, 2, 3>>                \* 1 proto, 2 json, 3 text (deprecated but still an enum value)
AllZ == <<1, 2, 3, 4, 5, 6>>
AllS == <<1, 2, 3, 4, 5>>          \* unary, client, server, half-duplex bidi, full-duplex bidi

PNameOf(n) == CASE n = 0 -> "PROTOCOL_UNSPECIFIED" [] n = 1 -> "PROTOCOL_CONNECT" [] n = 2 -> "PROTOCOL_GRPC"
                [] n = 3 -> "PROTOCOL_GRPC_WEB" [] OTHER -> ToString(n)
CNameOf(n) == CASE n = 0 -> "CODEC_UNSPECIFIED" [] n = 1 -> "CODEC_PROTO" [] n = 2 -> "CODEC_JSON"
                [] n = 3 -> "CODEC_TEXT" [] OTHER -> ToString(n)
ZNameOf(n) == CASE n = 0 -> "COMPRESSION_UNSPECIFIED" [] n = 1 -> "COMPRESSION_IDENTITY" [] n = 2 -> "COMPRESSION_GZIP"
                [] n = 3 -> "COMPRESSION_BR" [] n = 4 -> "COMPRESSION_ZSTD" [] n = 5 -> "COMPRESSION_DEFLATE"
                [] n = 6 -> "COMPRESSION_SNAPPY" [] OTHER -> ToString(n)
BoolStr(b) == IF b THEN "true" ELSE "false"

MkCase(t) == [v |-> t[1], p |-> t[2], c |-> t[3], z |-> t[4], s |-> t[5],
              tls |-> t[6], cert |-> t[7], get |-> t[8], lim |-> t[9], cvm |-> t[10]]
CaseTuple(c) == <<c.v, c.p, c.c, c.z, c.s, c.tls, c.cert, c.get, c.lim, c.cvm>>

(* ------------------------------- names ------------------------------- *)
RECURSIVE JoinSlash(_)
JoinSlash(segs) == IF segs = <<>> THEN ""
                   ELSE IF Len(segs) = 1 THEN segs[1]
                   ELSE segs[1] \o "/" \o JoinSlash(Tail(segs))

NameStr(segs)     == JoinSlash(segs)
IsEmptyName(segs) == segs = <<>> \/ segs = <<"">>
\* the documented shape of a name: "/"-separated non-empty elements (docs/authoring_test_cases.md, Naming Conventions)
WellFormed(segs)  == segs # <<>> /\ \A i \in DOMAIN segs : segs[i] \notin {"", ".", ".."}

(* The library joins suite name, axis components and simple name with path.Join, which also
   lexically cleans the result.  For well-formed names this is plain "/"-joining (lemma CleanIsJoin,
   checked by TLC); for names with empty, "." or ".." elements the statement is silent and the
   cleaning is modelled as implemented. *)
RECURSIVE CleanFrom(_, _, _, _)
CleanFrom(L, i, out, rooted) ==
  IF i > Len(L) THEN out
  ELSE LET g == L[i] IN
       IF g = "" \/ g = "." THEN CleanFrom(L, i + 1, out, rooted)
       ELSE IF g = ".."
              THEN IF out # <<>> /\ out[Len(out)] # ".."
                     THEN CleanFrom(L, i + 1, SubSeq(out, 1, Len(out) - 1), rooted)
                     ELSE IF rooted THEN CleanFrom(L, i + 1, out, rooted)
                                    ELSE CleanFrom(L, i + 1, Append(out, ".."), rooted)
              ELSE CleanFrom(L, i + 1, Append(out, g), rooted)

AsImplemented_PathClean(L) ==
  LET rooted == L # <<>> /\ L[1] = ""
      out    == CleanFrom(L, 1, <<>>, rooted)
  IN IF rooted THEN "/" \o JoinSlash(out) ELSE IF out = <<>> THEN "." ELSE JoinSlash(out)

(* ------------------------------- selection ------------------------------- *)
Cands(rel, all) == IF rel = <<>> THEN all ELSE rel      \* "if empty, this suite applies to all"
RelAdmits(rel, all, x) == x \in Range(Cands(rel, all))

Admits(s, m) == s.mode = 0 \/ s.mode = m                \* "if unset, run in both modes"

\* The statement does not mention the connect-version mode; config cases produced by the shipped
\* loader always carry 0.  The library requires equality.
AsImplemented_CvmEquality(s, c) == c.cvm = s.cvm

CaseOf(s, c) ==
  /\ RelAdmits(s.relP, AllP, c.p) /\ RelAdmits(s.relV, AllV, c.v)
  /\ RelAdmits(s.relC, AllC, c.c) /\ RelAdmits(s.relZ, AllZ, c.z)
  /\ c.s \in Range(AllS)
  /\ (s.tls => c.tls)                                   \* a suite relying on TLS meets only TLS cases
  /\ c.cert = s.cert /\ c.get = s.get /\ c.lim = s.lim  \* ... exactly when the suite relies on it
  /\ AsImplemented_CvmEquality(s, c)

\* A relevance list is a list: a value listed twice is met twice and the second permutation is
\* rejected as a duplicate definition (uniqueness of names is enforced by rejection).
AsImplemented_DuplicateRelevanceEntryRejected(s, c) ==
  Count(Cands(s.relP, AllP), c.p) * Count(Cands(s.relV, AllV), c.v)
    * Count(Cands(s.relC, AllC), c.c) * Count(Cands(s.relZ, AllZ), c.z)
Mult(s, c) == AsImplemented_DuplicateRelevanceEntryRejected(s, c)

\* (case, test index) pairs that become permutations of suite s
Pairs(s, cases) == {<<c, ti>> \in cases \X DOMAIN s.tests : CaseOf(s, c) /\ s.tests[ti].st = c.s}
Matches(s, cases) == \E c \in cases : CaseOf(s, c)

(* ------------------------------- naming ------------------------------- *)
OpenV(s) == Len(s.relV) # 1
OpenP(s) == Len(s.relP) # 1
OpenC(s) == Len(s.relC) # 1
OpenZ(s) == Len(s.relZ) # 1
OpenT(s) == ~s.tls
AxisSegs(s, c) ==
     (IF OpenV(s) THEN <<"HTTPVersion:" \o ToString(c.v)>> ELSE <<>>)
  \o (IF OpenP(s) THEN <<"Protocol:" \o PNameOf(c.p)>> ELSE <<>>)
  \o (IF OpenC(s) THEN <<"Codec:" \o CNameOf(c.c)>> ELSE <<>>)
  \o (IF OpenZ(s) THEN <<"Compression:" \o ZNameOf(c.z)>> ELSE <<>>)
  \o (IF OpenT(s) THEN <<"TLS:" \o BoolStr(c.tls)>> ELSE <<>>)

Elem(segs) == IF IsEmptyName(segs) THEN <<>> ELSE segs
FullNameSegs(s, c, t) == Elem(s.name) \o AxisSegs(s, c) \o Elem(t.name)
FullName(s, c, t)     == AsImplemented_PathClean(FullNameSegs(s, c, t))

\* the projection of a case on the axes suite s leaves open (what the name must spell out)
OpenProj(s, c) == <<IF OpenV(s) THEN c.v ELSE 0, IF OpenP(s) THEN c.p ELSE 0, IF OpenC(s) THEN c.c ELSE 0,
                    IF OpenZ(s) THEN c.z ELSE 0, IF OpenT(s) THEN c.tls ELSE FALSE>>

(* ------------------------------- permutations ------------------------------- *)
DefaultService    == "connectrpc.conformance.v1.ConformanceService"
DefaultMethod(st) == CASE st = 1 -> "Unary" [] st = 2 -> "ClientStream" [] st = 3 -> "ServerStream"
                       [] st \in {4, 5} -> "BidiStream" [] OTHER -> ""
ClientReceiveLimit == 1048576

PermOf(si, s, c, ti) ==
  LET t == s.tests[ti] IN
  [name |-> FullName(s, c, t), v |-> c.v, p |-> c.p, c |-> c.c, z |-> c.z, st |-> t.st,
   tls  |-> c.tls,                               \* server certificate marker
   cert |-> c.tls /\ c.cert,                     \* client credentials marker (meaningless without TLS)
   svc  |-> IF t.svc = "" THEN DefaultService ELSE t.svc,
   mth  |-> IF t.mth = "" THEN DefaultMethod(t.st) ELSE t.mth,
   lim  |-> ClientReceiveLimit, raw |-> t.raw, si |-> si, ti |-> ti]

InstanceOf(q) == <<q.p, q.v, q.tls, q.cert>>

AdmittedIdx(suites, mode) == {i \in DOMAIN suites : Admits(suites[i], mode)}

DeclPerms(suites, cases, mode) ==
  UNION {{PermOf(i, suites[i], pr[1], pr[2]) : pr \in Pairs(suites[i], cases)} : i \in AdmittedIdx(suites, mode)}

Groups(P) == [inst \in {InstanceOf(q) : q \in P} |-> {q \in P : InstanceOf(q) = inst}]

(* ------------------------------- gRPC peers ------------------------------- *)
GrpcApplies(q, cg, sg) ==
  /\ q.p # 1 /\ (cg => q.p = 2)                  \* never Connect; the gRPC client speaks gRPC only
  /\ IF q.p = 3 THEN q.v \in {1, 2} ELSE q.v = 2
  /\ q.c = 1 /\ q.z \in {1, 2} /\ ~q.tls
  /\ ~(cg /\ q.raw = "req") /\ ~(sg /\ q.raw \in {"resp", "respnoexp"})

Marker(cg, sg) == IF cg /\ sg THEN "(grpc impls)" ELSE IF cg THEN "(grpc client impl)" ELSE "(grpc server impl)"

\* defined for well-formed names: the marker is a component of its own right before the simple name
MarkedName(s, c, t, cg, sg) == JoinSlash(s.name \o AxisSegs(s, c) \o <<Marker(cg, sg)>> \o t.name)

\* <<marked name, name of the permutation it is a copy of>>
GrpcPerms(suites, P, cg, sg) ==
  {<<MarkedName(suites[q.si], [v |-> q.v, p |-> q.p, c |-> q.c, z |-> q.z, tls |-> q.tls], suites[q.si].tests[q.ti], cg, sg),
     q.name>> : q \in {q \in P : GrpcApplies(q, cg, sg)}}

\* number of entries of allPermutations(cg, sg)
AllPermCount(suites, P, cg, sg) ==
  Cardinality(P) + (IF cg THEN Cardinality(GrpcPerms(suites, P, TRUE, FALSE)) ELSE 0)
                 + (IF sg THEN Cardinality(GrpcPerms(suites, P, FALSE, TRUE)) ELSE 0)
                 + (IF cg /\ sg THEN Cardinality(GrpcPerms(suites, P, TRUE, TRUE)) ELSE 0)

(* ------------------------------- rejections ------------------------------- *)
\* loading a file (parseTestSuites): payload restrictions by mode
TestParseDefects(s, t) ==
     (IF t.raw = "req" /\ s.mode # 2 THEN {"rawreq_mode"} ELSE {})
  \cup (IF t.raw \in {"resp", "respnoexp"} /\ s.mode # 1 THEN {"rawresp_mode"} ELSE {})
  \cup (IF t.raw = "respnoexp" THEN {"rawresp_noexp"} ELSE {})
  \cup (IF t.expand /\ (Len(s.relC) > 1 \/ 1 \notin Range(s.relC)) THEN {"expand_codec"} ELSE {})
ParseDefects(suites) ==
  UNION {UNION {TestParseDefects(suites[i], suites[i].tests[ti]) : ti \in DOMAIN suites[i].tests} : i \in DOMAIN suites}

OnlyConnect(rel) == rel # <<>> /\ \A i \in DOMAIN rel : rel[i] = 1

StaticDefects(suites) ==
     (IF \E i \in DOMAIN suites : IsEmptyName(suites[i].name) THEN {"noname"} ELSE {})
  \cup (IF \E i \in DOMAIN suites : suites[i].tests = <<>> THEN {"notests"} ELSE {})
  \cup (IF \E i, j \in DOMAIN suites : i # j /\ ~IsEmptyName(suites[i].name)
                                       /\ NameStr(suites[i].name) = NameStr(suites[j].name)
          THEN {"dupsuite"} ELSE {})

\* directives that contradict each other; only looked at for suites the run mode admits
AsImplemented_OtherModeSuiteNotValidated(s, mode) == Admits(s, mode)
ConfigDefects(s) ==
     (IF s.cert /\ ~s.tls THEN {"cert_without_tls"} ELSE {})
  \cup (IF s.get /\ ~OnlyConnect(s.relP) THEN {"get_not_connect"} ELSE {})
  \cup (IF s.cvm # 0 /\ ~OnlyConnect(s.relP) THEN {"cvm_not_connect"} ELSE {})

\* malformed test cases; only looked at when some config case meets the suite (and service/method
\* only for tests whose stream type is met)
AsImplemented_TestsCheckedOnlyWhenSuiteMatches(s, cases) == Matches(s, cases)
TestDefects(s, cases) ==
  IF ~AsImplemented_TestsCheckedOnlyWhenSuiteMatches(s, cases) THEN {}
  ELSE (IF \E ti \in DOMAIN s.tests : IsEmptyName(s.tests[ti].name) THEN {"unnamed"} ELSE {})
    \cup (IF \E ti \in DOMAIN s.tests : s.tests[ti].st = 0 THEN {"nostream"} ELSE {})
    \cup (IF \E pr \in Pairs(s, cases) : s.tests[pr[2]].svc = "" /\ s.tests[pr[2]].mth # "" THEN {"method_nosvc"} ELSE {})
    \cup (IF \E pr \in Pairs(s, cases) : s.tests[pr[2]].svc # "" /\ s.tests[pr[2]].mth = "" THEN {"svc_nomethod"} ELSE {})

\* two permutations with one name: a value listed twice, or two (suite, case, test) triples that spell the same
NameTriples(suites, cases, mode) ==
  UNION {{<<i, pr[1], pr[2]>> : pr \in Pairs(suites[i], cases)} : i \in AdmittedIdx(suites, mode)}
TripleName(suites, tr) == FullName(suites[tr[1]], tr[2], suites[tr[1]].tests[tr[3]])
DupDefects(suites, cases, mode) ==
  LET T == NameTriples(suites, cases, mode) IN
  IF \/ \E tr \in T : Mult(suites[tr[1]], tr[2]) > 1
     \/ Cardinality({TripleName(suites, tr) : tr \in T}) < Cardinality(T)
  THEN {"dup_fullname"} ELSE {}

LibDefects(suites, cases, mode) ==
  StaticDefects(suites)
  \cup UNION {ConfigDefects(suites[i]) : i \in {i \in DOMAIN suites : AsImplemented_OtherModeSuiteNotValidated(suites[i], mode)}}
  \cup UNION {TestDefects(suites[i], cases) : i \in AdmittedIdx(suites, mode)}
  \cup DupDefects(suites, cases, mode)

(* ------------------------------- the required outcome ------------------------------- *)
\* k = "perr": loading must be rejected with one of errs;  "lerr": expansion must be rejected with one of errs;
\* "ok": expansion must succeed with exactly perms
Outcome(suites, cases, mode) ==
  LET pd == ParseDefects(suites) IN
  IF pd # {} THEN [k |-> "perr", errs |-> pd, perms |-> {}]
  ELSE LET ld == LibDefects(suites, cases, mode) IN
       IF ld # {} THEN [k |-> "lerr", errs |-> ld, perms |-> {}]
       ELSE LET P == DeclPerms(suites, cases, mode) IN
            IF P = {} THEN [k |-> "lerr", errs |-> {"nocases"}, perms |-> {}]
            ELSE [k |-> "ok", errs |-> {}, perms |-> P]

\* compact, order-free rendering used on both bindings
PermTuple(q) == <<q.name, q.v, q.p, q.c, q.z, q.st, q.tls, q.cert, q.svc, q.mth, q.lim>>
=============================================================================
