---- MODULE MC_ClientMuxOS ----
EXTENDS ClientMuxOS
ScriptA == [s \in Senders |-> IF s = "s1" THEN <<"a", "b">> ELSE <<"a">>]
ScriptB == [s \in Senders |-> IF s = "s1" THEN <<"a", "b", "a">> ELSE <<"c", "a">>]
Script1 == [s \in Senders |-> <<"a", "b">>]
====
