CONSTANTS
  NR = 1
  Kinds = {"tracked", "hijacked"}
  Binds = {"fixed"}
  CfgKinds = {"good", "bad", "unsup", "trunc"}
  AnnounceFirst = FALSE
  KeepHist = FALSE
SPECIFICATION SpecNoCancel
INVARIANTS TypeOK ReturnedMeansStopped
PROPERTIES BrokenLeadsToReturn
