---------------------------- MODULE Trace_Runner ----------------------------
(* code -> spec binding for C05: one real end-to-end run per file.  Line 1 is the header (plan and
   MaxServers), the remaining lines are the sequencer's events in order (Up / Send / Stop reported
   by the wrapped peers) followed by Finish (the outcome map of the run).  Acquire / StartFailed /
   Abandon / Release are silent.  The run is accepted iff the whole file can be consumed. *)
EXTENDS Runner, Json, IOUtils, SequencesExt, Functions

Raw == ndJsonDeserialize(IOEnv.VERIF_TRACE)
TracePlan == [b \in 1..Len(Raw[1].plan) |-> [inst |-> Raw[1].plan[b].inst, cases |-> Range(Raw[1].plan[b].cases)]]
TraceMax  == Raw[1].maxServers
Clean     == Raw[1].clean      \* no fault injected: nothing may be a setup failure

VARIABLES l, pid
Ev == Raw[l]
TInit == Init /\ l = 2 /\ pid = [b \in Batches |-> 0]
TNext ==
  \/ Internal /\ UNCHANGED <<l, pid>>
  \/ /\ l <= Len(Raw) /\ l' = l + 1
     /\ \/ Ev.e = "Started" /\ \E b \in Batches : Plan[b].inst = Ev.inst /\ Started(b) /\ pid' = [pid EXCEPT ![b] = Ev.pid]
        \/ Ev.e = "Gone" /\ \E b \in Batches : pid[b] = Ev.pid /\ Gone(b) /\ UNCHANGED pid
        \/ Ev.e = "Up"   /\ \E b \in Batches : pid[b] = Ev.pid /\ Plan[b].inst = Ev.inst /\ Up(b, Ev.addr) /\ UNCHANGED pid
        \/ Ev.e = "Send" /\ Ev.probe /\ Ev.hdr /\ (\E b \in Batches : Send(b, Ev.name, Ev.addr, Ev.inst)) /\ UNCHANGED pid
        \/ Ev.e = "Stop" /\ UNCHANGED pid
             /\ \E b \in Batches : pid[b] = Ev.pid /\ (IF srv[b] = "up" THEN Stop(b) ELSE (srv[b] = "stopped" /\ UNCHANGED vars))
        \/ Ev.e = "Finish" /\ Finish /\ UNCHANGED pid
             /\ Range(Ev.outcomes) = AllCases                  \* exactly the selected permutations have an outcome
             /\ Range(Ev.setup) = setupFailed                  \* and exactly the never-sent ones are setup failures
             /\ (Clean => setupFailed = {})
Accepted == (l = Len(Raw) + 1) => PrintT("ACCEPT")
HighWater == PrintT("AT " \o ToString(l))
=============================================================================
