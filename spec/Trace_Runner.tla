---------------------------- MODULE Trace_Runner ----------------------------
(* code -> spec binding for C05: one real end-to-end run per file.  Line 1 is the header (plan and
   MaxServers), the remaining lines are the sequencer's events in order (Up / Send / Stop reported
   by the wrapped peers) followed by Finish (the outcome map of the run).  Acquire / StartFailed /
   Abandon / Release are silent.  The run is accepted iff the whole file can be consumed. *)
EXTENDS RunnerCL, Json, IOUtils, SequencesExt, Functions

Raw == ndJsonDeserialize(IOEnv.VERIF_TRACE)
TracePlan == [b \in 1..Len(Raw[1].plan) |-> [inst |-> Raw[1].plan[b].inst, cases |-> Range(Raw[1].plan[b].cases)]]
TraceMax  == Raw[1].maxServers
Clean     == Raw[1].clean      \* no fault injected: nothing may be a setup failure

\* crt[b]: (digest of) the certificate the server of batch b reported when it came up - part of "that server's
\* actual host, port and certificate": a request sent for batch b must carry exactly it
\* Client loss (RunnerCL): ClientDies and Skip are silent, possible only in runs with an injected client fault; a dead
\* client receives nothing and no batch is started for it.
VARIABLES l, pid, crt, hst
Ev == Raw[l]
CliFault == Raw[1].cliFault     \* a client fault was injected
\* hst[b]: the host the server of batch b reported ("" = not reported: the default host, 127.0.0.1)
HostOf(h) == IF h = "" THEN "127.0.0.1" ELSE h
TInit == InitCL /\ l = 2 /\ pid = [b \in Batches |-> 0] /\ crt = [b \in Batches |-> ""] /\ hst = [b \in Batches |-> ""]
Keep == UNCHANGED <<clientDead, skipped>>
TNext ==
  \/ /\ \E b \in Batches : (~clientDead /\ Acquire(b)) \/ StartFailed(b) \/ Abandon(b) \/ Release(b)
     /\ Keep /\ UNCHANGED <<l, pid, crt, hst>>
  \/ CliFault /\ (ClientDies \/ \E b \in Batches : Skip(b)) /\ UNCHANGED <<l, pid, crt, hst>>
  \/ /\ l <= Len(Raw) /\ l' = l + 1 /\ Keep
     /\ \/ Ev.e = "Started" /\ UNCHANGED <<crt, hst>>
             /\ \E b \in Batches : Plan[b].inst = Ev.inst /\ Started(b) /\ pid' = [pid EXCEPT ![b] = Ev.pid]
        \/ Ev.e = "Gone" /\ \E b \in Batches : pid[b] = Ev.pid /\ Gone(b) /\ UNCHANGED <<pid, crt, hst>>
        \/ Ev.e = "Up"   /\ UNCHANGED pid
             /\ \E b \in Batches : pid[b] = Ev.pid /\ Plan[b].inst = Ev.inst /\ Up(b, Ev.addr) /\ crt' = [crt EXCEPT ![b] = Ev.cert]
                                  /\ hst' = [hst EXCEPT ![b] = HostOf(Ev.host)]
        \/ Ev.e = "Send" /\ Ev.probe /\ Ev.hdr /\ ~clientDead /\ UNCHANGED <<pid, crt, hst>>
             /\ \E b \in Batches : Send(b, Ev.name, Ev.addr, Ev.inst) /\ Ev.cert = crt[b] /\ Ev.host = hst[b]
        \* a run with a failing client: the client logs a request when it has read it, the runner moves on as soon as it
        \* notices the failure - so a request that was written before the batch gave up may be logged after the batch was
        \* abandoned (even after its server was told to stop).  Such a late Send turns a "never sent" case into a sent one.
        \/ Ev.e = "Send" /\ CliFault /\ Ev.hdr /\ UNCHANGED <<pid, crt, hst>>
             /\ \E b \in Batches : /\ Ev.name \in Plan[b].cases /\ Ev.name \notin sent /\ Ev.name \in setupFailed
                                   /\ srv[b] \in {"up", "stopped", "released"} /\ addr[b] = Ev.addr
                                   /\ Ev.inst = Plan[b].inst /\ Ev.cert = crt[b] /\ Ev.host = hst[b]
             /\ sent' = sent \cup {Ev.name} /\ setupFailed' = setupFailed \ {Ev.name}
             /\ UNCHANGED <<srv, addr, sem, nextAddr, finished, proc>>
        \/ Ev.e = "Stop" /\ UNCHANGED <<pid, crt, hst>>
             /\ \E b \in Batches : pid[b] = Ev.pid /\ (IF srv[b] = "up" THEN Stop(b) ELSE (srv[b] = "stopped" /\ UNCHANGED vars))
        \/ Ev.e = "Finish" /\ Finish /\ UNCHANGED <<pid, crt, hst>>
             /\ Range(Ev.outcomes) = AllCases \ SkippedCases     \* exactly the permutations of the started batches have an outcome
             \* and exactly the never-sent ones are setup failures (with a failed client, requests it received but never
             \* answered are setup failures as well)
             /\ setupFailed \subseteq Range(Ev.setup)
             /\ Range(Ev.setup) \subseteq (IF clientDead THEN setupFailed \cup sent ELSE setupFailed)
             /\ (Clean => setupFailed = {})
Accepted == (l = Len(Raw) + 1) => PrintT("ACCEPT")
HighWater == PrintT("AT " \o ToString(l))
=============================================================================
