CONSTANTS
  StreamTypes = {"unary", "client_stream", "server_stream", "full_duplex"}
  ErrKinds = {"none", "e1", "ei"}
  PayloadCounts = {0, 2}
  Kits = {"lean", "rich"}
  Profiles = {"A", "B", "E"}
  MaxLen = 2
  MaxDev = 1
  RunChecker = FALSE
INIT Init
NEXT Next
VIEW ViewNoHist
INVARIANTS TypeOK LenientPass DeviationFlagged
