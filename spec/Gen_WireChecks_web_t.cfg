CONSTANTS
  Kind = "web"
  Tier = "t"
SPECIFICATION Spec
INVARIANTS TypeOK Agrees SilentIff EmitSilent Emit
