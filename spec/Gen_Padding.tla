----------------------------- MODULE Gen_Padding -----------------------------
(* Behaviour generator for C19, single directive: every scenario of the real-number grid
   (PaddingGrid) with the outcome the STATEMENT requires (exp = ExpandOne, declarative) and, for
   classification only, the outcome of the loop as written (model = CodeOutcome; equal to the
   machine's outcome on this very grid by MC_Padding_real_code).  One state per scenario.
   VERIF_NSHARD / VERIF_SHARD select a residue class so that a run prints <= ~100k lines. *)
EXTENDS MC_Padding, Json, IOUtils

NShard == atoi(IOEnv.VERIF_NSHARD)
Shard  == atoi(IOEnv.VERIF_SHARD)

Mine(mm, o) == ((mm.base + 7 * mm.n0 + 13 * (o % 1000)) % NShard = Shard) /\ InitWith(mm, o)
GenInit == InGrid(Mine)
GenNext == UNCHANGED vars

Emit == PrintT("SCN " \o ToJson([has |-> m.has, base |-> m.base, n0 |-> m.n0, off |-> off,
                                 exp |-> ExpandOne(m, off), model |-> CodeOutcome(m, off)]))
=============================================================================
