CONSTANTS
  Domain = "nearq"
  NReq = 1
  Coarse = FALSE
  KeepHist = FALSE
  MaxLen = 0
  MaxDigits = 0
INIT Init
NEXT Next
VIEW ViewNoHist
INVARIANTS TypeOK Agrees CountsConsistent RejectedIsSilent HandlerSeesCleanRequest
