CONSTANTS
  Sides = {"client", "server"}
  MaxSid = 3
  MaxFrames = 9
  MinFrames = 6
  Names = {"a"}
  BodyPlans <- PlansFull
  DataCuts = {2, 5, 6, 9}
  Conts = {0}
  MaxOther = 2
  MaxGoAway = 2
  AllowUnnamed = FALSE
  AllowReqTrailers = TRUE
  AllowClientGoAway = FALSE
  AllowTimer = TRUE
  AllowEarlyEnd = TRUE
  MaxCall = 7
  FrameAligned = FALSE
  MaxAhead = 9
  MaxTimeouts = 1
  EndKinds = {"close", "readerr", "writeerr"}
  KeepCalls = TRUE
  Variant = "intended"
INIT Init
NEXT Next
INVARIANTS Agrees Reassembly HpackInSync NeverBroken Transparent Emit
