----------------------------- MODULE EchoCancel -----------------------------
(* G2 (growth item attached to C02) - client cancellation and timeouts as a TIMED machine: the
   documented client program (docs/testing_clients.md, one action per operation of the pseudocode:
   send, receive, close-send, "delay and cancel", the asynchronous cancel timer, the deadline) and the
   handler of the method under test (service.proto: one action per receive / per response with
   its response delay), joined by two FIFO streams, plus a clock.

   Time: `now` advances (Tick) only when no step is possible, to the earliest pending wake-up; a step
   whose wake-up instant has come is an ordinary step, so everything that falls on one instant
   interleaves freely.  A timer of duration 0 (eps) is due at once: it races with every step of its
   instant.  See EchoCancelDecl for the magnitudes.

   The RPC library is a parameter of the behaviour (lib): once the client program ITSELF cancelled,
   a "strict" library fails the next operation (connect-go), a "lenient" one may first hand out what
   has arrived and still queue a send issued at that very instant (grpc-go).

   Design theorem (MC_EchoCancel*.cfg), for every test case of the bounded space, both libraries and
   EVERY interleaving:
     - the call terminates on both sides - the server too, although nobody tells it more than "the
       call is gone"                                                     (Progress, Termination)
     - the client's report is a member of Allowed(T), of AllowedStrict(T) for the strict library -
       the declarative sets computed from the timeline alone               (Sound)
     - nothing is delivered once the instant of the cancellation has passed, the request stream is
       never closed after a cancellation, the clock and the counters only grow
                                                        (NoLateDelivery, NoEosAfterCancel, Monotone)
   The converse (every member of the declarative set is reached) is checked by the check itself from
   the TERM lines this module prints for every terminal state.
   MC_EchoCancel_x_eos.cfg (expected to FAIL) lets a cancelled call still deliver the half-close: an
   upload-then-respond server then answers, and a lenient library hands those answers out - results
   outside Allowed(T).  This is why the proto says "cancel INSTEAD OF closing the send side". *)
EXTENDS EchoCancelCases, TLC, Json

CONSTANT EosAnyway   \* FALSE; TRUE (MC_EchoCancel_x_eos.cfg, expected to FAIL): the client half-closes even after it cancelled

VARIABLES tc, lib, now,
          c2s, s2c,                       \* request stream (with half-close marker), response stream
          cpc, ci, cnp, cres, cwake,      \* client: pc, next request, payloads taken, report, wake-up
          cflag, csync, cat,              \* the call: live / canceled / deadline / closed; cancelled in line; when
          ctimer, dl,                     \* asynchronous cancel timer, deadline (absolute instants)
          spc, sj, swake, sback           \* server: pc, responses sent, wake-up, where to go after sending
vars == <<tc, lib, now, c2s, s2c, cpc, ci, cnp, cres, cwake, cflag, csync, cat, ctimer, dl, spc, sj, swake, sback>>
cvars == <<cpc, ci, cnp, cres, cwake>>
kvars == <<cflag, csync, cat, ctimer, dl>>
svars == <<spc, sj, swake, sback>>

Off == 1000
NoRes == [np |-> 0, code |-> "pending", unsent |-> 0]
ReqItem(i) == [k |-> "req", i |-> i]
Eos        == [k |-> "eos", i |-> 0]
MsgItem(j) == [k |-> "msg", code |-> "none"]
EndItem(c) == [k |-> "end", code |-> c]
RespItem   == [k |-> "resp", code |-> "none"]
EndCode    == IF tc.derr THEN "deferr" ELSE "none"

Init == /\ IsCase(tc) /\ lib \in {"strict", "lenient"} /\ now = 0
        /\ c2s = <<>> /\ s2c = <<>>
        /\ cpc = "start" /\ ci = 1 /\ cnp = 0 /\ cres = NoRes /\ cwake = Off
        /\ cflag = "live" /\ csync = FALSE /\ cat = Off /\ ctimer = Off
        /\ dl = IF tc.to = 0 THEN Off ELSE tc.to
        /\ spc = "recv" /\ sj = 0 /\ swake = Off /\ sback = "recv"

(* ------------------------------ the call ------------------------------ *)
Live == cflag = "live"
\* the client program cancels in line ("cancel the RPC (but do not return)")
CancelNow == /\ cflag' = IF Live THEN "canceled" ELSE cflag
             /\ cat' = IF Live THEN now ELSE cat
             /\ csync' = TRUE
\* the client returns its result: the call is over whatever happened (deferred cancel of the context)
Finish(r) == /\ cres' = r /\ cpc' = "done" /\ cwake' = Off
             /\ cflag' = IF Live THEN "closed" ELSE cflag
             /\ ctimer' = Off /\ dl' = Off
             /\ UNCHANGED <<csync, cat>>
MayTake == ~csync \/ lib = "lenient"
\* a lenient library queues a send issued at the very instant of the client's own cancellation
StillAccepts == lib = "lenient" /\ csync /\ now = cat

\* "arrange for the RPC to be canceled asynchronously after the indicated number of milliseconds"
CancelFire == /\ ctimer # Off /\ now >= ctimer /\ cpc # "done"
              /\ cflag' = IF Live THEN "canceled" ELSE cflag
              /\ cat' = IF Live THEN now ELSE cat
              /\ ctimer' = Off
              /\ UNCHANGED <<tc, lib, now, c2s, s2c, cvars, csync, dl, svars>>
DeadlineFire == /\ dl # Off /\ now >= dl /\ cpc # "done"
                /\ cflag' = IF Live THEN "deadline" ELSE cflag
                /\ cat' = IF Live THEN now ELSE cat
                /\ dl' = Off
                /\ UNCHANGED <<tc, lib, now, c2s, s2c, cvars, csync, ctimer, svars>>

(* ------------------------------ client ------------------------------ *)
\* "invoke the method": unary and server stream send the one request and close; the others enter the send loop
CStart ==
  /\ cpc = "start"
  /\ CASE tc.st = "unary" ->
            /\ c2s' = <<ReqItem(1), Eos>> /\ cpc' = "wait" /\ cwake' = Off
            /\ ctimer' = IF tc.ck = "close" THEN now + tc.ca ELSE Off
       [] tc.st = "server" ->
            /\ c2s' = <<ReqItem(1), Eos>> /\ ctimer' = ctimer
            /\ IF tc.ck = "close" THEN cpc' = "csleep" /\ cwake' = now + tc.ca ELSE cpc' = "drain" /\ cwake' = Off
       [] OTHER ->
            /\ c2s' = c2s /\ ctimer' = ctimer
            /\ IF tc.n = 0 THEN cpc' = "close" /\ cwake' = Off ELSE cpc' = "send" /\ cwake' = now + tc.qd
  /\ UNCHANGED <<tc, lib, now, s2c, ci, cnp, cres, cflag, csync, cat, dl, svars>>

\* "delay for the indicated number of milliseconds; send the request message; if an error occurs:
\*  record the number of unsent requests (including this one)"
CSend ==
  /\ cpc = "send" /\ now >= cwake
  /\ \/ /\ ~Live
        /\ Finish(Result(cnp, cflag, tc.n + 1 - ci)) /\ UNCHANGED <<c2s, ci>>
     \/ /\ Live \/ StillAccepts
        /\ c2s' = Append(c2s, ReqItem(ci))
        /\ IF tc.st = "full" THEN cpc' = "recv1" /\ ci' = ci /\ cwake' = Off
           ELSE /\ ci' = ci + 1
                /\ IF ci + 1 > tc.n THEN cpc' = "close" /\ cwake' = Off ELSE cpc' = "send" /\ cwake' = now + tc.qd
        /\ UNCHANGED <<cres, kvars>>
  /\ UNCHANGED <<tc, lib, now, s2c, cnp, svars>>

NumHit(k) == tc.ck = "num" /\ k = tc.ca
AfterPingPong == IF ci + 1 > tc.n THEN cpc' = "close" /\ cwake' = Off ELSE cpc' = "send" /\ cwake' = now + tc.qd
\* full duplex: "receive a response message; if an error occurs: record the number of unsent requests"
CRecv1 ==
  /\ cpc = "recv1"
  /\ \/ /\ ~Live
        /\ Finish(Result(cnp, cflag, tc.n - ci)) /\ UNCHANGED <<s2c, ci, cnp>>
     \/ /\ s2c # <<>> /\ Head(s2c).k = "msg" /\ MayTake
        /\ s2c' = Tail(s2c) /\ cnp' = cnp + 1 /\ ci' = ci + 1 /\ AfterPingPong
        /\ IF NumHit(cnp + 1) THEN CancelNow ELSE UNCHANGED <<cflag, csync, cat>>
        /\ UNCHANGED <<cres, ctimer, dl>>
  /\ UNCHANGED <<tc, lib, now, c2s, svars>>     \* (n <= m: the stream never ends inside the ping-pong loop)

\* "if we should cancel before close send: cancel.  close send.  if we should cancel after close
\*  send: delay, cancel" - a cancelled call no longer carries the half-close to the server
CClose ==
  /\ cpc = "close"
  /\ IF tc.ck = "before" THEN CancelNow ELSE UNCHANGED <<cflag, csync, cat>>
  /\ c2s' = IF cflag' = "live" \/ EosAnyway THEN Append(c2s, Eos) ELSE c2s
  /\ IF tc.st = "client"
       THEN cpc' = "wait" /\ cwake' = Off /\ ctimer' = IF tc.ck = "close" THEN now + tc.ca ELSE Off
       ELSE /\ ctimer' = ctimer
            /\ IF tc.ck = "close" THEN cpc' = "csleep" /\ cwake' = now + tc.ca ELSE cpc' = "drain" /\ cwake' = Off
  /\ UNCHANGED <<tc, lib, now, s2c, ci, cnp, cres, dl, svars>>

CAfterSleep == /\ cpc = "csleep" /\ now >= cwake
               /\ CancelNow /\ cpc' = "drain" /\ cwake' = Off
               /\ UNCHANGED <<tc, lib, now, c2s, s2c, ci, cnp, cres, ctimer, dl, svars>>

\* "for each (remaining) response message: record it; cancel after the N-th; if an error occurs: abort"
CDrain ==
  /\ cpc = "drain"
  /\ \/ /\ ~Live
        /\ Finish(Result(cnp, cflag, 0)) /\ UNCHANGED <<s2c, cnp>>
     \/ /\ s2c # <<>> /\ Head(s2c).k = "msg" /\ MayTake
        /\ s2c' = Tail(s2c) /\ cnp' = cnp + 1
        /\ IF NumHit(cnp + 1) THEN CancelNow ELSE UNCHANGED <<cflag, csync, cat>>
        /\ UNCHANGED <<cpc, cres, cwake, ctimer, dl>>
     \/ /\ s2c # <<>> /\ Head(s2c).k = "end" /\ MayTake
        /\ s2c' = Tail(s2c)
        /\ Finish(Result(cnp, Head(s2c).code, 0)) /\ UNCHANGED cnp
  /\ UNCHANGED <<tc, lib, now, c2s, ci, svars>>

\* unary, client stream: "receive the response"
CWait ==
  /\ cpc = "wait"
  /\ \/ /\ ~Live
        /\ Finish(Result(0, cflag, 0)) /\ UNCHANGED <<s2c, cnp>>
     \/ /\ s2c # <<>> /\ Head(s2c).k = "resp" /\ MayTake
        /\ s2c' = Tail(s2c) /\ cnp' = 1
        /\ Finish(Result(1, "none", 0))
  /\ UNCHANGED <<tc, lib, now, c2s, ci, svars>>

Client == CStart \/ CSend \/ CRecv1 \/ CClose \/ CAfterSleep \/ CDrain \/ CWait

(* ------------------------------ server ------------------------------ *)
\* "wait the given duration ... before sending the corresponding response"
Sleep(back) == spc' = "sleep" /\ swake' = now + tc.rd /\ sback' = back
SRecv ==
  /\ spc = "recv" /\ c2s # <<>>
  /\ c2s' = Tail(c2s)
  /\ IF Head(c2s).k = "req"
       THEN CASE tc.st = "unary"  -> Sleep("fin") /\ UNCHANGED <<s2c, sj>>
              [] tc.st = "server" -> spc' = "flush" /\ UNCHANGED <<s2c, sj, swake, sback>>
              [] tc.st = "full"   -> IF sj < tc.m THEN Sleep("recv") /\ UNCHANGED <<s2c, sj>>
                                     ELSE s2c' = Append(s2c, EndItem(EndCode)) /\ spc' = "done" /\ UNCHANGED <<sj, swake, sback>>
              [] OTHER            -> UNCHANGED <<s2c, svars>>           \* upload-then-respond: keep reading
       ELSE CASE tc.st = "client" -> Sleep("fin") /\ UNCHANGED <<s2c, sj>>
              [] OTHER            -> spc' = "flush" /\ UNCHANGED <<s2c, sj, swake, sback>>
  /\ UNCHANGED <<tc, lib, now, cvars, kvars>>
\* "loop over any response data specified", then the error / end of stream
SFlush == /\ spc = "flush"
          /\ IF sj < tc.m THEN Sleep("flush") /\ UNCHANGED <<s2c, sj>>
             ELSE s2c' = Append(s2c, EndItem(EndCode)) /\ spc' = "done" /\ UNCHANGED <<sj, swake, sback>>
          /\ UNCHANGED <<tc, lib, now, c2s, cvars, kvars>>
SWake == /\ spc = "sleep" /\ now >= swake
         /\ IF sback = "fin" THEN s2c' = Append(s2c, RespItem) /\ spc' = "done" /\ sj' = sj
            ELSE s2c' = Append(s2c, MsgItem(sj + 1)) /\ sj' = sj + 1 /\ spc' = sback
         /\ swake' = Off /\ sback' = sback
         /\ UNCHANGED <<tc, lib, now, c2s, cvars, kvars>>
\* all the server ever learns: the call is gone (cancelled, timed out, or the client returned)
SAbort == /\ spc # "done" /\ ~Live
          /\ spc' = "done" /\ swake' = Off
          /\ UNCHANGED <<tc, lib, now, c2s, s2c, cvars, kvars, sj, sback>>
Server == SRecv \/ SFlush \/ SWake \/ SAbort

(* ------------------------------ time ------------------------------ *)
Instant == Client \/ Server \/ CancelFire \/ DeadlineFire
Pending == {w \in {cwake, swake, ctimer, dl} : w # Off /\ w > now}
Tick == /\ ~ENABLED Instant /\ Pending # {}
        /\ now' = CHOOSE w \in Pending : \A x \in Pending : w <= x
        /\ UNCHANGED <<tc, lib, c2s, s2c, cvars, kvars, svars>>

Next == Instant \/ Tick
Spec == Init /\ [][Next]_vars /\ WF_vars(Next)

(* ------------------------------ properties ------------------------------ *)
Done == cpc = "done" /\ spc = "done"

TypeOK == /\ cpc \in {"start", "send", "recv1", "close", "csleep", "drain", "wait", "done"}
          /\ spc \in {"recv", "sleep", "flush", "done"}
          /\ cflag \in {"live", "canceled", "deadline", "closed"}
          /\ ci \in 1..(tc.n + 1) /\ cnp \in 0..(MaxResp + 1) /\ sj \in 0..MaxResp
          /\ now \in 0..Far /\ Len(c2s) <= tc.n + 1 /\ Len(s2c) <= MaxResp + 1

Sound == Done => cres \in (IF lib = "strict" THEN AllowedStrict(tc) ELSE Allowed(tc))
\* constant-level facts, evaluated once per test case
DeclOK == (cpc = "start") => /\ WellFormed(tc)
                             /\ AllowedStrict(tc) \subseteq Allowed(tc)
                             /\ AllowedStrict(tc) # {}
                             /\ ExpRes(tc) \in Allowed(tc)
                             /\ AssertAccepts(tc, Exp(tc), ExpRes(tc))
                             /\ Deterministic(tc) <=> Cardinality({NpCode(r) : r \in Allowed(tc)} \ {<<Exp(tc).np, c>> : c \in Exp(tc).other}) = 1
Suites == (cpc = "start") => SuitesOK /\ SuiteDelayMatters
Progress == ~Done => ENABLED Next
Termination == <>Done

\* nothing is handed to the client program once the instant of the cancellation has passed
NoLateDelivery == [][cnp' > cnp => (cflag = "live" \/ now = cat)]_vars
\* "cancel instead of closing the send side": a cancelled call never half-closes
NoEosAfterCancel == [][(Len(c2s') > Len(c2s) /\ c2s'[Len(c2s')].k = "eos") => cflag' = "live"]_vars
Monotone == [][now' >= now /\ cnp' >= cnp /\ ci' >= ci /\ sj' >= sj /\ (cflag # "live" => cflag' = cflag)]_vars
\* the server never emits after the instant at which the call went away
ServerQuiet == [][Len(s2c') > Len(s2c) => (cflag = "live" \/ now = cat \/ cflag = "closed")]_vars

\* every terminal state, for the converse of Sound (collected by checks/g_cancel.py)
EmitTerm == Done => PrintT("TERM " \o ToJson([t |-> tc, lib |-> lib, res |-> cres]))
=============================================================================
