------------------------------ MODULE RefineMux ------------------------------
(* G5 (refinement links) - ClientMux.tla implements the client interface that ServerBatch.tla assumes
   (RefineClientAbs.tla).

   Low level : ClientMux.tla, unchanged (its Init, Next and Fair), plus one *history variable*
                   late[s] = (err \/ closedSend) at the moment sender s's current sendRequest was called
               (a history variable changes nothing of the behaviours; it records what (A3) talks about).
   Mapping (A below):
       cst[s]  <- idle (pc idle, fin) / calling (called, wantlock, locked) / taken (writing) / ret (ret)
       cn[s]   <- the name being sent            rv[s] <- ok / err (res[s], all refusal kinds are "err")
       acc     <- regs        ans <- cbs         (registrations not rolled back / callbacks run)
       closed  <- err \/ closedSend              late <- late
   so that  Register (accept) = Take,  Register (closed / duplicate) and CheckErr (err) = Refuse,
   WriteDone = RetOk,  WriteFail = RetFail (still pending: rolled back, err latched) or RetOk (already
   answered),  SendRet = Return,  Cb = Callback (dispatch and drain alike),  Fail / CloseSendByReader /
   CloseDo = Shut when they change err \/ closedSend;  everything else (locks, pipes, client, reader's
   Read / Lookup, closer, waiter, process) stutters.

   Checked by TLC: SpecR => AbsInit /\ AbsStep (step simulation), A!FairMapped (the abstract fairness, i.e.
   together SpecR => RefineClientAbs!Spec), StepMap (action-by-action correspondence), and the
   interface guarantees as such: A!AtMostOnce, A!RefusedLate, A!Answered (every accepted send is
   answered), A!CallsReturn - under the fairness ClientMux states itself (Fair).                       *)
EXTENDS MC_ClientMux

VARIABLE late
rvars2 == <<vars, late>>

LateNext == late' = [s \in Senders |-> IF pc[s] = "idle" /\ pc'[s] = "called" THEN (err \/ closedSend) ELSE late[s]]
InitR == Init /\ late = [s \in Senders |-> FALSE]
NextR == Next /\ LateNext
SpecR == InitR /\ [][NextR]_rvars2 /\ Fair

CstOf(p) == CASE p \in {"idle", "fin"} -> "idle" [] p \in {"called", "wantlock", "locked"} -> "calling"
              [] p = "writing" -> "taken" [] OTHER -> "ret"
A == INSTANCE RefineClientAbs WITH
       Callers <- Senders,
       cst <- [s \in Senders |-> CstOf(pc[s])],
       cn <- [s \in Senders |-> IF pc[s] \in {"idle", "fin"} THEN "-" ELSE Cur(s)],
       rv <- [s \in Senders |-> IF pc[s] # "ret" THEN "-" ELSE IF res[s] = "ok" THEN "ok" ELSE "err"],
       acc <- regs, ans <- cbs, closed <- (err \/ closedSend)

AbsInit == A!Init
AbsStep == [][A!Next]_A!vars
AbsFair == A!FairMapped
AtMostOnceA == A!AtMostOnce
LateMeansClosedA == A!LateMeansClosed
RefusedLateA == A!RefusedLate
AnsweredA == A!Answered
CallsReturnA == A!CallsReturn

Closes == ~(err \/ closedSend) /\ (err' \/ closedSend')
StepMap ==
  [][ \A s \in Senders :
      /\ SendCall(s) => A!Call(s, Cur(s))
      /\ (CheckErr(s) /\ err) => A!Refuse(s)
      /\ (Register(s) /\ (closedSend \/ Cur(s) \in pending)) => A!Refuse(s)
      /\ (Register(s) /\ ~(closedSend \/ Cur(s) \in pending)) => A!Take(s)
      /\ WriteDone(s) => A!RetOk(s)
      /\ (WriteFail(s) /\ Cur(s) \in pending) => A!RetFail(s)
      /\ (WriteFail(s) /\ Cur(s) \notin pending) => A!RetOk(s)
      /\ SendRet(s) => A!Return(s)
      /\ CbStep => \E n \in Names : A!Callback(n)
      /\ ((Fail \/ CloseSendByReader \/ CloseDo) /\ Closes) => A!Shut
      /\ ((CheckErr(s) /\ ~err) \/ Lock(s) \/ Read \/ Lookup \/ ReaderDone \/ ClientTakes \/ ClosePipes \/ ProcDone
            \/ ((Fail \/ CloseSendByReader \/ CloseDo) /\ ~Closes)) => UNCHANGED A!vars
    ]_rvars2

ViewR == <<ViewNoHist, late>>
=============================================================================
