------------------------------- MODULE RawHTTP -------------------------------
(* C17 - arbitration between the handler's normal response and a prescribed raw response, for ONE
   request served by the reference server (internal/app/referenceserver/raw_response.go).

   rawResponder wraps the handler: it snapshots the headers already on the response writer, gives
   the handler a rawResponseWriter, runs it and then calls finish.  The handler may set headers
   (straight on the underlying header map - not arbitrated), call WriteHeader / Write / Flush (each
   first passes the critical section canSendResponse) and store a raw response (setRawResponse,
   also one critical section).  One action below = one critical section, one call on the
   underlying writer, or one step of finish (header block, one body item, trailers).

     raw, started          the two arbitration variables (guarded by rawResponseWriter.mu)
     hm, tm, decl          underlying header map: plain keys, http.TrailerPrefix keys, "Trailer" values
     com, body             what the underlying writer has put on the wire (header block, body segments)
     fl                    the gated call in flight: decided in canSendResponse, not yet executed
                           (a concurrent setRawResponse can fall between the two)

   Declarative meaning: Expected(hist) - by the order of critical sections alone.
   Theorems (TLC): mutual exclusion; nothing reaches the wire while a raw response is pending; at the
   end the wire equals Expected(hist), i.e. WireResp(last raw definition) with no handler header and
   no handler byte if a raw response was stored before the first gated call, else exactly what the
   same handler calls produce on a bare writer (and every setRawResponse returned false). *)
EXTENDS RawHTTPOps, TLC

CONSTANTS MaxOps,             \* bound on handler-side operations (gated calls, header sets, setRaw)
          KeepHist,           \* TRUE: keep the operation history (generator, machine = declarative)
          DelBeforeTrailers,  \* TRUE: finish clears same-named plain keys before adding trailers
          Codes, Chunks,      \* status codes for WriteHeader, chunk ids for Write
          RawIds,             \* raw definitions the handler may store (keys of RawDef)
          MidRaw              \* TRUE: setRawResponse may fall between canSendResponse and the write

VARIABLES raw, started, hm, tm, decl, com, body, fl, phase, bi, nops, hist
vars == <<raw, started, hm, tm, decl, com, body, fl, phase, bi, nops, hist>>

(* ------------------------------ handler side ------------------------------ *)
Rec(e) == IF KeepHist THEN Append(hist, e) ELSE hist
Ev(o, a, mid, res) == [o |-> o, a |-> a, mid |-> mid, res |-> res]
InHandler == phase = "handler" /\ nops < MaxOps

\* w.Header().Set(...) - goes straight to the underlying map, whatever the arbitration state
SetHdr(n, v) == /\ InHandler /\ fl.o = "none"
                /\ hm' = [hm EXCEPT ![n] = <<v>>]
                /\ nops' = nops + 1 /\ hist' = Rec(Ev("sethdr", n, <<v>>, <<>>))
                /\ UNCHANGED <<raw, started, tm, decl, com, body, fl, phase, bi>>
SetTrl(n, v) == /\ InHandler /\ fl.o = "none"
                /\ tm' = [tm EXCEPT ![n] = <<v>>]
                /\ nops' = nops + 1 /\ hist' = Rec(Ev("settrl", n, <<v>>, <<>>))
                /\ UNCHANGED <<raw, started, hm, decl, com, body, fl, phase, bi>>

\* canSendResponse: one critical section
Begin(o, a) == /\ InHandler /\ fl.o = "none"
               /\ started' = (started \/ raw = NoRaw)
               /\ fl' = [o |-> o, a |-> a, ok |-> (started \/ raw = NoRaw), mid |-> <<>>, res |-> <<>>]
               /\ nops' = nops + 1
               /\ UNCHANGED <<raw, hm, tm, decl, com, body, phase, bi, hist>>

\* the call on the underlying writer (or its suppression)
End == /\ fl.o # "none"
       /\ IF fl.ok
            THEN (CASE fl.o = "wh"    -> (com' = Commit(com, fl.a, hm) /\ body' = body)
                    [] fl.o = "write" -> (com' = Commit(com, 200, hm) /\ body' = Append(body, Chunk(fl.a)))
                    [] fl.o = "flush" -> (com' = Commit(com, 200, hm) /\ body' = body))
            ELSE UNCHANGED <<com, body>>
       /\ hist' = Rec(Ev(fl.o, fl.a, fl.mid, fl.res))
       /\ fl' = NoFl
       /\ UNCHANGED <<raw, started, hm, tm, decl, phase, bi, nops>>

\* setRawResponse: one critical section; returns ~started
SetRaw(d) == /\ phase = "handler" /\ nops < MaxOps
             /\ (fl.o = "none" \/ (MidRaw /\ fl.ok))      \* only an admitted call reaches the underlying writer
             /\ raw' = IF started THEN raw ELSE d
             /\ nops' = nops + 1
             /\ IF fl.o = "none"
                  THEN hist' = Rec(Ev("setraw", d, <<>>, <<~started>>)) /\ fl' = fl
                  ELSE fl' = [fl EXCEPT !.mid = Append(@, d), !.res = Append(@, ~started)] /\ hist' = hist
             /\ UNCHANGED <<started, hm, tm, decl, com, body, phase, bi>>

Return == /\ phase = "handler" /\ fl.o = "none"
          /\ phase' = IF raw = NoRaw THEN "end" ELSE "fin-head"
          /\ UNCHANGED <<raw, started, hm, tm, decl, com, body, fl, bi, nops, hist>>

(* ------------------------------ finish (raw response chosen) ------------------------------ *)
Def == RawDef(raw)
Units == CASE Def.body.k = "none" -> <<>>
           [] Def.body.k = "unary" -> <<EncMsg(Def.body.m)>>
           [] Def.body.k = "stream" -> [i \in 1..Len(Def.body.items) |-> EncItem(Def.body.items[i])]

\* wipe what the handler put into the map, restore the snapshot, add the given headers, declare the
\* trailers, WriteHeader(status)
FinHead == /\ phase = "fin-head"
           /\ hm' = MapOf(Snap \o Def.hdrs)
           /\ tm' = EmptyMap
           /\ decl' = CNames(Def.trls)
           /\ com' = Commit(com, StatusOf(Def), hm')
           /\ phase' = "fin-body" /\ bi' = 1
           /\ UNCHANGED <<raw, started, body, fl, nops, hist>>
\* one loop iteration of WriteRawStreamContents (or the single WriteRawMessageContents)
FinItem == /\ phase = "fin-body" /\ bi <= Len(Units)
           /\ body' = body \o Units[bi]
           /\ bi' = bi + 1
           /\ UNCHANGED <<raw, started, hm, tm, decl, com, fl, phase, nops, hist>>
FinTrailers == /\ phase = "fin-body" /\ bi > Len(Units)
               /\ hm' = IF DelBeforeTrailers THEN [n \in Names |-> IF n \in Range(decl) THEN <<>> ELSE hm[n]] ELSE hm
               /\ tm' = MapOf(Def.trls)
               /\ phase' = "end"
               /\ UNCHANGED <<raw, started, decl, com, body, fl, bi, nops, hist>>

Init == /\ raw = NoRaw /\ started = FALSE
        /\ hm = MapOf(Snap) /\ tm = EmptyMap /\ decl = <<>>
        /\ com = NoCom /\ body = <<>> /\ fl = NoFl
        /\ phase = "handler" /\ bi = 0 /\ nops = 0 /\ hist = <<>>

Next == \/ \E op \in HdrOps : SetHdr(op[1], op[2])
        \/ \E op \in TrlOps : SetTrl(op[1], op[2])
        \/ \E c \in Codes : Begin("wh", c)
        \/ \E c \in Chunks : Begin("write", c)
        \/ Begin("flush", "")
        \/ End
        \/ \E d \in RawIds : SetRaw(d)
        \/ Return \/ FinHead \/ FinItem \/ FinTrailers

Spec == Init /\ [][Next]_vars
FairSpec == Spec /\ WF_vars(End \/ Return \/ FinHead \/ FinItem \/ FinTrailers)

(* ------------------------------ the wire at the end ------------------------------ *)
Wire == LET c == Commit(com, 200, hm) IN
        [status |-> c.st, hdrs |-> c.hdrs, body |-> body, trls |-> TrailersAtEnd(hm, tm, decl)]

(* ------------------------------ theorems ------------------------------ *)
TypeOK == /\ raw \in RawIds \cup {NoRaw} /\ started \in BOOLEAN
          /\ phase \in {"handler", "fin-head", "fin-body", "end"}
          /\ nops \in 0..MaxOps /\ com.set \in BOOLEAN

\* raw response chosen vs. normal response started: never both
Mutex == ~(raw # NoRaw /\ started)

\* while a raw response is pending nothing of the handler reaches the wire
Pending == (raw # NoRaw /\ phase = "handler") => (~com.set /\ body = <<>>)

\* hist-free forms of the end-to-end statement
RawExact   == (phase = "end" /\ raw # NoRaw) => Wire = WireAbs(RawDef(raw))
NoLeak     == (phase = "end" /\ raw # NoRaw) =>
                 /\ \A i \in 1..Len(body) : body[i].k # "chunk"
                 /\ Wire.hdrs["X-Handler"] = <<>> /\ Wire.trls["X-Htrl"] = <<>>
\* the machine equals the declarative meaning of its history (needs KeepHist)
Agrees     == (phase = "end" /\ KeepHist) =>
                 /\ Wire = Expected(hist)
                 /\ (raw # NoRaw) = RawWins(hist)
                 /\ ResIn(hist) = ResOf(Lin(hist), FALSE)

\* action properties: the decision is taken once
StartedStable == [][started => started']_vars
RawStable     == [][(raw # NoRaw) => (raw' # NoRaw)]_vars
RawOnlyBefore == [][(raw' # raw) => ~started]_vars
WireAppendOnly == [][(com.set => com' = com) /\ Len(body') >= Len(body)]_vars

\* finish terminates and the response is complete
Terminates == <>(phase = "end")

Terminal == phase = "end"
ViewNoHist == <<raw, started, hm, tm, decl, com, body, fl, phase, bi, nops>>
=============================================================================
