----------------------------- MODULE ServerBatch -----------------------------
(* C11 - one batch of N cases against one server process.

   The environment is a *fault script* chosen in Init:
     srv    : how far the server gets: "startFail", "writeFail", "closeFail", "truncated", "oversize",
              "garbage", "empty" (stdout ends without a message), "noCert" (answers without certificate
              although the instance uses TLS), "ok"
     tls    : the instance uses TLS
     die    : 0 = never, k = the server process ends right after the client received the k-th request
     notice : "sync"  - the process-done callback runs before that sendRequest returns (deterministic)
              "async" - it runs at any later time (the runner may notice before any later send - or never)
     ans[i] : what the client does with case i once it has it:
              "pass", "mismatch", "cerr" (client-reported error), "empty" (neither result nor error),
              "none"  (never answers: its callback fires with an error when the client is drained)
     cbmode : "sync" callbacks run inside sendRequest, "async" at any later time
     closeAt: 0 = never, k = the k-th sendRequest (and all later ones) is refused by the client

   Runner actions follow runTestCasesForServer: Start, Handshake, one LoopStep per case, WaitAll,
   Finish; Callback/Drain/Notice belong to other goroutines.  Outcome kinds:
     pass | assertFail | clientErr | emptyResp          (the case ran: verdict of its own answer)
     failedToStart | serverDied | noResult | noOutcome   (setup errors)
     couldNotRun                                         (setup error of the could-not-run class)   *)
EXTENDS Naturals, Sequences, FiniteSets, TLC

CONSTANTS N, SrvKinds, DieVals, NoticeModes, AnsKinds, CbModes, CloseVals

VARIABLES script, stage, i, dead, noticed, nsent, sent, cbPending, outcome, aborts, wrote, drained

vars == <<script, stage, i, dead, noticed, nsent, sent, cbPending, outcome, aborts, wrote, drained>>
Cases == 1..N
NoneYet == "-"

Scripts == [srv : SrvKinds, tls : BOOLEAN, die : DieVals, notice : NoticeModes,
            ans : [Cases -> AnsKinds], cbmode : CbModes, closeAt : CloseVals]

\* scripts that make sense: post-handshake faults only when the handshake succeeds; noCert only under TLS
Sensible(s) == /\ (s.srv # "ok") => (s.die = 0 /\ s.closeAt = 0 /\ s.notice = "sync" /\ s.cbmode = "sync"
                                      /\ \A c \in Cases : s.ans[c] = "pass")
               /\ (s.srv = "noCert") => s.tls
               /\ (s.die = 0) => s.notice = "sync"
               /\ (s.closeAt # 0 /\ s.die # 0) => s.die < s.closeAt    \* the death can only follow a received request

Init == /\ script \in {s \in Scripts : Sensible(s)}
        /\ stage = "start" /\ i = 1 /\ dead = FALSE /\ noticed = FALSE /\ nsent = 0 /\ sent = {}
        /\ cbPending = {} /\ outcome = [c \in Cases |-> NoneYet] /\ aborts = 0 /\ wrote = FALSE /\ drained = FALSE

VerdictOf(a) == CASE a = "pass" -> "pass" [] a = "mismatch" -> "assertFail" [] a = "cerr" -> "clientErr"
                  [] a = "empty" -> "emptyResp" [] OTHER -> "noResult"

MarkFrom(k, kind) == [c \in Cases |-> IF c >= k /\ TRUE THEN kind ELSE outcome[c]]
MarkAll(kind) == [c \in Cases |-> kind]

(* ------------------------------ the runner ------------------------------ *)
Start ==
  /\ stage = "start"
  /\ IF script.srv = "startFail"
       THEN /\ outcome' = MarkAll("failedToStart") /\ stage' = "returned" /\ UNCHANGED aborts
       ELSE /\ stage' = "handshake" /\ UNCHANGED <<outcome, aborts>>
  /\ UNCHANGED <<script, i, dead, noticed, nsent, sent, cbPending, wrote, drained>>

\* write config, close stdin, read and validate the response; every failure marks the whole batch
Handshake ==
  /\ stage = "handshake"
  /\ wrote' = TRUE
  /\ IF script.srv = "ok"
       THEN /\ stage' = "loop" /\ UNCHANGED <<outcome, aborts>>
       ELSE /\ outcome' = MarkAll("failedToStart") /\ stage' = "returned"
            /\ aborts' = aborts + 1                      \* deferred abort of the started process
  /\ UNCHANGED <<script, i, dead, noticed, nsent, sent, cbPending, drained>>

\* one iteration of the send loop
LoopStep ==
  /\ stage = "loop" /\ i <= N
  /\ IF noticed
       THEN \* server crashed: mark this and all later cases, return at once (earlier ones are in flight)
            /\ outcome' = MarkFrom(i, "serverDied") /\ stage' = "returned" /\ aborts' = aborts + 1
            /\ UNCHANGED <<i, dead, noticed, nsent, sent, cbPending>>
       ELSE IF script.closeAt # 0 /\ nsent + 1 >= script.closeAt
       THEN \* the client refuses the request: this and all later cases could not be run
            /\ outcome' = MarkFrom(i, "couldNotRun") /\ stage' = "wait"
            /\ UNCHANGED <<i, dead, noticed, nsent, sent, cbPending, aborts>>
       ELSE /\ nsent' = nsent + 1 /\ sent' = sent \cup {i} /\ i' = i + 1
            /\ LET dies == script.die # 0 /\ nsent + 1 = script.die IN
               /\ dead' = (dead \/ dies)
               /\ noticed' = (noticed \/ (dies /\ script.notice = "sync"))
            /\ IF script.cbmode = "sync" /\ script.ans[i] # "none"
                 THEN outcome' = [outcome EXCEPT ![i] = VerdictOf(script.ans[i])] /\ UNCHANGED cbPending
                 ELSE cbPending' = cbPending \cup {i} /\ UNCHANGED outcome
            /\ UNCHANGED <<stage, aborts>>
  /\ UNCHANGED <<script, wrote, drained>>

LoopEnd ==
  /\ stage = "loop" /\ i > N
  /\ stage' = "wait"
  /\ UNCHANGED <<script, i, dead, noticed, nsent, sent, cbPending, outcome, aborts, wrote, drained>>

\* all callbacks have run: stop the server, then give every case still without outcome one
Finish ==
  /\ stage = "wait" /\ cbPending = {}
  /\ aborts' = aborts + 2                                 \* explicit abort + deferred abort
  /\ outcome' = [c \in Cases |-> IF outcome[c] = NoneYet THEN "noOutcome" ELSE outcome[c]]
  /\ stage' = "returned"
  /\ UNCHANGED <<script, i, dead, noticed, nsent, sent, cbPending, wrote, drained>>

(* --------------------------- other goroutines --------------------------- *)
Notice ==
  /\ dead /\ ~noticed /\ noticed' = TRUE
  /\ UNCHANGED <<script, stage, i, dead, nsent, sent, cbPending, outcome, aborts, wrote, drained>>

Callback(c) ==
  /\ c \in cbPending /\ script.ans[c] # "none"
  /\ outcome' = [outcome EXCEPT ![c] = VerdictOf(script.ans[c])]
  /\ cbPending' = cbPending \ {c}
  /\ UNCHANGED <<script, stage, i, dead, noticed, nsent, sent, aborts, wrote, drained>>

\* the client gives up on everything still pending (its reader ended): possible once the runner
\* will send nothing more
Drain(c) ==
  /\ c \in cbPending /\ script.ans[c] = "none" /\ stage \in {"wait", "returned"}
  /\ outcome' = [outcome EXCEPT ![c] = "noResult"]
  /\ cbPending' = cbPending \ {c}
  /\ UNCHANGED <<script, stage, i, dead, noticed, nsent, sent, aborts, wrote, drained>>

Next == Start \/ Handshake \/ LoopStep \/ LoopEnd \/ Finish \/ Notice
        \/ \E c \in Cases : Callback(c) \/ Drain(c)

Spec == Init /\ [][Next]_vars /\ WF_vars(Next)

(* ------------------------------ properties ------------------------------ *)
Quiescent == stage = "returned" /\ cbPending = {}

ExactlyOneOutcome == Quiescent => \A c \in Cases : outcome[c] # NoneYet
\* an outcome, once recorded, is never replaced
WriteOnce == [][\A c \in Cases : outcome[c] # NoneYet => outcome'[c] = outcome[c]]_vars
\* cases that ran keep the verdict of their own answer; a pass needs a matching answer
OwnVerdict == \A c \in Cases : outcome[c] \in {"pass", "assertFail", "clientErr", "emptyResp"}
                                  => (c \in sent /\ outcome[c] = VerdictOf(script.ans[c]))
\* any start / handshake fault: every case is a setup error and nothing was sent
HandshakeFaults == (script.srv # "ok" /\ Quiescent) => (sent = {} /\ \A c \in Cases : outcome[c] = "failedToStart")
\* the server is asked to stop on every path that started a process
Stopped == (stage = "returned" /\ script.srv # "startFail") => aborts >= 1
NeverStoppedIfNeverStarted == (script.srv = "startFail") => aborts = 0
\* never-sent cases are setup errors, never verdicts
UnsentAreSetupErrors == Quiescent => \A c \in Cases : c \notin sent =>
                            outcome[c] \in {"failedToStart", "serverDied", "couldNotRun"}
Terminates == <>Quiescent
=============================================================================
