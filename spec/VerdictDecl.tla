----------------------------- MODULE VerdictDecl -----------------------------
(* C04 - when is a run successful, and how is every selected case accounted for.

   Per selected case:
     fate : "pass"        the client's result matched the expectation
            "assertFail"  the client's result did not match
            "clientErr"   the client reported that it could not produce a result
            "setupErr"    its server could not be started / died before the case was sent
            "noResult"    it was sent but no result ever arrived
            "couldNotRun" the client refused the request (died or exited early)
            "absent"      the run ended before it got any outcome at all
     mark : "none" | "failing" | "flaky"
     fb   : a reference peer reported feedback about it                                   *)
EXTENDS Naturals, Sequences, FiniteSets

Fates == {"pass", "assertFail", "clientErr", "setupErr", "noResult", "couldNotRun", "absent"}
Marks == {"none", "failing", "flaky"}

Ran(c)    == c.fate \in {"pass", "assertFail", "clientErr"}
\* feedback turns an otherwise matching result into a failure
Failed(c) == c.fate \in {"assertFail", "clientErr"} \/ (Ran(c) /\ c.fb)

\* the expectation of a case is met: unmarked cases passed, known-failing cases actually ran and
\* failed, known-flaky cases did either; never met when it could not be set up or run
Met(c) == /\ Ran(c)
          /\ \/ c.mark = "none" /\ ~Failed(c)
             \/ c.mark = "failing" /\ Failed(c)
             \/ c.mark = "flaky"

Success(cs) == \A i \in DOMAIN cs : Met(cs[i])

\* exit status of a whole run.  AsImplemented_PeerProtocolErrorFailsRun: in addition to the rule of the
\* statement, a peer that violates the runner protocol (garbage on its stdout, non-zero exit status)
\* makes the run fail even when every case was answered and met its expectation.
RunVerdict(cs, peerFault) == Success(cs) /\ ~peerFault

\* how the report accounts for a case (each case exactly once)
Class(c) == IF c.fate \in {"couldNotRun", "absent"} THEN "couldNotRun"
            ELSE IF ~Ran(c) THEN "failed"                                 \* setup errors are never acceptable
            ELSE IF c.mark = "failing" /\ ~Failed(c) THEN "failed"        \* expected to fail but did not
            ELSE IF c.mark = "none" /\ Failed(c) THEN "failed"
            ELSE IF Failed(c) THEN "expectedFail"                         \* failing or flaky, and failed
            ELSE "passed"

Count(cs, k) == Cardinality({i \in DOMAIN cs : Class(cs[i]) = k})
\* named in the output as FAILED / INFO.  AsImplemented_CouldNotRunCountedNotNamed: cases of the
\* could-not-run class are reported by count ("Another n could not be run"), not by name.
NamedFailed(cs) == {i \in DOMAIN cs : Class(cs[i]) = "failed"}
NamedInfo(cs)   == {i \in DOMAIN cs : Class(cs[i]) = "expectedFail"}

\* theorems tying the accounting to the verdict
AccountsForAll(cs) == Count(cs, "passed") + Count(cs, "failed") + Count(cs, "expectedFail") + Count(cs, "couldNotRun") = Len(cs)
VerdictFromCounts(cs) == Success(cs) <=> (Count(cs, "failed") = 0 /\ Count(cs, "couldNotRun") = 0)
=============================================================================
