\* design check (thorough): lists of one or two test cases of every shape in the pool
CONSTANTS
  RunModes = {0, 1, 2}
  CaseSets = {9}
  MaxSuites = 1
  SNames = {1}
  SModes = {0, 1, 2}
  RelPs = {1}
  RelVs = {1}
  RelCs = {1, 2}
  RelZs = {2}
  Flags = {0}
  Cvms = {0}
  TestIdx = {1, 2, 3, 4, 5, 6, 7, 8, 9, 10, 11, 12, 13, 14, 15, 16, 17, 18, 19, 20, 21}
  TestLens = {1, 2}
  SNames2 = {}
  SModes2 = {}
  RelPs2 = {}
  RelVs2 = {}
  RelCs2 = {}
  RelZs2 = {}
  Flags2 = {}
  Cvms2 = {}
  TestIdx2 = {}
  TestLens2 = {}
INIT Init
NEXT Next
VIEW View
INVARIANTS TypeOK Correct UniqueNames Sound Partition ModeSplit NameSpells CleanIsJoin GrpcSound Progress
