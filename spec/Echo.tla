-------------------------------- MODULE Echo --------------------------------
(* C02 - the conformance service as two communicating processes: the reference CLIENT (one action
   per iteration of its send / receive loops, docs/testing_clients.md) and the SERVER handler of
   the method under test (one action per iteration of its receive / send loops, service.proto and
   docs/testing_servers.md), joined by two FIFO streams (requests with a half-close marker,
   responses with an end-of-stream item that carries metadata and the error).

   Design theorem (MC_Echo*.cfg): for every test case T of the bounded scenario space and EVERY
   interleaving of the two processes
      - the call terminates (Progress, Termination)
      - the client's report equals the declarative ClientView(T), the server consumed exactly
        Serve(T).nread requests                                        (Agrees: machine == contract)
      - the runner's expectation Expect(T) - derived from T alone - is met by that report under
        every attribution of metadata a client API may make            (ThreeWayInv)
      - full duplex really is ping-pong, half duplex really is upload-then-respond  (OrderFull, OrderHalf)
      - counters only grow and the client never receives again once it has seen the end of the
        response stream                                         (Monotone, NoReceiveAfterEnd)
   MC_Echo_x_flag.cfg (expected to FAIL) admits a full_duplex flag in the first message that
   contradicts the stream type: the documented client and server rules then disagree - the reason
   WellFormed demands that they match. *)
EXTENDS EchoCases, TLC

(* ------------------------------ state ------------------------------ *)
VARIABLES tc,                 \* the test case
          c2s, s2c,           \* request stream (client -> server), response stream
          cpc, ci, cres, cend,                          \* client: pc, next request, report, saw end of stream
          spc, sdef, sfd, sfirst, spend, ssent, sread   \* server: pc, captured definition / flag, first-message
                                                        \* switch, requests since last response, sent, consumed
vars == <<tc, c2s, s2c, cpc, ci, cres, cend, spc, sdef, sfd, sfirst, spend, ssent, sread>>
cvars == <<cpc, ci, cres, cend>>
svars == <<spc, sdef, sfd, sfirst, spend, ssent, sread>>

ReqItem(i)        == [k |-> "req", i |-> i]
Eos               == [k |-> "eos"]
MsgItem(p)        == [k |-> "msg", p |-> p]
EndItem(h, t, e)  == [k |-> "end", hdrs |-> h, trls |-> t, err |-> e]
N == Len(tc.reqs)

Init == /\ IsCase(tc)
        /\ c2s = <<>> /\ s2c = <<>>
        /\ cpc = "start" /\ ci = 1 /\ cres = Res(<<>>, <<>>, <<>>, NoneV) /\ cend = FALSE
        /\ spc = "recv" /\ sdef = NoneV /\ sfd = FALSE /\ sfirst = TRUE /\ spend = <<>> /\ ssent = 0 /\ sread = 0

(* ------------------------------ client ------------------------------ *)
\* unary, server stream: "invoke the method using the one request message"
CInvoke == /\ tc.st \in {"unary", "server"} /\ cpc = "start"
           /\ c2s' = c2s \o <<ReqItem(1), Eos>>
           /\ cpc' = "drain"
           /\ UNCHANGED <<tc, s2c, ci, cres, cend, svars>>

\* client stream, half duplex, full duplex: "for each request message: send" - and in full duplex
\* "receive a response message" before the next send
CSend == /\ tc.st \in {"client", "half", "full"} /\ cpc \in {"start", "send"} /\ ci <= N
         /\ c2s' = Append(c2s, ReqItem(ci))
         /\ IF tc.st = "full" THEN cpc' = "recv1" /\ ci' = ci ELSE cpc' = "send" /\ ci' = ci + 1
         /\ UNCHANGED <<tc, s2c, cres, cend, svars>>

TakeEnd(it) == /\ cres' = [cres EXCEPT !.hdrs = it.hdrs, !.trls = it.trls, !.err = it.err]
               /\ cend' = TRUE

CRecv1 == /\ cpc = "recv1" /\ s2c # <<>>
          /\ s2c' = Tail(s2c)
          /\ IF Head(s2c).k = "msg"
               THEN /\ cres' = [cres EXCEPT !.payloads = Append(@, Head(s2c).p)]
                    /\ ci' = ci + 1 /\ cpc' = "send" /\ cend' = cend
               ELSE /\ TakeEnd(Head(s2c))          \* error or end of stream: break out of the send loop
                    /\ cpc' = "close" /\ ci' = ci
          /\ UNCHANGED <<tc, c2s, svars>>

\* "close send"; afterwards "for each remaining response message" unless the call already ended
CClose == /\ tc.st \in {"client", "half", "full"}
          /\ (cpc \in {"start", "send"} /\ ci > N) \/ cpc = "close"
          /\ c2s' = Append(c2s, Eos)
          /\ cpc' = IF cend THEN "done" ELSE "drain"
          /\ UNCHANGED <<tc, s2c, ci, cres, cend, svars>>

CDrain == /\ cpc = "drain" /\ s2c # <<>>
          /\ s2c' = Tail(s2c)
          /\ IF Head(s2c).k = "msg"
               THEN cres' = [cres EXCEPT !.payloads = Append(@, Head(s2c).p)] /\ cpc' = cpc /\ cend' = cend
               ELSE TakeEnd(Head(s2c)) /\ cpc' = "done"
          /\ UNCHANGED <<tc, c2s, ci, svars>>

Client == CInvoke \/ CSend \/ CRecv1 \/ CClose \/ CDrain

(* ------------------------------ server ------------------------------ *)
\* the single response of Unary / ClientStream
SingleResp(d, ri) ==
  IF d = NoneV THEN <<MsgItem(P(0, ri)), EndItem(<<>>, <<>>, NoneV)>>
  ELSE CASE d.resp.k = "err"  -> <<EndItem(d.hdrs, d.trls, AddDetail(d.resp, ri))>>
         [] d.resp.k = "data" -> <<MsgItem(P(d.resp.d, ri)), EndItem(d.hdrs, d.trls, NoneV)>>
         [] OTHER             -> <<MsgItem(P(0, ri)), EndItem(d.hdrs, d.trls, NoneV)>>

HeadIsReq == c2s # <<>> /\ Head(c2s).k = "req"
HeadIsEos == c2s # <<>> /\ Head(c2s).k = "eos"
HeadReq   == tc.reqs[Head(c2s).i]

SUnary == /\ tc.st = "unary" /\ spc = "recv" /\ HeadIsReq
          /\ c2s' = Tail(c2s) /\ sread' = sread + 1
          /\ s2c' = s2c \o SingleResp(HeadReq.def, RI(tc.hdrs, <<Head(c2s).i>>))
          /\ spc' = "done"
          /\ UNCHANGED <<tc, cvars, sdef, sfd, sfirst, spend, ssent>>

\* ClientStream: "while requests are being sent: read; if this is the first message capture the definition"
SClientRecv == /\ tc.st = "client" /\ spc = "recv" /\ HeadIsReq
               /\ c2s' = Tail(c2s) /\ sread' = sread + 1
               /\ spend' = Append(spend, Head(c2s).i)
               /\ IF sfirst THEN sdef' = HeadReq.def /\ sfirst' = FALSE ELSE UNCHANGED <<sdef, sfirst>>
               /\ UNCHANGED <<tc, s2c, cvars, spc, sfd, ssent>>
SClientRespond == /\ tc.st = "client" /\ spc = "recv" /\ HeadIsEos
                  /\ c2s' = Tail(c2s)
                  /\ s2c' = s2c \o SingleResp(sdef, RI(tc.hdrs, spend))
                  /\ spc' = "done"
                  /\ UNCHANGED <<tc, cvars, sdef, sfd, sfirst, spend, ssent, sread>>

SServerRecv == /\ tc.st = "server" /\ spc = "recv" /\ HeadIsReq
               /\ c2s' = Tail(c2s) /\ sread' = sread + 1
               /\ sdef' = HeadReq.def /\ sfirst' = FALSE /\ spend' = <<Head(c2s).i>>
               /\ spc' = "flush"
               /\ UNCHANGED <<tc, s2c, cvars, sfd, ssent>>

\* BidiStream receive loop: one iteration = read one request and, in full duplex, answer it
SBidiRecv ==
  /\ tc.st \in {"half", "full"} /\ spc = "recv" /\ HeadIsReq
  /\ LET d   == IF sfirst THEN HeadReq.def ELSE sdef
         fd  == IF sfirst THEN HeadReq.fd ELSE sfd
         rs  == Append(spend, Head(c2s).i)
         m   == IF d = NoneV THEN 0 ELSE Len(d.data)
     IN /\ c2s' = Tail(c2s) /\ sread' = sread + 1
        /\ sdef' = d /\ sfd' = fd /\ sfirst' = FALSE
        /\ IF ~fd THEN /\ spend' = rs /\ UNCHANGED <<s2c, ssent, spc>>
           ELSE IF ssent >= m
                  THEN /\ spend' = rs /\ spc' = "finish" /\ UNCHANGED <<s2c, ssent>>   \* nothing to answer with
                  ELSE /\ s2c' = Append(s2c, MsgItem(P(d.data[ssent + 1], RI(IF ssent = 0 THEN tc.hdrs ELSE <<>>, rs))))
                       /\ ssent' = ssent + 1 /\ spend' = <<>> /\ spc' = spc
  /\ UNCHANGED <<tc, cvars>>
SBidiEos == /\ tc.st \in {"half", "full"} /\ spc = "recv" /\ HeadIsEos
            /\ c2s' = Tail(c2s) /\ spc' = "flush"
            /\ UNCHANGED <<tc, s2c, cvars, sdef, sfd, sfirst, spend, ssent, sread>>

\* "loop over any response data specified": one iteration = one response
Left == IF sdef = NoneV THEN 0 ELSE Len(sdef.data) - ssent
SFlush == /\ spc = "flush" /\ Left > 0
          /\ s2c' = Append(s2c, MsgItem(P(sdef.data[ssent + 1], IF ssent = 0 THEN RI(tc.hdrs, spend) ELSE NoRI)))
          /\ ssent' = ssent + 1
          /\ UNCHANGED <<tc, c2s, cvars, spc, sdef, sfd, sfirst, spend, sread>>
SFinish == /\ spc = "finish" \/ (spc = "flush" /\ Left = 0)
           /\ s2c' = Append(s2c, IF sdef = NoneV THEN EndItem(<<>>, <<>>, NoneV)
                                 ELSE EndItem(sdef.hdrs, sdef.trls, Finish(sdef, ssent, RI(tc.hdrs, spend))))
           /\ spc' = "done"
           /\ UNCHANGED <<tc, c2s, cvars, sdef, sfd, sfirst, spend, ssent, sread>>

Server == SUnary \/ SClientRecv \/ SClientRespond \/ SServerRecv \/ SBidiRecv \/ SBidiEos \/ SFlush \/ SFinish

Next == Client \/ Server
Spec == Init /\ [][Next]_vars /\ WF_vars(Next)

(* ------------------------------ properties ------------------------------ *)
Done == cpc = "done" /\ spc = "done"

TypeOK == /\ cpc \in {"start", "send", "recv1", "close", "drain", "done"}
          /\ spc \in {"recv", "flush", "finish", "done"}
          /\ ci \in 1..(N + 1) /\ ssent \in 0..MaxResp /\ sread \in 0..N
          /\ Len(c2s) <= N + 1 /\ Len(s2c) <= MaxResp + 2

\* machine == contract
Agrees == Done => /\ cres = ClientView(tc)
                  /\ sread = Serve(tc).nread

\* the three-way agreement, on the machine's outcome and on the declarative one
ThreeWayInv  == Done => \A v \in Attributions(cres, tc.st) : Conforms(Expect(tc), v, tc.st)
ThreeWayDecl == ThreeWay(tc)

\* no silent hang
Progress == ~Done => ENABLED Next
Termination == <>Done

\* full duplex: response i is sent only after request i was read, and never more than one ahead
OrderFull == (tc.st = "full" /\ spc = "recv") => ssent <= sread /\ (sfd => sread <= ssent + 1)
\* upload-then-respond: nothing is sent before the client half-closed
OrderHalf == (tc.st \in {"client", "half"} /\ spc = "recv" /\ ~sfd) => (ssent = 0 /\ s2c = <<>>)
\* the client never has two unanswered requests in flight in full duplex
OneInFlight == tc.st = "full" => Len(cres.payloads) >= ci - 1
\* action properties: counters only grow, and once the client has seen the end of the response
\* stream (error or end-of-stream sentinel) it never receives again - it only half-closes
Monotone == [][/\ ssent' >= ssent /\ sread' >= sread /\ ci' >= ci
              /\ Len(cres'.payloads) >= Len(cres.payloads) /\ (cend => cend')]_vars
NoReceiveAfterEnd == [][cend => (cres' = cres /\ Len(s2c') >= Len(s2c))]_vars
\* requests the server never read are exactly those the contract leaves unread
Unread == Done => Len(SelectSeq(c2s, LAMBDA x : x.k = "req")) + sread <= N
=============================================================================
