----------------------------- MODULE Gen_Assert -----------------------------
(* Behaviour generator for C03: every state of the rewrite machine is one scenario - the expected
   result (printed once per base, "BASE"), the reported result reached by the rewrites applied so
   far, and the set of discrepancies the declarative relation requires ("SCN").  Exhaustive for
   short rewrite sequences, -simulate for longer ones.  LenientPass / DeviationFlagged are checked
   on the way, so every emitted scenario also carries a design-level classification. *)
EXTENDS Assert, Json

Emit ==
  (phase = "rewrite") =>
    /\ (steps = <<>>) => PrintT("BASE " \o ToJson([bp |-> bp, exp |-> exp, tc |-> tc]))
    /\ PrintT("SCN " \o ToJson([bp |-> bp, act |-> act, steps |-> steps, ndev |-> ndev, ptags |-> ptags,
                                disc |-> Disc(exp, act, tc)]))
=============================================================================
