CONSTANTS
  STs = {"unary", "client", "server", "half", "full"}
  MaxReqs = 2
  MaxResp = 3
  ReqHdrNames = {"none", "multi"}
  HdrNames = {"none", "rep", "bin", "shared"}
  ErrNames = {"none", "code", "msg", "full"}
  DataVariants = {"plain", "e1"}
  Decoys = {"none", "both"}
  WFOnly = TRUE
SPECIFICATION Spec
INVARIANTS TypeOK Agrees ThreeWayInv ThreeWayDecl Progress OrderFull OrderHalf OneInFlight Unread
PROPERTIES Termination Monotone NoReceiveAfterEnd
