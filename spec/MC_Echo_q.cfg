CONSTANTS
  STs = {"unary", "client", "server", "half", "full"}
  MaxReqs = 2
  MaxResp = 2
  ReqHdrNames = {"none", "multi"}
  HdrNames = {"none", "rep"}
  ErrNames = {"none", "code", "full"}
  DataVariants = {"plain", "e1"}
  Decoys = {"none", "both"}
  WFOnly = TRUE
SPECIFICATION Spec
INVARIANTS TypeOK Agrees ThreeWayInv ThreeWayDecl Progress OrderFull OrderHalf OneInFlight Unread
PROPERTY Termination
