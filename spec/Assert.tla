------------------------------- MODULE Assert -------------------------------
(* C03 - result assertion: every single deviation is flagged and named, every documented
   leniency passes, and the two compose.

   Three parts:
   1. a family of expected results (Base) covering the five stream types x error shapes x
      payload counts x metadata kits (a repeated value, a mixed-case name, a value holding ", ",
      blanks at the outer ends of a value, an empty piece, a name present in headers AND trailers);
   2. the REWRITE machine: starting from act = exp, each step applies one rewrite of the reported
      result at one locus - a leniency-preserving rewrite or a single deviation (at every position:
      n-th payload, n-th detail, n-th value, n-th piece of a value) - never two at the same locus;
      theorem:   no deviation applied  =>  Conforms(exp, act)
                 one deviation applied =>  its discrepancy tag \in Disc(exp, act)  (so ~Conforms),
      in particular leniencies compose and a deviation survives leniencies applied before or after;
   3. the CHECKER machine: the comparison as a sequential procedure with one action per block /
      loop iteration of results.go (error switch, one action per detail, payload count, one action
      per payload, metadata with the merged fallback, status), accumulating discrepancies;
      theorem:   at "done" the accumulated set equals the declarative Disc(exp, act).          *)
EXTENDS AssertDecl

CONSTANTS StreamTypes,      \* subset of {"unary","client_stream","server_stream","half_duplex","full_duplex"}
          ErrKinds,         \* subset of {"none","e0","e1","e3","ei"}
          PayloadCounts,    \* subset of 0..3
          Kits,             \* subset of {"none","lean","rich"}
          Profiles,         \* subset of {"A","B","C","D"}
          MaxLen,           \* number of rewrite steps per behaviour
          MaxDev,           \* number of deviations per behaviour (0 or 1)
          RunChecker        \* TRUE: run the checker machine on every pair (design check)

VARIABLES bp,        \* parameters of the base
          exp, tc,   \* expected result and its test-case context
          act,       \* reported result
          steps,     \* labels of the rewrites applied
          ndev,      \* number of deviations applied
          ptags,     \* tags the applied deviation must produce
          touched,   \* loci already rewritten
          phase,     \* "rewrite" | "check" | "done"
          pc, idx, errs     \* checker machine

vars == <<bp, exp, tc, act, steps, ndev, ptags, touched, phase, pc, idx, errs>>

(* =============================== part 1: bases =============================== *)
P(l, a, r) == [l |-> l, a |-> a, r |-> r]
V1(a)      == <<P(0, a, 0)>>
H(n, c, v) == [n |-> n, c |-> c, v |-> v]

RespHdrs(kit) ==
  CASE kit = "rich" -> << H("x-rep", 0, <<V1("a"), V1("b"), V1("c")>>),          \* repeated value
                          H("x-mixed", 1, << <<P(1, "m", 1)>>, V1("n") >>),      \* " m ", "n": outer blanks
                          H("x-comma", 2, << <<P(0, "p", 0), P(1, "q", 0)>> >>), \* "p, q"
                          H("x-both", 0, <<V1("h1")>>) >>
    [] kit = "lean" -> << H("x-one", 1, <<V1("a"), V1("b")>>) >>
    [] OTHER        -> <<>>
RespTrls(kit) ==
  CASE kit = "rich" -> << H("x-trl", 2, <<V1("t"), <<P(0, "u", 0), P(0, "v", 0)>> >>),   \* "t", "u,v"
                          H("x-both", 0, <<V1("t1")>>) >>
    [] OTHER        -> <<>>
ReqHdrs(kit) ==
  CASE kit = "rich" -> << H("x-req", 1, <<V1("r"), <<P(0, "s", 0), P(0, "", 0), P(1, "w", 0)>> >>),  \* "r", "s,, w"
                          H("x-one", 0, <<V1("o")>>) >>
    [] kit = "lean" -> << H("x-one", 0, <<V1("o")>>) >>
    [] OTHER        -> <<>>
Query(kit) ==
  CASE kit = "rich" -> << H("message", 0, <<V1("qm")>>), H("encoding", 0, <<V1("proto")>>) >>
    [] kit = "lean" -> << H("message", 0, <<V1("qm")>>) >>
    [] OTHER        -> <<>>

Profile(p) ==
  CASE p = "A" -> [t |-> 2000,  oc |-> <<>>,       ms |-> TRUE,  m |-> "oops", s |-> 200]
    [] p = "B" -> [t |-> 200,   oc |-> <<13, 1>>,  ms |-> FALSE, m |-> "",     s |-> Unset]
    [] p = "D" -> [t |-> 2000,  oc |-> <<>>,       ms |-> TRUE,  m |-> "",     s |-> 200]   \* a message that is specified - as the empty string
    [] p = "E" -> [t |-> Unset, oc |-> <<13, 1>>,  ms |-> TRUE,  m |-> "oops", s |-> 409]   \* other codes allowed AND an HTTP status expected
    [] OTHER   -> [t |-> Unset, oc |-> <<13>>,     ms |-> TRUE,  m |-> "oops", s |-> Unset]

EmptyInfo == [h |-> <<>>, t |-> Unset, q |-> <<>>, rq |-> <<>>]
FirstReqs(st) == IF st \in {"client_stream", "half_duplex"} THEN <<"r1", "r2", "r3">> ELSE <<"r1">>
FirstInfo(st, kit, pr) == [h |-> ReqHdrs(kit), t |-> pr.t,
                           q |-> IF st = "unary" THEN Query(kit) ELSE <<>>, rq |-> FirstReqs(st)]
LaterInfo(st, k) == [EmptyInfo EXCEPT !.rq = IF st = "full_duplex" THEN <<"r" \o ToString(k)>> ELSE <<>>]

DM(id) == [k |-> "msg", id |-> id, i |-> EmptyInfo]
DI(i)  == [k |-> "info", id |-> "", i |-> i]
NoErr  == [on |-> FALSE, code |-> 0, ms |-> FALSE, m |-> "", det |-> <<>>]
ExpCode == 10

BaseErr(ek, st, kit, pr) ==
  IF ek = "none" THEN NoErr
  ELSE [on |-> TRUE, code |-> ExpCode, ms |-> pr.ms, m |-> pr.m,
        det |-> CASE ek = "e0" -> <<>>
                  [] ek = "e1" -> <<DM("d1")>>
                  [] ek = "e3" -> <<DM("d1"), DM("d2"), DM("d3")>>
                  [] OTHER     -> <<DM("d1"), DI(FirstInfo(st, kit, pr))>>]

Base(b) ==
  LET pr == Profile(b.prof) IN
  [e  |-> BaseErr(b.ek, b.st, b.kit, pr),
   p  |-> IF b.np = 0 THEN <<>>
          ELSE [k \in 1..b.np |-> [d |-> "D" \o ToString(k),
                                    i |-> IF k = 1 THEN FirstInfo(b.st, b.kit, pr) ELSE LaterInfo(b.st, k)]],
   h  |-> RespHdrs(b.kit), tr |-> RespTrls(b.kit), s |-> pr.s, u |-> 0]

\* unary and client-stream: at most one payload, none when the RPC ends in an error (documented)
BaseParams ==
  {b \in [st : StreamTypes, ek : ErrKinds, np : PayloadCounts, kit : Kits, prof : Profiles] :
      b.st \in {"unary", "client_stream"} => (b.np <= 1 /\ (b.ek # "none" => b.np = 0))}

(* =============================== part 2: rewrites =============================== *)
SeqRemove(s, i)     == SubSeq(s, 1, i - 1) \o SubSeq(s, i + 1, Len(s))
SeqSwap(s, i)       == [s EXCEPT ![i] = s[i + 1], ![i + 1] = s[i]]
SeqDup(s, i)        == SubSeq(s, 1, i) \o SubSeq(s, i, Len(s))
NoTag               == Tag("", "", 0, "")

AddLead(p)      == [p EXCEPT !.l = @ + 1]
AddTrail(p)     == IF p.a = "" THEN [p EXCEPT !.l = @ + 1] ELSE [p EXCEPT !.r = @ + 1]
NoTrailBlank(p) == IF p.a = "" THEN p.l = 0 ELSE p.r = 0
NoLeadBlank(p)  == p.l = 0

\* fold two neighbouring values into one, with an optional blank before / after the comma.
\* Without the blank on a side the piece on that side must not end (start) with a blank of its own:
\* such an outer blank would become indistinguishable from the folding blank.
JoinVals(v1, v2, sb, sa) ==
  (IF sb THEN [v1 EXCEPT ![Len(v1)] = AddTrail(@)] ELSE v1) \o (IF sa THEN [v2 EXCEPT ![1] = AddLead(@)] ELSE v2)
JoinOK(v1, v2, sb, sa) == (sb \/ NoTrailBlank(v1[Len(v1)])) /\ (sa \/ NoLeadBlank(v2[1]))
JoinAt(vals, i, sb, sa) == SubSeq(vals, 1, i - 1) \o <<JoinVals(vals[i], vals[i + 1], sb, sa)>> \o SubSeq(vals, i + 2, Len(vals))
\* cut one value in two at its k-th comma, dropping the single folding blank on either side
SplitVal(v, k) == << [SubSeq(v, 1, k) EXCEPT ![k] = TrimTrail(@)], [SubSeq(v, k + 1, Len(v)) EXCEPT ![1] = TrimLead(@)] >>
SplitAt(vals, i, k) == SubSeq(vals, 1, i - 1) \o SplitVal(vals[i], k) \o SubSeq(vals, i + 1, Len(vals))

At(i)     == "@" \o ToString(i)
At2(i, k) == "@" \o ToString(i) \o "." \o ToString(k)

\* rewrites of one header list: [lab, hn (name touched), new (list), cls ("" = leniency)]
LR(lab, hn, new, cls) == [lab |-> lab, hn |-> hn, new |-> new, cls |-> cls]
ExtraHdr == H("x-extra", 1, <<V1("e")>>)

ListLenient(L) ==
       {LR("name.case", L[h].n, [L EXCEPT ![h].c = c], "") : h \in DOMAIN L, c \in {0, 1, 2}}
  \cup {LR("hdr.extra.append", "x-extra", Append(L, ExtraHdr), ""), LR("hdr.extra.prepend", "x-extra", <<ExtraHdr>> \o L, "")}
  \cup UNION {UNION {{LR("val.join" \o At(i) \o (IF sb THEN "b" ELSE "") \o (IF sa THEN "a" ELSE ""), L[h].n,
                         [L EXCEPT ![h].v = JoinAt(@, i, sb, sa)], "")
                      : <<sb, sa>> \in {x \in BOOLEAN \X BOOLEAN : JoinOK(L[h].v[i], L[h].v[i + 1], x[1], x[2])}}
                     : i \in 1..(Len(L[h].v) - 1)} : h \in DOMAIN L}
  \cup UNION {UNION {{LR("val.split" \o At2(i, k), L[h].n, [L EXCEPT ![h].v = SplitAt(@, i, k)], "")
                      : k \in 1..(Len(L[h].v[i]) - 1)} : i \in DOMAIN L[h].v} : h \in DOMAIN L}
  \* one folding blank next to a comma inside a value, added or removed
  \cup UNION {UNION {   {LR("blank.after.add" \o At2(i, k), L[h].n, [L EXCEPT ![h].v[i][k] = AddLead(@)], "")
                          : k \in {k \in 2..Len(L[h].v[i]) : L[h].v[i][k].a # "" /\ L[h].v[i][k].l = 0}}
                    \cup {LR("blank.after.del" \o At2(i, k), L[h].n, [L EXCEPT ![h].v[i][k] = TrimLead(@)], "")
                          : k \in {k \in 2..Len(L[h].v[i]) : L[h].v[i][k].a # "" /\ L[h].v[i][k].l = 1}}
                    \cup {LR("blank.before.add" \o At2(i, k), L[h].n, [L EXCEPT ![h].v[i][k] = AddTrail(@)], "")
                          : k \in {k \in 1..(Len(L[h].v[i]) - 1) : L[h].v[i][k].a # "" /\ L[h].v[i][k].r = 0}}
                    : i \in DOMAIN L[h].v} : h \in DOMAIN L}

ListDeviant(L) ==
       {LR("hdr.drop" \o At(h), L[h].n, SeqRemove(L, h), "missing") : h \in DOMAIN L}
  \cup {LR("hdr.rename" \o At(h), L[h].n, [L EXCEPT ![h].n = @ \o "-z"], "missing") : h \in DOMAIN L}
  \cup {LR("val.append", L[h].n, [L EXCEPT ![h].v = Append(@, V1("zz"))], "values") : h \in DOMAIN L}
  \cup {LR("val.prepend", L[h].n, [L EXCEPT ![h].v = <<V1("zz")>> \o @], "values") : h \in DOMAIN L}
  \cup UNION {   {LR("val.drop" \o At(i), L[h].n, [L EXCEPT ![h].v = SeqRemove(@, i)], "values") : i \in DOMAIN L[h].v}
             \cup {LR("val.swap" \o At(i), L[h].n, [L EXCEPT ![h].v = SeqSwap(@, i)], "values")
                   : i \in {i \in 1..(Len(L[h].v) - 1) : L[h].v[i] # L[h].v[i + 1]}}
             \cup {LR("val.outer.lead.add" \o At(i), L[h].n, [L EXCEPT ![h].v[i][1] = AddLead(@)], "values") : i \in DOMAIN L[h].v}
             \cup {LR("val.outer.trail.add" \o At(i), L[h].n, [L EXCEPT ![h].v[i][Len(L[h].v[i])] = AddTrail(@)], "values")
                   : i \in DOMAIN L[h].v}
             \cup {LR("val.outer.lead.del" \o At(i), L[h].n, [L EXCEPT ![h].v[i][1] = TrimLead(@)], "values")
                   : i \in {i \in DOMAIN L[h].v : L[h].v[i][1].l > 0}}
             \cup {LR("val.outer.trail.del" \o At(i), L[h].n, [L EXCEPT ![h].v[i][Len(L[h].v[i])] = TrimTrail(@)], "values")
                   : i \in {i \in DOMAIN L[h].v : ~NoTrailBlank(L[h].v[i][Len(L[h].v[i])])}}
             \cup UNION {   {LR("piece.alter" \o At2(i, k), L[h].n, [L EXCEPT ![h].v[i][k].a = @ \o "~"], "values") : k \in DOMAIN L[h].v[i]}
                        \cup {LR("piece.drop" \o At2(i, k), L[h].n, [L EXCEPT ![h].v[i] = SeqRemove(@, k)], "values")
                              : k \in {k \in DOMAIN L[h].v[i] : Len(L[h].v[i]) >= 2}}
                        \* a second blank next to a comma is not a folding blank any more
                        \cup {LR("blank.after.second" \o At2(i, k), L[h].n, [L EXCEPT ![h].v[i][k] = AddLead(@)], "values")
                              : k \in {k \in 2..Len(L[h].v[i]) : L[h].v[i][k].a # "" /\ L[h].v[i][k].l = 1}}
                        \cup {LR("blank.before.second" \o At2(i, k), L[h].n, [L EXCEPT ![h].v[i][k] = AddTrail(AddTrail(@))], "values")
                              : k \in {k \in 1..(Len(L[h].v[i]) - 1) : L[h].v[i][k].a # "" /\ L[h].v[i][k].r = 0}}
                        : i \in DOMAIN L[h].v}
             : h \in DOMAIN L}

\* a rewrite of a component: need = loci that must be untouched, mark = loci it touches
RW(lab, dev, need, mark, new, tag) == [lab |-> lab, dev |-> dev, need |-> need, mark |-> mark, new |-> new, tag |-> tag]
Pre(pre, S) == {pre \o s : s \in S}
Lift(r, pre, extraNeed, extraMark, new) ==
  RW(pre \o r.lab, r.dev, Pre(pre, r.need) \cup extraNeed, Pre(pre, r.mark) \cup extraMark, new, r.tag)

\* rewrites of the header list L (loci "<g>:<name>"), w = how a discrepancy names the list
ListRW(L, g, w) ==
       {RW(g \o "." \o r.lab, FALSE, {g \o ":" \o r.hn}, {g \o ":" \o r.hn}, r.new, NoTag) : r \in ListLenient(L)}
  \cup {RW(g \o "." \o r.lab, TRUE,  {g \o ":" \o r.hn}, {g \o ":" \o r.hn}, r.new, Tag(r.cls, w, 0, r.hn)) : r \in ListDeviant(L)}

\* rewrites of a request info: ei the expected one, ai the reported one
InfoRW(ei, ai, first) ==
  LET hdrs == {RW(r.lab, r.dev, r.need, r.mark, [ai EXCEPT !.h = r.new], r.tag) : r \in ListRW(ai.h, "h", "request headers")}
      \* query parameters: dropping the LAST remaining one is the documented leniency, not a deviation
      qry  == {RW(r.lab, r.dev, r.need \cup {"q.whole"}, r.mark \cup {"q.part"}, [ai EXCEPT !.q = r.new], r.tag)
               : r \in {r \in ListRW(ai.q, "q", "request query params") : r.new # <<>>}}
              \cup (IF ei.q # <<>> /\ ai.q # <<>>
                      THEN {RW("q.clear", FALSE, {"q.whole", "q.part"}, {"q.whole"}, [ai EXCEPT !.q = <<>>], NoTag)} ELSE {})
      tmo  == IF ei.t # Unset
                THEN {RW("t.within" \o At(t), FALSE, {"t"}, {"t"}, [ai EXCEPT !.t = t], NoTag)
                      : t \in {t \in {ei.t, ei.t - 1, ei.t - Grace + 1, ei.t - Grace, 0} : TimeoutOK(ei.t, t) /\ t # ai.t}}
                     \cup {RW("t.above", TRUE, {"t"}, {"t"}, [ai EXCEPT !.t = ei.t + 1], Tag("timeout.mismatch", "", 0, "")),
                           RW("t.missing", TRUE, {"t"}, {"t"}, [ai EXCEPT !.t = Unset], Tag("timeout.missing", "", 0, ""))}
                     \cup (IF ei.t - Grace - 1 >= 0
                             THEN {RW("t.below", TRUE, {"t"}, {"t"}, [ai EXCEPT !.t = ei.t - Grace - 1], Tag("timeout.mismatch", "", 0, ""))}
                             ELSE {})
                ELSE {RW("t.unexpected", TRUE, {"t"}, {"t"}, [ai EXCEPT !.t = 7], Tag("timeout.unexpected", "", 0, ""))}
      \* information that belongs to the first response only is ignored on later ones
      later == {RW("later.info", FALSE, {"later"}, {"later"}, [ai EXCEPT !.h = <<ExtraHdr>>, !.t = 5, !.q = <<ExtraHdr>>], NoTag)}
      n    == Len(ai.rq)
      reqs ==    {RW("rq.alter" \o At(k), TRUE, {"rq"}, {"rq"}, [ai EXCEPT !.rq[k] = @ \o "~"], Tag("request", "", k, "")) : k \in 1..n}
            \* the same bytes under another message type (an echoed request is an Any: type AND value)
            \cup {RW("rq.retype" \o At(k), TRUE, {"rq"}, {"rq"}, [ai EXCEPT !.rq[k] = @ \o "^"], Tag("request", "", k, "")) : k \in 1..n}
            \cup {RW("rq.drop" \o At(k), TRUE, {"rq"}, {"rq"}, [ai EXCEPT !.rq = SeqRemove(@, k)], Tag("requests.count", "", 0, Cnt(Len(ei.rq), n - 1))) : k \in 1..n}
            \cup {RW("rq.dup" \o At(k), TRUE, {"rq"}, {"rq"}, [ai EXCEPT !.rq = SeqDup(@, k)], Tag("requests.count", "", 0, Cnt(Len(ei.rq), n + 1))) : k \in 1..n}
            \cup {RW("rq.append", TRUE, {"rq"}, {"rq"}, [ai EXCEPT !.rq = Append(@, "rx")], Tag("requests.count", "", 0, Cnt(Len(ei.rq), n + 1)))}
            \cup {RW("rq.swap" \o At(k), TRUE, {"rq"}, {"rq"}, [ai EXCEPT !.rq = SeqSwap(@, k)], Tag("request", "", k, ""))
                  : k \in {k \in 1..(n - 1) : ai.rq[k] # ai.rq[k + 1]}}
  IN  (IF first THEN hdrs \cup qry \cup tmo ELSE later) \cup reqs

BadCodes(oc) == {5, 13} \ (Range(oc) \cup {ExpCode})

ErrRW(x, a, tcx) ==
  IF ~x.e.on
    THEN {RW("err.add", TRUE, {"e.whole"}, {"e.whole"},
             [a EXCEPT !.e = [on |-> TRUE, code |-> 2, ms |-> TRUE, m |-> "boom", det |-> <<>>]], Tag("err.unexpected", "", 0, ""))}
    ELSE
      LET e == a.e
          n == Len(e.det)
          sub(lab, dev, locus, newe, tag) == RW(lab, dev, {"e.whole", locus}, {locus, "e.part"}, [a EXCEPT !.e = newe], tag)
          dstruct(lab, newdet, tag) == RW(lab, TRUE, {"e.whole", "det.whole", "det.part"}, {"det.whole", "e.part"},
                                          [a EXCEPT !.e.det = newdet], tag)
          cntTag(m) == Tag("err.details.count", "", 0, Cnt(Len(x.e.det), m))
      IN   {RW("err.drop", TRUE, {"e.whole", "e.part"}, {"e.whole"}, [a EXCEPT !.e = NoErr], Tag("err.missing", "", 0, ""))}
      \cup {sub("code.alt" \o At(c), FALSE, "code", [e EXCEPT !.code = c], NoTag) : c \in (Range(tcx.oc) \cup {ExpCode}) \ {e.code}}
      \cup {sub("code.bad" \o At(c), TRUE, "code", [e EXCEPT !.code = c], Tag("err.code", "", 0, "")) : c \in BadCodes(tcx.oc)}
      \cup (IF x.e.ms
              THEN {sub("msg.alter", TRUE, "msg", [e EXCEPT !.m = @ \o "~"], Tag("err.msg", "", 0, "")),
                    \* (an absent message reads as the empty string: dropping it deviates unless "" is what was specified)
                    sub("msg.drop", x.e.m # "", "msg", [e EXCEPT !.ms = FALSE, !.m = ""],
                        IF x.e.m # "" THEN Tag("err.msg", "", 0, "") ELSE NoTag)}
              ELSE {sub("msg.any", FALSE, "msg", [e EXCEPT !.ms = TRUE, !.m = "whatever"], NoTag)})
      \cup {dstruct("det.drop" \o At(k), SeqRemove(e.det, k), cntTag(n - 1)) : k \in 1..n}
      \cup {dstruct("det.dup" \o At(k), SeqDup(e.det, k), cntTag(n + 1)) : k \in 1..n}
      \cup {dstruct("det.append", Append(e.det, DM("dx")), cntTag(n + 1))}
      \cup {dstruct("det.swap" \o At(k), SeqSwap(e.det, k), Tag("err.detail", "", k, "")) : k \in {k \in 1..(n - 1) : e.det[k] # e.det[k + 1]}}
      \cup UNION {IF e.det[k].k = "msg"
                    THEN {RW("det.alter" \o At(k), TRUE, {"e.whole", "det.whole", "det" \o At(k)}, {"det" \o At(k), "det.part", "e.part"},
                             [a EXCEPT !.e.det[k].id = @ \o "~"], Tag("err.detail", "", k, ""))}
                    ELSE {RW("det.info2msg" \o At(k), TRUE, {"e.whole", "det.whole", "det" \o At(k), "det.part"}, {"det" \o At(k), "det.part", "e.part"},
                             [a EXCEPT !.e.det[k] = DM("dy")], Tag("err.detail", "", k, ""))}
                         \cup {Lift(r, "det" \o At(k) \o ".", {"e.whole", "det.whole", "det" \o At(k)}, {"det.part", "e.part"},
                                    [a EXCEPT !.e.det[k].i = r.new])
                               : r \in InfoRW(x.e.det[k].i, e.det[k].i, TRUE)}
                  : k \in {k \in 1..Min(n, Len(x.e.det)) : x.e.det[k].k = e.det[k].k}}

PayloadRW(x, a) ==
  LET n == Len(a.p)
      pstruct(lab, newp, tag) == RW(lab, TRUE, {"p.whole", "p.part"}, {"p.whole"}, [a EXCEPT !.p = newp], tag)
      cntTag(m) == Tag("payloads.count", "", 0, Cnt(Len(x.p), m))
  IN   {pstruct("p.drop" \o At(k), SeqRemove(a.p, k), cntTag(n - 1)) : k \in 1..n}
  \cup {pstruct("p.dup" \o At(k), SeqDup(a.p, k), cntTag(n + 1)) : k \in 1..n}
  \cup {pstruct("p.append", Append(a.p, [d |-> "DX", i |-> EmptyInfo]), cntTag(n + 1))}
  \cup {pstruct("p.swap" \o At(k), SeqSwap(a.p, k), Tag("payload.data", "", k, "")) : k \in 1..(n - 1)}
  \cup UNION {   {RW("p.data" \o At(k), TRUE, {"p.whole", "p" \o At(k) \o ".d"}, {"p" \o At(k) \o ".d", "p.part"},
                     [a EXCEPT !.p[k].d = @ \o "~"], Tag("payload.data", "", k, ""))}
             \cup {Lift(r, "p" \o At(k) \o ".", {"p.whole"}, {"p.part"}, [a EXCEPT !.p[k].i = r.new])
                   : r \in InfoRW(x.p[k].i, a.p[k].i, k = 1)}
             : k \in 1..Min(n, Len(x.p))}

MetaRW(x, a, tcx) ==
  LET lists ==    {RW(r.lab, r.dev, r.need \cup {"meta"}, r.mark \cup {"rhrt"}, [a EXCEPT !.h = r.new], r.tag)
                   : r \in ListRW(a.h, "rh", "response headers")}
             \cup {RW(r.lab, r.dev, r.need \cup {"meta"}, r.mark \cup {"rhrt"}, [a EXCEPT !.tr = r.new], r.tag)
                   : r \in ListRW(a.tr, "rt", "response trailers")}
      whole(lab, dev, newh, newt, tag) == RW(lab, dev, {"meta", "rhrt"}, {"meta"}, [a EXCEPT !.h = newh, !.tr = newt], tag)
      merged == MergeHdrs(a.h, a.tr)
      firstName(l) == l[1].n
  IN  lists
      \* everything reported as trailers / as headers: the documented leniency for unary and
      \* client-stream errors, a deviation everywhere else
      \cup (IF a.h # <<>>
              THEN {whole("meta.all.trailers", ~MergedApplies(x, tcx), <<>>, merged, Tag("missing", "response headers", 0, firstName(a.h))),
                    whole("meta.all.trailers.keep", ~MergedApplies(x, tcx), <<ExtraHdr>>, merged, Tag("missing", "response headers", 0, firstName(a.h)))}
              ELSE {})
      \cup (IF a.tr # <<>>
              THEN {whole("meta.all.headers", ~MergedApplies(x, tcx), merged, <<>>, Tag("missing", "response trailers", 0, firstName(a.tr)))}
              ELSE {})
      \* one header (not all of them) reported as a trailer: misattributed everywhere
      \cup {whole("meta.move" \o At(h), TRUE, SeqRemove(a.h, h), Append(a.tr, a.h[h]), Tag("missing", "response headers", 0, a.h[h].n))
            : h \in {h \in DOMAIN a.h : Len(a.h) >= 2 /\ a.h[h].n \notin Names(a.tr)}}

MiscRW(x, a) ==
       (IF a.s # Unset THEN {RW("status.absent", FALSE, {"s"}, {"s"}, [a EXCEPT !.s = Unset], NoTag)} ELSE {})
  \cup (IF x.s = Unset THEN {RW("status.any", FALSE, {"s"}, {"s"}, [a EXCEPT !.s = 500], NoTag)}
                       ELSE {RW("status.other", TRUE, {"s"}, {"s"}, [a EXCEPT !.s = x.s + 1], Tag("status", "", 0, ""))})
  \cup {RW("unsent", FALSE, {"u"}, {"u"}, [a EXCEPT !.u = @ + 2], NoTag)}

Rewrites(x, a, tcx) == ErrRW(x, a, tcx) \cup PayloadRW(x, a) \cup MetaRW(x, a, tcx) \cup MiscRW(x, a)

(* =============================== part 3: checker =============================== *)
\* header comparison the way a sequential procedure does it: index the reported list by name
\* (a later entry replaces an earlier one), then walk the expected entries
LastOf(list, n)  == list[CHOOSE i \in Find(list, n) : \A j \in Find(list, n) : j <= i].v
HdrCheck(w, e, a) ==
  UNION {IF Find(a, e[i].n) = {} THEN {Tag("missing", w, 0, e[i].n)}
         ELSE IF Canon(e[i].v) # Canon(LastOf(a, e[i].n)) THEN {Tag("values", w, 0, e[i].n)} ELSE {}
         : i \in DOMAIN e}
InfoCheck(e, a, first) ==
     (IF first
        THEN HdrCheck("request headers", e.h, a.h)
             \cup (IF e.t # Unset
                     THEN IF a.t = Unset THEN {Tag("timeout.missing", "", 0, "")}
                          ELSE LET hi == e.t
                                   lo == IF hi - Grace < 0 THEN 0 ELSE hi - Grace
                               IN  IF a.t > hi \/ a.t < lo THEN {Tag("timeout.mismatch", "", 0, "")} ELSE {}
                     ELSE IF a.t # Unset THEN {Tag("timeout.unexpected", "", 0, "")} ELSE {})
             \cup (IF Len(e.q) > 0 /\ Len(a.q) > 0 THEN HdrCheck("request query params", e.q, a.q) ELSE {})
        ELSE {})
  \cup (IF Len(a.rq) # Len(e.rq) THEN {Tag("requests.count", "", 0, Cnt(Len(e.rq), Len(a.rq)))} ELSE {})
  \cup {Tag("request", "", k, "") : k \in {k \in 1..Min(Len(a.rq), Len(e.rq)) : e.rq[k] # a.rq[k]}}

ChkError ==
  /\ pc = "error"
  /\ LET e == exp.e
         a == act.e
     IN  IF ~e.on /\ ~a.on THEN errs' = errs /\ pc' = "payloads"
         ELSE IF ~e.on THEN errs' = errs \cup {Tag("err.unexpected", "", 0, "")} /\ pc' = "payloads"
         ELSE IF ~a.on THEN errs' = errs \cup {Tag("err.missing", "", 0, "")} /\ pc' = "payloads"
         ELSE /\ errs' = errs \cup (IF e.code # a.code /\ a.code \notin Range(tc.oc) THEN {Tag("err.code", "", 0, "")} ELSE {})
                              \cup (IF e.ms /\ MsgOf(e) # MsgOf(a) THEN {Tag("err.msg", "", 0, "")} ELSE {})
                              \cup (IF Len(e.det) # Len(a.det) THEN {Tag("err.details.count", "", 0, Cnt(Len(e.det), Len(a.det)))} ELSE {})
              /\ pc' = "detail"
  /\ idx' = 1
ChkDetail ==
  /\ pc = "detail"
  /\ IF idx > Min(Len(exp.e.det), Len(act.e.det))
       THEN pc' = "payloads" /\ idx' = 1 /\ errs' = errs
       ELSE LET ed == exp.e.det[idx]
                ad == act.e.det[idx]
            IN  /\ errs' = errs \cup (IF ad.k = "info" /\ ed.k = "info" THEN InfoCheck(ed.i, ad.i, TRUE)
                                      ELSE IF ed # ad THEN {Tag("err.detail", "", idx, "")} ELSE {})
                /\ idx' = idx + 1 /\ pc' = pc
ChkPayloads ==
  /\ pc = "payloads"
  /\ errs' = errs \cup (IF Len(act.p) # Len(exp.p) THEN {Tag("payloads.count", "", 0, Cnt(Len(exp.p), Len(act.p)))} ELSE {})
  /\ pc' = "payload" /\ idx' = 1
ChkPayload ==
  /\ pc = "payload"
  /\ IF idx > Min(Len(exp.p), Len(act.p))
       THEN pc' = "meta" /\ idx' = 1 /\ errs' = errs
       ELSE /\ errs' = errs \cup (IF exp.p[idx].d # act.p[idx].d THEN {Tag("payload.data", "", idx, "")} ELSE {})
                            \cup InfoCheck(exp.p[idx].i, act.p[idx].i, idx = 1)
            /\ idx' = idx + 1 /\ pc' = pc
ChkMeta ==
  /\ pc = "meta"
  /\ LET normal == HdrCheck("response headers", exp.h, act.h) \cup HdrCheck("response trailers", exp.tr, act.tr)
     IN  IF Len(exp.p) = 0 /\ exp.e.on /\ tc.st \in {"unary", "client_stream"}
           THEN IF normal # {}
                  THEN LET merged == MergeHdrs(exp.h, exp.tr)
                       IN  IF HdrCheck("response metadata", merged, act.h) # {} /\ HdrCheck("response metadata", merged, act.tr) # {}
                             THEN errs' = errs \cup normal ELSE errs' = errs
                  ELSE errs' = errs
           ELSE errs' = errs \cup normal
  /\ pc' = "status" /\ idx' = idx
ChkStatus ==
  /\ pc = "status"
  /\ errs' = errs \cup (IF exp.s # Unset /\ act.s # Unset /\ exp.s # act.s THEN {Tag("status", "", 0, "")} ELSE {})
  /\ pc' = "done" /\ idx' = idx

(* =============================== the machine =============================== *)
Init ==
  /\ bp \in BaseParams
  /\ exp = Base(bp) /\ act = exp
  /\ tc = [st |-> bp.st, oc |-> Profile(bp.prof).oc]
  /\ steps = <<>> /\ ndev = 0 /\ ptags = {} /\ touched = {}
  /\ phase = "rewrite" /\ pc = "idle" /\ idx = 1 /\ errs = {}

Step ==
  /\ phase = "rewrite" /\ Len(steps) < MaxLen
  /\ \E r \in Rewrites(exp, act, tc) :
       /\ r.need \cap touched = {}
       /\ r.dev => ndev < MaxDev
       /\ r.new # act
       /\ act' = r.new
       /\ steps' = Append(steps, r.lab)
       /\ ndev' = IF r.dev THEN ndev + 1 ELSE ndev
       /\ ptags' = IF r.dev THEN ptags \cup {r.tag} ELSE ptags
       /\ touched' = touched \cup r.mark
  /\ UNCHANGED <<bp, exp, tc, phase, pc, idx, errs>>

Freeze ==
  /\ RunChecker /\ phase = "rewrite"
  /\ phase' = "check" /\ pc' = "error"
  /\ UNCHANGED <<bp, exp, tc, act, steps, ndev, ptags, touched, idx, errs>>

Check ==
  /\ phase = "check"
  /\ ChkError \/ ChkDetail \/ ChkPayloads \/ ChkPayload \/ ChkMeta \/ ChkStatus
  /\ phase' = IF pc' = "done" THEN "done" ELSE phase
  /\ UNCHANGED <<bp, exp, tc, act, steps, ndev, ptags, touched>>

Next == Step \/ Freeze \/ Check
Spec == Init /\ [][Next]_vars

(* =============================== properties =============================== *)
TypeOK == /\ ResultOK(exp) /\ ResultOK(act)
          /\ ndev <= MaxDev /\ Len(steps) <= MaxLen
          /\ phase \in {"rewrite", "check", "done"}

Reflexive == Conforms(exp, exp, tc)

\* leniencies (alone and composed) keep the result conforming
LenientPass == (ndev = 0) => Conforms(exp, act, tc)

\* a single deviation is flagged AND named, whatever leniencies surround it
DeviationFlagged == (ndev > 0) => (ptags # {} /\ ptags \subseteq Disc(exp, act, tc))

\* the sequential procedure computes the declarative relation
CheckerAgrees == (phase = "done") => (errs = Disc(exp, act, tc))
\* ... and never reports something the relation does not contain on the way
CheckerSound  == errs \subseteq Disc(exp, act, tc)

\* the merged rule is exercised only where the documents allow it
MergedOnlyWhereDocumented ==
  MergedApplies(exp, tc) => (exp.e.on /\ exp.p = <<>> /\ tc.st \in {"unary", "client_stream"})

ViewNoHist == <<exp, tc, act, ndev, ptags, touched, phase, pc, idx, errs>>
=============================================================================
