CONSTANTS
  Senders = {"s1", "s2"}
  Script <- ScriptA
  Names = {"a", "b"}
  MaxCliOps = 2
  FaultKinds = {"garbage"}
  AllowZZ = FALSE
  AllowEarly = TRUE
  AnyName = FALSE
  KeepHist = FALSE
INIT Init
NEXT Next
INVARIANTS TypeOK AtMostOnce ExactlyOnceAtEnd OwnResponse
