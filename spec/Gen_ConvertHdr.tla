--------------------------- MODULE Gen_ConvertHdr ---------------------------
(* Behaviour generator for the header/metadata part of C18: every completed scenario of the
   ConvertHdr machine is printed with the result the DECLARATIVE operators require (exp), the
   result of the real-code round trip the statement speaks of (rt) and what must arrive when
   the outgoing metadata really travels over grpc-go (wire).
   Exhaustive for short lists, -simulate for longer lists / richer vocabularies. *)
EXTENDS ConvertHdr, Json

RT  == CASE op = "h2md" -> MDToHdr(HdrToMD(h))                \* header list -> metadata -> header list
         [] op = "md2h" -> Entries(HdrToMD(SomeSeq(MDToHdr(SrcMap))))   \* metadata -> header list -> metadata
         [] op = "addh" -> MapToHdr(AddHdr(pre, h))            \* header list -> http.Header -> header list
         [] OTHER       -> {}

\* what the RECEIVING server reports as header list when the outgoing metadata really travels over
\* grpc-go (which encodes -bin values on the wire and decodes them on receipt) and is converted
\* back with ConvertMetadataToProtoHeader
Wire == IF op = "out" THEN MDToHdr(Outgoing(pre, h)) ELSE {}

Emit == (pc = "done") =>
          PrintT("SCN " \o ToJson([area |-> "hdr", op |-> op, h |-> h, pre |-> Entries(pre),
                                   exp |-> IF FromMap THEN Expected ELSE Entries(Expected),
                                   rt |-> RT, wire |-> Wire]))
=============================================================================
