--------------------------- MODULE Gen_ConvertHdr ---------------------------
(* Behaviour generator for the header/metadata part of C18: every completed scenario of the
   ConvertHdr machine is printed with the result the DECLARATIVE operators require (exp), the
   result of the real-code round trip the statement speaks of (rt), and - for classification of
   mismatches only - what the known defects of the unchanged tree would produce (alt).
   Exhaustive for short lists, -simulate for longer lists / richer vocabularies. *)
EXTENDS ConvertHdr, Json

Alt == CASE op = "h2md" -> Entries(Known_LastWins(h))
         [] op = "out"  -> Entries(Known_OutgoingNoDecode(pre, h))
         [] op = "md2h" -> Entries(Known_SourceEncodedInPlace(SrcMap))
         [] OTHER       -> {}
RT  == CASE op = "h2md" -> MDToHdr(HdrToMD(h))                \* header list -> metadata -> header list
         [] op = "md2h" -> Entries(HdrToMD(SomeSeq(MDToHdr(SrcMap))))   \* metadata -> header list -> metadata
         [] op = "addh" -> MapToHdr(AddHdr(pre, h))            \* header list -> http.Header -> header list
         [] OTHER       -> {}

\* what the RECEIVING server reports as header list when the outgoing metadata really travels over
\* grpc-go (which encodes -bin values on the wire and decodes them on receipt) and is converted
\* back with ConvertMetadataToProtoHeader; WireAlt: the same under the known no-decode defect
Wire    == IF op = "out" THEN MDToHdr(Outgoing(pre, h)) ELSE {}
WireAlt == IF op = "out" THEN MDToHdr(Known_OutgoingNoDecode(pre, h)) ELSE {}

Emit == (pc = "done") =>
          PrintT("SCN " \o ToJson([area |-> "hdr", op |-> op, h |-> h, pre |-> Entries(pre),
                                   exp |-> IF FromMap THEN Expected ELSE Entries(Expected),
                                   rt |-> RT, alt |-> Alt, wire |-> Wire, wire_alt |-> WireAlt]))
=============================================================================
