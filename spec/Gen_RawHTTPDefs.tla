-------------------------- MODULE Gen_RawHTTPDefs --------------------------
(* Definition generator for C17: enumerates the bounded quantifier domain of the property
   ("status codes, header and trailer lists, unary and stream bodies with any flags in 0..255,
   explicit lengths differing from the payload, each of the 6 compressions, raw and base64-encoded
   query parameters") as structured families and prints every definition together with what the
   declarative operators of RawHTTPDecl require on the wire (WireResp / the request counterpart).

   Family = "resp" | "req" | "body".  One initial state per definition; no behaviour. *)
EXTENDS RawHTTPDecl, Json, TLC

CONSTANTS Family, Level       \* Level = "q" (small) | "t" (full)
VARIABLES def, fam
vars == <<def, fam>>

(* ------------------------------ vocabulary ------------------------------ *)
H(n, c, vs) == [name |-> n, cname |-> c, value |-> vs]
CT(v)  == H("content-type", "Content-Type", <<v>>)
M(p, z) == [p |-> p, z |-> z]
It(f, hl, l, p, z) == [flags |-> f, hasLen |-> hl, len |-> l, m |-> M(p, z)]
Unary(p, z)  == [k |-> "unary", m |-> M(p, z)]
Stream(its)  == [k |-> "stream", items |-> its]
None         == [k |-> "none"]

Zs       == 0..6
Lens     == {<<FALSE, "">>, <<TRUE, "0">>, <<TRUE, "5">>, <<TRUE, "4294967295">>}
FlagsCls == {0, 1, 2, 3, 128, 255}                 \* data, compressed, end-stream, both, reserved bit, all bits
Pay      == {"nil", "empty", "txt", "bin", "msg", "big"}

(* ------------------------------ bodies ------------------------------ *)
UnaryBodies == {Unary(p, z) : p \in Pay, z \in Zs}
\* one item: every flags class x every length class (two compressions)
OneItemFlags == {Stream(<<It(f, l[1], l[2], "txt", z)>>) : f \in FlagsCls, l \in Lens, z \in {1, 2}}
\* one item: every payload x every compression, computed and explicit length
OneItemPay == {Stream(<<It(0, l[1], l[2], p, z)>>) : p \in Pay, z \in Zs, l \in {<<FALSE, "">>, <<TRUE, "5">>}}
                \cup {Stream(<<It(f, l[1], l[2], "absent", 0)>>) : f \in {0, 2}, l \in {<<FALSE, "">>, <<TRUE, "5">>}}
\* several items: an alphabet of eight item shapes, all pairs (and all triples at Level "t")
ItemAlpha == <<It(0, FALSE, "", "txt", 1),          \* plain message, computed length
               It(1, FALSE, "", "txt", 2),          \* compressed message, computed length
               It(0, TRUE, "13", "txt", 1),         \* explicit length that happens to be right
               It(0, TRUE, "3", "bin", 1),          \* explicit length shorter than the identity payload
               It(2, FALSE, "", "end", 1),          \* end-stream message
               It(3, TRUE, "9", "end", 4),          \* compressed end-stream, explicit wrong length
               It(2, FALSE, "", "nil", 0),          \* empty end-stream
               It(128, TRUE, "0", "msg", 6)>>       \* reserved flag bit, zero length announced
Pairs   == {Stream(<<ItemAlpha[a], ItemAlpha[b]>>) : a, b \in 1..8}
Triples == {Stream(<<ItemAlpha[a], ItemAlpha[b], ItemAlpha[c]>>) : a, b, c \in 1..8}
Empties == {None, Stream(<<>>)}

Bodies == Empties \cup UnaryBodies \cup OneItemFlags \cup OneItemPay \cup Pairs
            \cup (IF Level = "t" THEN Triples ELSE {Stream(<<ItemAlpha[a], ItemAlpha[b], ItemAlpha[c]>>) : a \in {1, 4}, b \in {2, 6}, c \in {3, 5, 7}})
CoreBodies == {None, Unary("txt", 0), Unary("big", 2), Unary("nil", 3),
               Stream(<<ItemAlpha[1], ItemAlpha[2], ItemAlpha[5]>>),
               Stream(<<ItemAlpha[4], ItemAlpha[1]>>),
               Stream(<<ItemAlpha[7]>>), Stream(<<It(0, FALSE, "", "big", 5)>>),
               Stream(<<It(255, TRUE, "4294967295", "txt", 3), ItemAlpha[8]>>),
               Stream(<<>>)}

(* ------------------------------ header and trailer lists ------------------------------ *)
HdrShapes == <<
  <<>>,
  <<CT("application/grpc")>>,
  <<H("x-custom-header", "X-Custom-Header", <<"foo", "bar", "baz">>), CT("application/connect+proto")>>,
  \* split entries, two spellings of one name, a name that is also a trailer, an entry without values
  <<H("x-a", "X-A", <<"1">>), H("X-A", "X-A", <<"2">>), H("x-both", "X-Both", <<"hb">>), H("x-a", "X-A", <<"3", "1">>),
    H("x-none", "X-None", <<>>)>>,
  <<CT("application/grpc-web+proto"), H("grpc-status", "Grpc-Status", <<"9">>), H("grpc-message", "Grpc-Message", <<"a, b;c">>),
    H("vary", "Vary", <<"X-Extra">>), H("date", "Date", <<"Tue, 02 Jan 2024 03:04:05 GMT">>)>>   \* a given Date must be sent as given
>>
TrlShapes == <<
  <<>>,
  <<H("grpc-status", "Grpc-Status", <<"9">>), H("grpc-message", "Grpc-Message", <<"error">>),
    H("x-custom-trailer", "X-Custom-Trailer", <<"bing", "quuz">>)>>,
  <<H("x-both", "X-Both", <<"tb">>), H("x-t", "X-T", <<"t1">>)>>,
  <<H("x-t", "X-T", <<"a">>), H("X-T", "X-T", <<"b">>), H("x-none", "X-None", <<>>), H("x-t", "X-T", <<"c", "a">>)>>
>>
Statuses == {0, 200, 404, 503}
Snap == <<H("Vary", "Vary", <<"Origin">>)>>     \* what CORS has put on the writer before the handler runs

Resp(st, h, t, b) == [status |-> st, hdrs |-> HdrShapes[h], trls |-> TrlShapes[t], body |-> b]
DiagEnvs == {<<0, 1, 1>>, <<200, 3, 2>>, <<503, 4, 3>>, <<404, 2, 4>>}
RespDefs ==
  {Resp(e[1], e[2], e[3], b) : e \in DiagEnvs, b \in Bodies}
  \cup {Resp(st, h, t, b) : st \in Statuses, h \in 1..5, t \in 1..4, b \in CoreBodies}
  \cup {Resp(204, h, 1, None) : h \in 1..5}      \* a status that admits no body: only with none

(* ------------------------------ raw requests ------------------------------ *)
Q(n, vs) == H(n, n, vs)                 \* query parameter names are case-sensitive
EQ(n, p, z, b) == [cname |-> n, m |-> M(p, z), b64 |-> b]
Verbs   == {"GET", "POST", "PUT", "DELETE", ""}
Paths   == {"/connectrpc.conformance.v1.ConformanceService/Unary", "/foo/bar.baz", "/foo%2Fbar%3Fq/x%7e"}
InlineQ == << <<>>, <<Q("q", <<"q">>), Q("x", <<"456">>)>>, <<Q("x", <<"456">>), Q("q", <<"q", "r">>)>> >>   \* (the last: names not in alphabetical order)
RawQ == <<
  <<>>,
  <<Q("q", <<"a", "b", "c">>), Q("x", <<"123">>)>>,
  <<Q("sp", <<"a b&c=d/e+f", "100%", "">>), Q("q", <<"z">>)>>,
  <<Q("k", <<"1">>), Q("K", <<"2">>), Q("k", <<"3">>)>>
>>
EncQ == <<
  <<>>,
  <<EQ("q", "bin", 2, TRUE), EQ("x", "txt", 0, FALSE)>>,
  <<EQ("message", "msg", 1, TRUE), EQ("q", "txt", 3, FALSE), EQ("q", "nil", 2, TRUE), EQ("e", "absent", 0, FALSE)>>,
  <<EQ("m", "big", 4, TRUE), EQ("m", "empty", 5, TRUE), EQ("m", "empty", 1, TRUE), EQ("m", "bin", 6, FALSE)>>
>>
ReqHdrShapes == <<
  <<>>,
  <<CT("foo/bar"), H("X-Custom-Header", "X-Custom-Header", <<"abc", "def", "xyz">>)>>,
  <<CT("application/grpc+proto"), H("te", "Te", <<"trailers">>), H("x-a", "X-A", <<"1">>), H("X-A", "X-A", <<"2">>)>>,
  <<H("x-test-case-name", "X-Test-Case-Name", <<"a/b c">>), H("user-agent", "User-Agent", <<"raw-agent/1">>),
    H("x-none", "X-None", <<>>)>>
>>
ReqBodies == {None, Stream(<<>>)} \cup {Unary(p, z) : p \in {"nil", "empty", "txt", "big"}, z \in Zs}
               \cup {Stream(<<It(f, l[1], l[2], "txt", z)>>) : f \in {0, 1, 255}, l \in Lens, z \in {0, 3}}
               \cup {Stream(<<ItemAlpha[a], ItemAlpha[b]>>) : a, b \in 1..8}
               \cup {Stream(<<It(0, FALSE, "", "msg", 0), It(0, FALSE, "", "msg", 0)>>),
                     Stream(<<ItemAlpha[3], ItemAlpha[3], ItemAlpha[1]>>), Stream(<<ItemAlpha[7], ItemAlpha[7]>>),
                     Stream(<<It(2, FALSE, "", "absent", 0)>>), Stream(<<ItemAlpha[1], It(0, TRUE, "0", "absent", 0)>>)}
CoreReqBodies == {None, Unary("txt", 2), Stream(<<ItemAlpha[1], ItemAlpha[2]>>)}
Req(v, p, iq, rq, eq, h, b) == [verb |-> v, path |-> p, inlineq |-> InlineQ[iq], rawq |-> RawQ[rq], encq |-> EncQ[eq],
                                hdrs |-> ReqHdrShapes[h], body |-> b]
ReqDefs ==
  {Req("POST", "/connectrpc.conformance.v1.ConformanceService/Unary", e[1], e[2], e[3], e[4], b) :
      e \in {<<1, 1, 1, 1>>, <<1, 2, 2, 2>>, <<2, 3, 3, 3>>, <<2, 4, 4, 4>>, <<3, 1, 1, 1>>, <<2, 1, 1, 2>>}, b \in ReqBodies}
  \cup {Req(v, p, iq, rq, eq, h, b) : v \in Verbs, p \in Paths, iq \in 1..3, rq \in 1..4, eq \in 1..4, h \in 1..4,
                                      b \in (IF Level = "t" THEN CoreReqBodies ELSE {Unary("txt", 2)})}

\* the query of a request as required on the wire, name by name
ReqWire(d) == [method |-> MethodOf(d), path |-> d.path,
               query |-> [n \in QueryNames(d) |-> QueryOf(d, n)],
               hdrs |-> d.hdrs, body |-> EncBody(d.body)]

(* ------------------------------ enumeration ------------------------------ *)
Init == /\ fam = Family
        /\ def \in CASE Family = "resp" -> RespDefs
                    [] Family = "req"  -> ReqDefs
                    [] Family = "body" -> Bodies \cup ReqBodies
Next == UNCHANGED vars

Emit == PrintT("SCN " \o ToJson(
          CASE fam = "resp" -> [kind |-> "resp", def |-> def, snap |-> Snap, exp |-> WireResp(def, Snap)]
            [] fam = "req"  -> [kind |-> "req", def |-> def, exp |-> ReqWire(def)]
            [] fam = "body" -> [kind |-> "enc", body |-> def, exp |-> EncBody(def)]))
=============================================================================
