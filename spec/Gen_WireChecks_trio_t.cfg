CONSTANTS
  Kind = "trio"
  Tier = "t"
SPECIFICATION Spec
INVARIANTS TypeOK Agrees SilentIff EmitSilent Emit
