-------------------------- MODULE Gen_GlobCollect --------------------------
(* Behaviour generator for the collection clause of C08: every terminal state of the collection
   machine prints the argument list (literal values, @files with their line kinds, unreadable
   files, bare "@") together with the result the declarative definition requires: the error flag
   and the sequence of tokens <<argument index, line index>> that must come out, in order.      *)
EXTENDS GlobCollect, Json

Emit == Done => PrintT("SCN " \o ToJson([args |-> args, exp |-> CollectResult(args)]))
=============================================================================
