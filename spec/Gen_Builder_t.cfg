CONSTANTS
  MaxOps = 5
INIT Init
NEXT Next
INVARIANT Emit
