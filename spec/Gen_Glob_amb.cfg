CONSTANTS
  Family = "amb"
  Lits = {"a", "b"}
  MaxPat = 2
  MinName = 2
  MaxName = 3
  MaxSet = 1
  SimNames = 0
  SimSets = 0
INIT Init
NEXT Next
INVARIANTS Emit
