CONSTANTS
  Plan <- PlanQ
  MaxServers = 2
SPECIFICATION SpecCL
INVARIANTS AliveBound AtMostOnce CompleteCL SkippedUntouched OnlyAfterLoss DistinctAddrs NoneLeftRunning
PROPERTIES Terminates
