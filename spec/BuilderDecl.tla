----------------------------- MODULE BuilderDecl -----------------------------
(* C16 (builder) - declarative meaning of a sequence of builder operations on one traced HTTP
   operation: which events are delivered to the collector, how often, with which error class.
   Operation kinds:
     ReqData ReqEndOK ReqEndErr RespStart RespErr RespData EndStream RespEndOK RespEndErr Cancel (events)
     Build                                                                                 (explicit end)
   Finishing operations end the trace; everything after the first one is ignored. *)
EXTENDS Naturals, Sequences

EventKinds == {"ReqData", "ReqEndOK", "ReqEndErr", "RespStart", "RespErr", "RespData", "EndStream",
               "RespEndOK", "RespEndErr", "Cancel"}
OpKinds    == EventKinds \cup {"Build"}
Finishing  == {"ReqEndErr", "RespErr", "RespEndOK", "RespEndErr", "Cancel", "Build"}

ErrOf(k) == CASE k = "ReqEndErr"  -> "req"
              [] k = "RespErr"    -> "resp"
              [] k = "RespEndErr" -> "respEnd"
              [] k = "Cancel"     -> "canceled"
              [] OTHER            -> "none"

\* index of the first finishing operation, 0 if none
RECURSIVE FirstFin(_, _)
FirstFin(ops, i) == IF i > Len(ops) THEN 0 ELSE IF ops[i] \in Finishing THEN i ELSE FirstFin(ops, i + 1)

\* number of ops of kind k among ops[1..j]
RECURSIVE CountK(_, _, _)
CountK(ops, k, j) == IF j = 0 THEN 0 ELSE CountK(ops, k, j - 1) + (IF ops[j] = k THEN 1 ELSE 0)

\* events delivered for the prefix ops[1..j] (Build itself is not an event); data events carry
\* their 0-based index within their direction, all others -1 (encoded as 0 with has=FALSE)
RECURSIVE EventsOf(_, _)
EventsOf(ops, j) ==
  IF j = 0 THEN <<[k |-> "RequestStart", idx |-> 0]>>
  ELSE LET pre == EventsOf(ops, j - 1) IN
       IF ops[j] = "Build" THEN pre
       ELSE Append(pre, [k |-> ops[j],
                         idx |-> IF ops[j] \in {"ReqData", "RespData"} THEN CountK(ops, ops[j], j - 1) ELSE 0])

\* what the collector must have received after ops (named = request carries a test name)
Delivered(ops, named) ==
  LET f == FirstFin(ops, 1) IN
  IF ~named \/ f = 0 THEN [completes |-> 0, events |-> <<>>, err |-> "none"]
  ELSE [completes |-> 1, events |-> EventsOf(ops, f), err |-> ErrOf(ops[f])]

\* shape law for ONE delivered trace, used to accept traces recorded from concurrent executions
\* where the order of adds is not known: RequestStart first, exactly one finishing event and it
\* is last (none when ended by Build), data indices consecutive from 0 per direction
RECURSIVE IdxOK(_, _, _, _)
IdxOK(evs, j, nreq, nresp) ==
  IF j > Len(evs) THEN TRUE
  ELSE IF evs[j].k = "ReqData" THEN evs[j].idx = nreq /\ IdxOK(evs, j + 1, nreq + 1, nresp)
  ELSE IF evs[j].k = "RespData" THEN evs[j].idx = nresp /\ IdxOK(evs, j + 1, nreq, nresp + 1)
  ELSE IdxOK(evs, j + 1, nreq, nresp)

ValidDelivered(evs) ==
  /\ Len(evs) >= 1 /\ evs[1].k = "RequestStart"
  /\ \A j \in 2..Len(evs) : evs[j].k \in EventKinds
  /\ \A j \in 1..(Len(evs) - 1) : evs[j].k \notin Finishing
  /\ IdxOK(evs, 2, 0, 0)

\* additional order law for traces of real HTTP operations: response body events only after the
\* response started, at most one response start and one request end
RECURSIVE CountEv(_, _, _)
CountEv(evs, ks, j) == IF j = 0 THEN 0 ELSE CountEv(evs, ks, j - 1) + (IF evs[j].k \in ks THEN 1 ELSE 0)
\* single pass: st = <<response started, request ended>>
RECURSIVE HTTPScan(_, _, _, _)
HTTPScan(evs, j, started, reqEnded) ==
  IF j > Len(evs) THEN TRUE
  ELSE LET k == evs[j].k IN
       /\ (k \in {"RespData", "EndStream", "RespEndOK", "RespEndErr"}) => started
       /\ (k = "RespStart") => ~started
       /\ (k \in {"ReqEndOK", "ReqEndErr", "ReqData"}) => ~reqEnded
       /\ HTTPScan(evs, j + 1, started \/ k = "RespStart", reqEnded \/ k \in {"ReqEndOK", "ReqEndErr"})
HTTPOrder(evs) == HTTPScan(evs, 2, FALSE, FALSE)
=============================================================================
