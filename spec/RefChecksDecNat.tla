--------------------------- MODULE RefChecksDecNat ---------------------------
(* C12 - exact natural-number arithmetic on decimal digit sequences.  TLC integers are 32 bit, the
   durations of the property (nanoseconds up to 2^63-1, and raw products far beyond) are not, so a
   natural is a big-endian sequence of digits 0..9 (<<1,2,0>> is 120).  Only what the timeout
   law needs: normalisation, multiplication by a small factor, shifting by powers of ten,
   comparison, truncating division by a power of ten, rendering as a decimal string. *)
EXTENDS Integers, Sequences

DigitChars == <<"0", "1", "2", "3", "4", "5", "6", "7", "8", "9">>
DigitSet   == {DigitChars[i] : i \in 1..10}
DigitVal(c) == CHOOSE i \in 0..9 : DigitChars[i + 1] = c

\* sequence of one-character strings (all digits) -> digit sequence
ToDigits(s) == [i \in 1..Len(s) |-> DigitVal(s[i])]

RECURSIVE Norm(_)
Norm(d) == IF d = <<>> THEN <<0>>
           ELSE IF Len(d) > 1 /\ Head(d) = 0 THEN Norm(Tail(d)) ELSE d

IsZero(d) == Norm(d) = <<0>>

\* digits of d * k + c   (k <= 10^7 keeps every intermediate value far below 2^31)
RECURSIVE MulCarry(_, _, _)
MulCarry(d, k, c) ==
  IF d = <<>>
    THEN IF c = 0 THEN <<>> ELSE MulCarry(<<>>, k, c \div 10) \o <<c % 10>>
    ELSE LET t == d[Len(d)] * k + c
         IN MulCarry(SubSeq(d, 1, Len(d) - 1), k, t \div 10) \o <<t % 10>>

Mul(d, k) == Norm(MulCarry(d, k, 0))

Zeros(n) == [i \in 1..n |-> 0]

\* d * 10^z
Shift(d, z) == IF IsZero(d) THEN <<0>> ELSE Norm(d) \o Zeros(z)

\* floor(d / 10^z)
DivPow10(d, z) == LET n == Norm(d) IN IF Len(n) <= z THEN <<0>> ELSE SubSeq(n, 1, Len(n) - z)

\* -1, 0, 1 for a < b, a = b, a > b  (any representation)
RECURSIVE LexCmp(_, _)
LexCmp(a, b) == IF a = <<>> THEN 0
                ELSE IF Head(a) < Head(b) THEN -1
                ELSE IF Head(a) > Head(b) THEN 1
                ELSE LexCmp(Tail(a), Tail(b))
Cmp(a, b) == LET x == Norm(a)  y == Norm(b)
             IN IF Len(x) < Len(y) THEN -1 ELSE IF Len(x) > Len(y) THEN 1 ELSE LexCmp(x, y)

Leq(a, b) == Cmp(a, b) <= 0

\* small TLC integer -> digit sequence (used for constants such as 2562047)
RECURSIVE OfInt(_)
OfInt(n) == IF n < 10 THEN <<n>> ELSE OfInt(n \div 10) \o <<n % 10>>

RECURSIVE DStrRaw(_)
DStrRaw(d) == IF d = <<>> THEN "" ELSE DigitChars[Head(d) + 1] \o DStrRaw(Tail(d))
\* canonical decimal rendering, as strconv.FormatInt prints a non-negative int64
DStr(d) == DStrRaw(Norm(d))

\* 2^63 - 1
MaxInt64 == <<9, 2, 2, 3, 3, 7, 2, 0, 3, 6, 8, 5, 4, 7, 7, 5, 8, 0, 7>>
=============================================================================
