CONSTANTS
  FlagSet = {2, 3}
  LenSet = {1}
  PcSet = {"plain", "comp"}
  EncSet = {"none", "real"}
  HdrMode = "connect"
  SideSet = {"resp"}
  EndSet = {"eof"}
  MaxEnvs = 1
  MaxTotal = 6
  ChunkSet = {1, 2, 3, 4, 5, 6}
  MaxPost = 0
  MaxOther = 0
  Grain = "loop"
  ConsultBit = FALSE
  KeepHist = FALSE
INIT Init
NEXT Next
VIEW ViewNoHist
INVARIANTS Agrees
