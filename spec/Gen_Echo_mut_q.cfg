CONSTANTS
  STs = {"unary", "client", "server", "half", "full"}
  MaxReqs = 2
  MaxResp = 1
  ReqHdrNames = {"plain"}
  HdrNames = {"none"}
  ErrNames = {"none", "full"}
  DataVariants = {"plain"}
  Decoys = {"none", "both"}
  WFOnly = FALSE
  MutKinds = {"none", "mtSame", "mtOther", "mtOtherNoDef", "mtNon", "mtLater", "noRequest"}
INIT GenInit
NEXT GenNext
INVARIANTS Emit Sound
