CONSTANTS
  Senders = {"s1", "s2"}
  Script <- ScriptB
  Names = {"a", "b", "c"}
  MaxCliOps = 24
  FaultKinds = {}
  AllowZZ = FALSE
  AllowEarly = TRUE
  AnyName = FALSE
  KeepHist = TRUE
INIT Init
NEXT PoliteNext
INVARIANTS AtMostOnce Emit
