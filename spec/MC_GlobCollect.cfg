CONSTANTS
  MaxArgs = 3
  MaxLines = 2
SPECIFICATION Spec
INVARIANTS TypeOK DoneAgrees PrefixOK ErrOnlyUnreadable NoStuck
PROPERTIES Termination PrefixGrows
