--------------------------- MODULE Trace_Convert ---------------------------
(* code -> spec binding for C18.  Every line of the recorded file is one execution of a real
   conversion function on an input drawn by a seeded Go driver from OUTSIDE the domain TLC
   enumerates (longer header lists, deeper base64 terms, more details, long byte strings,
   randomly populated messages of many conformance types); the observation is written in the
   vocabulary of ConvertDecl.  A line is accepted iff the observation is what the declarative
   operator gives for the recorded input.  Rejected lines are printed with the violated
   clauses, not fatal. *)
EXTENDS ConvertDecl, Json, TLC, IOUtils

Rec == ndJsonDeserialize(IOEnv.VERIF_TRACE)

AsSet(s) == {s[x] : x \in 1..Len(s)}
Distinct(s) == \A x, y \in 1..Len(s) : x # y => s[x].name # s[y].name
AsMap(s) == [k \in {s[x].name : x \in 1..Len(s)} |-> s[CHOOSE x \in 1..Len(s) : s[x].name = k].vals]

\* Each Fails_* operator returns the set of clauses the line violates ({} = accepted).
If(c, name) == IF c THEN {} ELSE {name}

HdrExpected(r) ==
  CASE r.op = "h2md"  -> Entries(HdrToMD(r.h))
    [] r.op = "out"   -> Entries(Outgoing(AsMap(r.pre), r.h))
    [] r.op = "addh"  -> Entries(AddHdr(AsMap(r.pre), r.h))
    [] r.op = "addt"  -> Entries(AddTrl(AsMap(r.pre), r.h))
    [] r.op = "md2h"  -> MDToHdr(AsMap(r.h))
    [] r.op = "map2h" -> MapToHdr(AsMap(r.h))
    [] r.op = "rt"    -> Entries(HdrToMD(SomeSeq(MDToHdr(HdrToMD(r.h)))))     \* list -> MD -> list -> MD
Fails_hdr(r) ==
  If(Distinct(r.obs), "distinct")
  \cup If(AsSet(r.obs) = HdrExpected(r), "result")
  \cup If(r.op = "rt" => HdrExpected(r) = Entries(HdrToMD(r.h)), "law")          \* the spec's own round-trip law

Fails_err(r) ==
  If(r.c = ToConnect(r.e), "c")
  \cup If(r.p_c = FromConnect(ToConnect(r.e)), "p_c")
  \cup If(r.p_w = FromConnect(ToConnect(r.e)), "p_w")                 \* ConvertErrorToProtoError on a wrapped error
  \cup If(r.s = ToStatus(r.e), "s")
  \cup If(r.p_s = FromStatus(ToStatus(r.e)), "p_s")
  \cup If(Essence(FromConnect(ToConnect(r.e))) = Essence(r.e) /\ Essence(FromStatus(ToStatus(r.e))) = Essence(r.e), "law")

Fails_pct(r) ==
  If(r.enc = PctEncode(r.b), "enc")
  \cup If(PctDecode(r.enc) = r.b, "dec")
  \cup If(Printable(r.enc), "printable")
  \cup If(r.stock = r.b, "stock")                                    \* url.PathUnescape(enc), as the reference client decodes

\* codec executions on arbitrary messages: the shape is reduced to "where does an unknown field sit"
Shape(where) == CASE where = "none"   -> [t |-> "M", ents |-> <<Ent("f", Leaf)>>]
                  [] where = "top"    -> [t |-> "M", ents |-> <<Ent("f", Leaf), Unk("x")>>]
                  [] where = "nested" -> [t |-> "M", ents |-> <<Ent("g", [t |-> "N", ents |-> <<Unk("x")>>])>>]
Fails_codec(r) ==
  If(r.wrote = Marshal(r.codec, Shape("none")).fmt, "wrote")          \* Marshal writes the codec's own format
  \cup If(r.stable = Marshal(r.codec, Shape("none")).fmt, "stable")   \* MarshalStable too
  \cup If(r.verdict = Unmarshal(r.codec, [fmt |-> r.codec, body |-> Shape(r.where)]).r, "verdict")
  \cup If((r.where = "none" /\ r.verdict = "ok") => r.same, "same")   \* ... and the decoded message is equal

Fails(r) == CASE r.t = "hdr"   -> Fails_hdr(r)
              [] r.t = "err"   -> Fails_err(r)
              [] r.t = "pct"   -> Fails_pct(r)
              [] r.t = "codec" -> Fails_codec(r)

VARIABLE l
TraceInit == l = 1
TraceNext == /\ l <= Len(Rec)
             /\ l' = l + 1
             /\ (Fails(Rec[l]) = {} \/ PrintT("REJECT " \o ToString(l) \o " " \o ToString(Fails(Rec[l]))))
Consumed == (l = Len(Rec) + 1) => PrintT("CONSUMED " \o ToString(Len(Rec)))
=============================================================================
