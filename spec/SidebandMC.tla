----------------------------- MODULE SidebandMC -----------------------------
(* constants of the design checks and of the generator for Sideband.tla *)
EXTENDS Sideband
N1 == <<"n1">>
N2 == <<"n2">>
NX == <<"nx">>                      \* not a test case of this batch
NC == <<"n3", "CO", "SP", "b">>      \* a test case whose name contains ": "
KnownNames == {N1, N2, NC}
Msg(n, t) == [name |-> n, text |-> t]
\* design check: one message of every class that the reader treats differently
MsgsA == {Msg(N1, <<"a">>), Msg(N2, <<"c", "NL", "d">>), Msg(NX, <<"e">>), Msg(N1, <<>>)}
\* quick tier: the three classes of A that differ for the reader (recorded, multi-line, passed on)
MsgsQ == {Msg(N1, <<"a">>), Msg(N2, <<"c", "NL", "d">>), Msg(NX, <<>>)}
\* liveness: one (two-line) message per writer is enough for every control path
MsgsL == {Msg(N1, <<"c", "NL", "d">>)}
MsgsB == {Msg(N1, <<"a", "CO", "SP", "b">>), Msg(N2, <<"SP", "f", "SP", "NL">>), Msg(NC, <<"g">>),
          Msg(N1, <<"h", "NL", "n2", "CO", "SP", "i">>)}
\* generator: names x text classes
Texts == {<<"a">>, <<"a", "CO", "SP", "b">>, <<"c", "NL", "d">>, <<"h", "NL", "n2", "CO", "SP", "i">>, <<>>, <<"e", "NL">>,
          <<"SP", "f", "SP">>, <<"LONG">>, <<"SP">>, <<"a", "CR", "NL">>, <<"x", "CO", "y">>, <<"NL", "k">>, <<"p", "LONG", "SP", "q">>,
          <<"m", "NL", "SP", "NL", "o">>}      \* a blank line inside
MsgsGen == {Msg(n, t) : n \in {N1, N2, NX, NC}, t \in Texts}
=============================================================================
