CONSTANTS
  Alphabet = {0, 31, 32, 37, 50, 53, 65, 102, 126, 127, 128, 195, 255}
  MaxLen = 3
INIT Init
NEXT Next
INVARIANTS Agrees Invertible Emit EmitTable
