------------------------------- MODULE Process -------------------------------
(* C11 (supporting): how a peer started as an OS process is stopped, and why a batch terminates in
   bounded time even if the peer does not cooperate.

   abort = cancel the command's context (the exec layer sends SIGTERM and, if the process has not
   gone WaitDelay = one grace period later, kills it and closes its pipes), and - once - start a
   watchdog: one grace period later force-close the pipes, another grace period later give up and
   mark the process done with an error.  result() blocks until done and then always returns the
   same value; every whenDone callback runs exactly once, after done.

   Peer kinds: "polite" exits on SIGTERM; "stubborn" ignores it; "holder" exits on SIGTERM but a
   grandchild keeps its stdout open (so the exec layer's output copier does not finish by itself).
   Time is abstract: Tick advances the grace-period clock that both timers read.                *)
EXTENDS Naturals, FiniteSets, TLC

CONSTANTS Kind, Callbacks, MaxAborts

VARIABLES alive, termSent, killed, pipesOpen, waited, result, done, doneCount, aborts, clock, armed, fired, reads

vars == <<alive, termSent, killed, pipesOpen, waited, result, done, doneCount, aborts, clock, armed, fired, reads>>

Init == /\ alive = TRUE /\ termSent = FALSE /\ killed = FALSE /\ pipesOpen = TRUE /\ waited = FALSE
        /\ result = "none" /\ done = FALSE /\ doneCount = 0 /\ aborts = 0 /\ clock = 0 /\ armed = FALSE
        /\ fired = [c \in Callbacks |-> 0] /\ reads = {}

\* abort(): idempotent cancel; the watchdog is started once
Abort == /\ aborts < MaxAborts
         /\ aborts' = aborts + 1 /\ termSent' = TRUE
         /\ armed' = TRUE /\ clock' = IF armed THEN clock ELSE 0
         /\ UNCHANGED <<alive, killed, pipesOpen, waited, result, done, doneCount, fired, reads>>

\* the peer reacts to SIGTERM (or not)
PeerExits == /\ alive /\ termSent /\ Kind \in {"polite", "holder"}
             /\ alive' = FALSE
             /\ UNCHANGED <<termSent, killed, pipesOpen, waited, result, done, doneCount, aborts, clock, armed, fired, reads>>
\* the peer may also end by itself at any time
PeerEndsByItself == /\ alive /\ ~termSent
                    /\ alive' = FALSE
                    /\ UNCHANGED <<termSent, killed, pipesOpen, waited, result, done, doneCount, aborts, clock, armed, fired, reads>>

ExecKillDue == termSent /\ clock >= 1 /\ ~waited /\ (alive \/ pipesOpen)
\* timing assumption that defines "polite": it reacts to SIGTERM, and the exec layer reaps it, well
\* within one grace period
\* ... and the exec layer's deadline (WaitDelay, one grace period after the cancel) comes before the watchdog's
\* give-up deadline (two grace periods): time does not pass the first deadline with the kill still outstanding
Tick == /\ armed /\ ~done /\ clock < 2
        /\ ~(Kind = "polite" /\ termSent /\ ~waited)
        /\ ~(clock = 1 /\ ExecKillDue)
        /\ clock' = clock + 1
        /\ UNCHANGED <<alive, termSent, killed, pipesOpen, waited, result, done, doneCount, aborts, armed, fired, reads>>

\* exec layer: WaitDelay after the cancel the process is killed and the pipes are closed
ExecKill == /\ termSent /\ clock >= 1 /\ ~waited /\ (alive \/ pipesOpen)
            /\ alive' = FALSE /\ killed' = alive /\ pipesOpen' = FALSE
            /\ UNCHANGED <<termSent, waited, result, done, doneCount, aborts, clock, armed, fired, reads>>
\* watchdog, first stage: force-close our ends of the pipes
ForceClose == /\ armed /\ clock >= 1 /\ ~done /\ pipesOpen
              /\ pipesOpen' = FALSE
              /\ UNCHANGED <<alive, termSent, killed, waited, result, done, doneCount, aborts, clock, armed, fired, reads>>

\* cmd.Wait returns: the process has ended and its output was copied to the end (for a holder
\* that needs the pipes to be closed)
WaitReturns == /\ ~waited /\ ~alive /\ (Kind # "holder" \/ ~pipesOpen)
               /\ waited' = TRUE
               /\ result' = IF result = "none" THEN (IF killed \/ (Kind = "holder" /\ termSent) THEN "exit-error" ELSE "exit") ELSE result
               /\ done' = TRUE /\ doneCount' = IF done THEN doneCount ELSE doneCount + 1
               /\ pipesOpen' = FALSE
               /\ UNCHANGED <<alive, termSent, killed, aborts, clock, armed, fired, reads>>
\* watchdog, second stage: give up
GiveUp == /\ armed /\ clock >= 2 /\ ~done
          /\ result' = IF result = "none" THEN "took-too-long" ELSE result
          /\ done' = TRUE /\ doneCount' = doneCount + 1
          /\ UNCHANGED <<alive, termSent, killed, pipesOpen, waited, aborts, clock, armed, fired, reads>>

Fire(c) == /\ done /\ fired[c] = 0
           /\ fired' = [fired EXCEPT ![c] = 1]
           /\ UNCHANGED <<alive, termSent, killed, pipesOpen, waited, result, done, doneCount, aborts, clock, armed, reads>>
ReadResult == /\ done /\ reads' = reads \cup {result}
              /\ UNCHANGED <<alive, termSent, killed, pipesOpen, waited, result, done, doneCount, aborts, clock, armed, fired>>

Next == Abort \/ PeerExits \/ PeerEndsByItself \/ Tick \/ ExecKill \/ ForceClose \/ WaitReturns \/ GiveUp
        \/ ReadResult \/ \E c \in Callbacks : Fire(c)
Spec == Init /\ [][Next]_vars /\ WF_vars(PeerExits) /\ WF_vars(Tick) /\ WF_vars(ExecKill) /\ WF_vars(ForceClose)
             /\ WF_vars(WaitReturns) /\ WF_vars(GiveUp) /\ \A c \in Callbacks : WF_vars(Fire(c))

DoneOnce == doneCount <= 1
ResultStable == Cardinality(reads) <= 1                       \* result() always returns the same value
CallbacksAtMostOnce == \A c \in Callbacks : fired[c] <= 1
CallbacksAfterDone == \A c \in Callbacks : fired[c] = 1 => done
\* bounded termination: once abort was called the process is done within two grace periods
BoundedStop == (armed /\ clock >= 2) => (done \/ ENABLED GiveUp \/ ENABLED WaitReturns)
StopsAfterAbort == (aborts > 0) ~> done
CallbacksEventually == (aborts > 0) ~> (\A c \in Callbacks : fired[c] = 1)
\* once cmd.Wait has returned our ends of the pipes are closed: a runner goroutine that still writes to the
\* peer's stdin gets an error instead of waiting for a reader that no longer exists (bound by the process kind
\* selfexit-unread: the peer ends without reading, the harness writes 1 MiB)
PipesClosedWhenGone == waited => ~pipesOpen
\* whatever result() reports - also when the runner gave up waiting - the peer process itself is gone by then: a
\* server slot is released, and the run ends, only with the process dead (Runner.tla's Release assumes it)
GoneWhenDone == done => ~alive
\* a cooperative peer is never reported as having taken too long
PoliteNeverTooLong == (Kind = "polite") => result # "took-too-long"
=============================================================================
