CONSTANTS
  Codes = {1, 2, 16}
  Msgs = {"absent", "empty", "ascii"}
  Pfxs = {"std", "other", "none"}
  Types = {"t1", "t2"}
  Vals = {0, 1}
  MaxDetails = 2
  Routes = {"connect", "grpc", "goerr-nil", "goerr-plain", "goerr-connect", "goerr-wrapped", "grpc-plain"}
SPECIFICATION Spec
INVARIANTS TypeOK Agrees Laws
PROPERTIES Terminates
