CONSTANTS
  Senders = {"s1", "s2"}
  Script <- ScriptB
  Names = {"a", "b", "c"}
  MaxCliOps = 12
  FaultKinds = {"stall"}
  AllowZZ = FALSE
  AllowEarly = TRUE
  AnyName = FALSE
  KeepHist = TRUE
INIT Init
NEXT StallNext
INVARIANTS AtMostOnce Emit
