CONSTANTS
  Kind = "dispatch"
  Tier = "t"
SPECIFICATION Spec
INVARIANTS TypeOK Agrees SilentIff EmitSilent Emit
