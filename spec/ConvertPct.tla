----------------------------- MODULE ConvertPct -----------------------------
(* C18 - percent-encoding of the grpc-message trailer value (PercentEncodeMessage).

   Declarative meaning  : PctEncode (byte-wise), PctDecode (the decoder of the gRPC spec)
   Operational machine  : the two loops of the function - a counting pass (one action per byte)
                          with the early return when nothing needs escaping, then the building
                          pass (one action per byte).
   Theorems checked by TLC for every byte string over the alphabet up to MaxLen:
       Agrees     the machine computes PctEncode
       Invertible PctDecode(PctEncode(s)) = s          (hence the encoding is injective)
       Printable  only bytes 0x20..0x7E come out
       Sized      every escaped byte costs exactly two more bytes
       Escapes    a byte is escaped iff ShouldEscape; '%' itself is always escaped          *)
EXTENDS ConvertDecl, TLC

CONSTANTS Alphabet,     \* representative byte values (every class: ctl, space, '%', digits, hex letters, '~', DEL, high)
          MaxLen

VARIABLES s, pc, i, hexCount, out
vars == <<s, pc, i, hexCount, out>>

Strings == UNION {[1..n -> Alphabet] : n \in 0..MaxLen}

Init == /\ s \in Strings /\ pc = "count" /\ i = 1 /\ hexCount = 0 /\ out = <<>>

Count_Iter == /\ pc = "count" /\ i <= Len(s)
              /\ hexCount' = hexCount + (IF ShouldEscape(s[i]) THEN 1 ELSE 0)
              /\ i' = i + 1 /\ UNCHANGED <<s, pc, out>>
Count_Done == /\ pc = "count" /\ i > Len(s)
              /\ IF hexCount = 0 THEN /\ out' = s /\ pc' = "done" /\ UNCHANGED i      \* return msg
                                 ELSE /\ out' = <<>> /\ pc' = "build" /\ i' = 1
              /\ UNCHANGED <<s, hexCount>>
Build_Iter == /\ pc = "build" /\ i <= Len(s)
              /\ out' = IF ShouldEscape(s[i])
                          THEN out \o <<Pct, HexDigit(s[i] \div 16), HexDigit(s[i] % 16)>>
                          ELSE Append(out, s[i])
              /\ i' = i + 1 /\ UNCHANGED <<s, pc, hexCount>>
Build_Done == /\ pc = "build" /\ i > Len(s)
              /\ pc' = "done" /\ UNCHANGED <<s, i, hexCount, out>>

Next == Count_Iter \/ Count_Done \/ Build_Iter \/ Build_Done
Spec == Init /\ [][Next]_vars /\ WF_vars(Next)

Agrees     == (pc = "done") => out = PctEncode(s)
Invertible == (pc = "done") => PctDecode(out) = s
Printable_ == (pc = "done") => Printable(out)
Sized      == (pc = "done") => Len(out) = Len(s) + 2 * hexCount
Escapes    == (pc = "done") => /\ \A x \in 1..Len(out) : out[x] = Pct => (x + 2 <= Len(out) /\ IsHex(out[x+1]) /\ IsHex(out[x+2]))
                               /\ (hexCount = 0) <=> (out = s)
\* the byte predicate itself, for all 256 bytes
EscapeTable == \A b \in 0..255 : ShouldEscape(b) <=> ~(b >= 32 /\ b <= 126 /\ b # 37)
ASSUME EscapeTable
TypeOK == pc \in {"count", "build", "done"} /\ i <= Len(s) + 1 /\ hexCount <= Len(s)
Terminates == <>(pc = "done")
=============================================================================
