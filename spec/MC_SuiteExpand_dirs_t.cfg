\* design check (thorough): one suite, relevance shapes x TLS x modes x case sets
CONSTANTS
  RunModes = {0, 1, 2}
  CaseSets = {2, 3, 4}
  MaxSuites = 1
  SNames = {1}
  SModes = {0, 1, 2}
  RelPs = {1, 2, 3, 6, 8, 10}
  RelVs = {1, 3, 5}
  RelCs = {1, 2}
  RelZs = {1, 2}
  Flags = {0, 1}
  Cvms = {0}
  TestIdx = {1, 4}
  TestLens = {1, 2}
  SNames2 = {}
  SModes2 = {}
  RelPs2 = {}
  RelVs2 = {}
  RelCs2 = {}
  RelZs2 = {}
  Flags2 = {}
  Cvms2 = {}
  TestIdx2 = {}
  TestLens2 = {}
INIT Init
NEXT Next
VIEW View
INVARIANTS TypeOK Correct UniqueNames Sound Partition ModeSplit NameSpells CleanIsJoin GrpcSound Progress
