---------------------------- MODULE Trace_Verdict ----------------------------
(* code -> spec binding for C04 at Run() level: each line gives, for one real run, the per-case
   fate as realised (from the wrapped peer's own log), the markings, and the verdict Run()
   returned.  Accepted iff the verdict is Success() of VerdictDecl - and the report was printed: a totals line
   whenever cases were selected ("the printed totals account for every case"), and every unmarked case whose
   answer did not meet the expectation named in a FAILED line ("every failing case is named in the output"),
   also when the run ended with a peer-level error. *)
EXTENDS VerdictDecl, Json, TLC, IOUtils
Rec == ndJsonDeserialize(IOEnv.VERIF_TRACE)
VARIABLE l
TraceInit == l = 1
Accept(r) == /\ r.ok = RunVerdict(r.cases, r.peerFault)
             /\ (Len(r.cases) > 0 /\ r.started) => r.totalsPrinted
             /\ r.unnamedFailures = <<>>
TraceNext == /\ l <= Len(Rec) /\ l' = l + 1
             /\ (Accept(Rec[l]) \/ PrintT("REJECT " \o ToString(l)))
Consumed == (l = Len(Rec) + 1) => PrintT("CONSUMED " \o ToString(Len(Rec)))
=============================================================================
