---------------------------- MODULE Trace_Verdict ----------------------------
(* code -> spec binding for C04 at Run() level: each line gives, for one real run, the per-case
   fate as realised (from the wrapped peer's own log), the markings, and the verdict Run()
   returned.  Accepted iff the verdict is Success() of VerdictDecl. *)
EXTENDS VerdictDecl, Json, TLC, IOUtils
Rec == ndJsonDeserialize(IOEnv.VERIF_TRACE)
VARIABLE l
TraceInit == l = 1
Accept(r) == r.ok = RunVerdict(r.cases, r.peerFault)
TraceNext == /\ l <= Len(Rec) /\ l' = l + 1
             /\ (Accept(Rec[l]) \/ PrintT("REJECT " \o ToString(l)))
Consumed == (l = Len(Rec) + 1) => PrintT("CONSUMED " \o ToString(Len(Rec)))
=============================================================================
