--------------------------- MODULE Trace_BodyTrace ---------------------------
(* code -> spec binding for C14: every line of the recorded file is one execution of a real
   carrier of the body tracer (tracingReader, or TracingHandler's writer / request reader) over a
   long random body (cells = bytes here, lengths up to 64 KiB) with a random splitting: the
   scenario and the events the tracer reported, in the vocabulary of BodyTraceDecl.  A line is
   accepted iff the report equals Events(..).  A rejected line whose report equals what a tracer
   that never consults the compressed flag would list is marked REJECTK (that one cause), every
   other rejected line REJECT. *)
EXTENDS BodyTraceDecl, Json, TLC, IOUtils

Rec == ndJsonDeserialize(IOEnv.VERIF_TRACE)

VARIABLE l
TraceInit == l = 1
Accept(r)  == r.obs = Events(r.body, r.avail, r.end, r.side, r.hdr)
NoBit(r)   == r.obs = EventsIgnoringBit(r.body, r.avail, r.end, r.side, r.hdr)
TraceNext == /\ l <= Len(Rec)
             /\ l' = l + 1
             /\ \/ Accept(Rec[l])
                \/ (NoBit(Rec[l]) /\ PrintT("REJECTK " \o ToString(l)))
                \/ PrintT("REJECT " \o ToString(l))
TraceSpec == TraceInit /\ [][TraceNext]_l
Consumed == (l = Len(Rec) + 1) => PrintT("CONSUMED " \o ToString(Len(Rec)))
=============================================================================
