------------------------- MODULE Gen_RefChecksTimeout -------------------------
(* C12 generator, timeout headers: one state per scenario = (expected protocol, header string,
   where it is placed), printed with the outcome the declarative definition requires: accepted or
   flagged, exact duration in ns (context) and in ms (echo), which headers the inner handler may
   still see.  The strings are every string over RefChecksSpace!Alphabet up to MaxLen characters
   plus the boundary and overflow forms with up to MaxDigits digits.

   VERIF_PROTO = 0: all three expected protocols; 1..3: only that one (sharding). *)
EXTENDS RefChecksSpace, Json, IOUtils

CONSTANTS MaxLen, MaxDigits

OnlyProto == atoi(IOEnv.VERIF_PROTO)

VARIABLE t     \* [ep, s, place]

Canon(p) == [ver |-> 2, method |-> "POST", proto |-> p, codec |-> 1, comp |-> 1, tls |-> FALSE, cert |-> FALSE]
Decoy == HdrOf(<<"7", "m">>)

\* own: the header of the expected protocol carries s;  own+: ... and the other protocol's header
\* is present too (valid);  cross: only the OTHER protocol's header carries s
Places(s) == {"own"} \cup (IF Len(s) <= 2 \/ s \in OverflowForms THEN {"own+", "cross"} ELSE {})

Choice(S) == \E p \in (IF OnlyProto = 0 THEN Protocols ELSE {OnlyProto}) : \E s \in S : \E pl \in Places(s) :
               t = [ep |-> p, s |-> s, place |-> pl]
Init == Choice(StringsUpTo(MaxLen)) \/ Choice(BoundaryForms(MaxDigits)) \/ Choice(OverflowForms)
Next == UNCHANGED t

OwnIsConnect == t.ep = 1
Ctm == CASE t.place = "own"   -> IF OwnIsConnect THEN HdrOf(t.s) ELSE NoHdr
         [] t.place = "own+"  -> IF OwnIsConnect THEN HdrOf(t.s) ELSE Decoy
         [] t.place = "cross" -> IF OwnIsConnect THEN NoHdr ELSE HdrOf(t.s)
Gtm == CASE t.place = "own"   -> IF OwnIsConnect THEN NoHdr ELSE HdrOf(t.s)
         [] t.place = "own+"  -> IF OwnIsConnect THEN Decoy ELSE HdrOf(t.s)
         [] t.place = "cross" -> IF OwnIsConnect THEN HdrOf(t.s) ELSE NoHdr

W == Render(Canon(t.ep), Plain)
ReqT == [name |-> "t1", e |-> Canon(t.ep), w |-> W, ctm |-> Ctm, gtm |-> Gtm]
ExpT == ExpJson(ReqT, 1)

\* nothing but the timeout can be flagged on these requests
OnlyTimeout == Classes(Outcome(ReqT, 1).fb) \subseteq {"timeout"}

Emit == PrintT("SCN " \o ToJson(
          [kind |-> "timeout", pre |-> 0, script |-> <<>>,
           reqs |-> <<[name |-> "t1", e |-> Canon(t.ep), x |-> ExpectHeaders(Canon(t.ep)),
                       w |-> W @@ [ct |-> CtString(W.fam, W.sub)], ctm |-> Ctm, gtm |-> Gtm]>>,
           exp |-> <<ExpT>>,
           key |-> [diff |-> {}, wellformed |-> TRUE, place |-> t.place]]))
=============================================================================
