----------------------------- MODULE EchoCases -----------------------------
(* C02 - the bounded scenario space of test cases (the quantifier domain of the property: stream
   type x request headers x number of requests x response definition in the first message x what
   later messages carry), shared by the design check (Echo) and the behaviour generator (Gen_Echo). *)
EXTENDS EchoDecl

CONSTANTS STs,          \* stream types explored
          MaxReqs,      \* client / bidi streams carry 0..MaxReqs requests
          MaxResp,      \* stream definitions carry 0..MaxResp response data
          ReqHdrNames,  \* shapes of the request header list
          HdrNames,     \* shapes of response header and trailer lists
          ErrNames,     \* error shapes ("none" = no error)
          DataVariants, \* "plain" distinct payloads, "e1"/"eL" first/last payload empty
          Decoys,       \* what later messages carry: "none", "def", "flag" (full_duplex flipped), "both"
          WFOnly        \* TRUE: well-formed cases only; FALSE: also first-message flag mismatches

(* ------------------------------ scenario space ------------------------------ *)
DataSeqs == UNION {
  {[i \in 1..m |-> i]} \cup
  (IF "e1" \in DataVariants /\ m >= 1 THEN {[i \in 1..m |-> IF i = 1 THEN 0 ELSE i]} ELSE {}) \cup
  (IF "eL" \in DataVariants /\ m >= 1 THEN {[i \in 1..m |-> IF i = m THEN 0 ELSE i]} ELSE {})
  : m \in 0..MaxResp}

Errs == {ErrShape(e) : e \in ErrNames}
UDefs == {UDef(HdrShape("h", a), HdrShape("t", b), r) :
            a \in HdrNames, b \in HdrNames, r \in {NoneV, Data(1), Data(0)} \cup (Errs \ {NoneV})}
SDefs == {SDef(HdrShape("h", a), HdrShape("t", b), d, e) : a \in HdrNames, b \in HdrNames, d \in DataSeqs, e \in Errs}
Defs(st) == IF Kind(st) = "u" THEN UDefs ELSE SDefs

\* a definition in a later message must be ignored: make it recognisably different
DecoyDef(st) == IF Kind(st) = "u" THEN UDef(<<H("h", 9, FALSE, FALSE, <<1>>)>>, <<>>, Data(7))
                ELSE SDef(<<H("h", 9, FALSE, FALSE, <<1>>)>>, <<>>, <<7, 8>>, Err(4, 3, <<>>))

IsBidi(st) == st \in {"half", "full"}
FirstReqs(st) == {Req(MethodMsg(st), d, fd) : d \in {NoneV} \cup Defs(st),
                    fd \in IF ~IsBidi(st) THEN {FALSE} ELSE IF WFOnly THEN {st = "full"} ELSE BOOLEAN}
LaterReqs(st, f) == {Req(MethodMsg(st), IF dc \in {"def", "both"} THEN DecoyDef(st) ELSE NoneV,
                         IF IsBidi(st) /\ dc \in {"flag", "both"} THEN ~f.fd ELSE f.fd) : dc \in Decoys}
Counts(st) == IF st \in {"unary", "server"} THEN {1} ELSE 0..MaxReqs

RECURSIVE Tails(_, _, _)
Tails(st, f, k) == IF k = 0 THEN {<<>>} ELSE {<<r>> \o t : r \in LaterReqs(st, f), t \in Tails(st, f, k - 1)}
\* IsCase(T): T ranges over the scenario space (written with quantifiers so that TLC enumerates it
\* without first building one huge set of records)
IsCase(T) == \E st \in STs : \E q \in ReqHdrNames : \E n \in Counts(st) :
               IF n = 0 THEN T = Case(st, HdrShape("q", q), <<>>)
               ELSE \E f \in FirstReqs(st) : \E t \in Tails(st, f, n - 1) : T = Case(st, HdrShape("q", q), <<f>> \o t)
=============================================================================
