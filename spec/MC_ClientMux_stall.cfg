CONSTANTS
  Senders = {"s1", "s2"}
  Script <- ScriptA
  Names = {"a", "b"}
  MaxCliOps = 3
  FaultKinds = {"trunc", "stall"}
  AllowZZ = TRUE
  AllowEarly = TRUE
  AnyName = TRUE
  KeepHist = FALSE
SPECIFICATION Spec
INVARIANTS TypeOK AtMostOnce ExactlyOnceAtEnd OwnResponse
PROPERTIES RefusedAfterFailure Terminates EventuallyNotRunning SendersFinish NoStuckCallback
