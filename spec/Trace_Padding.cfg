CONSTANTS
  TagLen = 1
  Bounds <- RealBounds
  Limit = 204800
  MaxTarget = 2147483647
INIT TraceInit
NEXT TraceNext
INVARIANT Consumed
