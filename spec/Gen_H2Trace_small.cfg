CONSTANTS
  Sides = {"client", "server"}
  MaxSid = 1
  MaxFrames = 3
  MinFrames = 0
  Names = {"a"}
  BodyPlans <- PlansTiny
  DataCuts = {3}
  Conts = {0, 1}
  MaxOther = 0
  MaxGoAway = 0
  AllowUnnamed = FALSE
  AllowReqTrailers = FALSE
  AllowClientGoAway = TRUE
  AllowTimer = FALSE
  AllowEarlyEnd = FALSE
  MaxCall = 10
  FrameAligned = FALSE
  MaxAhead = 9
  MaxTimeouts = 0
  EndKinds = {"close"}
  KeepCalls = TRUE
  Variant = "intended"
INIT Init
NEXT Next
INVARIANTS Agrees Reassembly HpackInSync NeverBroken Transparent Emit
