------------------------------- MODULE Verdict -------------------------------
(* C04 - the report as a machine: side-band feedback is merged into the outcomes first, then the
   names are visited in sorted order and classified one by one.  Checked against VerdictDecl for
   every assignment of fate x mark x feedback to N cases. *)
EXTENDS VerdictDecl, TLC, Json

CONSTANTS N
VARIABLES cs, stage, k, passed, failed, expected, noRun, namedF, namedI

vars == <<cs, stage, k, passed, failed, expected, noRun, namedF, namedI>>
CaseT == [fate : Fates, mark : Marks, fb : BOOLEAN]
\* feedback can only exist for a case that reached a peer
Sensible(c) == c.fb => Ran(c) \/ c.fate = "noResult"

Init == /\ cs \in [1..N -> {c \in CaseT : Sensible(c)}]
        /\ stage = "merge" /\ k = 1 /\ passed = 0 /\ failed = 0 /\ expected = 0 /\ noRun = 0
        /\ namedF = {} /\ namedI = {}

\* outcome record as the runner keeps it: error present?, setup error?, could-not-run class?
Err(c)      == c.fate # "pass" \/ c.fb
SetupErr(c) == c.fate \in {"setupErr", "noResult", "couldNotRun"}

Merge == /\ stage = "merge" /\ stage' = "visit"
         /\ noRun' = Cardinality({i \in 1..N : cs[i].fate = "absent"})     \* selected - with outcome
         /\ UNCHANGED <<cs, k, passed, failed, expected, namedF, namedI>>

Visit ==
  /\ stage = "visit" /\ k <= N
  /\ LET c == cs[k]
         expectErr == ~SetupErr(c) /\ (c.mark = "failing" \/ (c.mark = "flaky" /\ Err(c))) IN
     IF c.fate = "absent" THEN UNCHANGED <<passed, failed, expected, noRun, namedF, namedI>>
     ELSE IF c.fate = "couldNotRun" THEN noRun' = noRun + 1 /\ UNCHANGED <<passed, failed, expected, namedF, namedI>>
     ELSE IF ~expectErr /\ Err(c) THEN failed' = failed + 1 /\ namedF' = namedF \cup {k} /\ UNCHANGED <<passed, expected, noRun, namedI>>
     ELSE IF expectErr /\ ~Err(c) THEN failed' = failed + 1 /\ namedF' = namedF \cup {k} /\ UNCHANGED <<passed, expected, noRun, namedI>>
     ELSE IF expectErr /\ Err(c) THEN expected' = expected + 1 /\ namedI' = namedI \cup {k} /\ UNCHANGED <<passed, failed, noRun, namedF>>
     ELSE passed' = passed + 1 /\ UNCHANGED <<failed, expected, noRun, namedF, namedI>>
  /\ k' = k + 1
  /\ UNCHANGED <<cs, stage>>

Done == stage = "visit" /\ k > N /\ stage' = "done" /\ UNCHANGED <<cs, k, passed, failed, expected, noRun, namedF, namedI>>
Next == Merge \/ Visit \/ Done
Spec == Init /\ [][Next]_vars

Verdict == failed = 0 /\ noRun = 0

Agrees == (stage = "done") =>
            /\ passed = Count(cs, "passed") /\ failed = Count(cs, "failed")
            /\ expected = Count(cs, "expectedFail") /\ noRun = Count(cs, "couldNotRun")
            /\ namedF = NamedFailed(cs) /\ namedI = NamedInfo(cs)
            /\ Verdict = Success(cs)
Laws == AccountsForAll(cs) /\ VerdictFromCounts(cs)

Emit == (stage = "done") =>
          PrintT("SCN " \o ToJson([cases |-> cs, success |-> Success(cs),
                                   passed |-> Count(cs, "passed"), failed |-> Count(cs, "failed"),
                                   expected |-> Count(cs, "expectedFail"), noRun |-> Count(cs, "couldNotRun"),
                                   namedFailed |-> [i \in 1..N |-> i \in NamedFailed(cs)],
                                   namedInfo |-> [i \in 1..N |-> i \in NamedInfo(cs)]]))
=============================================================================
