CONSTANTS
  Lens = {0, 2, 3, 5}
  MaxMsgs = 4
  Limit = 3
  MaxTotal = 40
  KeepHist = TRUE
INIT Init
NEXT Next
INVARIANTS Agrees Emit
