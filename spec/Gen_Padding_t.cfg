CONSTANTS
  TagLen = 1
  Bounds <- RealBounds
  Limit = 204800
  MaxTarget = 2147483647
  Algo = "iter"
  MaxAdj = 2
  Guard = FALSE
  W = 150
  Huge = TRUE
INIT GenInit
NEXT GenNext
INVARIANTS GridOK Emit
