INIT Init
NEXT Next
INVARIANT Emit
