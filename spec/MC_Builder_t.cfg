CONSTANTS
  MaxOps = 6
  KeepHist = FALSE
INIT Init
NEXT Next
INVARIANTS AtMostOnce Agrees NoEventAfterFinish
