---------------------------- MODULE Trace_Builder ----------------------------
(* code -> spec binding for C16 (builder): each line is what a collector received for one traced
   operation executed concurrently on the real code (kind "racy": goroutines calling add/build on
   one builder; kind "http": real TracingRoundTripper/TracingHandler over loopback).  The order of
   the concurrent adds is unknown, so a line is accepted by the shape law of BuilderDecl. *)
EXTENDS BuilderDecl, Json, TLC, IOUtils

Rec == ndJsonDeserialize(IOEnv.VERIF_TRACE)
VARIABLE l

CountKind(evs, k) == CountEv(evs, {k}, Len(evs))

AcceptRacy(r) ==
  /\ r.completes = (IF r.named /\ r.finishing THEN 1 ELSE 0)
  /\ (r.completes = 1) =>
        /\ ValidDelivered(r.events)
        /\ \A k \in EventKinds : CountKind(r.events, k) <= r.issued[k]

AcceptHTTP(r) ==
  IF r.completes = 0 THEN r.maybe_absent
  ELSE /\ r.completes = 1
       /\ ValidDelivered(r.events)
       /\ HTTPOrder(r.events)

Accept(r) == IF r.kind = "racy" THEN AcceptRacy(r) ELSE AcceptHTTP(r)

TraceInit == l = 1
TraceNext == /\ l <= Len(Rec)
             /\ l' = l + 1
             /\ (Accept(Rec[l]) \/ PrintT("REJECT " \o ToString(l)))
Consumed == (l = Len(Rec) + 1) => PrintT("CONSUMED " \o ToString(Len(Rec)))
=============================================================================
