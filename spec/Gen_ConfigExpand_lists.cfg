\* entry lists (<= 2 includes, <= 1 exclude) from the 16-entry mixed pool; also used under -simulate
CONSTANTS
  NZ = 6
  AxisVs <- ListVs
  AxisPs = {{}}
  AxisCs = {{}}
  AxisZs = {{}}
  AxisSs = {{}}
  TriH2c = {"unset", "false"}
  TriTls = {"unset", "false"}
  TriCerts = {"unset", "true"}
  TriTrailers = {"unset"}
  TriHdh1 = {"unset"}
  TriGet = {"unset"}
  TriLim = {"unset"}
  EntryPool <- EntrySmallPool
  MaxInc = 2
  MaxExc = 1
INIT GenInit
NEXT GenNext
INVARIANTS Emit
