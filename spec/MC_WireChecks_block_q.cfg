CONSTANTS
  Kind = "block"
  Tier = "q"
SPECIFICATION Spec
INVARIANTS TypeOK Agrees SilentIff EmitSilent
PROPERTIES Monotone Terminates
