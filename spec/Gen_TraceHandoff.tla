-------------------------- MODULE Gen_TraceHandoff --------------------------
(* Behaviour generator for C16 slots: every operation order of length MaxOps (each prefix is
   checked by the replayer too) with the settled observation after each step. *)
EXTENDS TraceHandoff, Json
Emit == (nops = MaxOps) => PrintT("SCN " \o ToJson(hist))
=============================================================================
