CONSTANTS
  Kind = "dispatch"
  Tier = "q"
SPECIFICATION Spec
INVARIANTS TypeOK Agrees SilentIff EmitSilent Emit
