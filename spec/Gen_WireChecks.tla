--------------------------- MODULE Gen_WireChecks ---------------------------
(* Behaviour generator for C13: every input of the family selected by Kind/Tier is run through
   the examiner machine; at its terminal state the input is printed together with the feedback
   classes the SPECIFICATION requires (declarative Expected, independent of Go), whether the
   documents' grammar accepts it, and - for encoder emissions - the feedback the statement
   requires (none).  The design theorem is checked on the way (Agrees, SilentIff, EmitSilent).   *)
EXTENDS WireChecks, Json

IsEmit == job.kind \in {"emitHdr", "emitWeb"}
Emit == Done => PrintT("SCN " \o ToJson([job |-> job,
                                         exp |-> IF IsEmit THEN EmitRequired ELSE Expected(job),
                                         ok  |-> Accepted(job),
                                         conflict |-> IsEmit /\ EmitConflict(job)]))
=============================================================================
