----------------------------- MODULE Gen_Process -----------------------------
(* terminal states of Process.tla: which results the stop protocol allows for a peer kind *)
EXTENDS Process, Json, Sequences
AtEnd == done /\ (\A c \in Callbacks : fired[c] = 1) /\ reads # {}
Emit == AtEnd => PrintT("SCN " \o ToJson([kind |-> Kind, result |-> result, aborted |-> aborts > 0, clock |-> clock]))
=============================================================================
