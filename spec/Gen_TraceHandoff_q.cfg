CONSTANTS
  Names = {"a", "b"}
  Waiters = {"w1", "w2"}
  MaxOps = 4
  MaxGen = 4
  KeepHist = TRUE
INIT Init
NEXT Next
INVARIANTS GotRight Emit
