\* one suite: lists of test cases of every shape in the pool (stream types, service/method, raw payloads, expand, pre-populated fields, unnamed, same names)
CONSTANTS
  RunModes = {0, 1, 2}
  CaseSets = {2, 9}
  MaxSuites = 1
  SNames = {1}
  SModes = {0, 1, 2}
  RelPs = {1, 3}
  RelVs = {1}
  RelCs = {1, 2, 5}
  RelZs = {2}
  Flags = {0}
  Cvms = {0}
  TestIdx = {1, 2, 3, 4, 5, 6, 7, 8, 9, 10, 11, 12, 13, 14, 15, 16, 17, 18, 19, 20, 21}
  TestLens = {1, 2}
  SNames2 = {}
  SModes2 = {}
  RelPs2 = {}
  RelVs2 = {}
  RelCs2 = {}
  RelZs2 = {}
  Flags2 = {}
  Cvms2 = {}
  TestIdx2 = {}
  TestLens2 = {}
  MaxRestricted = 4
INIT GInit
NEXT GNext
INVARIANTS Emit
