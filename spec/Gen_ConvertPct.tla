--------------------------- MODULE Gen_ConvertPct ---------------------------
(* Behaviour generator for the percent-encoding part of C18: every byte string over the
   alphabet with the encoding the declarative operator requires; plus the full escape table. *)
EXTENDS ConvertPct, Json

Emit == (pc = "done") => PrintT("SCN " \o ToJson([area |-> "pct", b |-> s, exp |-> PctEncode(s)]))
EmitTable == (pc = "done" /\ s = <<>>) =>
               PrintT("SCN " \o ToJson([area |-> "esc", esc |-> {b \in 0..255 : ShouldEscape(b)}]))
=============================================================================
