--------------------------- MODULE WireChecksDecl ---------------------------
(* C13 - what the reference client's wire examiners must say, stated on abstract syntax at the
   granularity at which the examiners decide.  Constant level only; shared by the machine
   (WireChecks), the laws (WireChecksLaws), the generator (Gen_WireChecks) and the acceptor of
   recorded executions (Trace_WireChecks).

   Every examiner maps an input to a SET OF FEEDBACK CLASSES; the empty set means "no feedback".
   For each examiner this module gives
     * WellFormed...  : the grammar of the protocol documents (RFC 7230 field syntax, the gRPC
                        Status / Status-Message / Status-Details rules, the Connect error and
                        end-of-stream JSON shapes), written as an independent recogniser;
     * Expected...    : the classes that must be reported, written as set comprehensions over
                        the whole input (no loop, no early exit "by accident": every place where a
                        class hides another one is an explicit IF);
     * AsImplemented_*: documented leniencies - malformed inputs for which the statement names no
                        class and the examiners stay silent.
   WireChecksLaws checks  Expected = {}  <=>  WellFormed \/ AsImplemented leniency.

   Sections:  1 trailer block (gRPC-Web end-stream)   2 percent-encoded grpc-message
              3 status trio (grpc-status / grpc-message / grpc-status-details-bin)
              4 gRPC-Web = block + trio               5 Connect error JSON
              6 Connect end-stream JSON               7 binary metadata
              8 dispatch (which examiner sees what)   9 what spec-conformant encoders emit      *)
EXTENDS Integers, Sequences, FiniteSets, TLC

Range(s)  == {s[i] : i \in DOMAIN s}
Front(s)  == SubSeq(s, 1, Len(s) - 1)
Last(s)   == s[Len(s)]
If(b, c)  == IF b THEN {c} ELSE {}
RECURSIVE Flatten(_)
Flatten(ss) == IF ss = <<>> THEN <<>> ELSE Head(ss) \o Flatten(Tail(ss))
SeqsUpTo(S, n) == UNION {[1..m -> S] : m \in 0..n}

(* ======================= 1. trailer block ======================================= *)
(* one symbol per byte class:
     l  lower-case letter            U  upper-case letter       t  digit or other tchar (-_.!#$%&'*+^`|~)
     :  colon                        w  SP or HT                r  CR            n  LF
     c  control byte other than HT/CR/LF, or DEL (invalid in names and in values)
     v  visible byte that is no tchar ( "(),/;<=>?@[\]{} ) or a byte >= 0x80: fine in values, not in names *)
BSym    == {"l", "U", "t", ":", "w", "r", "n", "c", "v"}
NameSym == {"l", "U", "t"}          \* RFC 7230 3.2.6 tchar
BadVal  == {"c", "r"}               \* a CR that is not part of the line ending is a control byte

\* RFC 7230 3.2 + gRPC-Web ("lower-case keys"):  block = *( 1*lname ":" OWS value OWS CRLF )
RECURSIVE BlockDFA(_, _)
BlockDFA(q, s) ==
  IF s = <<>> THEN q = "start"
  ELSE LET a == Head(s)  z == Tail(s) IN
       CASE q = "start" -> IF a \in {"l", "t"} THEN BlockDFA("name", z) ELSE FALSE
         [] q = "name"  -> IF a \in {"l", "t"} THEN BlockDFA("name", z)
                           ELSE IF a = ":" THEN BlockDFA("value", z) ELSE FALSE
         [] q = "value" -> IF a \in {"l", "U", "t", ":", "w", "v"} THEN BlockDFA("value", z)
                           ELSE IF a = "r" THEN BlockDFA("cr", z) ELSE FALSE
         [] q = "cr"    -> IF a = "n" THEN BlockDFA("start", z) ELSE FALSE
WellFormedBlock(s) == BlockDFA("start", s)

\* pieces between LFs; always at least one piece; piece N is what follows the last LF
RECURSIVE SplitLF(_)
SplitLF(s) == IF s = <<>> THEN << <<>> >>
              ELSE LET r == SplitLF(Tail(s)) IN
                   IF Head(s) = "n" THEN << <<>> >> \o r
                   ELSE << <<Head(s)>> \o r[1] >> \o Tail(r)

ColonPos(c) == IF \E i \in DOMAIN c : c[i] = ":"
                 THEN CHOOSE i \in DOMAIN c : c[i] = ":" /\ \A j \in 1..(i - 1) : c[j] # ":"
                 ELSE 0
KeyOf(c)  == IF ColonPos(c) = 0 THEN c ELSE SubSeq(c, 1, ColonPos(c) - 1)
RECURSIVE TrimL(_, _)
TrimL(s, W) == IF s # <<>> /\ Head(s) \in W THEN TrimL(Tail(s), W) ELSE s
RECURSIVE TrimR(_, _)
TrimR(s, W) == IF s # <<>> /\ Last(s) \in W THEN TrimR(Front(s), W) ELSE s
Trim(s, W)  == TrimR(TrimL(s, W), W)
ValOf(c)  == Trim(SubSeq(c, ColonPos(c) + 1, Len(c)), {"w"})

(* The classes.  A "line" is a piece that was terminated by LF, or a non-empty rest after the
   last LF; its content is the piece without ONE trailing CR (only when it was LF-terminated).
     blank line          -> blankAtEnd (exactly one, right before the final piece) | blankLines
     continuation (obs-fold: starts with SP/HT and is not the first non-blank line) -> obsFold,
                            nothing else is said about that line
     no colon            -> missingColon, nothing else is said about that line
     name   not 1*tchar  -> badName        name with upper-case -> upperKey
     value  with CTL     -> badValue
     LF without CR       -> lfOnly         rest after last LF not empty -> noFinalCRLF            *)
BlockExpected(s) ==
  LET P == SplitLF(s)
      N == Len(P)
      Considered(i) == i < N \/ P[N] # <<>>
      Content(i)    == IF i < N /\ P[i] # <<>> /\ Last(P[i]) = "r" THEN Front(P[i]) ELSE P[i]
      Blank(i)      == Considered(i) /\ Content(i) = <<>>
      NonBlank(i)   == Considered(i) /\ Content(i) # <<>>
      Fold(i)       == NonBlank(i) /\ Content(i)[1] = "w" /\ \E j \in 1..(i - 1) : NonBlank(j)
      Field(i)      == NonBlank(i) /\ ~Fold(i)
      Full(i)       == Field(i) /\ ColonPos(Content(i)) # 0
      Blanks        == {i \in 1..N : Blank(i)}
  IN  If(\E i \in 1..N : Field(i) /\ ColonPos(Content(i)) = 0, "missingColon")
      \cup If(\E i \in 1..N : Full(i) /\ (KeyOf(Content(i)) = <<>> \/ Range(KeyOf(Content(i))) \ NameSym # {}), "badName")
      \cup If(\E i \in 1..N : Full(i) /\ "U" \in Range(KeyOf(Content(i))), "upperKey")
      \cup If(\E i \in 1..N : Full(i) /\ Range(ValOf(Content(i))) \cap BadVal # {}, "badValue")
      \cup If(\E i \in 1..N : Fold(i), "obsFold")
      \cup (IF Blanks = {} THEN {} ELSE IF Blanks = {N - 1} THEN {"blankAtEnd"} ELSE {"blankLines"})
      \cup If(\E i \in 1..(N - 1) : P[i] = <<>> \/ Last(P[i]) # "r", "lfOnly")
      \cup If(P[N] # <<>>, "noFinalCRLF")

(* ======================= 2. percent-encoded grpc-message ========================= *)
(* p '%'    x hexadecimal digit    g other printable ASCII that is not a space    s SP
   c control byte / DEL            h byte >= 0x80 (part of a UTF-8 sequence)                     *)
PSym   == {"p", "x", "g", "s", "c", "h"}
PHex   == {"x"}
PPlain == {"x", "g", "s"}

\* gRPC: Percent-Encoded = *( Percent-Byte-Unencoded / "%" 2HEXDIGIT ), unencoded = %x20-%x24 / %x26-%x7E
RECURSIVE PctDFA(_, _)
PctDFA(k, m) == IF m = <<>> THEN k = 0
                ELSE IF k > 0 THEN Head(m) \in PHex /\ PctDFA(k - 1, Tail(m))
                ELSE IF Head(m) = "p" THEN PctDFA(2, Tail(m))
                ELSE Head(m) \in PPlain /\ PctDFA(0, Tail(m))
WellEncoded(m) == PctDFA(0, m)

\* the first thing wrong, reading left to right: "ok" | "pctBadHex" | "pctUnescaped" | "pctIncomplete"
RECURSIVE PctFirst(_, _)
PctFirst(k, m) == IF m = <<>> THEN (IF k > 0 THEN "pctIncomplete" ELSE "ok")
                  ELSE IF k > 0 THEN (IF Head(m) \in PHex THEN PctFirst(k - 1, Tail(m)) ELSE "pctBadHex")
                  ELSE IF Head(m) = "p" THEN PctFirst(2, Tail(m))
                  ELSE IF Head(m) \in PPlain THEN PctFirst(0, Tail(m)) ELSE "pctUnescaped"
PctClass(m) == PctFirst(0, m)

\* can a reader recover a message from it?  (every '%' is followed by two hex digits; raw bytes pass)
RECURSIVE Decodable(_)
Decodable(m) == IF m = <<>> THEN TRUE
                ELSE IF Head(m) = "p"
                       THEN Len(m) >= 3 /\ m[2] \in PHex /\ m[3] \in PHex /\ Decodable(SubSeq(m, 4, Len(m)))
                       ELSE Decodable(Tail(m))

(* ======================= 3. status trio ========================================= *)
(* st  : [k |-> "absent"] | [k |-> "dup"] | [k |-> "nonInt"] | [k |-> "int", v |-> Int, plus |-> BOOLEAN]
   msg : [k |-> "absent"] | [k |-> "val", s |-> Seq(PSym), dup |-> BOOLEAN]
   det : [k |-> "absent"] | [k |-> "val", dup |-> BOOLEAN, enc |-> "raw" | "padded" | "bad",
                              parse |-> BOOLEAN, code |-> Int, rel |-> "same" | "differ", nd |-> Nat]
   det.rel says whether the message inside the Status proto equals the percent-DEcoded grpc-message
   (as the reader of the header sees it), det.nd how many details the proto carries.             *)
StInt(st) == st.k = "int"

TrioExpected(st, msg, det) ==
  LET sv   == IF StInt(st) THEN st.v ELSE 99
      mcl  == IF msg.k = "val" THEN PctClass(msg.s) ELSE "ok"
      S    == If(st.k = "dup", "statusDup") \cup If(st.k = "absent", "statusMissing")
              \cup If(st.k = "nonInt", "statusNonInt")
              \cup If(StInt(st) /\ (st.v < 0 \/ st.v > 16), "statusRange")
      M    == IF msg.k = "absent" THEN {}
              ELSE If(msg.dup, "messageDup") \cup If(mcl # "ok", mcl)
                   \cup If(StInt(st) /\ st.v = 0 /\ msg.s # <<>>, "okWithMessage")
      D    == IF det.k = "absent" THEN {}
              ELSE If(det.dup, "detailsDup")
                   \cup (IF det.enc = "bad" THEN {"detailsBadB64"}
                         ELSE If(det.enc = "padded", "detailsPadded")
                              \cup (IF ~det.parse THEN {"detailsUnparsable"}
                                    ELSE If(StInt(st) /\ det.code # sv, "codeMismatch")
                                         \cup If(det.code = 0 /\ det.nd > 0, "okWithDetails")
                                         \cup If(msg.k = "val" /\ Decodable(msg.s) /\ det.rel = "differ", "msgMismatch")))
  IN S \cup M \cup D

\* gRPC: Status = 1*DIGIT in 0..16 exactly once; Status-Message percent-encoded, empty with OK;
\* Status-Details = unpadded base64 of a google.rpc.Status that agrees with both
WellFormedTrio(st, msg, det) ==
  /\ StInt(st) /\ st.v \in 0..16 /\ ~st.plus
  /\ msg.k = "val" => (~msg.dup /\ WellEncoded(msg.s) /\ (st.v = 0 => msg.s = <<>>))
  /\ det.k = "val" => /\ ~det.dup /\ det.enc = "raw" /\ det.parse /\ det.code = st.v
                      /\ (det.code = 0 => det.nd = 0)
                      /\ (msg.k = "val" => det.rel = "same")
\* strconv.Atoi reads "+3" as 3: the sign is let through (gRPC says 1*DIGIT)
AsImplemented_SignedStatus(st, msg, det) ==
  /\ StInt(st) /\ st.plus
  /\ WellFormedTrio([st EXCEPT !.plus = FALSE], msg, det)
\* without a grpc-message header the message inside the details is compared with nothing
AsImplemented_DetailsMessageWithoutHeader(st, msg, det) ==
  /\ msg.k = "absent" /\ det.k = "val" /\ det.rel = "differ"
  /\ WellFormedTrio(st, msg, [det EXCEPT !.rel = "same"])

\* the grammar modulo the two leniencies
TrioAccepted(st, msg, det) ==
  LET st0  == IF StInt(st) THEN [st EXCEPT !.plus = FALSE] ELSE st
      det0 == IF msg.k = "absent" /\ det.k = "val" THEN [det EXCEPT !.rel = "same"] ELSE det
  IN WellFormedTrio(st0, msg, det0)

(* ======================= 4. gRPC-Web end-stream = block of trio lines ============= *)
(* The trio rendered as field lines, with one block-level malformation `mal` applied by the
   renderer.  The message travels as a field value: SP at either end is optional white space to
   every HTTP reader, control bytes are not field-value bytes.                                   *)
WebMals == {"none", "upperKey", "lfOnly", "noFinal", "blankAtEnd", "blankMid", "trailingOWS", "noOWS"}

PToB(a) == CASE a = "p" -> "t" [] a = "x" -> "t" [] a = "g" -> "l" [] a = "s" -> "w" [] a = "c" -> "c" [] a = "h" -> "v"
WebLines(st, msg, det) ==   \* values as block symbols, in rendering order
  (IF st.k = "absent" THEN <<>> ELSE IF st.k = "dup" THEN << <<"t">>, <<"t">> >> ELSE << <<"t">> >>)
  \o (IF msg.k = "absent" THEN <<>>
      ELSE LET v == [i \in 1..Len(msg.s) |-> PToB(msg.s[i])] IN IF msg.dup THEN <<v, v>> ELSE <<v>>)
  \o (IF det.k = "absent" THEN <<>> ELSE IF det.dup THEN << <<"t">>, <<"t">> >> ELSE << <<"t">> >>)

WebBlock(st, msg, det, mal) ==
  LET L   == WebLines(st, msg, det)
      n   == Len(L)
      key(i) == IF mal = "upperKey" /\ i = 1 THEN <<"U", "l">> ELSE <<"l", "l">>
      sep == IF mal = "noOWS" THEN <<":">> ELSE <<":", "w">>
      tl  == IF mal = "trailingOWS" THEN <<"w">> ELSE <<>>
      eol(i) == IF mal = "lfOnly" THEN <<"n">> ELSE IF mal = "noFinal" /\ i = n THEN <<>> ELSE <<"r", "n">>
      line(i) == key(i) \o sep \o L[i] \o tl \o eol(i)
             \o (IF mal = "blankMid" /\ i = 1 THEN <<"r", "n">> ELSE <<>>)
  IN Flatten([i \in 1..n |-> line(i)]) \o (IF mal = "blankAtEnd" THEN <<"r", "n">> ELSE <<>>)

\* what a field-line reader hands on: the message without surrounding SP
WebMsg(msg) == IF msg.k = "absent" THEN msg ELSE [msg EXCEPT !.s = Trim(msg.s, {"s"})]
WebDet(msg, det) == IF det.k = "val" /\ msg.k = "val" /\ Trim(msg.s, {"s"}) # msg.s /\ det.rel = "same"
                      THEN [det EXCEPT !.rel = "differ"] ELSE det
WebExpected(st, msg, det, mal) ==
  BlockExpected(WebBlock(st, msg, det, mal)) \cup TrioExpected(st, WebMsg(msg), WebDet(msg, det))

(* ======================= 5. Connect error JSON =================================== *)
(* A JSON text is  [k |-> kind, e |-> entries]  with kind "obj" and e a sequence of entries
   [key, v] in document order (duplicates expressible), or a kind without entries:
   "null" "str" "num" "bool" "arr" (a non-object JSON value), "garbage" (not JSON), "trunc"
   (object cut short), "empty".
   Entry values  v = [k |-> value kind, x |-> payload]:
     for "code" / "Code"  : codeName | otherStr | null | num | bool | arr | obj
     for "message"        : str | null | num | bool | arr | obj
     for "details"        : list (x = sequence of elements) | null | str | num | bool | obj
     for "extra"          : str | null | num | arr | obj | objDup (an object with a repeated key inside)
   Detail element  [k |-> "obj", e |-> entries] or a non-object kind; entries [key, v]:
     "type"  : valid (a registered message) | unknownType (valid name, not registered) | badName | null | num | obj
     "value" : b64 (unpadded base64 of a serialized message of the type) | junk (unpadded base64,
               bytes do not parse as the type) | padded | badChars | null | num | obj
     "debug" : agree | agreeAny (JSON of the Any, as connect-go writes) | disagree | anyWrongType
               | unparsable | null | objDup
     "extra" : str | objDup                                                                       *)
V(k)       == [k |-> k, x |-> <<>>]
VList(els) == [k |-> "list", x |-> els]
E(key, v)  == [key |-> key, v |-> v]
Obj(es)    == [k |-> "obj", e |-> es]
NonObj(k)  == [k |-> k, e |-> <<>>]
NonObjKinds == {"null", "str", "num", "bool", "arr", "garbage", "trunc", "empty"}

Keys(es)     == {es[i].key : i \in DOMAIN es}
HasKey(es, k) == k \in Keys(es)
ValAt(es, k) == es[CHOOSE i \in DOMAIN es : es[i].key = k].v
DupKeys(es)  == \E i, j \in DOMAIN es : i < j /\ es[i].key = es[j].key

ScalarBad == {"num", "bool", "arr", "obj"}          \* cannot become a Go string
\* encoding/json matches field names case-insensitively, so "Code" is type-checked like "code"
ErrTypeError(es) == \E i \in DOMAIN es :
    (es[i].key \in {"code", "Code", "message"} /\ es[i].v.k \in ScalarBad)
    \/ (es[i].key = "details" /\ es[i].v.k \in {"str", "num", "bool", "obj"})

ElemNestedDup(el) == el.k = "obj" /\ (DupKeys(el.e) \/ \E i \in DOMAIN el.e : el.e[i].v.k = "objDup")
ErrNestedDup(es) == \E i \in DOMAIN es :
    (es[i].v.k = "objDup")
    \/ (es[i].v.k = "list" /\ \E j \in DOMAIN es[i].v.x : ElemNestedDup(es[i].v.x[j]))

Pfx(j, c) == "d" \o ToString(j - 1) \o "." \o c       \* details[j-1] in the feedback text

DetailExpected(j, el) ==
  IF el.k = "null" THEN {Pfx(j, "notObject")}
  ELSE IF el.k # "obj" THEN {Pfx(j, "jsonError")}
  ELSE LET es == el.e
           ty == IF HasKey(es, "type") THEN ValAt(es, "type").k ELSE "absent"
           va == IF HasKey(es, "value") THEN ValAt(es, "value").k ELSE "absent"
           db == IF HasKey(es, "debug") THEN ValAt(es, "debug").k ELSE "absent"
           tyStr == ty \in {"valid", "unknownType", "badName"}
           vaOK  == va \in {"b64", "junk"}
       IN IF \E i \in DOMAIN es : es[i].key \in {"type", "value"} /\ es[i].v.k \in {"num", "obj"}
            THEN {Pfx(j, "jsonError")}
            ELSE { Pfx(j, c) : c \in
                   If(ty = "badName", "badType") \cup If(ty = "null", "typeType")
                   \cup If(va \in {"padded", "badChars"}, "badBase64") \cup If(va = "null", "valueType")
                   \cup If(HasKey(es, "extra"), "invalidKey")
                   \cup If(ty = "absent", "missingType") \cup If(va = "absent", "missingValue")
                   \cup (IF tyStr /\ vaOK /\ db # "absent"
                           THEN IF ty # "valid" THEN {"debugUnresolvable"}
                                ELSE IF va = "junk" THEN {"valueUnparsable"}
                                ELSE CASE db \in {"agree", "agreeAny"} -> {}
                                       [] db = "disagree"     -> {"debugMismatch"}
                                       [] db = "anyWrongType" -> {"debugWrongType"}
                                       [] OTHER               -> {"debugUnparsable"}
                           ELSE {}) }

ErrExpected(top) ==
  IF top.k = "null" THEN {"notObject"}
  ELSE IF top.k # "obj" THEN {"jsonError"}
  ELSE LET es == top.e IN
       IF ErrTypeError(es) THEN {"jsonError"}
       ELSE IF DupKeys(es) \/ ErrNestedDup(es) THEN {"dupKey"}
       ELSE LET code == IF HasKey(es, "code") THEN ValAt(es, "code").k ELSE "absent"
                dt   == IF HasKey(es, "details") THEN ValAt(es, "details") ELSE V("absent")
            IN If(code = "otherStr", "badCode") \cup If(code = "null", "codeType")
               \cup If(code = "absent", "missingCode")
               \cup If(HasKey(es, "message") /\ ValAt(es, "message").k = "null", "messageType")
               \cup If(dt.k = "null", "detailsType")
               \cup If(HasKey(es, "Code") \/ HasKey(es, "extra"), "invalidKey")
               \cup (IF dt.k = "list" THEN UNION {DetailExpected(j, dt.x[j]) : j \in DOMAIN dt.x} ELSE {})

\* Connect: {"code": <name of a code 1..16>, "message"?: string, "details"?: [ {"type": name,
\* "value": unpadded base64, "debug"?: JSON of the message} ... ]}, no other or repeated keys
WellFormedDetail(el) ==
  /\ el.k = "obj" /\ ~DupKeys(el.e) /\ Keys(el.e) \subseteq {"type", "value", "debug"}
  /\ HasKey(el.e, "type") /\ ValAt(el.e, "type").k \in {"valid", "unknownType"}
  /\ HasKey(el.e, "value") /\ ValAt(el.e, "value").k = "b64"
  /\ HasKey(el.e, "debug") => ValAt(el.e, "debug").k \in {"agree", "agreeAny"}
WellFormedErr(top) ==
  /\ top.k = "obj" /\ ~DupKeys(top.e) /\ Keys(top.e) \subseteq {"code", "message", "details"}
  /\ HasKey(top.e, "code") /\ ValAt(top.e, "code").k = "codeName"
  /\ HasKey(top.e, "message") => ValAt(top.e, "message").k = "str"
  /\ HasKey(top.e, "details") => /\ ValAt(top.e, "details").k = "list"
                                 /\ \A j \in DOMAIN ValAt(top.e, "details").x : WellFormedDetail(ValAt(top.e, "details").x[j])

\* the value bytes are only looked at to compare them with "debug"; a detail whose bytes are
\* not a message of the named type passes when there is no debug rendering (or no way to resolve it)
AsImplemented_DetailValueUncheckedWithoutDebug(el) ==
  /\ el.k = "obj" /\ HasKey(el.e, "value") /\ ValAt(el.e, "value").k = "junk" /\ ~HasKey(el.e, "debug")
  /\ WellFormedDetail([el EXCEPT !.e = [i \in DOMAIN el.e |->
                          IF el.e[i].key = "value" THEN E("value", V("b64")) ELSE el.e[i]]])
\* conversely a debug rendering next to a type the client cannot resolve is reported as
\* "could not check" although nothing is known to be wrong
AsImplemented_UnresolvableDebugIsFeedback(el) ==
  /\ WellFormedDetail(el) /\ ValAt(el.e, "type").k = "unknownType" /\ HasKey(el.e, "debug")
DetailAccepted(el) == (WellFormedDetail(el) /\ ~AsImplemented_UnresolvableDebugIsFeedback(el))
                      \/ AsImplemented_DetailValueUncheckedWithoutDebug(el)
ErrAccepted(top) ==
  /\ top.k = "obj" /\ ~DupKeys(top.e) /\ Keys(top.e) \subseteq {"code", "message", "details"}
  /\ HasKey(top.e, "code") /\ ValAt(top.e, "code").k = "codeName"
  /\ HasKey(top.e, "message") => ValAt(top.e, "message").k = "str"
  /\ HasKey(top.e, "details") => /\ ValAt(top.e, "details").k = "list"
                                 /\ \A j \in DOMAIN ValAt(top.e, "details").x : DetailAccepted(ValAt(top.e, "details").x[j])

(* ======================= 6. Connect end-stream JSON ============================== *)
(* entries:  "error"    : err (x = a JSON text of section 5) | null | str | num | arr
             "metadata" : map (x = sequence of [name, v]) | null | str | num | arr
                           name : lower | upper | badName (not 1*tchar) | emptyName
                           v    : list (x = sequence over {"ok", "ctl", "null", "num"}) | null | str | num | obj
             "extra"    : str | null | objDup                                                    *)
VErr(t)     == [k |-> "err", x |-> <<t>>]     \* (a one-element sequence: payloads are sequences throughout)
VMap(ents)  == [k |-> "map", x |-> ents]
ME(name, v) == [name |-> name, v |-> v]

MetaTypeError(m) == \E i \in DOMAIN m : (m[i].v.k \in {"str", "num", "obj"})
                                         \/ (m[i].v.k = "list" /\ "num" \in Range(m[i].v.x))
MetaDup(m) == \E i, j \in DOMAIN m : i < j /\ m[i].name = m[j].name
TopNestedDup(t) == t.k = "obj" /\ (DupKeys(t.e) \/ ErrNestedDup(t.e))

EsExpected(top) ==
  IF top.k = "null" THEN {"es.notObject"}
  ELSE IF top.k # "obj" THEN {"es.jsonError"}
  ELSE LET es == top.e IN
       IF \E i \in DOMAIN es : es[i].key = "metadata" /\
             (es[i].v.k \in {"str", "num", "arr"} \/ (es[i].v.k = "map" /\ MetaTypeError(es[i].v.x)))
         THEN {"es.jsonError"}
       ELSE IF DupKeys(es)
               \/ (\E i \in DOMAIN es : (es[i].v.k = "objDup")
                                        \/ (es[i].v.k = "map" /\ MetaDup(es[i].v.x))
                                        \/ (es[i].v.k = "err" /\ TopNestedDup(es[i].v.x[1])))
         THEN {"es.dupKey"}
       ELSE LET er == IF HasKey(es, "error") THEN ValAt(es, "error") ELSE V("absent")
                md == IF HasKey(es, "metadata") THEN ValAt(es, "metadata") ELSE V("absent")
                m  == IF md.k = "map" THEN md.x ELSE <<>>
            IN If(er.k \notin {"absent", "err"} \/ (er.k = "err" /\ er.x[1].k # "obj"), "es.errorType")
               \cup If(md.k = "null", "es.metadataType")
               \cup If(HasKey(es, "extra"), "es.invalidKey")
               \cup If(\E i \in DOMAIN m : m[i].name \in {"badName", "emptyName"}, "es.badName")
               \cup If(\E i \in DOMAIN m : m[i].v.k = "null", "es.metaValueType")
               \cup If(\E i \in DOMAIN m : m[i].v.k = "list" /\ "null" \in Range(m[i].v.x), "es.metaElemType")
               \cup If(\E i \in DOMAIN m : m[i].v.k = "list" /\ "ctl" \in Range(m[i].v.x), "es.badValue")
               \cup (IF er.k = "err" /\ er.x[1].k = "obj" THEN ErrExpected(er.x[1]) ELSE {})

\* Connect: {"error"?: <error object>, "metadata"?: {<field name>: [<field value>...]...}}
WellFormedEs(top) ==
  /\ top.k = "obj" /\ ~DupKeys(top.e) /\ Keys(top.e) \subseteq {"error", "metadata"}
  /\ HasKey(top.e, "error") => ValAt(top.e, "error").k = "err" /\ WellFormedErr(ValAt(top.e, "error").x[1])
  /\ HasKey(top.e, "metadata") =>
       /\ ValAt(top.e, "metadata").k = "map"
       /\ LET m == ValAt(top.e, "metadata").x IN
          /\ ~MetaDup(m)
          /\ \A i \in DOMAIN m : /\ m[i].name \in {"lower", "upper"}
                                 /\ m[i].v.k = "list" /\ Range(m[i].v.x) \subseteq {"ok"}
EsAccepted(top) ==
  /\ top.k = "obj" /\ ~DupKeys(top.e) /\ Keys(top.e) \subseteq {"error", "metadata"}
  /\ HasKey(top.e, "error") => ValAt(top.e, "error").k = "err" /\ ErrAccepted(ValAt(top.e, "error").x[1])
  /\ HasKey(top.e, "metadata") =>
       /\ ValAt(top.e, "metadata").k = "map"
       /\ LET m == ValAt(top.e, "metadata").x IN
          /\ ~MetaDup(m)
          /\ \A i \in DOMAIN m : /\ m[i].name \in {"lower", "upper"}
                                 /\ m[i].v.k = "list" /\ Range(m[i].v.x) \subseteq {"ok"}

(* ======================= 7. binary metadata ===================================== *)
(* entries [name, vals]: name  plain | bin | BIN (mixed-case "-Bin") | statusDetails
                         vals  sequence over {"raw", "padded", "bad"}
   Values of "-bin" keys are base64; unpadded is what servers should emit.  The first undecodable
   value ends the examination (AsImplemented_BinStopsAtFirstBad): later values go unexamined.    *)
BinFlat(ents) == Flatten([i \in DOMAIN ents |->
                   IF ents[i].name \in {"bin", "BIN"} THEN ents[i].vals ELSE <<>>])
BinExpected(ents) ==
  LET f == BinFlat(ents)
      firstBad == IF "bad" \in Range(f) THEN CHOOSE i \in DOMAIN f : f[i] = "bad" /\ \A j \in 1..(i - 1) : f[j] # "bad"
                  ELSE Len(f) + 1
  IN If(firstBad <= Len(f), "binBad") \cup If(\E i \in 1..(firstBad - 1) : f[i] = "padded", "binPadded")
WellFormedBin(ents) == Range(BinFlat(ents)) \subseteq {"raw"}

(* ======================= 8. dispatch =========================================== *)
(* Which examiner looks at which part of a response.  A response is abstracted to
     ct       content-type family: json | proto | connectStream | grpcWeb | grpcWebPlus | grpc | grpcPlus
              | grpcOther ("application/grpc" followed by something else than "+" or "-web") | other | none
     ok       HTTP status is 200
     es       an end-stream message was seen in the body
     data     a (non end-stream) message was seen in the body
     tr       HTTP trailers: none | declared (keys without values) | present
     err      the exchange ended with a transport error
   The harness plants a recognisable malformation in each part, so that the set of classes that
   comes back tells which examiners ran:
     body (unary error JSON)   {"code":"bogus"}                 -> badCode
     end-stream (Connect)      the text below is not JSON       -> es.jsonError
     end-stream (gRPC-Web)     "X-Probe: 1\r\n"                 -> upperKey, then the trio on its
                               fields (no grpc-status)          -> statusMissing
     headers                   grpc-status: 17                  -> statusRange
     trailers (present)        grpc-status: abc                 -> statusNonInt
     trailers (declared)       no values at all                 -> statusMissing                  *)
TrailersOnly(r) == ~r.err /\ r.tr # "present" /\ ~r.data
GrpcFamily   == {"grpc", "grpcPlus", "grpcOther"}
DispatchExpected(r) ==
  (CASE r.ct = "json" /\ ~r.ok            -> {"badCode"}
     [] r.ct = "connectStream"            -> If(r.es, "es.jsonError")
     [] r.ct \in {"grpcWeb", "grpcWebPlus"} -> IF r.es THEN {"upperKey", "statusMissing"}
                                               ELSE If(TrailersOnly(r), "statusRange")
     [] r.ct \in GrpcFamily               -> IF TrailersOnly(r) THEN {"statusRange"}
                                             ELSE IF r.tr = "present" THEN {"statusNonInt"}
                                             ELSE If(r.tr = "declared", "statusMissing")
     [] OTHER                             -> {})
  \cup If(r.ct \notin {"grpc", "grpcPlus"} /\ r.tr # "none", "httpTrailers")

\* a gRPC response that has a body but no trailers at all carries no status, and nobody says so
AsImplemented_GrpcBodyWithoutTrailersUnexamined(r) ==
  r.ct \in GrpcFamily /\ ~TrailersOnly(r) /\ r.tr = "none"

(* ======================= 9. what spec-conformant encoders emit ==================== *)
(* An error as the application hands it to an encoder:
     code 1..16, message = sequence over message byte classes, nd details, metadata entries.
   Message byte classes:  g printable ASCII (no SP, no '%')   s SP   p '%'   c control byte or DEL
                          h multi-byte UTF-8 character
   A conformant gRPC encoder percent-encodes p, c, h (and may leave g, s alone); the result is
   WellEncoded, the trio is WellFormedTrio, hence nothing may be reported: EmitExpected = {}.
   The same holds for the Connect renderings (JSON error / end-stream), whatever the content.    *)
MSym == {"g", "s", "p", "c", "h"}
EncodeMsg(m) == Flatten([i \in DOMAIN m |-> IF m[i] \in {"p", "c", "h"} THEN <<"p", "x", "x">> ELSE <<m[i]>>])
EmitTrio(code, m, nd) ==
  [st  |-> [k |-> "int", v |-> code, plus |-> FALSE],
   msg |-> [k |-> "val", s |-> EncodeMsg(m), dup |-> FALSE],
   det |-> IF nd = 0 THEN [k |-> "absent"]
           ELSE [k |-> "val", dup |-> FALSE, enc |-> "raw", parse |-> TRUE, code |-> code, rel |-> "same", nd |-> nd]]
EmitJob(pth, code, m, nd) ==
  LET t == EmitTrio(code, m, nd)
  IN [kind |-> pth, code |-> code, m |-> m, nd |-> nd, st |-> t.st, msg |-> t.msg, det |-> t.det, mal |-> "none"]
\* the statement: no feedback for anything the reference server emits
EmitRequired == {}
\* ... which the protocol documents themselves make unreachable for one shape: a message with SP
\* at either end, sent with details inside a gRPC-Web trailer block (the field-line reader drops
\* the SP, the Status proto keeps it)
EmitConflict(jb) == jb.kind = "emitWeb" /\ jb.nd > 0 /\ jb.m # <<>> /\ (Head(jb.m) = "s" \/ Last(jb.m) = "s")

(* ======================= 10. all examiners ===================================== *)
Expected(jb) ==
  CASE jb.kind = "block"    -> BlockExpected(jb.s)
    [] jb.kind = "pct"      -> If(PctClass(jb.s) # "ok", PctClass(jb.s))
    [] jb.kind \in {"trio", "emitHdr"} -> TrioExpected(jb.st, jb.msg, jb.det)
    [] jb.kind \in {"web", "emitWeb"}  -> WebExpected(jb.st, jb.msg, jb.det, jb.mal)
    [] jb.kind = "err"      -> ErrExpected(jb.top)
    [] jb.kind = "es"       -> EsExpected(jb.top)
    [] jb.kind = "bin"      -> BinExpected(jb.ents)
    [] jb.kind = "dispatch" -> DispatchExpected(jb.r)

\* the documents' grammar, or a listed leniency
Accepted(jb) ==
  CASE jb.kind = "block"    -> WellFormedBlock(jb.s)
    [] jb.kind = "pct"      -> WellEncoded(jb.s)
    [] jb.kind \in {"trio", "emitHdr"} -> TrioAccepted(jb.st, jb.msg, jb.det)
    [] jb.kind \in {"web", "emitWeb"}  -> /\ WellFormedBlock(WebBlock(jb.st, jb.msg, jb.det, jb.mal))
                                          /\ TrioAccepted(jb.st, WebMsg(jb.msg), WebDet(jb.msg, jb.det))
    [] jb.kind = "err"      -> ErrAccepted(jb.top)
    [] jb.kind = "es"       -> EsAccepted(jb.top)
    [] jb.kind = "bin"      -> WellFormedBin(jb.ents)
    [] OTHER                -> Expected(jb) = {}

=============================================================================
