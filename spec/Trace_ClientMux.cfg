CONSTANTS
  Senders = {"s1", "s2"}
  Script <- ScriptB
  Names = {"a", "b", "c"}
  MaxCliOps = 1000
  FaultKinds = {"garbage", "oversize", "trunc", "closein", "waitabort", "closeout", "stall"}
  AllowZZ = TRUE
  AllowEarly = TRUE
  AnyName = TRUE
  KeepHist = FALSE
INIT TInit
NEXT TNext
INVARIANTS AtMostOnce ExactlyOnceAtEnd Accepted
