CONSTANTS
  Family = "pair"
  Lits = {"a", "b"}
  MaxPat = 5
  MinName = 1
  MaxName = 5
  MaxSet = 1
  SimNames = 0
  SimSets = 0
INIT Init
NEXT Next
INVARIANTS Emit
