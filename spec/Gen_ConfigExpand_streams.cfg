\* all 32 stream-type subsets x all version subsets
CONSTANTS
  NZ = 6
  AxisVs <- AllVs
  AxisPs = {{}, {2}}
  AxisCs = {{}}
  AxisZs = {{}}
  AxisSs <- AllSs
  TriH2c = {"unset", "false"}
  TriTls <- Tri
  TriCerts = {"unset"}
  TriTrailers = {"unset"}
  TriHdh1 <- Tri
  TriGet = {"unset"}
  TriLim = {"unset"}
  EntryPool = {}
  MaxInc = 0
  MaxExc = 0
INIT GenInit
NEXT GenNext
INVARIANTS Emit
