CONSTANTS
  Variant = "closeNoFlush"
  EncSet = {"identity", "gzip", "br", "zstd", "deflate", "snappy"}
  Sides = {"D", "C"}
  Grammars = {"free", "pool", "tracer", "raw"}
  Discipline = "first"
  MaxOps = 0
  MaxRd = 2
  MaxW = 2
  KeepHist = FALSE
INIT Init
NEXT Next
INVARIANTS Conforms

