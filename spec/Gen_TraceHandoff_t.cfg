CONSTANTS
  Names = {"a", "b"}
  Waiters = {"w1", "w2"}
  MaxOps = 5
  MaxGen = 5
  KeepHist = TRUE
INIT Init
NEXT Next
INVARIANTS GotRight Emit
