CONSTANTS
  NR = 2
  Kinds = {"unbounded"}
  Binds = {"free", "fixed", "taken"}
  CfgKinds = {"good", "bad", "unsup", "trunc"}
  AnnounceFirst = TRUE
  KeepHist = TRUE
  DeepModes = {TRUE, FALSE}
INIT GInit
NEXT GNext
INVARIANTS TypeOK OneResponse ReturnedMeansStopped Emit
