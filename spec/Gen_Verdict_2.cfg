CONSTANTS
  N = 2
INIT Init
NEXT Next
INVARIANTS Agrees Emit
