\* design check with entries: one exclude from the full core pool (576 entries) x 12 axis sets x 8 flag seeds
CONSTANTS
  NZ = 2
  AxisVs <- EntVs
  AxisPs = {{}}
  AxisCs = {{}}
  AxisZs = {{}}
  AxisSs <- EntSs2
  TriH2c = {"unset", "false"}
  TriTls = {"unset", "false"}
  TriCerts = {"unset"}
  TriTrailers = {"unset"}
  TriHdh1 = {"unset", "true"}
  TriGet = {"unset"}
  TriLim = {"unset"}
  EntryPool <- EntryCorePool
  MaxInc = 0
  MaxExc = 1
INIT Init
NEXT Next
VIEW View
INVARIANTS TypeOK Agrees Exact ResolveAgrees AccInv MustImpliesEmpty
