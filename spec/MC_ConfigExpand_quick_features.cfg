\* design check (quick tier), features only: all version subsets x 4 protocol sets x 5 stream sets x 108 flag seeds
CONSTANTS
  NZ = 2
  AxisVs <- AllVs
  AxisPs <- ProtoSome
  AxisCs = {{}}
  AxisZs = {{}}
  AxisSs <- StreamSome
  TriH2c <- Tri
  TriTls <- Tri
  TriCerts <- Tri
  TriTrailers = {"unset", "false"}
  TriHdh1 = {"unset", "true"}
  TriGet = {"unset"}
  TriLim = {"unset"}
  EntryPool = {}
  MaxInc = 0
  MaxExc = 0
INIT Init
NEXT Next
VIEW View
INVARIANTS TypeOK Agrees Exact ResolveAgrees AccInv AllPossible FeaturesNonEmpty DefaultsNeverContradict CodeInjective WildcardEntryIsFeatures
