CONSTANTS
  MaxItems = 2
  FlagSet = {0, 255, 256}
  LenSet = {0, 1}
  PSet = {"absent", "nil", "empty", "a"}
  ZSet = {1, 2}
  SinkKinds = {"buffer", "pipe"}
  AdoptClose = FALSE
SPECIFICATION Spec
INVARIANTS Exact OnlyRangeErrors SinkStaysOpen RoundTrip Misaligned Prefixes
PROPERTIES Terminates
