------------------------------ MODULE Gen_CLI ------------------------------
(* Generator for G4: every command line of the bounded domain (all lines that differ from one of the
   five base lines in at most MaxDev fields - with MaxDev = 2 every pair of field values occurs on top
   of every base) together with the outcome the DECLARATIVE contract requires (Outcome, not the
   machine).  One step per line, so that the workers share the evaluation.                          *)
EXTENDS CLI, Json

GenNext == /\ pc = "parse" /\ pc' = "done" /\ res' = Outcome(cl)
           /\ UNCHANGED <<cl, maxServers, ccmd, scmd, stopped>>
Emit == Done => PrintT("SCN " \o ToJson([cl |-> cl, out |-> res]))
=============================================================================
