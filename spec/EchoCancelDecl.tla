--------------------------- MODULE EchoCancelDecl ---------------------------
(* G2 (growth item attached to C02) - declarative meaning of CLIENT CANCELLATION and TIMEOUTS in a
   conformance test case: the part of the suite schema that the Echo family leaves out
   (ClientCompatRequest.cancel / timeout_ms / request_delay_ms, response_delay_ms).  Constant level only;
   shared by the machine (EchoCancel), the generator (Gen_EchoCancel) and the check.

   ABSTRACT TIME.  Durations are small naturals in "units"; only their ORDER matters (the Go side
   renders one unit as a few hundred ms).  Three magnitudes:
     0          "eps": comparable to computation (after_close_send_ms of a few ms, no delay at all):
                such a timer RACES with every step that happens at the same instant
     even k>0   response_delay_ms / request_delay_ms of the test case
     odd  k>0   the client's own timers (after_close_send_ms, timeout_ms); 99 = "far beyond the call"
   Steps take no time; time passes only when nothing else can happen (EchoCancel.Tick).  Even delays
   and odd timers never coincide, so every comparison of two long durations is strict; a tie exists
   only between an eps timer and the steps of its instant - this is the race the suites avoid "by
   their choice of delays".

   A test case T = [st, n, m, derr, rd, qd, ck, ca, to]:
     st    stream type          n requests (1 for unary / server)      m response data (1 for unary / client)
     derr  the stream definition ends with an error (after the m messages, streaming methods only)
     rd    response_delay_ms    qd request_delay_ms (streams that upload)
     ck/ca cancel: "none" | "before" (before_close_send) | "close" (after_close_send_ms = ca)
                   | "num" (after_num_responses = ca >= 1)
     to    timeout_ms (0 = unset)

   A result = [np, code, unsent]: payloads reported (always the first np of the case), error code
   ("none", "canceled", "deadline", "deferr" = the error of the definition), num_unsent_requests.

   The declarative description is a TIMELINE: Ops(T) lists the blocking operations of the documented
   client pseudocode (docs/testing_clients.md) with the instant at which each would complete if
   nothing were cancelled (service.proto: the server waits rd before every response message; a
   full-duplex server answers request i after reading it; everything else is immediate).  A
   cancellation or deadline is a CUT through that list; Allowed(T) is the set of results over all
   cuts the timing parameters admit.  It is a SET for two documented reasons:
     - an asynchronous cut (deadline; the after-close-send timer of unary / client-stream calls,
       which block in one "receive the response") ties with operations completing at its instant;
     - after the client ITSELF cancelled ("cancel the RPC (but do not return)") a later receive must
       report the cancellation, but an RPC library may first hand out messages that had already
       arrived, and accept a send issued at that very instant (grpc-go does both, connect-go
       neither): any number of them.
   AllowedStrict(T) is the subset for a library that reports the cancellation at once (connect-go,
   hence the reference client).  *)
EXTENDS Naturals, Sequences, FiniteSets

StreamTypes == {"unary", "client", "server", "half", "full"}
Single(st)  == st \in {"unary", "client"}        \* one "receive the response"
Uploads(st) == st \in {"client", "half", "full"} \* has a send loop and a close-send
Far == 99

Case(st, n, m, derr, rd, qd, ck, ca, to) ==
  [st |-> st, n |-> n, m |-> m, derr |-> derr, rd |-> rd, qd |-> qd, ck |-> ck, ca |-> ca, to |-> to]
Result(np, code, unsent) == [np |-> np, code |-> code, unsent |-> unsent]

WellFormed(T) ==
  /\ T.st \in StreamTypes
  /\ T.st \in {"unary", "server"} => T.n = 1 /\ T.qd = 0      \* request_delay_ms "can be ignored" there
  /\ Single(T.st) => T.m = 1 /\ ~T.derr
  /\ T.st = "full" => T.n <= T.m                                \* more requests than responses: Echo family
  \* the response definition travels in the first request: no request, nothing to define
  /\ T.n = 0 => T.rd = 0 /\ ~T.derr /\ (~Single(T.st) => T.m = 0)
  /\ T.ck \in {"none", "before", "close", "num"}
  /\ T.ck = "before" => Uploads(T.st)                           \* "applies only to client and bidi stream RPCs"
  /\ T.ck = "num" => ~Single(T.st) /\ T.ca >= 1                 \* "applies only to server and bidi stream RPCs"
  /\ T.ck \in {"none", "before"} => T.ca = 0
  /\ T.to # 0 => T.ck = "none"                                  \* one source of interruption per case
  /\ T.rd % 2 = 0 /\ T.qd % 2 = 0
  /\ (T.ck = "close" /\ T.ca # 0) => T.ca % 2 = 1
  /\ T.to # 0 => T.to % 2 = 1

(* ------------------------------ the timeline ------------------------------ *)
M(T) == T.m
\* request i has left the client
S(T, i) == CASE T.st \in {"unary", "server"} -> 0
             [] T.st \in {"client", "half"}  -> i * T.qd
             [] OTHER                         -> i * T.qd + (i - 1) * T.rd      \* ping-pong
\* the point of the client program where the send side is closed
C(T) == CASE T.st \in {"unary", "server"} -> 0
          [] T.st \in {"client", "half"}  -> T.n * T.qd
          [] OTHER                         -> T.n * (T.qd + T.rd)
\* response message j has reached the client (if the request stream was closed at C(T))
R(T, j) == CASE T.st = "unary"  -> T.rd
             [] T.st = "client" -> C(T) + T.rd
             [] T.st = "server" -> j * T.rd
             [] T.st = "half"   -> C(T) + j * T.rd
             [] OTHER           -> IF j <= T.n THEN j * (T.qd + T.rd) ELSE C(T) + (j - T.n) * T.rd
\* the end of the response stream (status / error) follows the last message without delay
E(T) == IF M(T) = 0 THEN C(T) ELSE R(T, M(T))

Op(k, at) == [k |-> k, at |-> at]
SendOps(T) == [i \in 1..T.n |-> Op("send", S(T, i))]
RecvOps(T, a, b) == [i \in 1..(IF b >= a THEN b + 1 - a ELSE 0) |-> Op("recv", R(T, a + i - 1))]
RECURSIVE PingPong(_, _)
PingPong(T, i) == IF i > T.n THEN <<>> ELSE <<Op("send", S(T, i)), Op("recv", R(T, i))>> \o PingPong(T, i + 1)

\* the blocking operations of the client pseudocode, in program order.  "resp" = the one receive of
\* a single-response method (payload and end together), "end" = the receive that finds the stream over
Ops(T) == CASE T.st = "unary"  -> <<Op("resp", R(T, 1))>>
            [] T.st = "client" -> SendOps(T) \o <<Op("resp", R(T, 1))>>
            [] T.st = "server" -> RecvOps(T, 1, M(T)) \o <<Op("end", E(T))>>
            [] T.st = "half"   -> SendOps(T) \o RecvOps(T, 1, M(T)) \o <<Op("end", E(T))>>
            [] OTHER           -> PingPong(T, 1) \o RecvOps(T, T.n + 1, M(T)) \o <<Op("end", E(T))>>
\* number of operations that precede "close send"
CloseIdx(T) == CASE T.st \in {"unary", "server"} -> 0
                 [] T.st \in {"client", "half"}  -> T.n
                 [] OTHER                         -> 2 * T.n
\* position of the receive that yields message j
RecvIdx(T, j) == CASE T.st = "server" -> j
                   [] T.st = "half"   -> T.n + j
                   [] OTHER           -> IF j <= T.n THEN 2 * j ELSE T.n + j

Count(ops, p, kinds) == Cardinality({q \in 1..(p - 1) : ops[q].k \in kinds})
Normal(T) == Result(IF Single(T.st) THEN 1 ELSE M(T), IF T.derr THEN "deferr" ELSE "none", 0)
\* the operation at position p is the first one that fails, with code c: payloads received so far,
\* "record the number of unsent requests" (every request whose send had not completed)
Fail(T, p, c) == LET ops == Ops(T) IN
  Result(Count(ops, p, {"recv", "resp"}), c, IF Uploads(T.st) THEN T.n - Count(ops, p, {"send"}) ELSE 0)

\* ASYNCHRONOUS cut at instant tau (timer / deadline), the operations before `from` being complete:
\* an operation completing before tau succeeds, one completing after tau fails, a tie goes either way
AsyncCut(T, tau, c, from) ==
  LET ops == Ops(T)
      L   == Len(ops)
      Past(p) == \A q \in from..(p - 1) : ops[q].at <= tau
      P   == {p \in from..(L + 1) : Past(p) /\ (p <= L => ops[p].at >= tau)}
  IN {IF p = L + 1 THEN Normal(T) ELSE Fail(T, p, c) : p \in P}

\* SYNCHRONOUS cut: the client program itself cancels between operation p-1 and operation p, at
\* instant tau; eos = the request stream had been closed before (otherwise the server of an
\* upload-then-respond or ping-pong method has nothing more to say).  Strictly, operation p fails.
\* Leniently, whatever falls on the instant of the cancellation may still succeed, one operation
\* after the other: receives whose message had arrived by tau, and - inside the send / ping-pong
\* loop - sends that the library still accepts (grpc-go queues them) with the answers they get;
\* what follows close-send needs the half-close to have gone out.
Deliverable(T, q, tau, eos) == Ops(T)[q].at <= tau /\ (q <= CloseIdx(T) \/ eos)
SyncCut(T, p, tau, eos, lenient) ==
  LET L  == Len(Ops(T))
      PS == {pp \in p..L : \A q \in p..(pp - 1) : Deliverable(T, q, tau, eos)}
  IN {Fail(T, pp, "canceled") : pp \in IF lenient THEN PS ELSE {p}}
     \cup (IF lenient /\ \A q \in p..L : Deliverable(T, q, tau, eos) THEN {Normal(T)} ELSE {})

Cuts(T, lenient) ==
  CASE T.to # 0 -> AsyncCut(T, T.to, "deadline", 1)
    [] T.ck = "none" -> {Normal(T)}
    \* "cancel instead of closing the send side, after all requests have been sent"
    [] T.ck = "before" -> SyncCut(T, CloseIdx(T) + 1, C(T), FALSE, lenient)
    \* single-response methods block in "receive the response": the cancellation is arranged
    \* asynchronously when the request stream is closed; the others "delay, then cancel" in line
    [] T.ck = "close" /\ Single(T.st) -> AsyncCut(T, C(T) + T.ca, "canceled", CloseIdx(T) + 1)
    [] T.ck = "close" -> SyncCut(T, CloseIdx(T) + 1, C(T) + T.ca, TRUE, lenient)
    \* "cancel right after reading this number of response messages" - never, if there are fewer
    [] OTHER -> IF T.ca > M(T) THEN {Normal(T)}
                ELSE SyncCut(T, RecvIdx(T, T.ca) + 1, R(T, T.ca), RecvIdx(T, T.ca) > CloseIdx(T), lenient)

Allowed(T)       == Cuts(T, TRUE)
AllowedStrict(T) == Cuts(T, FALSE)

\* the reference client (impl.go) records num_unsent_requests only when Send fails with io.EOF
\* (the server ended the call); a send or an in-loop receive that fails because the call was
\* cancelled or timed out leaves the field 0 - against the pseudocode of docs/testing_clients.md
\* ("if an error occurs: record the number of unsent requests").  Reported as finding G2-1.
AsImplemented_UnsentOnlyOnEOF(rs) == {[r EXCEPT !.unsent = 0] : r \in rs}
AllowedRef(T) == AsImplemented_UnsentOnlyOnEOF(AllowedStrict(T))

(* ------------------------------ the runner's side ------------------------------ *)
\* the expected response a suite author writes for T (or the runner derives when nothing interrupts
\* the call): the outcome of the strict reading, a cancellation rather than a lucky completion;
\* other = otherAllowedErrorCodes, the further error codes the race admits for that payload count
NpCode(r) == <<r.np, r.code>>
ExpRes(T) == LET s == AllowedStrict(T)
                 f == {r \in s : r.code \notin {"none", "deferr"}}
             IN CHOOSE r \in (IF f # {} THEN f ELSE s) : \A x \in (IF f # {} THEN f ELSE s) : r.np <= x.np
\* error details the client sees: the streaming contract appends the request info to the error of
\* a definition that has no response data; a cancellation or deadline error carries none
ErrDetails(T, code) == IF code = "deferr" /\ M(T) = 0 THEN 1 ELSE 0
Exp(T) == LET e == ExpRes(T) IN
  [np |-> e.np, code |-> e.code,
   other |-> IF e.code = "none" THEN {}
             ELSE {r.code : r \in {x \in Allowed(T) : x.np = e.np /\ ErrDetails(T, x.code) = ErrDetails(T, e.code)}} \ {e.code, "none"}]
\* results.go assert: payload count and contents, error presence, code (or one of the other allowed
\* codes), the error details of the EXPECTED error whichever code matched; num_unsent_requests is
\* NOT compared
AssertAccepts(T, e, r) == /\ r.np = e.np
                          /\ (e.code = "none") = (r.code = "none")
                          /\ r.code = e.code \/ r.code \in e.other
                          /\ ErrDetails(T, r.code) = ErrDetails(T, e.code)
\* no verdict depends on scheduling luck: every result the race admits is accepted
Deterministic(T) == \A r \in Allowed(T) : AssertAccepts(T, Exp(T), r)

(* ------------------------------ the embedded suites ------------------------------ *)
\* client_cancellation.yaml, timeouts.yaml, deadline_propagation.yaml in abstract time:
\* afterCloseSendMs 5 = eps, responseDelayMs 200 = 2 against it; timeoutMs 200 = 1 against
\* responseDelayMs 1500 = 2; timeoutMs 2000 with no delays = Far.  Value = the expectedResponse given.
SuiteCases == {
  <<"unary/cancel-after-close-send",                Case("unary", 1, 1, FALSE, 2, 0, "close", 0, 0),  0, "canceled">>,
  <<"client-stream/cancel-before-close-send",       Case("client", 2, 1, FALSE, 0, 0, "before", 0, 0), 0, "canceled">>,
  <<"client-stream/cancel-after-close-send",        Case("client", 2, 1, FALSE, 2, 0, "close", 0, 0),  0, "canceled">>,
  <<"server-stream/cancel-after-close-send",        Case("server", 1, 2, FALSE, 2, 0, "close", 0, 0),  0, "canceled">>,
  <<"server-stream/cancel-after-responses",         Case("server", 1, 2, FALSE, 2, 0, "num", 1, 0),    1, "canceled">>,
  <<"bidi-stream/full-duplex/cancel-after-responses", Case("full", 2, 2, FALSE, 2, 0, "num", 1, 0),    1, "canceled">>,
  <<"bidi-stream/full-duplex/cancel-before-close-send", Case("full", 2, 2, FALSE, 0, 0, "before", 0, 0), 2, "canceled">>,
  <<"bidi-stream/full-duplex/cancel-after-close-send", Case("full", 2, 3, FALSE, 2, 0, "close", 0, 0), 2, "canceled">>,
  <<"bidi-stream/half-duplex/cancel-after-responses", Case("half", 2, 2, FALSE, 2, 0, "num", 1, 0),    1, "canceled">>,
  <<"bidi-stream/half-duplex/cancel-before-close-send", Case("half", 2, 2, FALSE, 0, 0, "before", 0, 0), 0, "canceled">>,
  <<"bidi-stream/half-duplex/cancel-after-close-send", Case("half", 2, 2, FALSE, 2, 0, "close", 0, 0), 0, "canceled">>,
  <<"timeouts/unary",                               Case("unary", 1, 1, FALSE, 2, 0, "none", 0, 1),    0, "deadline">>,
  <<"timeouts/client-stream",                       Case("client", 2, 1, FALSE, 2, 0, "none", 0, 1),   0, "deadline">>,
  <<"timeouts/server-stream",                       Case("server", 1, 2, FALSE, 2, 0, "none", 0, 1),   0, "deadline">>,
  <<"timeouts/bidi-stream/full-duplex",             Case("full", 2, 2, FALSE, 2, 0, "none", 0, 1),     0, "deadline">>,
  <<"timeouts/bidi-stream/half-duplex",             Case("half", 2, 2, FALSE, 2, 0, "none", 0, 1),     0, "deadline">>,
  <<"deadline-propagation/unary",                   Case("unary", 1, 1, FALSE, 0, 0, "none", 0, Far),  1, "none">>,
  <<"deadline-propagation/client-stream",           Case("client", 2, 1, FALSE, 0, 0, "none", 0, Far), 1, "none">>,
  <<"deadline-propagation/server-stream",           Case("server", 1, 2, FALSE, 0, 0, "none", 0, Far), 2, "none">>,
  <<"deadline-propagation/bidi-stream/full-duplex", Case("full", 2, 2, FALSE, 0, 0, "none", 0, Far),   2, "none">> }

\* every embedded case is well-formed, its given expectation is the one the specification names,
\* and its delays rule out every race: the verdict never depends on scheduling
SuiteOK(s) == LET T == s[2] IN
  /\ WellFormed(T)
  /\ Exp(T).np = s[3] /\ Exp(T).code = s[4] /\ Exp(T).other = {}
  /\ Deterministic(T)
  /\ \E r \in Allowed(T) : NpCode(r) = <<s[3], s[4]>>
SuitesOK == \A s \in SuiteCases : SuiteOK(s)
\* ... and the same cases WITHOUT their response delay are genuinely racy where a message can be
\* in flight when the client cancels (what the delay is there for)
Undelayed(T) == [T EXCEPT !.rd = 0]
SuiteDelayMatters == \A s \in SuiteCases :
  (s[2].ck \in {"close", "num"} /\ s[2].rd # 0 /\ s[1] # "bidi-stream/full-duplex/cancel-after-responses")
     => ~Deterministic(Undelayed(s[2]))
=============================================================================
