CONSTANTS
  Senders = {"s1", "s2"}
  Script <- ScriptA
  Names = {"a", "b"}
  MaxCliOps = 2
  FaultKinds = {"garbage", "oversize", "trunc", "closein", "waitabort", "closeout"}
  AllowZZ = TRUE
  AllowEarly = TRUE
  AnyName = TRUE
  KeepHist = FALSE
SPECIFICATION SpecR
VIEW ViewR
INVARIANTS AtMostOnceA LateMeansClosedA
PROPERTIES AbsInit AbsStep StepMap RefusedLateA
