CONSTANTS
  Alphabet = {0, 10, 31, 32, 37, 48, 50, 53, 65, 70, 97, 102, 126, 127, 128, 169, 195, 255}
  MaxLen = 4
INIT Init
NEXT Next
INVARIANTS Agrees Invertible Emit EmitTable
