\* design check (quick): one suite from a directive lattice x case sets x run modes
CONSTANTS
  RunModes = {0, 1}
  CaseSets = {3, 4}
  MaxSuites = 1
  SNames = {1}
  SModes = {0, 1}
  RelPs = {1, 2, 8}
  RelVs = {1, 3}
  RelCs = {1}
  RelZs = {1, 2}
  Flags = {0, 1, 3, 4, 8}
  Cvms = {0}
  TestIdx = {1, 4}
  TestLens = {2}
  SNames2 = {}
  SModes2 = {}
  RelPs2 = {}
  RelVs2 = {}
  RelCs2 = {}
  RelZs2 = {}
  Flags2 = {}
  Cvms2 = {}
  TestIdx2 = {}
  TestLens2 = {}
INIT Init
NEXT Next
VIEW View
INVARIANTS TypeOK Correct UniqueNames Sound Partition ModeSplit NameSpells CleanIsJoin GrpcSound Progress
