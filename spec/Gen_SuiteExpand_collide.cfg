\* two suite files whose full names coincide when no axis is left open: suite A with test B/x, suite A/B with test x
\* (every combination, no stride: a duplicate full name across suites must be rejected, not silently replaced)
CONSTANTS
  RunModes = {0, 1}
  CaseSets = {2, 3}
  MaxSuites = 2
  SNames = {1}
  SModes = {0}
  RelPs = {2}
  RelVs = {2, 3}
  RelCs = {2}
  RelZs = {2}
  Flags = {0, 1}
  Cvms = {0}
  TestIdx = {1, 18}
  TestLens = {1}
  SNames2 = {3}
  SModes2 = {0}
  RelPs2 = {2}
  RelVs2 = {2, 3}
  RelCs2 = {2}
  RelZs2 = {2}
  Flags2 = {0, 1}
  Cvms2 = {0}
  TestIdx2 = {1}
  TestLens2 = {1}
  MaxRestricted = 4
INIT GInit
NEXT GNext
INVARIANTS Emit
