-------------------------- MODULE Gen_EchoCancel --------------------------
(* Scenario generator for G2.  Every test case of the bounded space is printed with what the
   SPECIFICATION says about it, computed from the timeline alone (EchoCancelDecl):
     allowed  Allowed(T): every result a conformant client may report
     strict   AllowedStrict(T): ... with a library that reports a cancellation at once
     ref      AllowedRef(T): ... as the reference client records num_unsent_requests
     exp      the expected response a suite author gives the runner (np, code, other allowed codes)
     det      no verdict depends on scheduling: the runner must pass every allowed result
     ops      the timeline itself (for reading) *)
EXTENDS EchoCancelCases, Json, TLC

VARIABLE t
GenInit == IsCase(t)
GenNext == UNCHANGED t

Line(c) == [t |-> c, allowed |-> Allowed(c), strict |-> AllowedStrict(c), ref |-> AllowedRef(c),
            exp |-> Exp(c), det |-> Deterministic(c), ops |-> Ops(c)]
Emit == PrintT("SCN " \o ToJson(Line(t)))
\* the declarative facts once more, on exactly the cases handed to the Go side
Sound == /\ WellFormed(t)
         /\ AllowedStrict(t) \subseteq Allowed(t)
         /\ ExpRes(t) \in AllowedStrict(t)
         /\ AssertAccepts(t, Exp(t), ExpRes(t))
=============================================================================
