CONSTANTS
  FlagSet = {0, 2, 3, 129, 128}
  LenSet = {0, 2}
  PcSet = {"plain", "comp", "compEmpty", "garbage"}
  EncSet = {"none", "identity", "real", "unknown"}
  HdrMode = "connect"
  SideSet = {"resp"}
  EndSet = {"eof", "err"}
  MaxEnvs = 2
  MaxTotal = 14
  ChunkSet = {6}
  MaxPost = 0
  MaxOther = 0
  Grain = "call"
  ConsultBit = TRUE
  KeepHist = TRUE
INIT Init
NEXT Next
INVARIANTS Agrees Emit
