----------------------------- MODULE ConfigExpand -----------------------------
(* C06 - the algorithm that loads a configuration file, as a machine, and the theorems that tie it
   to the declarative meaning (ConfigExpandDecl).

   Environment (Build): a configuration file is written step by step - the initial states fix the
   seven flags, PickAxes the five repeated fields, AddInclude / AddExclude append one entry.  Every
   state with pc = "features" is a complete file from which the loader may start.

   Machine (one action per step of the loader; the two loops of the loader are one action per
   iteration):
       ResolveFeatures   defaults + sequential contradiction checks          (resolveFeatures)
       ExpandFeatures    nested expansion with pruning of the features        (computeCasesFromFeatures)
       Include           resolve include #k relative to the features, add     (resolveCase, loop 1)
       Exclude           resolve exclude #k relative to the features, remove  (resolveCase, loop 2)
       Finish            empty-set rejection, hand out the set                (parseConfig tail)
   The expansion itself (OpExpand) is written as the nest of loops with one filter per `continue`,
   and entry resolution (OpResolveCase) as "substitute the given fields into a copy of the
   features, then expand that" - the operational counterparts of the declarative table
   comprehensions FeatureCases / EntryCases.

   Theorems checked by TLC (MC_ConfigExpand*.cfg):
     Agrees, Exact, AccInv      machine == declarative meaning, for every configuration of the domain
     AllPossible, MustImpliesEmpty, WildcardEntryIsFeatures, FeaturesNonEmpty,
     DefaultsNeverContradict, Monotone, IncludeThenExclude, CodeInjective      laws of the meaning *)
EXTENDS ConfigExpandDecl, TLC

CONSTANTS AxisVs, AxisPs, AxisCs, AxisZs, AxisSs,   \* pools of axis subsets (sets of sets)
          TriH2c, TriTls, TriCerts, TriTrailers, TriHdh1, TriGet, TriLim,   \* tri-state pools per flag
          EntryPool,                                \* set of entries (records of EntryDom)
          MaxInc, MaxExc                            \* list lengths 0..MaxInc / 0..MaxExc

VARIABLES cfg,      \* the configuration file (grows during Build, fixed once the loader has started)
          pc,       \* "pick" | "features" | "expand" | "include" | "exclude" | "finish" | "done"
          feat,     \* resolved features (or Null)
          acc,      \* accumulated set of cases
          ix,       \* index of the next include / exclude entry
          out       \* the observation handed to the caller (or Null)
vars == <<cfg, pc, feat, acc, ix, out>>

Null == [kind |-> "null"]

(* ------------------------- operational: resolveFeatures ------------------------- *)
Err(class) == [ok |-> FALSE, class |-> class]
Ok(val)    == [ok |-> TRUE, val |-> val]

OpResolveFeatures(f) ==
  LET g     == Flags(f)
      canH2 == g.tls \/ g.h2c
      vs    == IF f.vs = {} THEN (IF canH2 THEN {H1, H2} ELSE {H1}) ELSE f.vs
      onlyH1 == H2 \notin vs /\ H3 \notin vs
      ps    == IF f.ps = {} THEN (IF g.trailers /\ H2 \in vs THEN {CONNECT, GRPC, GRPCWEB} ELSE {CONNECT, GRPCWEB})
               ELSE f.ps
      ss    == IF f.ss = {} THEN (IF onlyH1 THEN (IF g.hdh1 THEN {UNARY, CLIENTS, SERVERS, HALFDUP}
                                                            ELSE {UNARY, CLIENTS, SERVERS})
                                            ELSE StreamTypes)
               ELSE f.ss
  IN      IF g.certs /\ ~g.tls                               THEN Err("certs-without-tls")
     ELSE IF f.vs # {} /\ f.h2c = "true" /\ H2 \notin f.vs   THEN Err("h2c-without-h2")
     ELSE IF H3 \in vs /\ ~g.tls                             THEN Err("h3-without-tls")
     ELSE IF H2 \in vs /\ ~canH2                             THEN Err("h2-without-tls-or-h2c")
     ELSE IF GRPC \in f.ps /\ ~g.trailers                    THEN Err("grpc-without-trailers")
     ELSE IF GRPC \in f.ps /\ H2 \notin vs                   THEN Err("grpc-without-h2")
     ELSE IF FULLDUP \in f.ss /\ onlyH1                      THEN Err("fullduplex-h1-only")
     ELSE IF HALFDUP \in f.ss /\ onlyH1 /\ ~g.hdh1           THEN Err("halfduplex-h1-only")
     ELSE Ok([vs |-> vs, ps |-> ps,
              cs |-> IF f.cs = {} THEN {PROTO, JSON} ELSE f.cs,
              zs |-> IF f.zs = {} THEN {1, 2} ELSE f.zs,
              ss |-> ss,
              h2c |-> g.h2c, tls |-> g.tls, certs |-> g.certs, trailers |-> g.trailers,
              hdh1 |-> g.hdh1, get |-> g.get, lim |-> g.lim])

(* --------------------- operational: computeCasesFromFeatures --------------------- *)
\* X = the (possibly substituted) features whose axes are looped over; tlsR/certR/limR the boolean
\* loops.  One filter per `continue` of the loop nest, at the nesting depth where it sits.
OpExpand(X, tlsR, certR, limR) ==
  UNION { UNION { UNION { UNION { UNION {
    {[v |-> v, p |-> p, c |-> c, z |-> z, s |-> s, tls |-> t, cert |-> ce, get |-> ge, lim |-> li] :
        c \in X.cs \ {TEXT}, z \in X.zs,
        ge \in (IF p = CONNECT /\ X.get THEN {FALSE, TRUE} ELSE {FALSE}),
        li \in limR}
    : s  \in {s1 \in X.ss : /\ ~(s1 = HALFDUP /\ ~X.hdh1 /\ v = H1)
                            /\ ~(s1 = FULLDUP /\ v = H1)} }
    : p  \in {p1 \in X.ps : ~(p1 = GRPC /\ v # H2)} }
    : ce \in {c1 \in certR : ~(c1 /\ ~t)} }
    : t  \in {t1 \in tlsR : ~(~t1 /\ (v = H3 \/ (v = H2 /\ ~X.h2c)))} }
    : v  \in X.vs }

OpExpandFeatures(G) == OpExpand(G, BoolRange(G.tls), BoolRange(G.certs), BoolRange(G.lim))

(* --------------------------- operational: resolveCase --------------------------- *)
Only(S, x) == S # {} /\ S \subseteq {x}

OpResolveCase(G, e) ==
  LET usingTLS == e.tls = "true" \/ (e.tls = "unset" /\ G.tls)
      vs  == IF e.v # 0 THEN {e.v} ELSE G.vs
      X   == [G EXCEPT !.vs = vs,
                       !.ps = IF e.p # 0 THEN {e.p} ELSE G.ps,
                       !.cs = IF e.c # 0 THEN {e.c} ELSE G.cs,
                       !.zs = IF e.z # 0 THEN {e.z} ELSE G.zs,
                       !.ss = IF e.s # 0 THEN {e.s} ELSE G.ss]
      tlsGiven == IF e.tls = "unset" THEN {} ELSE {e.tls = "true"}
      tlsR  == IF e.tls  = "unset" THEN BoolRange(G.tls)   ELSE tlsGiven
      certR == IF e.cert = "unset" THEN BoolRange(G.certs) ELSE {e.cert = "true"}
      limR  == IF e.lim  = "unset" THEN BoolRange(G.lim)   ELSE {e.lim = "true"}
  IN      IF e.v = H2 /\ ~usingTLS /\ ~G.h2c                 THEN Err("h2-without-tls-or-h2c")
     ELSE IF e.v = H3 /\ ~usingTLS                           THEN Err("h3-without-tls")
     ELSE IF e.p = GRPC /\ H2 \notin vs                      THEN Err("grpc-without-h2")
     ELSE IF e.s = HALFDUP /\ ~G.hdh1 /\ Only(vs, H1)        THEN Err("halfduplex-h1-only")
     ELSE IF e.s = FULLDUP /\ Only(vs, H1)                   THEN Err("fullduplex-h1-only")
     ELSE IF e.cert = "true" /\ e.tls = "false"              THEN Err("certs-with-tls-off")
     ELSE IF e.cert = "true" /\ TRUE \notin tlsGiven /\ ~G.tls THEN Err("certs-without-tls")
     ELSE Ok(OpExpand(X, tlsR, certR, limR))

(* ------------------------------ the loader machine ------------------------------ *)
\* The configuration is built in steps so that TLC's workers share the work and so that random walks
\* (-simulate) produce long entry lists: the initial states fix the flags, PickAxes the five
\* repeated fields, AddInclude / AddExclude append one entry.  Every state with pc = "features" is a
\* complete configuration file; the loader may start from any of them.
Init == /\ cfg \in [f : [vs : {{}}, ps : {{}}, cs : {{}}, zs : {{}}, ss : {{}},
                         h2c : TriH2c, tls : TriTls, certs : TriCerts, trailers : TriTrailers,
                         hdh1 : TriHdh1, get : TriGet, lim : TriLim],
                    inc : {<<>>}, exc : {<<>>}]
        /\ pc = "pick" /\ feat = Null /\ acc = {} /\ ix = 1 /\ out = Null

PickAxes ==
  /\ pc = "pick"
  /\ \E vs \in AxisVs, ps \in AxisPs, cs \in AxisCs, zs \in AxisZs, ss \in AxisSs :
        cfg' = [cfg EXCEPT !.f = [cfg.f EXCEPT !.vs = vs, !.ps = ps, !.cs = cs, !.zs = zs, !.ss = ss]]
  /\ pc' = "features"
  /\ UNCHANGED <<feat, acc, ix, out>>

AddInclude ==
  /\ pc = "features" /\ Len(cfg.inc) < MaxInc /\ cfg.exc = <<>>
  /\ \E e \in EntryPool : cfg' = [cfg EXCEPT !.inc = Append(cfg.inc, e)]
  /\ UNCHANGED <<pc, feat, acc, ix, out>>

AddExclude ==
  /\ pc = "features" /\ Len(cfg.exc) < MaxExc
  /\ \E e \in EntryPool : cfg' = [cfg EXCEPT !.exc = Append(cfg.exc, e)]
  /\ UNCHANGED <<pc, feat, acc, ix, out>>

Build == PickAxes \/ AddInclude \/ AddExclude

ResolveFeatures ==
  /\ pc = "features"
  /\ LET r == OpResolveFeatures(cfg.f) IN
       IF r.ok THEN /\ feat' = r.val /\ pc' = "expand" /\ UNCHANGED out
               ELSE /\ out' = [kind |-> "feature-error", class |-> r.class] /\ pc' = "done" /\ UNCHANGED feat
  /\ UNCHANGED <<cfg, acc, ix>>

ExpandFeatures ==
  /\ pc = "expand"
  /\ acc' = OpExpandFeatures(feat)
  /\ pc' = "include" /\ ix' = 1
  /\ UNCHANGED <<cfg, feat, out>>

Include ==
  /\ pc = "include"
  /\ IF ix > Len(cfg.inc)
       THEN pc' = "exclude" /\ ix' = 1 /\ UNCHANGED <<acc, out>>
       ELSE LET r == OpResolveCase(feat, cfg.inc[ix]) IN
            IF r.ok THEN /\ acc' = acc \cup r.val /\ ix' = ix + 1 /\ UNCHANGED <<pc, out>>
                    ELSE /\ out' = [kind |-> "entry-error", pos |-> ix, class |-> r.class]
                         /\ pc' = "done" /\ UNCHANGED <<acc, ix>>
  /\ UNCHANGED <<cfg, feat>>

Exclude ==
  /\ pc = "exclude"
  /\ IF ix > Len(cfg.exc)
       THEN pc' = "finish" /\ UNCHANGED <<acc, ix, out>>
       ELSE LET r == OpResolveCase(feat, cfg.exc[ix]) IN
            IF r.ok THEN /\ acc' = acc \ r.val /\ ix' = ix + 1 /\ UNCHANGED <<pc, out>>
                    ELSE /\ out' = [kind |-> "entry-error", pos |-> Len(cfg.inc) + ix, class |-> r.class]
                         /\ pc' = "done" /\ UNCHANGED <<acc, ix>>
  /\ UNCHANGED <<cfg, feat>>

Finish ==
  /\ pc = "finish"
  /\ out' = IF acc = {} THEN [kind |-> "empty-error"]
                        ELSE [kind |-> "cases", cases |-> Codes(acc), dups |-> 0]
  /\ pc' = "done"
  /\ UNCHANGED <<cfg, feat, acc, ix>>

Next == Build \/ ResolveFeatures \/ ExpandFeatures \/ Include \/ Exclude \/ Finish
Spec == Init /\ [][Next]_vars

(* ----------------------------------- theorems ----------------------------------- *)
TypeOK == /\ pc \in {"pick", "features", "expand", "include", "exclude", "finish", "done"}
          /\ acc \subseteq Case
          /\ ix \in 1..(MaxInc + MaxExc + 1)

\* the machine's verdict conforms to the declarative meaning
Agrees == (pc = "done") => Conforms(out, cfg)

\* ... and it is exact where the meaning leaves a choice: the loader rejects an entry only for a
\* directly broken clause, and reports the first such entry in file order (includes first)
Exact == (pc = "done" /\ FeatErrs(cfg.f) = {}) =>
           LET G  == Resolve(cfg.f)
               es == Entries(cfg)
               bad == {i \in DOMAIN es : EntryMust(G, es[i]) # {}}
           IN IF bad = {} THEN out.kind \in {"cases", "empty-error"}
                          ELSE out.kind = "entry-error" /\ out.pos = Min(bad)

\* the operational defaults are the declarative ones
ResolveAgrees == (pc \notin {"pick", "features"} /\ feat # Null) => (feat = Resolve(cfg.f) /\ FeatErrs(cfg.f) = {})

\* loop invariant of the two loops: the accumulator is the declarative meaning of the prefix
AccInv ==
  /\ (pc = "include") => acc = FeatureCases(feat) \cup EntryUnion(feat, SubSeq(cfg.inc, 1, ix - 1))
  /\ (pc = "exclude") => acc = (FeatureCases(feat) \cup EntryUnion(feat, cfg.inc)) \ EntryUnion(feat, SubSeq(cfg.exc, 1, ix - 1))
  /\ (pc = "finish")  => acc = Result(feat, cfg)

\* ---- laws of the declarative meaning, evaluated once per configuration (in the initial state) ----
AtStart(P) == (pc = "features") => P
Valid      == FeatErrs(cfg.f) = {}
RF         == Resolve(cfg.f)

\* every resulting case is internally possible, whatever includes/excludes say
AllPossible == AtStart(Valid => \A c \in Result(RF, cfg) : Possible(c, RF) /\ c \in Case)

\* the list of directly contradictory entries is sound: such an entry matches nothing
MustImpliesEmpty == AtStart(Valid => \A i \in DOMAIN Entries(cfg) :
                              EntryMust(RF, Entries(cfg)[i]) # {} => EntryCases(RF, Entries(cfg)[i]) = {})

\* an entry with every field omitted denotes exactly the cases of the features
WildcardEntryIsFeatures == AtStart(Valid => EntryCases(RF, AnyEntry) = FeatureCases(RF))

\* the list of feature contradictions is complete for emptiness: consistent features that name a
\* usable codec always imply at least one case
FeaturesNonEmpty == AtStart((Valid /\ RF.cs \cap Codecs # {}) => FeatureCases(RF) # {})

\* an assumed (defaulted) value never contradicts a declared one
DefaultsNeverContradict ==
  AtStart(LET f == cfg.f
              g == [f EXCEPT !.vs = {}, !.ps = {}, !.ss = {}]
          IN /\ FeatErrs(g) \subseteq {"certs-without-tls"}
             /\ (f.vs = {} => FeatErrs(f) \cap {"h3-without-tls", "h2-without-tls-or-h2c", "h2c-without-h2"} = {})
             /\ (f.ps = {} => FeatErrs(f) \cap {"grpc-without-trailers", "grpc-without-h2"} = {})
             /\ (f.ss = {} => FeatErrs(f) \cap {"fullduplex-h1-only", "halfduplex-h1-only"} = {}))

\* monotone in includes, antitone in excludes (dropping the last entry of either list)
Front(s) == SubSeq(s, 1, Len(s) - 1)
Monotone ==
  AtStart(Valid =>
    /\ (cfg.inc # <<>> => Result(RF, [cfg EXCEPT !.inc = Front(cfg.inc)]) \subseteq Result(RF, cfg))
    /\ (cfg.exc # <<>> => Result(RF, cfg) \subseteq Result(RF, [cfg EXCEPT !.exc = Front(cfg.exc)])))

\* excluding what was included removes exactly that entry's cases; excludes win over includes
IncludeThenExclude ==
  AtStart(Valid => \A i \in DOMAIN cfg.inc :
     LET e == cfg.inc[i] IN
     Result(RF, [cfg EXCEPT !.exc = Append(cfg.exc, e)]) = Result(RF, cfg) \ EntryCases(RF, e))

\* the integer code is a faithful name of a case
CodeInjective == AtStart(Valid => LET S == Result(RF, cfg) IN Cardinality(Codes(S)) = Cardinality(S))

\* history variables do not multiply states
View == <<cfg, pc, ix>>
=============================================================================
