CONSTANTS
  Family = "filter"
  Lits = {"a", "b"}
  MaxPat = 2
  MinName = 1
  MaxName = 4
  MaxSet = 1
  SimNames = 0
  SimSets = 0
INIT Init
NEXT Next
INVARIANTS Emit
