---------------------------- MODULE ConvertDecl ----------------------------
(* C18 - declarative meaning of the conversions between the forms in which the conformance
   tool carries errors, metadata, status messages and conformance messages.  Constant-level
   only; shared by the machines (ConvertHdr, ConvertErr, ConvertPct, ConvertCodec), by their
   behaviour generators (the Gen_Convert modules) and by the acceptor of recorded executions
   (Trace_Convert).

   What is abstract and what is not:
     * header NAMES are records <<base, style, bin>>; the harness renders them ("x-a", "X-A",
       "x-A-BIN", ...) and checks that Lower/Canon below are strings.ToLower /
       http.CanonicalHeaderKey on the rendered names;
     * header VALUES are terms  Txt(i) | Bytes(i) | B64(v, pad) : base64 is an uninterpreted
       injective constructor, so "encoded exactly once" is a statement about term depth;
     * status messages are sequences of byte values 0..255 (the percent-encoding law is byte
       level, so bytes are concrete here);
     * an RPC error is <<code, message class, details>>, a detail <<type-URL prefix, type name,
       payload id>>; payload bytes and message text are supplied by the harness;
     * a conformance message is a tree of present fields over a small schema of real message
       types; its encodings are the same tree tagged with a format, possibly with unknown
       entries injected.                                                                     *)
EXTENDS Naturals, Sequences, FiniteSets

(* ------------------------------ helpers ------------------------------ *)
RECURSIVE Flatten(_)
Flatten(ss) == IF ss = <<>> THEN <<>> ELSE Head(ss) \o Flatten(Tail(ss))

EmptyF == [x \in {} |-> <<>>]
Get(f, k) == IF k \in DOMAIN f THEN f[k] ELSE <<>>
Put(f, k, v) == [x \in (DOMAIN f) \cup {k} |-> IF x = k THEN v ELSE f[x]]
Range(s) == {s[i] : i \in DOMAIN s}
\* a map as the set of its <<key, values>> entries that carry at least one value (a key without
\* values is not transmitted by either HTTP or gRPC, so it is not observable)
Entries(m) == {[name |-> k, vals |-> m[k]] : k \in {x \in DOMAIN m : m[x] # <<>>}}

(* ====================================================================== *)
(*  1. header lists  <->  gRPC metadata / http.Header                      *)
(* ====================================================================== *)
Txt(i)      == [k |-> "txt", i |-> i]                 \* ASCII text that is not valid base64
Bytes(i)    == [k |-> "bytes", i |-> i]               \* arbitrary octets (not valid base64)
B64(v, pad) == [k |-> "b64", of |-> v, pad |-> pad]   \* base64 of the rendering of v

Name(b, s, bin) == [base |-> b, style |-> s, bin |-> bin]
Lower(n) == [n EXCEPT !.style = "l"]     \* strings.ToLower
Canon(n) == [n EXCEPT !.style = "u"]     \* http.CanonicalHeaderKey
Exact(n) == n

\* "-bin" values travel base64-encoded in header lists (Header.value is ASCII) and raw in the
\* gRPC API (grpc-go encodes/decodes them on the wire itself).
Enc1(v) == B64(v, FALSE)                 \* servers emit unpadded base64
\* AsImplemented_UndecodableBinKeptRaw: a "-bin" value that is not base64 is passed through
\* unchanged (the statement is silent; the code documents it: "If it's not encoded, then just
\* add the raw value").
Dec1(v) == IF v.k = "b64" THEN v.of ELSE v

WireToApi(key, v) == IF key.bin THEN Dec1(v) ELSE v
ApiToWire(key, v) == IF key.bin THEN Enc1(v) ELSE v
Same(key, v)      == v

\* the values a header list h contributes to key k (under the key normalisation norm), in the
\* order of the list, each mapped by f
ValsFor(h, k, norm(_), f(_, _)) ==
  Flatten([i \in 1..Len(h) |-> IF norm(h[i].name) = k
                                 THEN [j \in 1..Len(h[i].vals) |-> f(k, h[i].vals[j])]
                                 ELSE <<>>])
KeysOf(h, norm(_)) == {norm(h[i].name) : i \in 1..Len(h)}

\* ConvertProtoHeaderToMetadata: keys up to case, every value, in order, -bin decoded once
HdrToMD(h) == [k \in KeysOf(h, Lower) |-> ValsFor(h, k, Lower, WireToApi)]
\* ConvertMetadataToProtoHeader: one entry per key (entry order unspecified: a set), -bin
\* encoded once (the statement is about the returned list; what happens to the source map is
\* not constrained)
MDToHdr(md) == {[name |-> k, vals |-> [j \in 1..Len(md[k]) |-> ApiToWire(k, md[k][j])]] : k \in DOMAIN md}
\* AppendToOutgoingContext: what metadata.FromOutgoingContext shows afterwards
Outgoing(md0, h) == [k \in (DOMAIN md0) \cup KeysOf(h, Lower) |-> Get(md0, k) \o ValsFor(h, k, Lower, WireToApi)]
\* AddHeaders into an http.Header (values stay in wire form)
AddHdr(dest, h) == [k \in (DOMAIN dest) \cup KeysOf(h, Canon) |-> Get(dest, k) \o ValsFor(h, k, Canon, Same)]
\* AddTrailers: the key is http.TrailerPrefix + the canonical form of the name, so that - as for
\* AddHeaders - names that differ only in letter case are one trailer with all values in order
\* (http.Header.Add does not canonicalise a key containing ':' by itself; fixed in /repo 2c8246b)
AddTrl(dest, h) == [k \in (DOMAIN dest) \cup KeysOf(h, Canon) |-> Get(dest, k) \o ValsFor(h, k, Canon, Same)]
\* ConvertToProtoHeader (http.Header / url.Values -> header list): one entry per key
MapToHdr(m) == {[name |-> k, vals |-> m[k]] : k \in DOMAIN m}

\* an arbitrary listing of a set of entries (used to state round trips through a set)
RECURSIVE SomeSeq(_)
SomeSeq(S) == IF S = {} THEN <<>> ELSE LET x == CHOOSE y \in S : TRUE IN <<x>> \o SomeSeq(S \ {x})

\* canonical wire value: the form the conversions themselves produce
CanonWire(v) == v.k = "b64" /\ ~v.pad
CanonList(h) == \A i \in 1..Len(h) : h[i].name.bin => \A j \in 1..Len(h[i].vals) : CanonWire(h[i].vals[j])

(* ====================================================================== *)
(*  2. percent-encoding of status messages (bytes are concrete)           *)
(* ====================================================================== *)
Pct == 37
ShouldEscape(b) == b < 32 \/ b > 126 \/ b = Pct
HexDigit(n) == IF n < 10 THEN 48 + n ELSE 55 + n          \* '0'..'9', 'A'..'F'
IsHex(c) == (c >= 48 /\ c <= 57) \/ (c >= 65 /\ c <= 70) \/ (c >= 97 /\ c <= 102)
HexVal(c) == IF c <= 57 THEN c - 48 ELSE IF c <= 70 THEN c - 55 ELSE c - 87
EncByte(b) == IF ShouldEscape(b) THEN <<Pct, HexDigit(b \div 16), HexDigit(b % 16)>> ELSE <<b>>

PctEncode(s) == Flatten([i \in 1..Len(s) |-> EncByte(s[i])])

\* the decoder of the gRPC specification (and of url.PathUnescape on well-formed input)
RECURSIVE PctDecode(_)
PctDecode(t) ==
  IF t = <<>> THEN <<>>
  ELSE IF t[1] = Pct /\ Len(t) >= 3 /\ IsHex(t[2]) /\ IsHex(t[3])
         THEN <<16 * HexVal(t[2]) + HexVal(t[3])>> \o PctDecode(SubSeq(t, 4, Len(t)))
         ELSE <<t[1]>> \o PctDecode(Tail(t))
Printable(t) == \A i \in 1..Len(t) : t[i] >= 32 /\ t[i] <= 126

(* ====================================================================== *)
(*  3. RPC errors: test-case (proto) form, Connect form, gRPC status form *)
(* ====================================================================== *)
StdPfx == "std"      \* "type.googleapis.com/"  (internal.DefaultAnyResolverPrefix)
\* message classes; "absent" exists only in the proto form (optional string)
MsgText(m) == IF m = "absent" THEN "empty" ELSE m

\* what the Connect API shows of an error: Code(), Message(), Details()[i].Type() / .Bytes();
\* Type() is the type NAME (the URL prefix is not part of the Connect form)
ToConnect(e) == [code |-> e.code, msg |-> MsgText(e.msg),
                 details |-> [i \in 1..Len(e.details) |-> [type |-> e.details[i].type, val |-> e.details[i].val]]]
FromConnect(c) == [code |-> c.code, msg |-> c.msg,
                   details |-> [i \in 1..Len(c.details) |->
                                  [pfx |-> StdPfx, type |-> c.details[i].type, val |-> c.details[i].val]]]
\* google.rpc.Status carries the Any as is
ToStatus(e)   == [code |-> e.code, msg |-> MsgText(e.msg), details |-> e.details]
FromStatus(s) == [code |-> s.code, msg |-> s.msg, details |-> s.details]
\* ConvertErrorToProtoError on an arbitrary Go error
FromGoError(x) ==
  CASE x.kind = "nil"     -> [kind |-> "nil"]
    [] x.kind = "plain"   -> [kind |-> "err", err |-> [code |-> 2, msg |-> x.msg, details |-> <<>>]]
    [] x.kind = "connect" -> [kind |-> "err", err |-> FromConnect(x.c)]
    [] x.kind = "wrapped" -> [kind |-> "err", err |-> FromConnect(x.c)]   \* fmt.Errorf("..%w", connectErr)
\* ConvertGrpcToProtoError on an error that is not a status: code Unknown, the error text
FromPlainGrpc(m) == [code |-> 2, msg |-> m, details |-> <<>>]

\* what the round trips may normalise: message presence; on the Connect route the URL prefix
NormMsg(e)  == [e EXCEPT !.msg = MsgText(e.msg)]
NormPfx(e)  == [e EXCEPT !.details = [i \in 1..Len(e.details) |-> [e.details[i] EXCEPT !.pfx = StdPfx]]]
\* what must survive any route: code, message text, every detail's type name and bytes, in order
Essence(e) == [code |-> e.code, msg |-> MsgText(e.msg),
               details |-> [i \in 1..Len(e.details) |-> [type |-> e.details[i].type, val |-> e.details[i].val]]]

(* ====================================================================== *)
(*  4. strict codecs                                                      *)
(* ====================================================================== *)
\* schema of the real message types the harness instantiates (field order = field-number order)
Fld(f, kind, t) == [f |-> f, kind |-> kind, t |-> t]
Schema ==
  [UREQ |-> << Fld("response_definition", "msg", "URD"), Fld("request_data", "scalar", "-") >>,
   URD  |-> << Fld("response_headers", "rep", "HDR"), Fld("error", "msg", "ERR"),
               Fld("raw_response", "msg", "RAW"), Fld("response_delay_ms", "scalar", "-") >>,
   ERR  |-> << Fld("code", "scalar", "-"), Fld("message", "scalar", "-") >>,
   RAW  |-> << Fld("status_code", "scalar", "-"), Fld("headers", "rep", "HDR") >>,
   HDR  |-> << Fld("name", "scalar", "-"), Fld("value", "scalar", "-") >>]

Leaf == [t |-> "-", ents |-> <<>>]
Ent(f, kid) == [f |-> f, kid |-> kid]
Unk(kind)   == [f |-> "?", kid |-> [t |-> kind, ents |-> <<>>]]     \* an unknown field of some wire kind

\* all messages of type t nested at most d levels deep, with at most r elements per repeated field
RECURSIVE MsgsOf(_, _, _), Choices(_, _, _, _)
Choices(fs, i, d, r) ==
  IF i > Len(fs) THEN {<<>>}
  ELSE LET fld == fs[i]
           kids == IF fld.kind = "scalar" THEN {Leaf} ELSE IF d = 0 THEN {} ELSE MsgsOf(fld.t, d - 1, r)
           one  == {<<Ent(fld.f, k)>> : k \in kids}
           two  == IF fld.kind = "rep" /\ r >= 2 THEN {<<Ent(fld.f, k1), Ent(fld.f, k2)>> : k1 \in kids, k2 \in kids} ELSE {}
       IN {hd \o tl : hd \in {<<>>} \cup one \cup two, tl \in Choices(fs, i + 1, d, r)}
MsgsOf(t, d, r) == {[t |-> t, ents |-> e] : e \in Choices(Schema[t], 1, d, r)}

\* paths to the message nodes of a tree: sequences of entry indexes
RECURSIVE Paths(_)
Paths(m) == {<<>>} \cup UNION {{<<i>> \o p : p \in Paths(m.ents[i].kid)} : i \in {j \in 1..Len(m.ents) : m.ents[j].kid.t \notin {"-"} /\ m.ents[j].f # "?"}}
RECURSIVE NodeAt(_, _)
NodeAt(m, p) == IF p = <<>> THEN m ELSE NodeAt(m.ents[p[1]].kid, Tail(p))
InsertAt(s, pos, x) == SubSeq(s, 1, pos) \o <<x>> \o SubSeq(s, pos + 1, Len(s))    \* after pos entries
RECURSIVE Inject(_, _, _, _)
Inject(m, p, pos, u) ==
  IF p = <<>> THEN [m EXCEPT !.ents = InsertAt(m.ents, pos, u)]
  ELSE [m EXCEPT !.ents[p[1]].kid = Inject(m.ents[p[1]].kid, Tail(p), pos, u)]

RECURSIVE HasUnknown(_)
HasUnknown(m) == \E i \in 1..Len(m.ents) : m.ents[i].f = "?" \/ HasUnknown(m.ents[i].kid)

\* a codec named c ("proto" / "json") writes format c ...
Marshal(c, m) == [fmt |-> c, body |-> m]
\* ... and reads it back strictly: an unknown field anywhere is an error, never dropped
Unmarshal(c, x) == IF x.fmt # c THEN [r |-> "reject", why |-> "format"]
                   ELSE IF HasUnknown(x.body) THEN [r |-> "reject", why |-> "unknown field"]
                   ELSE [r |-> "ok", m |-> x.body]
=============================================================================
