-------------------------- MODULE Trace_WireChecks --------------------------
(* code -> spec binding for C13.  Every line of the recorded file is one execution of a real
   examiner (or of a real encoder followed by the real examiner) on an input the harness drew at
   random BEYOND the TLC-enumerated families (longer blocks and messages, more keys, more detail
   elements, more metadata), described in the abstract syntax of WireChecksDecl, together with
   the feedback classes that were observed:

     kind block | pct | trio | web | err | es | bin | dispatch
                 job = the abstract input, obs = observed classes;
                 accepted iff  obs (as a set, without repetitions)  =  Expected(job)
     kind enc    a message (byte classes m) through the repository's PercentEncodeMessage: enc =
                 byte classes of the result, obs = what checkGRPCStatus says about it, back = the
                 reader's decoding equals the message;  accepted iff enc = EncodeMsg(m), WellEncoded,
                 obs empty and back
     kind emit   an application error through the reference server's own encoders
                 (grpcStatusTrailers / grpcWebStatusEndStream) or through the real reference server
                 over HTTP (kind e2e), examined by the real client examiners;
                 accepted iff obs is empty (EmitRequired)

   A rejected line is printed (with the classes the specification requires) and the run goes on. *)
EXTENDS WireChecksDecl, Json, IOUtils

Rec == ndJsonDeserialize(IOEnv.VERIF_TRACE)

SeqToSet(q) == {q[x] : x \in 1..Len(q)}

Accept(r) ==
  CASE r.kind = "enc"  -> /\ r.enc = EncodeMsg(r.m) /\ WellEncoded(r.enc)
                          /\ r.obs = <<>> /\ r.back
    [] r.kind \in {"emit", "e2e"} -> SeqToSet(r.obs) = EmitRequired
    [] OTHER -> /\ SeqToSet(r.obs) = Expected(r.job)
                /\ Len(r.obs) = Cardinality(SeqToSet(r.obs))

Required(r) == IF r.kind \in {"enc", "emit", "e2e"} THEN EmitRequired ELSE Expected(r.job)

VARIABLE l
TraceInit == l = 1
TraceNext == /\ l <= Len(Rec)
             /\ l' = l + 1
             /\ (Accept(Rec[l]) \/ PrintT("REJECT " \o ToString(l) \o " " \o ToJson(Required(Rec[l]))))
TraceSpec == TraceInit /\ [][TraceNext]_l
Consumed == (l = Len(Rec) + 1) => PrintT("CONSUMED " \o ToString(Len(Rec)))
=============================================================================
