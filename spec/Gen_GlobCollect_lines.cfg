CONSTANTS
  MaxArgs = 2
  MaxLines = 3
INIT Init
NEXT Next
INVARIANTS DoneAgrees Emit
