------------------------------ MODULE BodyTrace ------------------------------
(* C14 - the body tracer as a machine.

   One side of one call: the application reads (or writes) a body through a tracing wrapper
   (tracingReader.Read/Close, tracingResponseWriter.Write + handler return).  The environment is
   the wrapped reader/writer: each call hands over k bytes together with a result ("nil", "eof",
   "err"); the body is cut after `avail` bytes and then ends in the way `end` says.  The wrapper
   passes the k bytes to the incremental envelope parser (dataTracer.trace), which reports events
   to the trace builder; when the body ends the wrapper flushes the unfinished message and adds
   the single body-end event (tryFinish).

   Scenario   : built step by step (AddEnv*, Start) so that random simulation needs no huge Init
   Machine    : d  = dataTracer {prefix, env (hasEnv/flags/len), expecting, actual, endStream (cap/es)}
                b  = builder {per-side message counters, events of OUR side}
                closed = the finish-once latch of the wrapper
                one action per iteration of the loop in dataTracer.trace (Grain = "loop"), the
                other side's events may slip in between any two of them (OtherSide);
                Grain = "call" runs a whole Read/Write call as one step (same step function
                iterated) - used to enumerate chunkings cheaply
   Theorem    : at the end the events equal Events(body, avail, end, side, hdr), for EVERY way of
                splitting the bytes into calls (Agrees); they are produced eagerly (Eager), numbered
                consecutively whatever the other side does (Consecutive), there is exactly one
                body-end event whatever the application calls afterwards (EndsOnce), and the
                application gets exactly what the wrapped reader/writer returned (Transparent).
                Events are only ever appended (OutGrows); under weak fairness every body is
                finished, i.e. no iteration of the loop fails to consume (Terminates, FairSpec).
                ConsultBit = FALSE is the mutant that decodes whatever the flag says: TLC must
                (and does) reject it with Agrees - the theorem is not vacuous.

   Writer carrier: Read(k,"nil") = a Write of which k bytes were accepted, Read(k,"err") = a
   short/failing Write, Read(0,"eof") = the handler returns. *)
EXTENDS BodyTraceDecl, FiniteSets, TLC

CONSTANTS FlagSet, LenSet, PcSet,     \* envelope shapes
          EncSet, HdrMode,            \* header combinations (see Hdrs)
          SideSet, EndSet,
          MaxEnvs, MaxTotal,          \* body size bounds (envelopes / bytes)
          ChunkSet,                   \* sizes a call may deliver (besides "all that is left")
          MaxPost,                    \* calls the application makes after the body has ended
          MaxOther,                   \* events of the other side interleaved with ours
          Grain,                      \* "loop" | "call"
          ConsultBit,                 \* TRUE; FALSE = mutant that decodes regardless of the flag
          KeepHist

VARIABLES body, avail, end, side, hdr,      \* scenario
          pc,                               \* build | idle | loop | ret | end | retn | done
          pos, ended, npost, nother,        \* environment
          chunk, pend, callK,               \* bytes of the current call still to trace; its result and size
          d, b, closed, whenDone,           \* machine
          appBytes, appRes,                 \* what the application has been given: bytes so far, last result
          hist                              \* the calls made so far (observation only)

vars == <<body, avail, end, side, hdr, pc, pos, ended, npost, nother, chunk, pend, callK, d, b, closed,
          whenDone, appBytes, appRes, hist>>

(* ------------------------------ scenario space ------------------------------ *)
Hdr(ct, ce, cce, ge) == [ct |-> ct, ce |-> ce, cce |-> cce, ge |-> ge]
Hdrs ==
  CASE HdrMode = "connect" -> {Hdr("connect", "none", x, "none") : x \in EncSet}
    [] HdrMode = "stream"  -> {Hdr("connect", "none", x, "none") : x \in EncSet}
                              \cup {Hdr(ct, "none", "none", x) : ct \in {"grpc", "grpcweb"}, x \in EncSet}
    [] HdrMode = "mixed"   -> {Hdr("connect", "none", x, "none") : x \in EncSet}
                              \cup {Hdr("grpcweb", "none", "none", x) : x \in EncSet}
                              \cup {Hdr("unary", "none", "none", "none"), Hdr("connect", "set", "real", "none")}
    [] HdrMode = "all"     -> {Hdr(ct, ce, x, y) : ct \in {"connect", "grpc", "grpcweb", "unary"},
                                                  ce \in {"none", "set"}, x \in EncSet, y \in EncSet}

\* the payload class only matters where it can be looked at
PcFor(f, n) == IF side = "resp" /\ IsStream(hdr) /\ n > 0 /\ AsImplemented_EndStreamMask(f)
                 THEN PcSet ELSE {"plain"}

Other(s) == IF s = "req" THEN "resp" ELSE "req"
Min(x, y) == IF x < y THEN x ELSE y

DT0 == [prefix |-> <<>>, hasEnv |-> FALSE, flags |-> 0, len |-> 0, expecting |-> 0, actual |-> 0,
        cap |-> FALSE, es |-> <<>>]
B0  == [cnt |-> [req |-> 0, resp |-> 0], out |-> <<>>]

Init == /\ side \in SideSet /\ hdr \in Hdrs
        /\ body = <<>> /\ avail = 0 /\ end = "eof" /\ pc = "build"
        /\ pos = 0 /\ ended = FALSE /\ npost = 0 /\ nother = 0 /\ chunk = <<>> /\ pend = "nil" /\ callK = 0
        /\ d = DT0 /\ b = B0 /\ closed = FALSE /\ whenDone = 0
        /\ appBytes = 0 /\ appRes = "nil" /\ hist = <<>>

AddEnv(f, n, p) ==
  /\ pc = "build" /\ Len(body) < MaxEnvs /\ Total(body) + PrefixLen + n <= MaxTotal
  /\ p \in PcFor(f, n)
  /\ body' = Append(body, [flags |-> f, len |-> n, pc |-> p])
  /\ UNCHANGED <<avail, end, side, hdr, pc, pos, ended, npost, nother, chunk, pend, callK, d, b, closed,
                 whenDone, appBytes, appRes, hist>>

Start(av, en) ==
  /\ pc = "build" /\ av \in 0..Total(body)
  /\ avail' = av /\ end' = en /\ pc' = "idle"
  /\ UNCHANGED <<body, side, hdr, pos, ended, npost, nother, chunk, pend, callK, d, b, closed, whenDone,
                 appBytes, appRes, hist>>

(* ------------------------------ builder.add ------------------------------ *)
AddData(bb, hasEnv, fl, declared, n) ==
  [cnt |-> [bb.cnt EXCEPT ![side] = @ + 1],
   out |-> Append(bb.out, [k |-> "Data", i |-> bb.cnt[side], env |-> IF hasEnv THEN 1 ELSE 0,
                           flags |-> fl, declared |-> declared, len |-> n, c |-> ""])]

(* ------------------------------ dataTracer ------------------------------ *)
\* content of a captured end-of-stream payload, as the machine sees it: it only has the bytes
MachineContent(fl, captured) ==
  LET j == captured[1][1] IN
  IF j = 0 \/ j > Len(body) \/ captured # PayloadCells(j, body[j]) THEN "corrupt"
  ELSE ContentP(ConsultBit, Enc(hdr), [flags |-> fl, len |-> body[j].len, pc |-> body[j].pc])

\* tracePrefixLocked: `ch` is what is left of the current call's bytes
PrefixStep(dd, bb, ch) ==
  LET need == PrefixLen - Len(dd.prefix) IN
  IF Len(ch) < need
    THEN [d |-> [dd EXCEPT !.prefix = @ \o ch], b |-> bb, chunk |-> <<>>]
    ELSE LET p    == dd.prefix \o SubSeq(ch, 1, need)
             fl   == p[1][2]
             ln   == UnBE32(<<p[2][2], p[3][2], p[4][2], p[5][2]>>)
             rest == SubSeq(ch, need + 1, Len(ch))
         IN IF ln = 0
              THEN [d |-> DT0, b |-> AddData(bb, TRUE, fl, 0, 0), chunk |-> rest]
              ELSE [d |-> [DT0 EXCEPT !.hasEnv = TRUE, !.flags = fl, !.len = ln, !.expecting = ln,
                                      !.cap = (side = "resp" /\ AsImplemented_EndStreamMask(fl))],
                    b |-> bb, chunk |-> rest]

\* traceMessageLocked
MessageStep(dd, bb, ch) ==
  LET need == dd.expecting - dd.actual IN
  IF Len(ch) < need
    THEN [d |-> [dd EXCEPT !.actual = @ + Len(ch), !.es = IF dd.cap THEN @ \o ch ELSE @],
          b |-> bb, chunk |-> <<>>]
    ELSE LET b1   == AddData(bb, TRUE, dd.flags, dd.len, dd.expecting)
             form == IF dd.cap THEN MachineContent(dd.flags, dd.es \o SubSeq(ch, 1, need)) ELSE "none"
             b2   == IF dd.cap /\ ~AsImplemented_NoEventWithoutContent(form)
                       THEN [b1 EXCEPT !.out = Append(@, EndStream(bb.cnt[side], form))] ELSE b1
         IN [d |-> DT0, b |-> b2, chunk |-> SubSeq(ch, need + 1, Len(ch))]

\* one iteration of the loop in dataTracer.trace (ch # <<>>)
LoopStep(dd, bb, ch) ==
  IF ~IsStream(hdr) THEN [d |-> [dd EXCEPT !.actual = @ + Len(ch)], b |-> bb, chunk |-> <<>>]
  ELSE IF dd.expecting = 0 THEN PrefixStep(dd, bb, ch) ELSE MessageStep(dd, bb, ch)

RECURSIVE RunLoop(_, _, _)
RunLoop(dd, bb, ch) == IF ch = <<>> THEN [d |-> dd, b |-> bb]
                       ELSE LET s == LoopStep(dd, bb, ch) IN RunLoop(s.d, s.b, s.chunk)

\* emitUnfinished
EmitUnfinished(dd, bb) ==
  LET unf  == IF dd.expecting = 0 /\ Len(dd.prefix) > 0 THEN Len(dd.prefix) ELSE dd.actual
      emit == unf > 0 \/ (dd.expecting > 0 /\ ~AsImplemented_SilentCutAfterPrefix)
  IN IF emit THEN AddData(bb, dd.hasEnv, dd.flags, dd.len, unf) ELSE bb

AddBodyEndTo(bb, res) == [bb EXCEPT !.out = Append(@, BodyEnd(EndErr(res)))]

(* ------------------------------ the wrapper, fine grain ------------------------------ *)
Rec(op, k, e) == IF KeepHist THEN Append(hist, [op |-> op, k |-> k, e |-> e]) ELSE hist

\* how a call may go: k bytes and result e, given the scenario
CallOK(k, e) ==
  /\ k \in 0..(avail - pos)
  /\ (k \in ChunkSet \/ k = avail - pos)
  /\ e \in {"nil", "eof", "err"}
  /\ (e = "nil") => k > 0                       \* (0, nil) calls are idle; not modelled
  /\ (e # "nil") => (e = end /\ pos + k = avail)

\* the wrapped reader's Read (writer's Write) returns; the bytes go to dataTracer.trace
InnerCall(k, e) ==
  /\ pc = "idle" /\ ~ended /\ Grain = "loop" /\ CallOK(k, e)
  /\ chunk' = SubSeq(Stream(body), pos + 1, pos + k)
  /\ pos' = pos + k /\ pend' = e /\ ended' = (e # "nil")
  /\ callK' = k /\ hist' = Rec("r", k, e)
  /\ pc' = IF k = 0 THEN "ret" ELSE "loop"
  /\ UNCHANGED <<body, avail, end, side, hdr, npost, nother, d, b, closed, whenDone, appBytes, appRes>>

Iterate ==
  /\ pc = "loop"
  /\ LET s == LoopStep(d, b, chunk) IN
       /\ d' = s.d /\ b' = s.b /\ chunk' = s.chunk
       /\ pc' = IF s.chunk = <<>> THEN "ret" ELSE "loop"
  /\ UNCHANGED <<body, avail, end, side, hdr, pos, ended, npost, nother, pend, callK, closed, whenDone,
                 appBytes, appRes, hist>>

\* Close before the end of the body was seen (only readers)
CloseCall ==
  /\ pc = "idle" /\ ~ended /\ end \in {"close", "closeerr"} /\ pos = avail /\ Grain = "loop"
  /\ pend' = end /\ ended' = TRUE /\ callK' = 0 /\ hist' = Rec("c", 0, end)
  /\ pc' = "ret"
  /\ UNCHANGED <<body, avail, end, side, hdr, pos, npost, nother, chunk, d, b, closed, whenDone, appBytes, appRes>>

\* tryFinish, first half: win the latch, flush the unfinished message (dataTracer's lock)
Flush ==
  /\ pc = "ret" /\ pend # "nil" /\ ~closed
  /\ closed' = TRUE /\ b' = EmitUnfinished(d, b) /\ d' = DT0 /\ pc' = "end"
  /\ UNCHANGED <<body, avail, end, side, hdr, pos, ended, npost, nother, chunk, pend, callK, whenDone,
                 appBytes, appRes, hist>>

\* tryFinish, second half: the body-end event (builder's lock), then whenDone
AddBodyEnd ==
  /\ pc = "end"
  /\ b' = AddBodyEndTo(b, pend) /\ whenDone' = whenDone + 1 /\ pc' = "retn"
  /\ UNCHANGED <<body, avail, end, side, hdr, pos, ended, npost, nother, chunk, pend, callK, d, closed,
                 appBytes, appRes, hist>>

\* the call returns to the application exactly what the wrapped object returned
Return ==
  /\ \/ pc = "retn"
     \/ pc = "ret" /\ (pend = "nil" \/ closed)
  /\ appBytes' = appBytes + callK /\ appRes' = pend /\ callK' = 0 /\ pc' = "idle"
  /\ UNCHANGED <<body, avail, end, side, hdr, pos, ended, npost, nother, chunk, pend, d, b, closed,
                 whenDone, hist>>

(* ------------------------------ the wrapper, one step per call ------------------------------ *)
Finished(dd, bb, res) == AddBodyEndTo(EmitUnfinished(dd, bb), res)

WholeCall(k, e) ==
  /\ pc = "idle" /\ ~ended /\ Grain = "call" /\ CallOK(k, e)
  /\ LET s == RunLoop(d, b, SubSeq(Stream(body), pos + 1, pos + k)) IN
       IF e # "nil" /\ ~closed
         THEN /\ b' = Finished(s.d, s.b, e) /\ d' = DT0 /\ closed' = TRUE /\ whenDone' = whenDone + 1
         ELSE /\ b' = s.b /\ d' = s.d /\ UNCHANGED <<closed, whenDone>>
  /\ pos' = pos + k /\ pend' = e /\ ended' = (e # "nil")
  /\ appBytes' = appBytes + k /\ appRes' = e /\ hist' = Rec("r", k, e)
  /\ UNCHANGED <<body, avail, end, side, hdr, pc, npost, nother, chunk, callK>>

WholeClose ==
  /\ pc = "idle" /\ ~ended /\ end \in {"close", "closeerr"} /\ pos = avail /\ Grain = "call"
  /\ IF ~closed THEN /\ b' = Finished(d, b, end) /\ d' = DT0 /\ closed' = TRUE /\ whenDone' = whenDone + 1
                ELSE UNCHANGED <<b, d, closed, whenDone>>
  /\ pend' = end /\ ended' = TRUE /\ appRes' = end
  /\ hist' = Rec("c", 0, end)
  /\ UNCHANGED <<body, avail, end, side, hdr, pc, pos, npost, nother, chunk, callK, appBytes>>

(* ------------------------------ after the end ------------------------------ *)
\* the application calls again although the body has ended: the wrapped object returns its
\* sticky result and no bytes; Close returns nil.  Nothing may be added to the trace.
PostCall(op) ==
  /\ pc = "idle" /\ ended /\ npost < MaxPost
  /\ npost' = npost + 1
  /\ LET res == IF op = "c" THEN "close" ELSE IF end = "eof" THEN "eof" ELSE "err" IN
       /\ pend' = res /\ hist' = Rec(op, 0, res)
       /\ IF Grain = "call"
            THEN /\ appRes' = res
                 /\ IF ~closed THEN /\ b' = Finished(d, b, res) /\ d' = DT0 /\ closed' = TRUE
                                    /\ whenDone' = whenDone + 1
                               ELSE UNCHANGED <<b, d, closed, whenDone>>
                 /\ UNCHANGED pc
            ELSE /\ pc' = "ret" /\ UNCHANGED <<b, d, closed, whenDone, appRes>>
  /\ UNCHANGED <<body, avail, end, side, hdr, pos, ended, nother, chunk, callK, appBytes>>

Stop ==
  /\ pc = "idle" /\ ended /\ pc' = "done"
  /\ UNCHANGED <<body, avail, end, side, hdr, pos, ended, npost, nother, chunk, pend, callK, d, b, closed,
                 whenDone, appBytes, appRes, hist>>

\* a message of the other side of the same call is added to the same builder
OtherSide ==
  /\ nother < MaxOther
  /\ IF Grain = "loop" THEN pc \notin {"build", "done"} ELSE pc = "idle"
  /\ nother' = nother + 1
  /\ b' = [b EXCEPT !.cnt[Other(side)] = @ + 1]
  /\ hist' = Rec("o", 0, "nil")
  /\ UNCHANGED <<body, avail, end, side, hdr, pc, pos, ended, npost, chunk, pend, callK, d, closed,
                 whenDone, appBytes, appRes>>

Next ==
  \/ \E f \in FlagSet, n \in LenSet, p \in PcSet : AddEnv(f, n, p)
  \/ \E av \in 0..MaxTotal, en \in EndSet : Start(av, en)
  \/ \E k \in 0..MaxTotal, e \in {"nil", "eof", "err"} : InnerCall(k, e) \/ WholeCall(k, e)
  \/ Iterate \/ CloseCall \/ Flush \/ AddBodyEnd \/ Return \/ WholeClose
  \/ PostCall("r") \/ PostCall("c") \/ Stop \/ OtherSide

Spec     == Init /\ [][Next]_vars
FairSpec == Spec /\ WF_vars(Next)

(* ------------------------------ properties ------------------------------ *)
TypeOK ==
  /\ pc \in {"build", "idle", "loop", "ret", "end", "retn", "done"}
  /\ pos <= avail /\ avail <= Total(body)
  /\ d.actual <= d.expecting \/ ~IsStream(hdr)
  /\ Len(d.prefix) < PrefixLen
  /\ whenDone <= 1

\* THE theorem: chunking independence and exact reconstruction
Agrees == (pc = "done") => (b.out = Events(body, avail, end, side, hdr))

\* every message is reported as soon as its last byte has been seen
Eager == (pc = "idle" /\ ~closed) =>
           b.out = IF IsStream(hdr) THEN DoneEvents(body, 1, pos, side, Enc(hdr)) ELSE <<>>

\* the parser state is a function of the position alone (nothing else is remembered of the split)
Bookkeeping ==
  (pc = "idle" /\ ~closed /\ IsStream(hdr)) =>
    LET nd == b.cnt[side] IN
    /\ nd <= Len(body)
    /\ pos = Total(SubSeq(body, 1, nd))
             + (IF d.expecting = 0 THEN Len(d.prefix) ELSE PrefixLen + d.actual)
    /\ d.expecting > 0 => (nd < Len(body) /\ d.flags = body[nd + 1].flags /\ d.expecting = body[nd + 1].len)

DataOf(evs) == SelectSeq(evs, LAMBDA ev : ev.k = "Data")
Consecutive == LET ds == DataOf(b.out) IN \A n \in 1..Len(ds) : ds[n].i = n - 1

NumEnds(evs) == Len(SelectSeq(evs, LAMBDA ev : ev.k = "BodyEnd"))
EndsOnce ==
  /\ NumEnds(b.out) <= 1
  /\ (pc \in {"idle", "done"} /\ ended) => (NumEnds(b.out) = 1 /\ b.out[Len(b.out)].k = "BodyEnd" /\ whenDone = 1)
  /\ (pc = "idle" /\ ~ended) => NumEnds(b.out) = 0

\* the application has been handed every byte and the very result the wrapped object produced
Transparent == (pc \in {"idle", "done"}) => (appBytes = pos /\ appRes = pend)

NoCorrupt == \A n \in 1..Len(b.out) : b.out[n].c # "corrupt"

\* events are only ever appended
IsPrefixOf(s, t) == Len(s) <= Len(t) /\ SubSeq(t, 1, Len(s)) = s
OutGrows == [][IsPrefixOf(b.out, b'.out)]_vars

Progress == (pc # "done") => ENABLED Next
Terminates == <>(pc = "done")

ViewNoHist == <<body, avail, end, side, hdr, pc, pos, ended, npost, nother, chunk, pend, callK, d, b,
                closed, whenDone, appBytes, appRes>>
=============================================================================
