----------------------------- MODULE CompressImpl -----------------------------
(* C20 - functional model of the code: the third-party / standard-library reader and writer
   objects (their documented contracts, as far as the wrappers rely on them) and the six thin
   wrappers of internal/compression on top of them.  Every operator returns the SET of possible
   outcomes of one method call (what a malformed stream does to a decoder is not determined).

   Library contracts assumed (each a sentence of the library's documentation; R1b and the second
   half of R3 are read off the library source and reproduced on the real objects by the harness):
     R1  Reset(src) / New(src) discards all state of the reader, including a sticky error
     R1b ... except andybalholm brotli.Reader (v1.1.1): Reset re-initialises the decoder but keeps
         the input it has buffered and not consumed, unless the decoder had failed (error_code
         < 0).  Unconsumed input is left behind by a stream with bytes after its end ("excessive
         input" - reported without a decoder failure) and possibly by a stream not read to its end
     R2  a klauspost zstd.Decoder cannot be used after Close, not even through Reset
     R3  gzip.Reader.Reset and zlib.NewReader read the stream header and fail on a bad one;
         the zero gzip.Reader has no inner flate reader until a Reset got past the header,
         and its Close calls that inner reader unconditionally
     R4  brotli.Reader and snappy.Reader have no Close; their Reset cannot fail
     R5  reading a valid stream from a clean reader yields the payload, then EOF
     W1  Writer.Reset(dst) discards all state of the writer, including "closed" and a sticky error
     W2  Close writes everything still buffered plus the stream trailer to dst and nothing else
   Variant selects the wrapper design:
     "fixed"         the wrappers of the repository - what the code must do
     "codeBrotli"    refuted design: brotliDecompressor.Reset relying on brotli.Reader.Reset (R1b)
     "codeIdentity"  refuted design: noOpCompressor adopting the Close method of an io.WriteCloser sink
     "codeGzip"      refuted design: the bare zero gzip.Reader handed out without a wrapper (R3)
     "code"          all three (the wrappers as they were before the fix: commits)
     anything else   a named mutant of the design (MC_Compress_x_*.cfg)                          *)
EXTENDS CompressDecl

CONSTANT Variant

(* ------------------------------ reader objects ------------------------------ *)
BrotliRelies     == Variant \in {"code", "codeBrotli"}
IdentityAdopts   == Variant \in {"code", "codeIdentity"}
GzipUnwrapped    == Variant \in {"code", "codeGzip"}

\* clean: no leftover state - a valid stream will be decoded as R5 says;  left: unconsumed input
\* of the bound stream is buffered;  hard: the decoder itself has failed (brotli error_code < 0)
LNew(kind) == [kind |-> kind, alive |-> TRUE, src |-> NoStream, rd |-> 0, clean |-> TRUE,
               err |-> FALSE, inner |-> FALSE, left |-> FALSE, hard |-> FALSE]
NoLib == LNew("none")

DOut(L, ret, eq, from) == [L |-> L, ret |-> ret, eq |-> eq, from |-> from]

\* may the header of stream s pass the header check of gzip/zlib?
HdrPass(s) == IF s.k = "valid" THEN {TRUE} ELSE IF s.k = "nobody" THEN {FALSE} ELSE {TRUE, FALSE}

Bound(L, s) == [L EXCEPT !.src = s, !.rd = 0, !.err = FALSE, !.left = FALSE, !.hard = FALSE,
                         !.clean = IF Variant = "libResetLeaks" THEN L.clean ELSE TRUE]   \* R1
\* R1b: what brotli.Reader.Reset really does - leftover input survives and will be decoded first
BrotliBound(L, s) == IF L.left /\ ~L.hard THEN [Bound(L, s) EXCEPT !.clean = FALSE, !.left = TRUE]
                     ELSE Bound(L, s)

LReset(L, s) ==
  CASE L.kind = "zstdD" ->
         IF ~L.alive THEN {DOut(L, "err", <<>>, 0)}                                       \* R2
         ELSE {DOut(Bound(L, s), "ok", <<>>, 0)}
    [] L.kind = "snappyR" -> {DOut(Bound(L, s), "ok", <<>>, 0)}                           \* R4
    [] L.kind = "brotliR" -> {DOut(BrotliBound(L, s), "ok", <<>>, 0)}                     \* R4, R1b
    [] L.kind = "gzipR" ->                                                                \* R3
         {IF h THEN DOut([Bound(L, s) EXCEPT !.inner = TRUE], "ok", <<>>, 0)
               ELSE DOut([Bound(L, s) EXCEPT !.err = TRUE], "err", <<>>, 0) : h \in HdrPass(s)}

\* zlib.NewReader(src): a constructor, the wrapper keeps the object only on success
ZlibNew(s) == {IF h THEN DOut(Bound(LNew("zlibR"), s), "ok", <<>>, 0)
                    ELSE DOut(NoLib, "err", <<>>, 0) : h \in HdrPass(s)}

LRead(L, all, cap) ==
  IF ~L.alive THEN {DOut(L, "err", <<>>, L.rd)}                                           \* R2
  ELSE IF L.src.k = "none"
    THEN {DOut(L, IF L.kind = "zstdD" THEN "err" ELSE "panic", <<>>, L.rd)}               \* nil source
  ELSE IF L.err THEN {DOut(L, "err", <<>>, L.rd),                 \* sticky; (0, io.EOF)-like errors
                      DOut([L EXCEPT !.rd = Adv(L.rd, all, cap)], "ok", <<>>, L.rd)}  \* read as "ended"
  ELSE IF L.src.k = "valid" /\ L.clean
    THEN LET rd2 == Adv(L.rd, all, cap) IN                                                \* R5
         {DOut([L EXCEPT !.rd = rd2, !.left = lf], "ok", <<L.src.p>>, L.rd)
            : lf \in IF L.kind = "brotliR" /\ ~all /\ L.rd # AtEnd THEN {TRUE, FALSE} ELSE {FALSE}}
  ELSE \* malformed stream (or leftover state): some bytes or an error; the object is dirty now.
       \* brotli distinguishes a decoder failure (hard) from bytes after the end of a stream
       \* that itself decoded fine (error without hard, input left over)
       {DOut([L EXCEPT !.clean = FALSE, !.rd = Adv(L.rd, all, cap), !.left = lf], "ok", <<>>, L.rd)
            : lf \in IF L.kind = "brotliR" THEN {TRUE, FALSE} ELSE {FALSE}} \cup
       {DOut([L EXCEPT !.clean = FALSE, !.err = TRUE, !.hard = TRUE], "err", <<>>, L.rd)} \cup
       (IF L.kind = "brotliR"
          THEN {DOut([L EXCEPT !.clean = FALSE, !.left = TRUE], "err", <<>>, L.rd)} ELSE {})

LClose(L) ==
  CASE L.kind = "zstdD" -> {DOut([L EXCEPT !.alive = FALSE], "ok", <<>>, L.rd)}
    [] L.kind \in {"gzipR", "zlibR"} ->
         IF L.kind = "gzipR" /\ ~L.inner THEN {DOut(L, "panic", <<>>, L.rd)}              \* R3
         \* a closed gzip / zlib reader says nothing about later Reads: not clean until Reset
         ELSE IF L.src.k = "valid" /\ L.clean /\ ~L.err
           THEN {DOut([L EXCEPT !.clean = FALSE], "ok", <<>>, L.rd)}
         ELSE {DOut([L EXCEPT !.clean = FALSE], "ok", <<>>, L.rd),
               DOut([L EXCEPT !.clean = FALSE], "err", <<>>, L.rd)}

(* ------------------------------ decompressor wrappers ------------------------------ *)
\* wrapper state: w = what the wrapper's pointer field holds ("nil", the errorDecompressor
\* sentinel "err", or a "live" library object L); observable from an in-package test
WD(w, L) == [w |-> w, L |-> L]
WOut(st, o) == [st |-> st, ret |-> o.ret, eq |-> o.eq, from |-> o.from]
Ret(st, ret) == [st |-> st, ret |-> ret, eq |-> <<>>, from |-> 0]

DNewW(z) ==
  CASE z = "identity" -> WD("nil", NoLib)                 \* noOpDecompressor{ReadCloser: nil}
    [] z = "gzip"     -> WD("live", LNew("gzipR"))        \* &gzipDecompressor{} around a zero gzip.Reader
    [] z = "br"       -> WD("live", LNew("brotliR"))      \* brotli.NewReader(nil)
    [] z = "snappy"   -> WD("live", LNew("snappyR"))      \* snappy.NewReader(nil)
    [] z = "zstd"     -> WD("live", LNew("zstdD"))        \* zstd.NewReader(nil)
    [] z = "deflate"  -> WD("nil", NoLib)                 \* deflateDecompressor{reader: nil}

DResetW(z, st, s) ==
  CASE z = "identity" -> {Ret(WD("live", [LNew("ident") EXCEPT !.src = s]), "ok")}
    [] z \in {"gzip", "snappy"} -> {WOut(WD("live", o.L), o) : o \in LReset(st.L, s)}
    [] z = "br" ->
         \* c.reader = brotli.NewReader(rdr): a fresh Reader, because of R1b
         \* (refuted design: c.reader.Reset(rdr))
         IF BrotliRelies THEN {WOut(WD("live", o.L), o) : o \in LReset(st.L, s)}
         ELSE {Ret(WD("live", Bound(LNew("brotliR"), s)), "ok")}
    [] z = "zstd" ->
         IF st.w = "nil"
           THEN IF Variant = "zstdNoLazyNew" THEN {Ret(st, "err")}
                ELSE {Ret(WD("live", Bound(LNew("zstdD"), s)), "ok")}      \* lazily recreated
           ELSE {WOut(WD("live", o.L), o) : o \in LReset(st.L, s)}
    [] z = "deflate" ->
         {IF o.ret = "ok" THEN WOut(WD("live", o.L), o) ELSE Ret(WD("err", NoLib), "err")
            : o \in ZlibNew(s)}

DReadW(z, st, all, cap) ==
  IF z = "identity" THEN
       IF st.w = "nil" THEN {Ret(st, "panic")}
       ELSE IF st.L.src.k = "valid"
         THEN {[st |-> WD("live", [st.L EXCEPT !.rd = Adv(st.L.rd, all, cap)]), ret |-> "ok",
                eq |-> <<st.L.src.p>>, from |-> st.L.rd]}
         ELSE {[st |-> WD("live", [st.L EXCEPT !.rd = Adv(st.L.rd, all, cap)]), ret |-> "ok",
                eq |-> <<>>, from |-> st.L.rd]}                           \* no integrity check at all
  ELSE IF st.w = "nil" THEN {Ret(st, "ok")}                               \* zstd, deflate: (0, io.EOF)
  ELSE IF st.w = "err" THEN {Ret(st, "err"), Ret(st, "ok")}               \* errorDecompressor: the header
                                              \* error again - which a chunk reader takes as "ended" if it is an EOF kind
  ELSE {WOut(WD("live", o.L), o) : o \in LRead(st.L, all, cap)}

DCloseW(z, st) ==
  CASE z = "identity" -> IF st.w = "nil" THEN {Ret(st, "panic")} ELSE {Ret(st, "ok")}
    [] z = "gzip"     ->
         \* gzipDecompressor.Close: nothing to close until a Reset got past a header (ready = the
         \* zero Reader has its inner flate reader, R3); refuted design: gzip.Reader.Close directly
         IF ~st.L.inner /\ ~GzipUnwrapped THEN {Ret(st, "ok")}
         ELSE {WOut(WD("live", o.L), o) : o \in LClose(st.L)}
    [] z \in {"br", "snappy"} -> {Ret(st, "ok")}                          \* R4: nothing to close
    [] z = "zstd" ->
         IF st.w = "nil" THEN {Ret(st, "ok")}
         ELSE {WOut(IF Variant = "zstdKeepClosed" THEN WD("live", o.L) ELSE WD("nil", NoLib), o)
                 : o \in LClose(st.L)}                                    \* R2: drop it, recreate later
    [] z = "deflate" ->
         IF st.w = "nil" THEN {Ret(st, "ok")}
         ELSE IF st.w = "err" THEN {Ret(st, "err")}
         ELSE {WOut(WD("live", o.L), o) : o \in LClose(st.L)}

DStep(z, st, op, cap) ==
  CASE op.o = "Reset"   -> DResetW(z, st, Stream(op.k, op.p))
    [] op.o = "Read1"   -> DReadW(z, st, FALSE, cap)
    [] op.o = "ReadAll" -> DReadW(z, st, TRUE, cap)
    [] op.o = "Close"   -> DCloseW(z, st)

\* what an in-package test sees of the wrapper state (zstdDecompressor.decoder == nil,
\* deflateDecompressor.reader nil / *errorDecompressor / zlib reader; "live" for the others)
DAbs(z, st) == IF z \in {"zstd", "deflate"} THEN st.w ELSE "live"

(* ------------------------------ compressors ------------------------------ *)
\* writer state: sink bound, closed flag, sticky error, payload tokens accepted since Reset;
\* env: is the shared pipe sink still open?
WC(sink, closed, err, pend) == [sink |-> sink, closed |-> closed, err |-> err, pend |-> pend]
CNewW == WC("none", FALSE, FALSE, <<>>)
COut(st, pipeOpen, ret, w) == [st |-> st, pipeOpen |-> pipeOpen, ret |-> ret, w |-> w]

Writable(sink, pipeOpen) == sink \in {"buf", "discard"} \/ (sink = "pipe" /\ pipeOpen)

CStep(z, st, pipeOpen, op) ==
  CASE op.o = "New"   -> {COut(CNewW, pipeOpen, "ok", <<>>)}
    [] op.o = "Reset" ->                                                                   \* W1
         {COut(WC(op.k, FALSE, FALSE, IF Variant = "resetKeepsPending" THEN st.pend ELSE <<>>),
               pipeOpen, "ok", <<>>)}
    [] op.o = "Write" ->
         IF st.sink = "none" THEN {COut(st, pipeOpen, "panic", <<>>)}
         ELSE IF z = "identity" THEN      \* noOpCompressor: straight through, also after Close
              IF Writable(st.sink, pipeOpen)
                THEN {COut([st EXCEPT !.pend = Append(st.pend, op.p)], pipeOpen, "ok", <<>>)}
                ELSE {COut(st, pipeOpen, "err", <<>>)}
         ELSE IF st.closed \/ st.err                   \* refused, or swallowed (empty / buffered)
           THEN {COut(st, pipeOpen, "err", <<>>), COut(st, pipeOpen, "ok", <<>>)}
         ELSE IF Writable(st.sink, pipeOpen)
                THEN {COut([st EXCEPT !.pend = Append(st.pend, op.p)], pipeOpen, "ok", <<>>)}
         ELSE \* the sink refuses: buffered (ok) or reported now and remembered
              {COut([st EXCEPT !.pend = Append(st.pend, op.p)], pipeOpen, "ok", <<>>),
               COut([st EXCEPT !.err = TRUE], pipeOpen, "err", <<>>)}
    [] op.o = "Close" ->
         IF st.sink = "none" THEN {COut(st, pipeOpen, "panic", <<>>)}
         ELSE IF st.closed \/ st.err
           THEN {COut([st EXCEPT !.closed = TRUE], pipeOpen, r, <<"?">>) : r \in {"ok", "err"}}
         ELSE IF ~Writable(st.sink, pipeOpen)
           THEN {COut([st EXCEPT !.closed = TRUE], pipeOpen, r, <<"?">>) : r \in {"ok", "err"}}
         ELSE LET emitted == IF Variant = "closeNoFlush" /\ z # "identity" THEN <<"?">>
                             ELSE Flat(st.pend)                                            \* W2
                  \* noOpCompressor always wraps its sink in a noOpCloser: Close never reaches the
                  \* sink (refuted design: an io.WriteCloser sink kept as is, so Close closes the SINK)
                  stillOpen == IF z = "identity" /\ st.sink = "pipe" /\ IdentityAdopts
                               THEN FALSE ELSE pipeOpen
              IN {COut([st EXCEPT !.closed = TRUE], stillOpen, "ok", emitted)}
=============================================================================
