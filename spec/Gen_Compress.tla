---------------------------- MODULE Gen_Compress ----------------------------
(* Behaviour generator for C20: every maximal history of the machine (length MaxOps, or the
   instance was dropped by its pool) is printed with the obligations the declarative law
   attaches to its calls.  The obligations depend on the calls only, so one encoding's machine
   generates the histories that the harness replays on the real instances of all six encodings.
   Used exhaustively (free grammar up to MaxOps, pool / tracer / raw grammars for several
   cycles) and under -simulate (long histories). *)
EXTENDS Compress, Json

Maximal == n = MaxOps \/ phase = "dropped"

Emit == (Maximal /\ n > 0) =>
          PrintT("SCN " \o ToJson([side |-> side, gram |-> gram, ops |-> hist,
                                   obl |-> IF side = "D" THEN DReq(hist, MaxRd) ELSE CReq(hist)]))
=============================================================================
