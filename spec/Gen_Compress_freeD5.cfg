CONSTANTS
  Variant = "fixed"
  EncSet = {"gzip"}
  Sides = {"D"}
  Grammars = {"free"}
  Discipline = "first"
  MaxOps = 5
  MaxRd = 8
  MaxW = 8
  KeepHist = TRUE
INIT Init
NEXT Next
INVARIANTS Emit
VIEW ViewHist
