CONSTANTS
  W = 3
  M = 2
  MsgSet <- MsgsGen
  Known <- KnownNames
  AllowCrash = TRUE
  Paths = {"normal", "early"}
  KeepHist = TRUE
  MinOrder = 0
INIT Init
NEXT GNext
INVARIANTS Mutex EndInv Emit
