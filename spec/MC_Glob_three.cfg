CONSTANTS
  Lits = {"a", "b"}
  MaxPat = 2
  MaxName = 3
  MaxSet = 3
  MaxVisit = 1
SPECIFICATION Spec
INVARIANTS TypeOK CaseAgrees CreditSound DoneAgrees FirstHitIsMatch NoStuck
PROPERTIES Termination CreditMonotone
