------------------------------ MODULE EchoDecl ------------------------------
(* C02 - declarative meaning of a conformance test case in the deterministic fragment of the
   suite schema (no delays, timeouts, cancellation, raw payloads, size-limit directives).
   Constant level only; shared by the machine (Echo), the generator (Gen_Echo) and the acceptor of
   recorded executions (Trace_Echo).

   Three descriptions of the same test case, written independently of each other:

     Expect(T)      what the runner must derive as expected result from the request definition
                    alone  (statement of C02; proto comments of ConformancePayload.RequestInfo)
     Serve(T)       the service contract of service.proto / docs/testing_servers.md, as a
                    recursive run of the handler for the method of T
     ClientView(T)  what a conformant client reports for that server behaviour
                    (docs/testing_clients.md)

   Conforms(e, a, st) is a compact version of the runner's assertion (headers by subset and
   case-insensitive name, request info only where expected, error message only when expected).
   The design theorem checked by TLC (MC_Echo*.cfg) is
        WellFormed(T) => \A v \in Attributions(ClientView(T), T.st) : Conforms(Expect(T), v, T.st)
   and that the operational client/server machine of Echo.tla ends in ClientView(T).

   Opaque tokens (rendered by the Go side from the seed): payload bytes (0 = empty), header
   values, error codes / messages (msg 0 = absent), error detail messages, request messages
   (identified by their position in the request stream). *)
EXTENDS Naturals, Sequences, FiniteSets

NoneV == [k |-> "none"]

(* ------------------------------ vocabulary ------------------------------ *)
StreamTypes == {"unary", "client", "server", "half", "full"}
Kind(st)    == IF st \in {"unary", "client"} THEN "u" ELSE "s"    \* single response / stream of responses
MethodMsg(st) == CASE st = "unary"  -> "unaryReq"
                   [] st = "client" -> "clientReq"
                   [] st = "server" -> "serverReq"
                   [] OTHER         -> "bidiReq"
MsgTypes == {"unaryReq", "clientReq", "serverReq", "bidiReq", "other"}
DefKindOfMsg(mt) == CASE mt \in {"unaryReq", "clientReq"} -> "u"
                      [] mt \in {"serverReq", "bidiReq"}  -> "s"
                      [] OTHER                             -> "x"   \* not a request message at all

\* one header / trailer entry: list l ("q" request, "h" response header, "t" trailer), name id,
\* mixed-case spelling, -bin name, value tokens in order (a token may repeat)
H(l, id, mixed, bin, vals) == [l |-> l, id |-> id, mixed |-> mixed, bin |-> bin, vals |-> vals]
HdrShapeNames == {"none", "plain", "rep", "mixed", "bin", "multi", "shared"}
HdrShape(l, name) ==
  CASE name = "plain" -> <<H(l, 1, FALSE, FALSE, <<1>>)>>
    [] name = "rep"   -> <<H(l, 1, FALSE, FALSE, <<1, 2, 1>>)>>
    [] name = "mixed" -> <<H(l, 1, TRUE, FALSE, <<1>>)>>
    [] name = "bin"   -> <<H(l, 1, FALSE, TRUE, <<1>>)>>
    [] name = "multi" -> <<H(l, 1, TRUE, FALSE, <<1, 2>>), H(l, 2, TRUE, TRUE, <<1, 2>>), H(l, 3, FALSE, FALSE, <<1>>)>>   \* incl. a mixed-case -bin name
    \* "shared": the first entry carries the NAME of response header 1 whatever list it is in (in the
    \* trailer list it is spelled in mixed case): one name in the headers and in the trailers of a response
    [] name = "shared" -> <<H("h", 1, l = "t", FALSE, <<2, 1>>), H(l, 3, FALSE, FALSE, <<1>>)>>
    [] OTHER          -> <<>>

Tok(n)        == [k |-> "tok", t |-> n]                          \* an opaque error detail
RI(hdrs, reqs) == [k |-> "ri", hdrs |-> hdrs, reqs |-> reqs]     \* request info (absent == RI(<<>>, <<>>))
NoRI          == RI(<<>>, <<>>)
Err(code, msg, details) == [k |-> "err", code |-> code, msg |-> msg, details |-> details]
ErrShapeNames == {"none", "code", "msg", "full"}
ErrShape(name) == CASE name = "code" -> Err(1, 0, <<>>)
                    [] name = "msg"  -> Err(2, 1, <<>>)
                    [] name = "full" -> Err(3, 2, <<Tok(1), Tok(2)>>)
                    [] OTHER         -> NoneV

UDef(h, t, resp)      == [k |-> "udef", hdrs |-> h, trls |-> t, resp |-> resp]   \* resp: NoneV | Data(d) | Err
SDef(h, t, data, err) == [k |-> "sdef", hdrs |-> h, trls |-> t, data |-> data, err |-> err]
Data(d)               == [k |-> "data", d |-> d]
Req(mt, def, fd)      == [mt |-> mt, def |-> def, fd |-> fd]
Case(st, hdrs, reqs)  == [st |-> st, hdrs |-> hdrs, reqs |-> reqs]

P(d, ri)                     == [d |-> d, ri |-> ri]             \* one response payload
Res(hdrs, trls, payloads, err) == [hdrs |-> hdrs, trls |-> trls, payloads |-> payloads, err |-> err]

Min(a, b) == IF a < b THEN a ELSE b
SeqSet(s) == {s[i] : i \in DOMAIN s}
FromTo(a, b) == [i \in 1..(IF b >= a THEN b + 1 - a ELSE 0) |-> a + i - 1]   \* <<a, a+1, .., b>>
AddDetail(e, d) == [e EXCEPT !.details = Append(@, d)]

(* ------------------------------ well-formedness ------------------------------ *)
\* docs/testing_clients.md: unary and server-stream cases carry exactly one request message; the
\* BidiStream method serves both duplex styles, the client goes by the stream type and the server
\* by the full_duplex flag of the FIRST message, so the two must agree; every message has the
\* request type of the method; a header name occurs once per list (values are repeated, not names).
WellFormed(T) ==
  LET n == Len(T.reqs) IN
  /\ T.st \in StreamTypes
  /\ \A i \in 1..n : T.reqs[i].mt = MethodMsg(T.st)
  /\ T.st \in {"unary", "server"} => n = 1
  /\ (T.st \in {"half", "full"} /\ n >= 1) => (T.reqs[1].fd <=> T.st = "full")
  /\ \A i \in 1..n : T.reqs[i].def # NoneV => T.reqs[i].def.k = (IF Kind(T.st) = "u" THEN "udef" ELSE "sdef")

\* Loading ("never crashes: shapes it cannot handle are rejected with an error").  The expectation
\* can only be derived when the first message carries the kind of response definition the stream
\* type needs; everything else the loader sees must load.  "any": well-typed for the derivation but
\* not a well-formed case (wrong count, other method's request of the same kind, flag mismatch):
\* must not crash, result unconstrained.
LoadVerdict(T) ==
  IF T.reqs # <<>> /\ DefKindOfMsg(T.reqs[1].mt) # Kind(T.st) THEN "reject"
  ELSE IF WellFormed(T) THEN "ok" ELSE "any"

(* ------------------------------ 1. the runner's expectation ------------------------------ *)
FirstDef(T) == IF T.reqs = <<>> THEN NoneV ELSE T.reqs[1].def
AllReqs(T)  == FromTo(1, Len(T.reqs))

\* single-response methods: the one payload (or the error) carries everything the server saw
ExpectU(T) ==
  LET d  == FirstDef(T)
      ri == RI(T.hdrs, AllReqs(T))
  IN IF d = NoneV THEN Res(<<>>, <<>>, <<P(0, ri)>>, NoneV)
     ELSE IF d.resp.k = "err" THEN Res(d.hdrs, d.trls, <<>>, AddDetail(d.resp, ri))
     ELSE Res(d.hdrs, d.trls, <<P(IF d.resp.k = "data" THEN d.resp.d ELSE 0, ri)>>, NoneV)

\* streaming methods: one payload per response datum.  Server stream and half duplex: request
\* info (headers + every request) in the first response only.  Full duplex: response i answers
\* request i (the requests received since the previous response: exactly <<i>> while requests
\* last, none afterwards); headers only with the first.  An error with no response at all carries
\* the request info as last detail: all requests, but in full duplex only the first one, because
\* the server must raise the error as soon as it has a request and nothing to answer it with.
ExpectS(T) ==
  LET d == FirstDef(T)
      n == Len(T.reqs)
  IN IF d = NoneV THEN Res(<<>>, <<>>, <<>>, NoneV)
     ELSE LET m == Len(d.data)
              riAt(i) == IF T.st = "full"
                           THEN RI(IF i = 1 THEN T.hdrs ELSE <<>>, IF i <= n THEN <<i>> ELSE <<>>)
                           ELSE IF i = 1 THEN RI(T.hdrs, AllReqs(T)) ELSE NoRI
              errRI   == RI(T.hdrs, IF T.st = "full" THEN <<1>> ELSE AllReqs(T))
          IN Res(d.hdrs, d.trls, [i \in 1..m |-> P(d.data[i], riAt(i))],
                 IF d.err = NoneV THEN NoneV ELSE IF m = 0 THEN AddDetail(d.err, errRI) ELSE d.err)

Expect(T) == IF Kind(T.st) = "u" THEN ExpectU(T) ELSE ExpectS(T)

(* ------------------------------ 2. the service contract ------------------------------ *)
\* A run of the handler: what it put on the response stream (hdrs/trls set, messages in order,
\* final error), and how many requests it consumed.
Out(hdrs, trls, msgs, err, nread) == [hdrs |-> hdrs, trls |-> trls, msgs |-> msgs, err |-> err, nread |-> nread]

\* Unary / ClientStream: read everything, definition from the first message only.
ServeSingle(T) ==
  LET n  == Len(T.reqs)
      d  == IF n = 0 THEN NoneV ELSE T.reqs[1].def
      ri == RI(T.hdrs, FromTo(1, n))
  IN IF d = NoneV THEN Out(<<>>, <<>>, <<P(0, ri)>>, NoneV, n)
     ELSE CASE d.resp.k = "err"  -> Out(d.hdrs, d.trls, <<>>, AddDetail(d.resp, ri), n)
            [] d.resp.k = "data" -> Out(d.hdrs, d.trls, <<P(d.resp.d, ri)>>, NoneV, n)
            [] OTHER             -> Out(d.hdrs, d.trls, <<P(0, ri)>>, NoneV, n)

\* "loop over any response data specified: request info if this is the first response being sent"
RECURSIVE SendAll(_, _, _)
SendAll(data, k, firstRI) ==      \* k responses already sent
  IF k >= Len(data) THEN <<>>
  ELSE <<P(data[k + 1], IF k = 0 THEN firstRI ELSE NoRI)>> \o SendAll(data, k + 1, firstRI)

\* "if an error was specified: if no responses have been sent yet, set the request info into the details"
Finish(d, sent, ri) == IF d.err = NoneV THEN NoneV ELSE IF sent = 0 THEN AddDetail(d.err, ri) ELSE d.err

\* ServerStream, and BidiStream with full_duplex = false: read all requests, then respond.
ServeAfterUpload(T) ==
  LET n  == Len(T.reqs)
      d  == IF n = 0 THEN NoneV ELSE T.reqs[1].def
      ri == RI(T.hdrs, FromTo(1, n))
  IN IF d = NoneV THEN Out(<<>>, <<>>, <<>>, NoneV, n)
     ELSE Out(d.hdrs, d.trls, SendAll(d.data, 0, ri), Finish(d, Len(d.data), ri), n)

\* BidiStream with full_duplex = true: read one, answer one.  i = next request to read, msgs =
\* responses so far.  When a request arrives and nothing is left to answer it with, stop reading
\* and finish; when the client half-closes first, flush what is left (no request was received
\* since the last response, so those carry no requests).
RECURSIVE PingPong(_, _, _, _)
PingPong(T, d, i, msgs) ==
  LET n == Len(T.reqs)
      m == Len(d.data)
      k == Len(msgs)
  IN IF i > n
       THEN Out(d.hdrs, d.trls, msgs \o SendAll(d.data, k, RI(T.hdrs, <<>>)), Finish(d, m, RI(T.hdrs, <<>>)), n)
       ELSE IF k >= m
              THEN Out(d.hdrs, d.trls, msgs, Finish(d, k, RI(T.hdrs, <<i>>)), i)
              ELSE PingPong(T, d, i + 1, Append(msgs, P(d.data[k + 1], RI(IF k = 0 THEN T.hdrs ELSE <<>>, <<i>>))))

ServeBidi(T) ==
  IF T.reqs = <<>> \/ T.reqs[1].def = NoneV THEN Out(<<>>, <<>>, <<>>, NoneV,
                                                  IF T.reqs # <<>> /\ T.reqs[1].fd THEN 1 ELSE Len(T.reqs))
  ELSE IF T.reqs[1].fd THEN PingPong(T, T.reqs[1].def, 1, <<>>) ELSE ServeAfterUpload(T)

Serve(T) == CASE T.st \in {"unary", "client"} -> ServeSingle(T)
              [] T.st = "server"              -> ServeAfterUpload(T)
              [] OTHER                        -> ServeBidi(T)

(* ------------------------------ 3. the client's report ------------------------------ *)
\* Every response message received becomes a payload, in order; the error that ended the call;
\* the metadata received.
ClientView(T) == LET s == Serve(T) IN Res(s.hdrs, s.trls, s.msgs, s.err)

\* Attribution of metadata when the call ended before any message: a single-response client API
\* may expose only "error metadata" (reported as trailers, headers empty - or the reverse); on the
\* wire a trailers-only response carries both blocks together, so each list may also hold the other.
\* one bag for headers and trailers: a name that is in both lists has the header's values followed by
\* the trailer's (what a receiver that cannot tell the two apart sees, and what the runner expects then)
HKey(h) == <<h.l, h.id, h.bin>>
MergeH(hs, ts) ==
  LET hit(i) == {j \in DOMAIN ts : HKey(ts[j]) = HKey(hs[i])}
      m1 == [i \in DOMAIN hs |-> IF hit(i) = {} THEN hs[i]
                                  ELSE [hs[i] EXCEPT !.vals = @ \o ts[CHOOSE j \in hit(i) : TRUE].vals]]
  IN m1 \o SelectSeq(ts, LAMBDA t : \A i \in DOMAIN hs : HKey(hs[i]) # HKey(t))

Attributions(v, st) ==
  LET both == MergeH(v.hdrs, v.trls) IN
  IF v.payloads # <<>> THEN {v}
  ELSE IF Kind(st) = "u"
         THEN {v, [v EXCEPT !.hdrs = <<>>, !.trls = both], [v EXCEPT !.hdrs = both, !.trls = <<>>],
                  [v EXCEPT !.hdrs = both, !.trls = both]}
         ELSE {v}

(* ------------------------------ the assertion ------------------------------ *)
Key(h) == HKey(h)                             \* a name, compared case-insensitively
HdrSubset(exp, act) == \A i \in DOMAIN exp : \E j \in DOMAIN act : Key(act[j]) = Key(exp[i]) /\ act[j].vals = exp[i].vals

RIConforms(e, a, first) == /\ first => HdrSubset(e.hdrs, a.hdrs)
                           /\ a.reqs = e.reqs

DetailConforms(e, a) == IF e.k = "ri" /\ a.k = "ri" THEN RIConforms(e, a, TRUE) ELSE e = a

ErrConforms(e, a) ==
  IF e = NoneV \/ a = NoneV THEN e = a
  ELSE /\ e.code = a.code
       /\ e.msg # 0 => e.msg = a.msg
       /\ Len(e.details) = Len(a.details)
       /\ \A i \in DOMAIN e.details : DetailConforms(e.details[i], a.details[i])

PayloadsConform(e, a) == /\ Len(e) = Len(a)
                         /\ \A i \in DOMAIN e : e[i].d = a[i].d /\ RIConforms(e[i].ri, a[i].ri, i = 1)

MetaConforms(e, a, st) ==
  LET strict == HdrSubset(e.hdrs, a.hdrs) /\ HdrSubset(e.trls, a.trls)
      merged == MergeH(e.hdrs, e.trls)
  IN IF e.payloads = <<>> /\ e.err # NoneV /\ Kind(st) = "u"
       THEN strict \/ HdrSubset(merged, a.hdrs) \/ HdrSubset(merged, a.trls)
       ELSE strict

Conforms(e, a, st) == /\ ErrConforms(e.err, a.err)
                      /\ PayloadsConform(e.payloads, a.payloads)
                      /\ MetaConforms(e, a, st)

\* an observed result is one the specification predicts: same payloads and error (request headers
\* by subset: the transport adds its own), every predicted header/trailer where an attribution
\* puts it, and no custom (x-v-) metadata that the definition did not ask for.
Predicted(v, obs) ==
  /\ ErrConforms(v.err, obs.err)
  /\ PayloadsConform(v.payloads, obs.payloads)
  /\ HdrSubset(v.hdrs, obs.hdrs) /\ HdrSubset(v.trls, obs.trls)
  /\ \A i \in DOMAIN obs.hdrs : \E j \in DOMAIN v.hdrs : v.hdrs[j].l = obs.hdrs[i].l /\ v.hdrs[j].id = obs.hdrs[i].id
  /\ \A i \in DOMAIN obs.trls : \E j \in DOMAIN v.trls : v.trls[j].l = obs.trls[i].l /\ v.trls[j].id = obs.trls[i].id
  /\ \A i \in DOMAIN obs.payloads :
       \A j \in DOMAIN obs.payloads[i].ri.hdrs : \E q \in DOMAIN v.payloads[i].ri.hdrs :
            Key(v.payloads[i].ri.hdrs[q]) = Key(obs.payloads[i].ri.hdrs[j])

ThreeWay(T) == \A v \in Attributions(ClientView(T), T.st) : Conforms(Expect(T), v, T.st)
=============================================================================
