\* design check (thorough): all reliance combinations x connect-version mode
CONSTANTS
  RunModes = {0, 1}
  CaseSets = {4, 5, 6}
  MaxSuites = 1
  SNames = {4}
  SModes = {0, 1}
  RelPs = {1, 2, 8, 5}
  RelVs = {1}
  RelCs = {1}
  RelZs = {1}
  Flags = {0, 1, 2, 3, 4, 5, 6, 7, 8, 9, 10, 11, 12, 13, 14, 15}
  Cvms = {0, 1, 2}
  TestIdx = {1, 4}
  TestLens = {2}
  SNames2 = {}
  SModes2 = {}
  RelPs2 = {}
  RelVs2 = {}
  RelCs2 = {}
  RelZs2 = {}
  Flags2 = {}
  Cvms2 = {}
  TestIdx2 = {}
  TestLens2 = {}
INIT Init
NEXT Next
VIEW View
INVARIANTS TypeOK Correct UniqueNames Sound Partition ModeSplit NameSpells CleanIsJoin GrpcSound Progress
