\* passive axes: all codec subsets (incl. TEXT) x 8 compression sets x get/lim tri-states
CONSTANTS
  NZ = 6
  AxisVs = {{}, {1, 2, 3}}
  AxisPs = {{}, {1}}
  AxisCs <- AllCs
  AxisZs <- CompSome
  AxisSs = {{}}
  TriH2c = {"unset"}
  TriTls = {"unset", "false"}
  TriCerts = {"unset"}
  TriTrailers = {"unset"}
  TriHdh1 = {"unset"}
  TriGet <- Tri
  TriLim <- Tri
  EntryPool = {}
  MaxInc = 0
  MaxExc = 0
INIT GenInit
NEXT GenNext
INVARIANTS Emit
