CONSTANTS
  MaxDev = 2
INIT Init
NEXT GenNext
INVARIANTS Emit
