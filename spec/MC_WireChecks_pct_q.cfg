CONSTANTS
  Kind = "pct"
  Tier = "q"
SPECIFICATION Spec
INVARIANTS TypeOK Agrees SilentIff EmitSilent
PROPERTIES Monotone Terminates
