CONSTANTS
  MaxOps = 5
  KeepHist = FALSE
  Proto = "h2"
  DelBeforeTrailers = TRUE
  Alphabet = "full"
  Codes = {500}
  Chunks = {"c1", "c2"}
  RawIds = {"D1", "D2", "D3"}
  MidRaw = TRUE
SPECIFICATION FairSpec
INVARIANTS TypeOK Mutex Pending RawExact NoLeak
PROPERTIES StartedStable RawStable RawOnlyBefore WireAppendOnly Terminates
