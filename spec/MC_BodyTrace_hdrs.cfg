CONSTANTS
  FlagSet = {3, 130}
  LenSet = {0, 1}
  PcSet = {"plain", "comp"}
  EncSet = {"none", "identity", "real", "unknown"}
  HdrMode = "all"
  SideSet = {"req", "resp"}
  EndSet = {"eof", "close"}
  MaxEnvs = 1
  MaxTotal = 6
  ChunkSet = {1, 2, 3, 4, 5, 6}
  MaxPost = 1
  MaxOther = 1
  Grain = "loop"
  ConsultBit = TRUE
  KeepHist = FALSE
INIT Init
NEXT Next
VIEW ViewNoHist
INVARIANTS TypeOK Agrees Eager Bookkeeping Consecutive EndsOnce Transparent NoCorrupt Progress
PROPERTIES OutGrows
