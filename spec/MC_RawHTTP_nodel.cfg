CONSTANTS
  MaxOps = 2
  KeepHist = FALSE
  Proto = "h1"
  DelBeforeTrailers = FALSE
  Alphabet = "small"
  Codes = {500}
  Chunks = {"c1"}
  RawIds = {"D1"}
  MidRaw = FALSE
SPECIFICATION Spec
INVARIANTS RawExact
