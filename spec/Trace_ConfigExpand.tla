------------------------- MODULE Trace_ConfigExpand -------------------------
(* code -> spec binding for C06.  Every line of the recorded file is one execution of the real
   parseConfig: the configuration it was given (repeated fields as written: any order, repetitions)
   and what it returned (error class, or the integer codes of the returned cases).  A line is
   accepted iff the observation conforms to the declarative meaning (ConfigExpandDecl!Conforms:
   exact set equality, no duplicates, rejection exactly where required/tolerated).  A rejected line
   is printed with the exact difference.  The file is processed as Shards independent chains so that
   TLC's workers share it. *)
EXTENDS ConfigExpandDecl, Json, TLC, IOUtils

Rec    == ndJsonDeserialize(IOEnv.VERIF_TRACE)
Shards == 64

ToSet(s) == {s[i] : i \in DOMAIN s}

\* repeated enum fields are read as sets
CfgOf(c) == [f   |-> [vs |-> ToSet(c.f.vs), ps |-> ToSet(c.f.ps), cs |-> ToSet(c.f.cs), zs |-> ToSet(c.f.zs),
                      ss |-> ToSet(c.f.ss), h2c |-> c.f.h2c, tls |-> c.f.tls, certs |-> c.f.certs,
                      trailers |-> c.f.trailers, hdh1 |-> c.f.hdh1, get |-> c.f.get, lim |-> c.f.lim],
             inc |-> c.inc, exc |-> c.exc]
ObsOf(o) == [kind |-> o.kind, class |-> o.class, pos |-> o.pos, cases |-> ToSet(o.cases), dups |-> o.dups]

InDomain(c) == /\ c.f.vs \subseteq Versions /\ c.f.ps \subseteq Protocols /\ c.f.cs \subseteq CodecsAll
               /\ c.f.zs \subseteq Compressions /\ c.f.ss \subseteq StreamTypes
               /\ \A i \in DOMAIN Entries(c) : Entries(c)[i] \in EntryDom

Accept(r) == LET c == CfgOf(r.cfg) IN InDomain(c) /\ Conforms(ObsOf(r.obs), c)

Explain(n) ==
  LET c  == CfgOf(Rec[n].cfg)
      o  == ObsOf(Rec[n].obs)
      fe == FeatErrs(c.f)
      G  == Resolve(c.f)
      es == Entries(c)
      want == IF fe # {} THEN {} ELSE Codes(Result(G, c))
  IN [line |-> n, ferr |-> fe,
      ent  |-> IF fe # {} THEN <<>> ELSE [i \in DOMAIN es |-> [must |-> EntryMust(G, es[i]), gap |-> EntryGap(G, es[i])]],
      want_n |-> Cardinality(want),
      missing |-> IF o.kind = "cases" THEN want \ o.cases ELSE {},
      extra   |-> IF o.kind = "cases" THEN o.cases \ want ELSE {}]

VARIABLE l
TraceInit == l \in 1..Shards
TraceNext == /\ l <= Len(Rec)
             /\ l' = l + Shards
             /\ (Accept(Rec[l]) \/ PrintT("REJECT " \o ToJson(Explain(l))))
TraceSpec == TraceInit /\ [][TraceNext]_l
Consumed == (l > Len(Rec)) => PrintT("END " \o ToString(l))
=============================================================================
