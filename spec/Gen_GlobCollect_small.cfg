CONSTANTS
  MaxArgs = 3
  MaxLines = 2
INIT Init
NEXT Next
INVARIANTS DoneAgrees Emit
