CONSTANTS
  Senders = {"s1", "s2"}
  Script <- ScriptA
  Names = {"a", "b"}
  MaxCliOps = 2
  FaultKinds = {"garbage"}
  AllowZZ = FALSE
  AllowEarly = TRUE
  AnyName = FALSE
  KeepHist = FALSE
SPECIFICATION Spec

INVARIANTS TypeOK AtMostOnce ExactlyOnceAtEnd OwnResponse
PROPERTIES RefusedAfterFailure Terminates EventuallyNotRunning SendersFinish NoStuckCallback
