CONSTANTS
  NZ = 6
INIT TraceInit
NEXT TraceNext
INVARIANT Consumed
