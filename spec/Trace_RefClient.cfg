CONSTANTS
  P = 2
  N = 4
  KeepHist = FALSE
INIT TInit
NEXT TNext
INVARIANTS InFlight ReadAhead EncMutex ExactlyOnce FailureIsReported Accepted
