---------------------------- MODULE RefChecksSpace ----------------------------
(* C12 - the bounded scenario spaces named by the property's quantifier, shared by the design
   check (RefChecks), the generators (the Gen_RefChecks modules) so that what TLC proves the design on and
   what is replayed on the code are the same sets. *)
EXTENDS RefChecksDecl

(* ------------------------------------------------------------ timeout strings *)
\* characters: digits that make the limits and carries visible, signs, blanks, the six units,
\* near-miss units and separators ("s": wrong case, "x", "_" and "." are what integer parsers of
\* other languages let through)
Alphabet == {"0", "1", "5", "9", "+", "-", " ", "H", "M", "S", "m", "u", "n", "s", "x", "_", "."}

RECURSIVE StringsOfLen(_)
StringsOfLen(n) == IF n = 0 THEN {<<>>}
                   ELSE {Append(s, c) : s \in StringsOfLen(n - 1), c \in Alphabet}
StringsUpTo(n) == UNION {StringsOfLen(k) : k \in 0..n}

Rep(c, n) == [i \in 1..n |-> c]
\* digit strings of length k that sit on a boundary of the digit-count / value rules
DigitPatterns(k) ==
  IF k = 0 THEN {<<>>}
  ELSE {Rep("9", k), Rep("0", k), <<"1">> \o Rep("0", k - 1), Rep("0", k - 1) \o <<"5">>,
        <<"5">> \o Rep("0", k - 1), Rep("0", k - 1) \o <<"1">>}
Signs == {<<>>, <<"+">>, <<"-">>, <<" ">>}
Tails == {<<>>, <<"x">>, <<"s">>, <<" ">>, <<"S", " ">>, <<"m", "s">>} \cup {<<u>> : u \in Units}

\* sign? digits^k tail   for k in 0..MaxDigits
BoundaryForms(maxDigits) ==
  {sg \o d \o t : sg \in Signs, d \in UNION {DigitPatterns(k) : k \in 0..maxDigits}, t \in Tails}

\* where saturation starts: 2^63-1 ns = 2562047 h 47 min 16.854775807 s
OverflowForms ==
  LET d(n) == [i \in 1..Len(n) |-> DigitChars[n[i] + 1]]
      H(n) == d(n) \o <<"H">>
  IN {H(<<2,5,6,2,0,4,7>>), H(<<2,5,6,2,0,4,8>>), H(<<2,5,6,2,0,4,6>>), H(<<0,2,5,6,2,0,4,7>>),
      H(<<0,2,5,6,2,0,4,8>>), H(<<2,5,6,2,0,5,0>>), H(<<3,0,0,0,0,0,0>>), H(<<9,9,9,9,9,9,9>>),
      H(<<1,0,0,0,0,0,0,0>>), H(<<5,1,2,4,0,9,5,8>>), H(<<5,1,2,4,0,9,6,0>>),
      d(<<2,5,6,2,0,4,7>>) \o <<"M">>, d(<<9,2,2,3,3,7,2,0>>) \o <<"S">>,
      d(<<9,2,2,3,3,7,2,0>>) \o <<"n">>, d(<<9,2,2,3,3,7,2,0,3,6>>), d(<<9,2,2,3,3,7,2,0,3,7>>),
      d(<<4,2,9,4,9,6,7,2,9,6>>), d(<<2,1,4,7,4,8,3,6,4,8>>), d(<<1,2,3,4,5,6,7,8,9>>),
      d(<<1,2,3,4,5,6,7,8>>) \o <<"u">>, d(<<9,8,7,6,5,4,3,2>>) \o <<"m">>, d(<<7>>) \o <<"M">>}

TimeoutStrings(maxLen, maxDigits) == StringsUpTo(maxLen) \cup BoundaryForms(maxDigits) \cup OverflowForms

(* --------------------------------------------------------------- aspect matrix *)
Hamming(E, A) == Cardinality({c \in {"ver", "method", "proto", "codec", "comp", "tls", "cert"} :
                    CASE c = "ver" -> E.ver # A.ver [] c = "method" -> E.method # A.method
                      [] c = "proto" -> E.proto # A.proto [] c = "codec" -> E.codec # A.codec
                      [] c = "comp" -> E.comp # A.comp [] c = "tls" -> E.tls # A.tls
                      [] c = "cert" -> E.cert # A.cert})

\* the tuples that differ from E in at most one aspect (built, not filtered)
Near(E) == {E} \cup {[E EXCEPT !.ver = x] : x \in Versions} \cup {[E EXCEPT !.method = x] : x \in Methods}
           \cup {[E EXCEPT !.proto = x] : x \in Protocols} \cup {[E EXCEPT !.codec = x] : x \in Codecs}
           \cup {[E EXCEPT !.comp = x] : x \in Compressions} \cup {[E EXCEPT !.tls = x] : x \in BOOLEAN}
           \cup {[E EXCEPT !.cert = x] : x \in BOOLEAN}

\* deterministic choice of one variant for a pair (salted), so that the full matrix meets every
\* spelling without multiplying the pair count
VariantSeq == <<Plain,
                [Plain EXCEPT !.stream = TRUE], [Plain EXCEPT !.bare = TRUE],
                [Plain EXCEPT !.explicitId = TRUE], [Plain EXCEPT !.decoy = TRUE],
                [Plain EXCEPT !.noTe = TRUE],
                [Plain EXCEPT !.stream = TRUE, !.decoy = TRUE], [Plain EXCEPT !.bare = TRUE, !.decoy = TRUE],
                [Plain EXCEPT !.explicitId = TRUE, !.decoy = TRUE],
                [Plain EXCEPT !.stream = TRUE, !.explicitId = TRUE],
                [Plain EXCEPT !.bare = TRUE, !.explicitId = TRUE, !.decoy = TRUE],
                [Plain EXCEPT !.stream = TRUE, !.explicitId = TRUE, !.decoy = TRUE]>>
\* switch off what does not apply to A
FitVariant(v, A) == [stream |-> v.stream /\ A.proto = 1 /\ A.method = "POST",
                     bare |-> v.bare /\ A.proto # 1 /\ A.codec = 1,
                     explicitId |-> v.explicitId /\ A.comp = 1,
                     decoy |-> v.decoy,
                     noTe |-> v.noTe /\ A.proto = 2]
PickVariant(E, A, salt) ==
  FitVariant(VariantSeq[((TupleIndex(E) * 7 + TupleIndex(A) * 13 + salt) % Len(VariantSeq)) + 1], A)
=============================================================================
