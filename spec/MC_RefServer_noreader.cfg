CONSTANTS
  NR = 1
  Kinds = {"tracked"}
  Binds = {"free"}
  CfgKinds = {"good"}
  AnnounceFirst = FALSE
  KeepHist = FALSE
SPECIFICATION SpecNoReader
PROPERTIES Terminates
