------------------------------ MODULE GlobLaws ------------------------------
(* C08 - laws of the declarative definitions, checked by TLC on every pattern (one state per
   pattern / pair, so the check runs on all workers) against every name of the bound:
     ThreeWay      the literal reading of the statement (MatchDecl: a cut of the name into owned
                   segments), the structural recursion (Match) and the position-set automaton
                   (MatchNFA) are the same relation
     DStarIdem     consecutive "**" collapse:  x/**/**/y  ==  x/**/y
     WildLaws      "*" owns exactly one component, "**" zero or more: direct consequences used as
                   a sanity check of the definition itself (length bounds, literal-only patterns
                   match only themselves, "**" alone matches everything, p/** matches p)
     SelectLaws    run/skip composition: no run patterns = everything not skipped; skip wins
     ReportLaws    the as-implemented report (first-hit crediting) satisfies ReportOK; TrulyUnmatched
                   is antitone in the set of names; a list of one pattern is never shadowed
     CollectLaws   Collect is a homomorphism for concatenation of argument lists (checked in
                   MC_GlobLaws_collect.cfg on pairs of lists)                                  *)
EXTENDS GlobDecl, TLC

CONSTANTS Lits, MaxPat, MaxName, MaxArgs, MaxLines, Mode

VARIABLE x
PatComps == Lits \cup {Star, DStar}
SeqsUpTo(S, k)  == UNION {[1..m -> S] : m \in 1..k}
SeqsUpTo0(S, k) == UNION {[1..m -> S] : m \in 0..k}
Patterns  == SeqsUpTo(PatComps, MaxPat)
Patterns0 == SeqsUpTo0(PatComps, MaxPat)
Names     == SeqsUpTo(Lits, MaxName)
Names0    == SeqsUpTo0(Lits, MaxName)

LineKinds == {"pat", "blank", "comment"}
ArgShapes == {[k |-> kind, lines |-> <<>>] : kind \in {"lit", "bare", "missing"}}
               \cup {[k |-> "file", lines |-> l] : l \in SeqsUpTo0(LineKinds, MaxLines)}
ArgLists == SeqsUpTo0(ArgShapes, MaxArgs)

\* the domain is built in steps so that the laws are evaluated by all workers
Init == \/ Mode = "pattern" /\ x = <<>>
        \/ Mode = "pair"    /\ x \in {<<p>> : p \in Patterns}
        \/ Mode = "collect" /\ x \in {<<a>> : a \in ArgLists}
Next == \/ Mode = "pattern" /\ Len(x) < MaxPat /\ \E c \in PatComps : x' = Append(x, c)
        \/ Mode = "pair"    /\ Len(x) = 1 /\ \E q \in Patterns : x' = Append(x, q)
        \/ Mode = "collect" /\ Len(x) = 1 /\ \E b \in ArgLists : x' = Append(x, b)
Pair == Mode # "pattern" /\ Len(x) = 2

MinLen(p) == Cardinality({i \in 1..Len(p) : p[i] # DStar})
HasDStar(p) == \E i \in 1..Len(p) : p[i] = DStar
NoWild(p) == \A i \in 1..Len(p) : ~IsWild(p[i])

ThreeWay == Mode = "pattern" =>
  \A n \in Names0 : /\ Match(x, n) = MatchDecl(x, n)
                    /\ Match(x, n) = MatchNFA(x, n)

DStarIdem == Mode = "pattern" =>
  /\ \A n \in Names0 : Match(Norm(x), n) = Match(x, n)
  /\ \A i \in 1..Len(Norm(x)) - 1 : ~(Norm(x)[i] = DStar /\ Norm(x)[i + 1] = DStar)

WildLaws == Mode = "pattern" =>
  /\ \A n \in Names0 : Match(x, n) => /\ Len(n) >= MinLen(x)
                                      /\ (~HasDStar(x) => Len(n) = Len(x))
                                      /\ \A i \in 1..Len(x) : (~HasDStar(x) /\ ~IsWild(x[i])) => n[i] = x[i]
  /\ NoWild(x) => \A n \in Names0 : Match(x, n) <=> n = x
  /\ \A n \in Names0 : Match(<<DStar>>, n)
  /\ \A n \in Names0 : Match(x, n) => Match(x \o <<DStar>>, n) /\ Match(<<DStar>> \o x, n)
                                      /\ Match(x \o <<DStar, DStar>>, n)
  /\ \A n \in Names0 : Match(x \o <<Star>>, n) <=> (n # <<>> /\ Match(x, SubSeq(n, 1, Len(n) - 1)))

SelectLaws == (Mode = "pair" /\ Pair) =>
  LET R == {x[1]}  S == {x[2]} IN
  /\ SelectedSet(Names, {}, {}) = Names
  /\ SelectedSet(Names, R, {}) = MarkedSet(Names, R)
  /\ SelectedSet(Names, {}, S) = Names \ MarkedSet(Names, S)
  /\ SelectedSet(Names, R, S) = SelectedSet(Names, R, {}) \cap SelectedSet(Names, {}, S)
  /\ SelectedSet(Names, R, R) = {}
  /\ Ambiguous(Names, R, S) = MarkedSet(Names, R) \cap MarkedSet(Names, S)

ReportLaws == (Mode = "pair" /\ Pair) =>
  LET Q == {x[1], x[2]} IN
  /\ \A n \in Names : /\ ReportOK(Q, {n}, AsImplemented_Reported(Q, {n}))
                      /\ AsImplemented_MaybeShadowed({x[1]}, {n}) = {}
                      /\ TrulyUnmatched(Q, Names) \subseteq TrulyUnmatched(Q, {n})
                      /\ (AsImplemented_FirstHit(Q, n) # <<>>) <=> MatchAny(Q, n)
  /\ ReportOK(Q, Names, AsImplemented_Reported(Q, Names))
  /\ ReportOK(Q, Names, TrulyUnmatched(Q, Names))      \* an implementation without shadowing is accepted

CollectLaws == (Mode = "collect" /\ Pair) =>
  LET a == x[1]
      b == x[2]
      Shift(s, d) == [m \in 1..Len(s) |-> Tok(s[m][1] + d, s[m][2])] IN
  /\ Collect(a \o b) = Collect(a) \o Shift(Collect(b), Len(a))
  /\ CollectResult(a \o b).err = (CollectResult(a).err \/ CollectResult(b).err)
  /\ Len(Collect(a)) = Cardinality({<<i, j>> \in (1..Len(a)) \X (0..MaxLines) :
                                      \/ j = 0 /\ a[i].k = "lit"
                                      \/ j > 0 /\ a[i].k = "file" /\ j <= Len(a[i].lines) /\ a[i].lines[j] = "pat"})
=============================================================================
