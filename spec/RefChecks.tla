------------------------------ MODULE RefChecks ------------------------------
(* C12 - the reference server's request checks as a machine: NReq requests are served
   concurrently by ONE instance of the checking middleware (referenceServerChecks), which owns a
   table `calls` (test name -> requests seen).  One action per check function of the middleware,
   in the order of the code; the timeout header is scanned one character per action.

     Start -> Count -> Version -> Protocol -> Timeout [-> Scan ...] -> Codec -> Compression
           -> Tls -> Method -> HandlerEnter -> [inner handler runs] -> Release -> Trailers -> done

   Count is the only step that touches shared state (critical section under callsMu).
   The steps are written the way a server reads a request (first matching case of the content
   type, value of a header), NOT by calling the declarative operators; the theorems say that the
   two agree:

     Agrees                 machine outcome of a finished request = RefChecksDecl!Outcome
                            (feedback set, handler ran, header removal, context duration,
                            echoed timeout_ms), for every interleaving
     CountsConsistent       calls[n] = number of requests named n that passed Count; ranks distinct
     RejectedIsSilent       a request without test name is answered at once: no check, no handler
     HandlerSeesCleanRequest the examined timeout header is gone when the inner handler runs
     Monotone               headers are only removed, feedback only appended, handler runs once
     Termination            every request is answered (fair scheduling, handler returns)

   The statement-level laws of the declarative definitions themselves (feedback classes = differing
   aspects, timeout grammar vs. value-based acceptance, exact saturating durations) are checked
   over the whole domain in RefChecksLaws.tla. *)
EXTENDS RefChecksSpace

CONSTANTS Domain,      \* which bounded scenario space Init ranges over
          NReq,        \* requests in flight
          Coarse,      \* TRUE: a request's pre-/post-handler section runs without interleaving
                       \*       (what a harness without hooks can enforce); FALSE: all interleavings
          KeepHist,    \* TRUE: remember start/release events (behaviour generation)
          MaxLen,      \* timeout strings: all strings over Alphabet up to this length
          MaxDigits    \* timeout strings: boundary forms with up to this many digits

Reqs == 1..NReq

VARIABLES rq,        \* r -> [name, e, w, ctm, gtm]  the request (chosen in Init, never changes)
          pc,        \* r -> control state
          calls,     \* test name -> number of requests counted      (shared, under callsMu)
          fb,        \* r -> sequence of feedback items printed for r
          hd,        \* r -> [ctm, gtm : BOOLEAN]  timeout headers still on the request
          ctx,       \* r -> digits of the duration stored in the request context, or <<>>
          sc,        \* r -> scanner state [i, n, st]
          seen,      \* r -> what the inner handler observed
          ran,       \* r -> inner handler was invoked
          rejected,  \* r -> answered with an error before any check
          order,     \* sequence of requests in the order they passed Count (for the theorem)
          hist       \* start / release events (observation only)

vars == <<rq, pc, calls, fb, hd, ctx, sc, seen, ran, rejected, order, hist>>

RealNames == {"t1", "t2"}
Range(s) == {s[i] : i \in 1..Len(s)}

(* ------------------------------------------------------------ scenario spaces *)
Canon(p) == [ver |-> 2, method |-> "POST", proto |-> p, codec |-> 1, comp |-> 1, tls |-> FALSE, cert |-> FALSE]
Req(n, e, w, c, g) == [name |-> n, e |-> e, w |-> w, ctm |-> c, gtm |-> g]

SmallTuples == {t \in Tuples : t.ver \in {1, 2} /\ t.comp \in {1, 2, 4}}

MatrixVariants(a) == {FitVariant(VariantSeq[i], a) : i \in {1, 5, 6, 11, 12}}
NearPeers(a, tr) == {IF a.tls /\ a.cert THEN "ok" ELSE "none"} \cup (IF a.tls /\ tr = 0 THEN {"other"} ELSE {})

\* the single-request domains are large: they are written as nested choices (TLC enumerates them
\* without first building the set), the request is the same for every r (NReq = 1)
All(q) == [r \in Reqs |-> q]
TimeoutChoice(S) ==
  \E p \in Protocols : \E h \in {1, 2} : \E s \in S : \E other \in {NoHdr, HdrOf(<<"7", "m">>)} :
    rq = All(Req("t1", Canon(p), Render(Canon(p), Plain),
                 IF h = 1 THEN HdrOf(s) ELSE other, IF h = 2 THEN HdrOf(s) ELSE other))

SmallReqSpace ==
  CASE Domain = "conc" ->         \* several requests racing for the same / different / no name
         {Req(n, Canon(1), [Render(a, Plain) EXCEPT !.trailers = tr], c, NoHdr) :
            n \in RealNames \cup {""}, a \in {Canon(1), [Canon(1) EXCEPT !.ver = 1]}, tr \in {0, 1},
            c \in {NoHdr, HdrOf(<<"5">>), HdrOf(<<"+", "5">>)}}
    [] Domain = "conc3" ->
         {Req(n, Canon(1), Render(Canon(1), Plain), c, NoHdr) :
            n \in {"t1", ""}, c \in {NoHdr, HdrOf(<<"5">>)}}
    [] OTHER -> {}

InitRq ==
  \/ /\ Domain = "matrix"        \* one request, every E x several spellings of every A (reduced value sets)
     /\ \E e \in SmallTuples : \E a \in SmallTuples : \E v \in MatrixVariants(a) :
          rq = All(Req("t1", e, Render(a, v), NoHdr, NoHdr))
  \/ /\ Domain \in {"near", "nearq"}   \* one request, full value sets (nearq: E from the reduced sets), A within
                                 \* one aspect of E, all spellings, trailers, foreign client certificate
     /\ \E e \in (IF Domain = "near" THEN Tuples ELSE SmallTuples) : \E a \in Near(e) : \E v \in VariantsFor(a) : \E tr \in {0, 2} : \E pr \in NearPeers(a, tr) :
          rq = All(Req("t1", e, [Render(a, v) EXCEPT !.trailers = tr, !.peer = pr], NoHdr, NoHdr))
  \/ /\ Domain = "timeout"       \* one request of the expected protocol, every timeout string
     /\ \/ TimeoutChoice(StringsUpTo(MaxLen))
        \/ TimeoutChoice(BoundaryForms(MaxDigits))
        \/ TimeoutChoice(OverflowForms)
        \/ \E p \in Protocols : rq = All(Req("t1", Canon(p), Render(Canon(p), Plain), NoHdr, NoHdr))
  \/ /\ Domain \in {"conc", "conc3"}
     /\ rq \in [Reqs -> SmallReqSpace]

NoSeen == [ctm |-> FALSE, gtm |-> FALSE, ctx |-> None, ms |-> None]

Init == /\ InitRq
        /\ pc = [r \in Reqs |-> "idle"]
        /\ calls = [n \in RealNames |-> 0]
        /\ fb = [r \in Reqs |-> <<>>]
        /\ hd = [r \in Reqs |-> [ctm |-> rq[r].ctm.p, gtm |-> rq[r].gtm.p]]
        /\ ctx = [r \in Reqs |-> <<>>]
        /\ sc = [r \in Reqs |-> [i |-> 0, n |-> 0, st |-> "-"]]
        /\ seen = [r \in Reqs |-> NoSeen]
        /\ ran = [r \in Reqs |-> FALSE]
        /\ rejected = [r \in Reqs |-> FALSE]
        /\ order = <<>>
        /\ hist = <<>>

(* ------------------------------------------------------------------- helpers *)
Say(r, items) == fb' = [fb EXCEPT ![r] = @ \o items]      \* items: sequence of feedback items
Goto(r, l) == pc' = [pc EXCEPT ![r] = l]
Event(k, r) == hist' = IF KeepHist THEN Append(hist, <<k, r>>) ELSE hist

E(r) == rq[r].e
W(r) == rq[r].w

(* --------------------------------------------------------------------- steps *)
\* getTestCaseName: the only hard failure
Start(r) ==
  /\ pc[r] = "idle"
  /\ IF rq[r].name = ""
       THEN /\ rejected' = [rejected EXCEPT ![r] = TRUE] /\ Goto(r, "done")
       ELSE /\ Goto(r, "count") /\ UNCHANGED rejected
  /\ Event("start", r)
  /\ UNCHANGED <<rq, calls, fb, hd, ctx, sc, seen, ran, order>>

\* critical section: read and increment the per-test counter
Count(r) ==
  /\ pc[r] = "count"
  /\ LET n == rq[r].name  c == calls[n]
     IN /\ calls' = [calls EXCEPT ![n] = c + 1]
        /\ Say(r, IF c > 0 THEN <<It("repeat", ToString(c + 1))>> ELSE <<>>)
  /\ order' = Append(order, r)
  /\ Goto(r, "version")
  /\ UNCHANGED <<rq, hd, ctx, sc, seen, ran, rejected, hist>>

Version(r) ==
  /\ pc[r] = "version"
  /\ Say(r, IF W(r).major # E(r).ver
              THEN <<It("version", ToString(E(r).ver) \o "|" \o ToString(W(r).major))>> ELSE <<>>)
  /\ Goto(r, "protocol")
  /\ UNCHANGED <<rq, calls, hd, ctx, sc, seen, ran, rejected, order, hist>>

\* checkProtocol: first matching case on the content type
Protocol(r) ==
  /\ pc[r] = "protocol"
  /\ LET w == W(r)
         actual == IF w.fam = "grpc" THEN 2
                   ELSE IF w.fam = "grpc-web" THEN 3
                   ELSE IF w.fam # "none" \/ w.method = "GET" THEN 1     \* any "application/..." or a GET
                   ELSE 0
     IN Say(r, IF actual = 0 THEN <<It("protocol", "?")>>
               ELSE IF actual # E(r).proto
                      THEN <<It("protocol", ProtoName[E(r).proto] \o "|" \o ProtoName[actual])>>
               ELSE IF E(r).proto = 2 /\ ~w.te THEN <<It("te", "")>>
               ELSE <<>>)
  /\ Goto(r, "timeout")
  /\ UNCHANGED <<rq, calls, hd, ctx, sc, seen, ran, rejected, order, hist>>

\* extractTimeout, part 1: pick the header of the expected protocol; if present take it off the request
TmoHdr(r) == IF E(r).proto = 1 THEN rq[r].ctm ELSE rq[r].gtm
Timeout(r) ==
  /\ pc[r] = "timeout"
  /\ IF ~TmoHdr(r).p
       THEN /\ Goto(r, "codec") /\ UNCHANGED <<hd, sc>>
       ELSE /\ hd' = [hd EXCEPT ![r] = IF E(r).proto = 1 THEN [@ EXCEPT !.ctm = FALSE] ELSE [@ EXCEPT !.gtm = FALSE]]
            /\ sc' = [sc EXCEPT ![r] = [i |-> 1, n |-> 0, st |-> "digits"]]
            /\ Goto(r, "scan")
  /\ UNCHANGED <<rq, calls, fb, ctx, seen, ran, rejected, order, hist>>

\* extractTimeout, part 2: one character per step.  Connect: 1..10 digits.  gRPC: 1..8 digits, one unit.
Scan(r) ==
  /\ pc[r] = "scan"
  /\ LET s == TmoHdr(r).s
         st == sc[r]
         connect == E(r).proto = 1
         limit == IF connect THEN 10 ELSE 8
     IN IF st.st = "bad"
          THEN /\ Say(r, <<It("timeout", "")>>) /\ Goto(r, "codec") /\ UNCHANGED <<sc, ctx>>
        ELSE IF st.i > Len(s)
          THEN IF (connect /\ st.st = "digits" /\ st.n >= 1) \/ (~connect /\ st.st = "unit")
                 THEN \* convert: value x unit, saturating
                      /\ ctx' = [ctx EXCEPT ![r] =
                                   IF connect THEN DurNs(ToDigits(s), 1, 6)
                                   ELSE DurNs(ToDigits(SubSeq(s, 1, st.n)), UnitK(s[Len(s)]), UnitZ(s[Len(s)]))]
                      /\ Goto(r, "codec") /\ UNCHANGED <<sc, fb>>
                 ELSE /\ sc' = [sc EXCEPT ![r].st = "bad"] /\ UNCHANGED <<pc, fb, ctx>>
        ELSE LET c == s[st.i]
             IN /\ sc' = [sc EXCEPT ![r] =
                            IF st.st = "digits" /\ c \in DigitSet /\ st.n < limit
                              THEN [i |-> st.i + 1, n |-> st.n + 1, st |-> "digits"]
                            ELSE IF st.st = "digits" /\ ~connect /\ c \in Units /\ st.n >= 1
                              THEN [i |-> st.i + 1, n |-> st.n, st |-> "unit"]
                            ELSE [i |-> st.i, n |-> st.n, st |-> "bad"]]
                /\ UNCHANGED <<pc, fb, ctx>>
  /\ UNCHANGED <<rq, calls, hd, seen, ran, rejected, order, hist>>

\* checkCodec
Codec(r) ==
  /\ pc[r] = "codec"
  /\ LET w == W(r)
         want == CodecName[E(r).codec]
         cmp(actual) == IF actual # want THEN <<It("codec", want \o "|" \o actual)>> ELSE <<>>
     IN Say(r, IF w.method = "GET"
                 THEN (IF w.fam # "none" THEN <<It("getshape", "ctype")>> ELSE <<>>)
                      \o (IF w.body THEN <<It("getshape", "body")>> ELSE <<>>)
                      \o (IF w.qenc = None THEN <<It("codec", "missing")>> ELSE cmp(w.qenc))
               ELSE IF w.fam \in {"grpc", "grpc-web"} /\ w.sub = None THEN cmp("proto")
               ELSE IF w.fam # "none" THEN cmp(w.sub)
               ELSE <<>>)
  /\ Goto(r, "compression")
  /\ UNCHANGED <<rq, calls, hd, ctx, sc, seen, ran, rejected, order, hist>>

\* checkCompression
Compression(r) ==
  /\ pc[r] = "compression"
  /\ LET w == W(r)
         want == CompName[E(r).comp]
         cmp(h) == LET actual == IF h = None THEN "identity" ELSE h
                   IN IF actual # want THEN <<It("compression", want \o "|" \o actual)>> ELSE <<>>
     IN Say(r, IF w.method = "GET" THEN cmp(w.qcomp)
               ELSE IF w.fam \in {"grpc", "grpc-web"} THEN cmp(w.ge)
               ELSE IF w.fam = "connect-stream" THEN cmp(w.cce)
               ELSE IF w.fam = "connect-unary" THEN cmp(w.ce)
               ELSE <<>>)
  /\ Goto(r, "tls")
  /\ UNCHANGED <<rq, calls, hd, ctx, sc, seen, ran, rejected, order, hist>>

\* checkTLS
Tls(r) ==
  /\ pc[r] = "tls"
  /\ LET w == W(r)
         want == IF E(r).cert THEN ClientCertName ELSE ""
     IN Say(r, IF E(r).tls /\ ~w.tls THEN <<It("tls", "tls|plain")>>
               ELSE IF ~E(r).tls /\ w.tls THEN <<It("tls", "plain|tls")>>
               ELSE IF ~w.tls THEN <<>>
               ELSE IF want # PeerName(w) THEN <<It("cert", want \o "|" \o PeerName(w))>>
               ELSE <<>>)
  /\ Goto(r, "method")
  /\ UNCHANGED <<rq, calls, hd, ctx, sc, seen, ran, rejected, order, hist>>

Method(r) ==
  /\ pc[r] = "method"
  /\ Say(r, IF W(r).method # E(r).method THEN <<It("method", E(r).method \o "|" \o W(r).method)>> ELSE <<>>)
  /\ Goto(r, "handler")
  /\ UNCHANGED <<rq, calls, hd, ctx, sc, seen, ran, rejected, order, hist>>

\* the inner handler is entered with the (modified) request; createRequestInfo echoes the timeout
HandlerEnter(r) ==
  /\ pc[r] = "handler"
  /\ ran' = [ran EXCEPT ![r] = TRUE]
  /\ seen' = [seen EXCEPT ![r] = [ctm |-> hd[r].ctm, gtm |-> hd[r].gtm,
                                  ctx |-> IF ctx[r] = <<>> THEN None ELSE DStr(ctx[r]),
                                  ms  |-> IF ctx[r] = <<>> THEN None ELSE DStr(DivPow10(ctx[r], 6))]]
  /\ Goto(r, "inhandler")
  /\ UNCHANGED <<rq, calls, fb, hd, ctx, sc, rejected, order, hist>>

\* the inner handler returns (environment)
Release(r) ==
  /\ pc[r] = "inhandler"
  /\ Goto(r, "trailers")
  /\ Event("release", r)
  /\ UNCHANGED <<rq, calls, fb, hd, ctx, sc, seen, ran, rejected, order>>

\* after the body is drained
Trailers(r) ==
  /\ pc[r] = "trailers"
  /\ Say(r, IF W(r).trailers > 0 THEN <<It("trailers", ToString(W(r).trailers))>> ELSE <<>>)
  /\ Goto(r, "done")
  /\ UNCHANGED <<rq, calls, hd, ctx, sc, seen, ran, rejected, order, hist>>

Step(r) == \/ Start(r) \/ Count(r) \/ Version(r) \/ Protocol(r) \/ Timeout(r) \/ Scan(r) \/ Codec(r)
           \/ Compression(r) \/ Tls(r) \/ Method(r) \/ HandlerEnter(r) \/ Release(r) \/ Trailers(r)

\* requests that are inside the middleware proper (not idle, not parked in the handler, not done)
Busy == {r \in Reqs : pc[r] \notin {"idle", "inhandler", "done"}}

Next == \E r \in Reqs : (Coarse => Busy \subseteq {r}) /\ Step(r)

Spec == Init /\ [][Next]_vars /\ WF_vars(Next)

(* ---------------------------------------------------------------- properties *)
PCs == {"idle", "count", "version", "protocol", "timeout", "scan", "codec", "compression", "tls",
        "method", "handler", "inhandler", "trailers", "done"}
TypeOK == /\ \A r \in Reqs : pc[r] \in PCs
          /\ \A n \in RealNames : calls[n] \in 0..NReq
          /\ Len(order) <= NReq

AllDone == \A r \in Reqs : pc[r] = "done"

PosIn(r) == CHOOSE i \in 1..Len(order) : order[i] = r
\* rank of r among the requests with its name, in the order the server counted them
Rank(r) == IF \E i \in 1..Len(order) : order[i] = r
             THEN Cardinality({i \in 1..PosIn(r) : rq[order[i]].name = rq[r].name})
             ELSE 0

MachineOutcome(r) == [rejected |-> rejected[r], ran |-> ran[r], fb |-> Range(fb[r]),
                      ctx |-> seen[r].ctx, ms |-> seen[r].ms, seenC |-> seen[r].ctm, seenG |-> seen[r].gtm]

\* THE theorem: for every interleaving, a finished request shows exactly what the declarative
\* definition requires, each feedback line once
Agrees == \A r \in Reqs : pc[r] = "done" =>
            /\ MachineOutcome(r) = Outcome(rq[r], Rank(r))
            /\ Len(fb[r]) = Cardinality(Range(fb[r]))

Counted(n) == {r \in Reqs : rq[r].name = n /\ pc[r] \notin {"idle", "count"}}
CountsConsistent == \A n \in RealNames :
                      /\ calls[n] = Cardinality(Counted(n))
                      /\ {Rank(r) : r \in Counted(n)} = 1..calls[n]      \* ranks are distinct, no gaps

RejectedIsSilent == \A r \in Reqs : rejected[r] => (~ran[r] /\ fb[r] = <<>> /\ pc[r] = "done" /\ rq[r].name = "")

\* a request that reaches the handler has been through every check; its examined header is gone
HandlerSeesCleanRequest == \A r \in Reqs : ran[r] =>
                             /\ rq[r].name # ""
                             /\ (E(r).proto = 1 => ~seen[r].ctm) /\ (E(r).proto # 1 => ~seen[r].gtm)
                             /\ (seen[r].ctx # None => TimeoutAccepts(E(r).proto, TmoHdr(r)))

\* in coarse scheduling the server counts requests in the order they were started
StartedNamed == LET st == SelectSeq(hist, LAMBDA ev : ev[1] = "start" /\ rq[ev[2]].name # "")
                IN [i \in 1..Len(st) |-> st[i][2]]
SerialOrder == (Coarse /\ KeepHist /\ Busy = {}) => order = StartedNamed

\* action properties: headers are only ever removed, feedback only ever appended, the handler
\* runs at most once
Monotone == [][\A r \in Reqs : /\ (hd'[r].ctm => hd[r].ctm) /\ (hd'[r].gtm => hd[r].gtm)
                               /\ Len(fb'[r]) >= Len(fb[r]) /\ SubSeq(fb'[r], 1, Len(fb[r])) = fb[r]
                               /\ (ran[r] => ran'[r])
                               /\ (ran'[r] /\ ~ran[r] => pc[r] = "handler")]_vars

Termination == <>AllDone

(* --------------------------------------------------------------- views *)
ViewNoHist == <<rq, pc, calls, fb, hd, ctx, sc, seen, ran, rejected, order>>
=============================================================================
