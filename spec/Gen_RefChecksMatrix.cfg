INIT Init
NEXT Next
INVARIANTS Lawful Emit
