CONSTANTS
  NR = 2
  Kinds = {"tracked", "hijacked", "abrupt"}
  Binds = {"free", "fixed", "taken"}
  CfgKinds = {"good", "bad", "unsup", "trunc"}
  AnnounceFirst = FALSE
  KeepHist = TRUE
  DeepModes = {TRUE, FALSE}
INIT GInit
NEXT GNext
INVARIANTS TypeOK OneResponse ReturnedMeansStopped Emit
