CONSTANTS
  FlagSet = {3, 130}
  LenSet = {0, 1}
  PcSet = {"plain", "comp"}
  EncSet = {"none", "identity", "real", "unknown"}
  HdrMode = "all"
  SideSet = {"req", "resp"}
  EndSet = {"eof"}
  MaxEnvs = 1
  MaxTotal = 6
  ChunkSet = {4}
  MaxPost = 0
  MaxOther = 0
  Grain = "call"
  ConsultBit = TRUE
  KeepHist = TRUE
INIT Init
NEXT Next
INVARIANTS Agrees Emit
