CONSTANTS
  Alphabet = {0, 31, 32, 37, 50, 53, 65, 102, 126, 127, 128, 255}
  MaxLen = 3
SPECIFICATION Spec
INVARIANTS TypeOK Agrees Invertible Printable_ Sized Escapes
PROPERTIES Terminates
