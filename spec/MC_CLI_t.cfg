CONSTANTS
  MaxDev = 3
SPECIFICATION Spec
INVARIANTS TypeOK DoneAgrees StopsAtFirstFailing Laws
PROPERTIES Termination MaxServersOnlyForcedDown ResultOnce
