CONSTANTS
  TagLen = 1
  Bounds <- RealBounds
  Limit = 204800
  MaxTarget = 2147483647
  Bs = {0, 2, 50, 204795}
  Ds <- RealDs
  NMax = 3
  SearchMax = 20000
INIT Init
NEXT Next
INVARIANTS ClosedForm AtMostOne Monotone StepCost Unreachable SharpAtOffset DataIndependent Idempotent CaseLaws ZIndependent SharpLimit
