------------------------------ MODULE ClientMux ------------------------------
(* C10 - the runner's client multiplexer (one client process, many requests in flight).

   Processes and their atomic steps (one action per critical section / blocking point):
     Sender(s)  : sendRequest  = SendCall -> CheckErr -> Lock -> Register -> (write prefix, write body) ->
                                 WriteDone | WriteFail -> SendRet
     Reader     : consumeOutput = Read (one message / end of stream) -> Lookup -> Cb (callback) | Fail ->
                                 CloseSendByReader -> Drain (one callback per still-pending request) -> Done
     Closer     : closeSend     = CloseCall -> CloseDo -> CloseRet
     Waiter     : waitForResponses = WaitCall -> WaitDone -> WaitRet
     Proc       : the in-process peer wrapper: after the client function returns it closes the
                  client's ends of the pipes (ClosePipes), then signals completion (ProcDone sets the
                  liveness flag)
     Client     : the environment (the harness plays it): reads request bytes from stdin in two
                  chunks (prefix, body), writes answers / garbage / oversize / truncated output,
                  exits at any point.
   Pipes are synchronous (io.Pipe): a write completes only when the other side has taken the bytes
   or an end was closed.

   Actions whose names end in Call/Ret and the callback action Cb are the *observable* events (the
   harness logs exactly these); all other actions are internal to the runner / pipes.           *)
EXTENDS Naturals, Sequences, FiniteSets, TLC

CONSTANTS Senders,      \* set of sender ids
          Script,       \* Script[s] : sequence of test names sender s sends, in order
          Names,        \* all names used by scripts
          MaxCliOps,    \* bound on client read/write operations
          FaultKinds,   \* subset of {"garbage", "oversize", "trunc"} the client may write
          AllowZZ,      \* may the client answer a name nobody asked for
          AllowEarly,   \* may the client answer a request before having read all of it
          AnyName,      \* may the client answer any name of the scripts at any time (full generality)
          KeepHist      \* TRUE: record the controller schedule (generator)

None == "none"
NoW == [s |-> "-", n |-> "-", ph |-> 0]      \* no stdin write in flight
NoO == [kind |-> "-", n |-> "-"]             \* no stdout write in flight

VARIABLES
  pc, idx, res,                               \* senders
  lock, pending, closedSend, err, terminated, done,   \* runner shared state
  wif,                                        \* stdin write in flight: None or [s, n, ph]
  stdinR,                                     \* client's read end of stdin open
  wof, rpartial, outClosed,                   \* stdout: client write in flight, reader holds partial msg, writer end closed
  rpc, rmsg, rerr, seen,                      \* reader
  cpc, cop, cret, cops, inbox, aborted, exitFail, readPh,    \* client
  pipesClosed, pdone,                         \* process wrapper
  kpc, wpc, wres,                             \* closer, waiter
  regs, cbs, cblog,                           \* bookkeeping for the properties
  hist

rvars == <<lock, pending, closedSend, err, terminated, done>>
vars == <<pc, idx, res, lock, pending, closedSend, err, terminated, done, wif, stdinR, wof, rpartial, outClosed,
          rpc, rmsg, rerr, seen, cpc, cop, cret, cops, inbox, aborted, exitFail, readPh, pipesClosed, pdone,
          kpc, wpc, wres, regs, cbs, cblog, hist>>

Cur(s) == Script[s][idx[s]]
H(e) == hist' = IF KeepHist THEN Append(hist, e) ELSE hist

Init ==
  /\ pc = [s \in Senders |-> "idle"] /\ idx = [s \in Senders |-> 1] /\ res = [s \in Senders |-> None]
  /\ lock = None /\ pending = {} /\ closedSend = FALSE /\ err = FALSE /\ terminated = FALSE /\ done = FALSE
  /\ wif = NoW /\ stdinR = TRUE
  /\ wof = NoO /\ rpartial = FALSE /\ outClosed = FALSE
  /\ rpc = "reading" /\ rmsg = None /\ rerr = None /\ seen = {}
  /\ cpc = "idle" /\ cop = None /\ cret = None /\ cops = 0 /\ inbox = {} /\ aborted = FALSE /\ exitFail = FALSE /\ readPh = 1
  /\ pipesClosed = FALSE /\ pdone = FALSE
  /\ kpc = "idle" /\ wpc = "idle" /\ wres = None
  /\ regs = [n \in Names |-> 0] /\ cbs = [n \in Names |-> 0] /\ cblog = <<>>
  /\ hist = <<>>

(* ------------------------------------------------------------------ senders *)
SendersDone == \A s \in Senders : pc[s] = "fin"

SendCall(s) ==                      \* OBSERVABLE: sender s calls sendRequest(Cur(s))
  /\ pc[s] = "idle"
  /\ pc' = [pc EXCEPT ![s] = "called"]
  /\ H(<<"S", s>>)
  /\ UNCHANGED <<idx, res, lock, pending, closedSend, err, terminated, done, wif, stdinR, wof, rpartial, outClosed,
                 rpc, rmsg, rerr, seen, cpc, cop, cret, cops, inbox, aborted, exitFail, readPh, pipesClosed, pdone,
                 kpc, wpc, wres, regs, cbs, cblog>>

CheckErr(s) ==
  /\ pc[s] = "called"
  /\ IF err THEN pc' = [pc EXCEPT ![s] = "ret"] /\ res' = [res EXCEPT ![s] = "err"]
            ELSE pc' = [pc EXCEPT ![s] = "wantlock"] /\ UNCHANGED res
  /\ UNCHANGED <<idx, lock, pending, closedSend, err, terminated, done, wif, stdinR, wof, rpartial, outClosed,
                 rpc, rmsg, rerr, seen, cpc, cop, cret, cops, inbox, aborted, exitFail, readPh, pipesClosed, pdone,
                 kpc, wpc, wres, regs, cbs, cblog, hist>>

Lock(s) ==
  /\ pc[s] = "wantlock" /\ lock = None
  /\ lock' = s /\ pc' = [pc EXCEPT ![s] = "locked"]
  /\ UNCHANGED <<idx, res, pending, closedSend, err, terminated, done, wif, stdinR, wof, rpartial, outClosed,
                 rpc, rmsg, rerr, seen, cpc, cop, cret, cops, inbox, aborted, exitFail, readPh, pipesClosed, pdone,
                 kpc, wpc, wres, regs, cbs, cblog, hist>>

Register(s) ==
  /\ pc[s] = "locked"
  /\ IF closedSend
       THEN /\ pc' = [pc EXCEPT ![s] = "ret"] /\ res' = [res EXCEPT ![s] = "closed"] /\ lock' = None
            /\ UNCHANGED <<pending, wif, regs, cblog>>
       ELSE IF Cur(s) \in pending
       THEN /\ pc' = [pc EXCEPT ![s] = "ret"] /\ res' = [res EXCEPT ![s] = "dup"] /\ lock' = None
            /\ UNCHANGED <<pending, wif, regs, cblog>>
       ELSE /\ pending' = pending \cup {Cur(s)} /\ regs' = [regs EXCEPT ![Cur(s)] = @ + 1]
            /\ pc' = [pc EXCEPT ![s] = "writing"] /\ wif' = [s |-> s, n |-> Cur(s), ph |-> 1]
            /\ cblog' = Append(cblog, <<Cur(s), "reg", s, idx[s]>>)     \* whose callback is now registered under this name
            /\ UNCHANGED <<res, lock>>
  /\ UNCHANGED <<idx, closedSend, err, terminated, done, stdinR, wof, rpartial, outClosed,
                 rpc, rmsg, rerr, seen, cpc, cop, cret, cops, inbox, aborted, exitFail, readPh, pipesClosed, pdone,
                 kpc, wpc, wres, cbs, hist>>

\* both writes were taken by the client
WriteDone(s) ==
  /\ pc[s] = "writing" /\ wif = NoW
  /\ pc' = [pc EXCEPT ![s] = "ret"] /\ res' = [res EXCEPT ![s] = "ok"] /\ lock' = None
  /\ UNCHANGED <<idx, pending, closedSend, err, terminated, done, wif, stdinR, wof, rpartial, outClosed,
                 rpc, rmsg, rerr, seen, cpc, cop, cret, cops, inbox, aborted, exitFail, readPh, pipesClosed, pdone,
                 kpc, wpc, wres, regs, cbs, cblog, hist>>

\* a write fails because the client's read end was closed
WriteFail(s) ==
  /\ pc[s] = "writing" /\ wif # NoW /\ ~stdinR
  /\ wif' = NoW /\ lock' = None /\ pc' = [pc EXCEPT ![s] = "ret"]
  /\ IF Cur(s) \in pending
       THEN /\ pending' = pending \ {Cur(s)} /\ regs' = [regs EXCEPT ![Cur(s)] = @ - 1]
            /\ err' = TRUE /\ res' = [res EXCEPT ![s] = "err"]
       ELSE \* concurrently removed: the client got it, answered, and the reader dispatched it
            /\ res' = [res EXCEPT ![s] = "ok"] /\ UNCHANGED <<pending, regs, err>>
  /\ UNCHANGED <<idx, closedSend, terminated, done, stdinR, wof, rpartial, outClosed,
                 rpc, rmsg, rerr, seen, cpc, cop, cret, cops, inbox, aborted, exitFail, readPh, pipesClosed, pdone,
                 kpc, wpc, wres, cbs, cblog, hist>>

SendRet(s) ==                       \* OBSERVABLE: sendRequest returned res[s]
  /\ pc[s] = "ret"
  /\ IF idx[s] < Len(Script[s]) THEN idx' = [idx EXCEPT ![s] = @ + 1] /\ pc' = [pc EXCEPT ![s] = "idle"]
                                ELSE idx' = idx /\ pc' = [pc EXCEPT ![s] = "fin"]
  /\ UNCHANGED <<res, lock, pending, closedSend, err, terminated, done, wif, stdinR, wof, rpartial, outClosed,
                 rpc, rmsg, rerr, seen, cpc, cop, cret, cops, inbox, aborted, exitFail, readPh, pipesClosed, pdone,
                 kpc, wpc, wres, regs, cbs, cblog, hist>>

(* ------------------------------------------------------------------- client *)
CliIdle == cpc = "idle" /\ cops < MaxCliOps

ReadCall ==                         \* OBSERVABLE: the client starts reading the next chunk (prefix, body) of stdin
  /\ CliIdle /\ stdinR
  /\ cpc' = "reading" /\ cops' = cops + 1
  /\ H(<<"R">>)
  /\ UNCHANGED <<pc, idx, res, lock, pending, closedSend, err, terminated, done, wif, stdinR, wof, rpartial, outClosed,
                 rpc, rmsg, rerr, seen, cop, cret, inbox, aborted, exitFail, readPh, pipesClosed, pdone,
                 kpc, wpc, wres, regs, cbs, cblog>>

\* the pipe hands the chunk of the in-flight write to the reading client
ClientTakes ==
  /\ cpc = "reading" /\ wif # NoW /\ wif.ph = readPh
  /\ IF readPh = 1 THEN /\ wif' = [wif EXCEPT !.ph = 2] /\ readPh' = 2 /\ UNCHANGED inbox
                   ELSE /\ wif' = NoW /\ readPh' = 1 /\ inbox' = inbox \cup {wif.n}
  /\ cpc' = "readdone" /\ cret' = "ok"
  /\ UNCHANGED <<pc, idx, res, lock, pending, closedSend, err, terminated, done, stdinR, wof, rpartial, outClosed,
                 rpc, rmsg, rerr, seen, cop, cops, aborted, exitFail, pipesClosed, pdone,
                 kpc, wpc, wres, regs, cbs, cblog, hist>>

\* the write end of stdin was closed (closeSend) and nothing is in flight: end of input
ClientSeesEOF ==
  /\ cpc = "reading" /\ wif = NoW /\ closedSend
  /\ cpc' = "readdone" /\ cret' = "eof"
  /\ UNCHANGED <<pc, idx, res, lock, pending, closedSend, err, terminated, done, wif, stdinR, wof, rpartial, outClosed,
                 rpc, rmsg, rerr, seen, cop, cops, inbox, aborted, exitFail, readPh, pipesClosed, pdone,
                 kpc, wpc, wres, regs, cbs, cblog, hist>>

ReadRet ==                          \* OBSERVABLE: the read returned cret
  /\ cpc = "readdone"
  /\ cpc' = "idle"
  /\ UNCHANGED <<pc, idx, res, lock, pending, closedSend, err, terminated, done, wif, stdinR, wof, rpartial, outClosed,
                 rpc, rmsg, rerr, seen, cop, cret, cops, inbox, aborted, exitFail, readPh, pipesClosed, pdone,
                 kpc, wpc, wres, regs, cbs, cblog, hist>>

\* what the client may write: an answer for a request it has (fully or partly) received, for a
\* name it never received ("zz"), a repeated answer, garbage, an oversized length, a truncated message
AnswerNames == Names \cup {"zz"}
\* "closein" / "waitabort" in FaultKinds switch on two further things a client may do (below); they are not writes
WriteKinds == {"resp"} \cup (FaultKinds \ {"closein", "waitabort", "closeout", "stall"})

WriteCall(kind, n) ==               \* OBSERVABLE: the client starts writing to stdout
  /\ CliIdle /\ ~outClosed
  /\ kind \in WriteKinds
  /\ (kind = "resp") => (n \in inbox \/ (AllowZZ /\ n = "zz") \/ (AllowEarly /\ wif # NoW /\ wif.n = n) \/ (AnyName /\ n \in Names))
  /\ (kind # "resp") => n = "-"
  /\ cpc' = "writing" /\ cops' = cops + 1 /\ wof' = [kind |-> kind, n |-> n] /\ cop' = kind
  /\ H(<<"W", kind, n>>)
  /\ UNCHANGED <<pc, idx, res, lock, pending, closedSend, err, terminated, done, wif, stdinR, rpartial, outClosed,
                 rpc, rmsg, rerr, seen, cret, inbox, aborted, exitFail, readPh, pipesClosed, pdone,
                 kpc, wpc, wres, regs, cbs, cblog>>

WriteRet ==                         \* OBSERVABLE: the write returned: taken by the reader, or given up (abort)
  /\ cpc = "writing"
  /\ \/ wof = NoO /\ cret' = "ok"
     \/ aborted /\ cret' = "aborted"     \* gave up after the runner cancelled the client's context
  /\ cpc' = IF cop = "trunc" \/ cret' = "aborted" THEN "mustexit" ELSE "idle"
  /\ UNCHANGED <<pc, idx, res, lock, pending, closedSend, err, terminated, done, wif, stdinR, wof, rpartial, outClosed,
                 rpc, rmsg, rerr, seen, cop, cops, inbox, aborted, exitFail, readPh, pipesClosed, pdone,
                 kpc, wpc, wres, regs, cbs, cblog, hist>>

\* The client closes its own end of stdin and goes on running (a client that has read all it wants):
\* from then on the runner's writes fail.  The effect is placed at the call marker (nothing of it can be
\* observed before the call; placing it early only permits more).
CloseInCall ==                      \* OBSERVABLE
  /\ CliIdle /\ stdinR /\ "closein" \in FaultKinds
  /\ cpc' = "closingin" /\ cops' = cops + 1 /\ stdinR' = FALSE
  /\ H(<<"CI">>)
  /\ UNCHANGED <<pc, idx, res, lock, pending, closedSend, err, terminated, done, wif, wof, rpartial, outClosed,
                 rpc, rmsg, rerr, seen, cop, cret, inbox, aborted, exitFail, readPh, pipesClosed, pdone,
                 kpc, wpc, wres, regs, cbs, cblog>>
CloseInRet ==                       \* OBSERVABLE
  /\ cpc = "closingin" /\ cpc' = "idle"
  /\ UNCHANGED <<pc, idx, res, lock, pending, closedSend, err, terminated, done, wif, stdinR, wof, rpartial, outClosed,
                 rpc, rmsg, rerr, seen, cop, cret, cops, inbox, aborted, exitFail, readPh, pipesClosed, pdone,
                 kpc, wpc, wres, regs, cbs, cblog, hist>>

\* The client closes its own stdout and goes on running (and reading requests): the reader sees a clean
\* end of the stream while requests may still be on their way - the reader's shutdown (close the send side,
\* then fail what is pending) races with the senders.
CloseOutCall ==                     \* OBSERVABLE
  /\ CliIdle /\ ~outClosed /\ "closeout" \in FaultKinds
  /\ cpc' = "closingout" /\ cops' = cops + 1 /\ outClosed' = TRUE
  /\ H(<<"CO">>)
  /\ UNCHANGED <<pc, idx, res, lock, pending, closedSend, err, terminated, done, wif, stdinR, wof, rpartial,
                 rpc, rmsg, rerr, seen, cop, cret, inbox, aborted, exitFail, readPh, pipesClosed, pdone,
                 kpc, wpc, wres, regs, cbs, cblog>>
CloseOutRet ==                      \* OBSERVABLE
  /\ cpc = "closingout" /\ cpc' = "idle"
  /\ UNCHANGED <<pc, idx, res, lock, pending, closedSend, err, terminated, done, wif, stdinR, wof, rpartial, outClosed,
                 rpc, rmsg, rerr, seen, cop, cret, cops, inbox, aborted, exitFail, readPh, pipesClosed, pdone,
                 kpc, wpc, wres, regs, cbs, cblog, hist>>

\* After it has written something the runner must reject, the client does not leave by itself: it waits to be
\* aborted ("the runner reports the client as no longer running" - and takes it down).  Only issued once the
\* reader has seen the bad message; returns when the process was told to stop.
WaitAbortCall ==                    \* OBSERVABLE
  /\ CliIdle /\ "waitabort" \in FaultKinds /\ (aborted \/ rpc = "failing")
  /\ cpc' = "waitabort" /\ cops' = cops + 1
  /\ H(<<"B">>)
  /\ UNCHANGED <<pc, idx, res, lock, pending, closedSend, err, terminated, done, wif, stdinR, wof, rpartial, outClosed,
                 rpc, rmsg, rerr, seen, cop, cret, inbox, aborted, exitFail, readPh, pipesClosed, pdone,
                 kpc, wpc, wres, regs, cbs, cblog>>
WaitAbortRet ==                     \* OBSERVABLE: the client's context was cancelled
  /\ cpc = "waitabort" /\ aborted /\ cpc' = "mustexit"
  /\ UNCHANGED <<pc, idx, res, lock, pending, closedSend, err, terminated, done, wif, stdinR, wof, rpartial, outClosed,
                 rpc, rmsg, rerr, seen, cop, cret, cops, inbox, aborted, exitFail, readPh, pipesClosed, pdone,
                 kpc, wpc, wres, regs, cbs, cblog, hist>>

\* "stall" in FaultKinds: the client goes quiet - it neither writes, reads, closes anything nor leaves - until it
\* is told to stop.  Nothing it has written is wrong; what ends the wait is the reader's response timeout below.
StallCall ==                        \* OBSERVABLE
  /\ CliIdle /\ "stall" \in FaultKinds /\ ~aborted
  /\ cpc' = "waitabort" /\ cops' = cops + 1
  /\ H(<<"ST">>)
  /\ UNCHANGED <<pc, idx, res, lock, pending, closedSend, err, terminated, done, wif, stdinR, wof, rpartial, outClosed,
                 rpc, rmsg, rerr, seen, cop, cret, inbox, aborted, exitFail, readPh, pipesClosed, pdone,
                 kpc, wpc, wres, regs, cbs, cblog>>

Exit(fail) ==                       \* OBSERVABLE: the client function is about to return
  /\ cpc \in {"idle", "mustexit"}
  /\ cpc' = "exited" /\ exitFail' = fail
  /\ H(<<"X", fail>>)
  /\ UNCHANGED <<pc, idx, res, lock, pending, closedSend, err, terminated, done, wif, stdinR, wof, rpartial, outClosed,
                 rpc, rmsg, rerr, seen, cop, cret, cops, inbox, aborted, readPh, pipesClosed, pdone,
                 kpc, wpc, wres, regs, cbs, cblog>>

(* ------------------------------------------------------------ process wrapper *)
ClosePipes ==
  /\ cpc = "exited" /\ ~pipesClosed
  /\ pipesClosed' = TRUE /\ stdinR' = FALSE /\ outClosed' = TRUE
  /\ UNCHANGED <<pc, idx, res, lock, pending, closedSend, err, terminated, done, wif, wof, rpartial,
                 rpc, rmsg, rerr, seen, cpc, cop, cret, cops, inbox, aborted, exitFail, readPh, pdone,
                 kpc, wpc, wres, regs, cbs, cblog, hist>>

ProcDone ==                         \* completion signalled; the liveness flag is set
  /\ pipesClosed /\ ~pdone
  /\ pdone' = TRUE /\ terminated' = TRUE
  /\ UNCHANGED <<pc, idx, res, lock, pending, closedSend, err, done, wif, stdinR, wof, rpartial, outClosed,
                 rpc, rmsg, rerr, seen, cpc, cop, cret, cops, inbox, aborted, exitFail, readPh, pipesClosed,
                 kpc, wpc, wres, regs, cbs, cblog, hist>>

(* ------------------------------------------------------------------- reader *)
\* the reader's blocking read returns: a whole message was taken from the pipe (the client's write
\* completes here), or the stream ended
Read ==
  /\ rpc = "reading"
  /\ \/ /\ wof # NoO
        /\ wof' = NoO
        /\ IF wof.kind = "trunc"
             THEN /\ rpartial' = TRUE /\ UNCHANGED <<rpc, rmsg, rerr>>
             ELSE IF wof.kind = "resp"
               THEN /\ rpc' = "lookup" /\ rmsg' = wof.n /\ UNCHANGED <<rerr, rpartial>>
               ELSE /\ rpc' = "failing" /\ rerr' = wof.kind /\ UNCHANGED <<rmsg, rpartial>>
     \/ /\ wof = NoO /\ outClosed
        /\ IF rpartial THEN rpc' = "failing" /\ rerr' = "truncated"
                       ELSE rpc' = "closing" /\ rerr' = "eof"
        /\ UNCHANGED <<wof, rmsg, rpartial>>
  /\ UNCHANGED <<pc, idx, res, lock, pending, closedSend, err, terminated, done, wif, stdinR, outClosed, seen,
                 cpc, cop, cret, cops, inbox, aborted, exitFail, readPh, pipesClosed, pdone,
                 kpc, wpc, wres, regs, cbs, cblog, hist>>

\* the reader's read gives up (clientResponseTimeout): modelled for a client that has gone quiet for good - nothing
\* in flight, its output still open, waiting to be told to stop.  Whether anything is pending does not matter.
ReadTimeout ==
  /\ rpc = "reading" /\ wof = NoO /\ ~outClosed /\ cpc = "waitabort" /\ ~aborted
  /\ rpc' = "failing" /\ rerr' = "timeout"
  /\ UNCHANGED <<pc, idx, res, lock, pending, closedSend, err, terminated, done, wif, stdinR, wof, rpartial, outClosed, rmsg, seen,
                 cpc, cop, cret, cops, inbox, aborted, exitFail, readPh, pipesClosed, pdone,
                 kpc, wpc, wres, regs, cbs, cblog, hist>>

\* the critical section on the pending set: find and remove the callback for the answered name
Lookup ==
  /\ rpc = "lookup"
  /\ IF rmsg \in pending
       THEN /\ pending' = pending \ {rmsg} /\ rpc' = "dispatch" /\ seen' = seen \cup {rmsg}
            /\ UNCHANGED <<rmsg, rerr>>
       ELSE /\ rpc' = "failing" /\ rerr' = (IF rmsg \in seen THEN "duplicate" ELSE "unknown") /\ rmsg' = None
            /\ UNCHANGED <<pending, seen>>
  /\ UNCHANGED <<pc, idx, res, lock, closedSend, err, terminated, done, wif, stdinR, wof, rpartial, outClosed,
                 cpc, cop, cret, cops, inbox, aborted, exitFail, readPh, pipesClosed, pdone,
                 kpc, wpc, wres, regs, cbs, cblog, hist>>

\* the registration a callback for name n belongs to: the last one logged (a duplicate send is refused and registers nothing)
RECURSIVE LastReg(_, _)
LastReg(n, j) == IF j = 0 THEN <<None, 0>>
                 ELSE IF cblog[j][1] = n /\ cblog[j][2] = "reg" THEN <<cblog[j][3], cblog[j][4]>> ELSE LastReg(n, j - 1)
Owner(n) == LastReg(n, Len(cblog))

Cb ==                               \* OBSERVABLE: a completion callback runs (with a response / with an error)
  \/ /\ rpc = "dispatch"
     /\ cbs' = [cbs EXCEPT ![rmsg] = @ + 1] /\ cblog' = Append(cblog, <<rmsg, "resp", Owner(rmsg)[1], Owner(rmsg)[2]>>)
     /\ rpc' = "reading" /\ rmsg' = None
     /\ UNCHANGED <<pending, done>>
  \/ /\ rpc = "draining" /\ pending # {}
     /\ \E n \in pending :
          /\ pending' = pending \ {n}
          /\ cbs' = [cbs EXCEPT ![n] = @ + 1] /\ cblog' = Append(cblog, <<n, "err", Owner(n)[1], Owner(n)[2]>>)
     /\ UNCHANGED <<rpc, rmsg, done>>

CbStep == /\ Cb
          /\ UNCHANGED <<pc, idx, res, lock, closedSend, err, terminated, wif, stdinR, wof, rpartial, outClosed,
                         rerr, seen, cpc, cop, cret, cops, inbox, aborted, exitFail, readPh, pipesClosed, pdone,
                         kpc, wpc, wres, regs, hist>>

Fail ==
  /\ rpc = "failing"
  /\ err' = TRUE /\ terminated' = TRUE /\ aborted' = TRUE /\ rpc' = "closing"
  /\ UNCHANGED <<pc, idx, res, lock, pending, closedSend, done, wif, stdinR, wof, rpartial, outClosed,
                 rmsg, rerr, seen, cpc, cop, cret, cops, inbox, exitFail, readPh, pipesClosed, pdone,
                 kpc, wpc, wres, regs, cbs, cblog, hist>>

CloseSendByReader ==
  /\ rpc = "closing" /\ lock = None
  /\ closedSend' = TRUE /\ rpc' = "draining"
  /\ UNCHANGED <<pc, idx, res, lock, pending, err, terminated, done, wif, stdinR, wof, rpartial, outClosed,
                 rmsg, rerr, seen, cpc, cop, cret, cops, inbox, aborted, exitFail, readPh, pipesClosed, pdone,
                 kpc, wpc, wres, regs, cbs, cblog, hist>>

ReaderDone ==
  /\ rpc = "draining" /\ pending = {}
  /\ rpc' = "done" /\ done' = TRUE
  /\ UNCHANGED <<pc, idx, res, lock, pending, closedSend, err, terminated, wif, stdinR, wof, rpartial, outClosed,
                 rmsg, rerr, seen, cpc, cop, cret, cops, inbox, aborted, exitFail, readPh, pipesClosed, pdone,
                 kpc, wpc, wres, regs, cbs, cblog, hist>>

(* ------------------------------------------------------------ closer, waiter *)
CloseCall ==                        \* OBSERVABLE (issued once all senders are through, as run() does)
  /\ kpc = "idle" /\ SendersDone
  /\ kpc' = "called"
  /\ UNCHANGED <<pc, idx, res, lock, pending, closedSend, err, terminated, done, wif, stdinR, wof, rpartial, outClosed,
                 rpc, rmsg, rerr, seen, cpc, cop, cret, cops, inbox, aborted, exitFail, readPh, pipesClosed, pdone,
                 wpc, wres, regs, cbs, cblog, hist>>
CloseDo ==
  /\ kpc = "called" /\ lock = None
  /\ closedSend' = TRUE /\ kpc' = "did"
  /\ UNCHANGED <<pc, idx, res, lock, pending, err, terminated, done, wif, stdinR, wof, rpartial, outClosed,
                 rpc, rmsg, rerr, seen, cpc, cop, cret, cops, inbox, aborted, exitFail, readPh, pipesClosed, pdone,
                 wpc, wres, regs, cbs, cblog, hist>>
CloseRet ==                         \* OBSERVABLE
  /\ kpc = "did" /\ kpc' = "ret"
  /\ UNCHANGED <<pc, idx, res, lock, pending, closedSend, err, terminated, done, wif, stdinR, wof, rpartial, outClosed,
                 rpc, rmsg, rerr, seen, cpc, cop, cret, cops, inbox, aborted, exitFail, readPh, pipesClosed, pdone,
                 wpc, wres, regs, cbs, cblog, hist>>

WaitCall ==                         \* OBSERVABLE
  /\ wpc = "idle" /\ kpc = "ret"
  /\ wpc' = "called"
  /\ UNCHANGED <<pc, idx, res, lock, pending, closedSend, err, terminated, done, wif, stdinR, wof, rpartial, outClosed,
                 rpc, rmsg, rerr, seen, cpc, cop, cret, cops, inbox, aborted, exitFail, readPh, pipesClosed, pdone,
                 kpc, wres, regs, cbs, cblog, hist>>
WaitDone ==
  /\ wpc = "called" /\ done /\ pdone
  /\ wpc' = "did" /\ wres' = IF err \/ exitFail THEN "err" ELSE "nil"
  /\ UNCHANGED <<pc, idx, res, lock, pending, closedSend, err, terminated, done, wif, stdinR, wof, rpartial, outClosed,
                 rpc, rmsg, rerr, seen, cpc, cop, cret, cops, inbox, aborted, exitFail, readPh, pipesClosed, pdone,
                 kpc, regs, cbs, cblog, hist>>
WaitRet ==                          \* OBSERVABLE
  /\ wpc = "did" /\ wpc' = "ret"
  /\ UNCHANGED <<pc, idx, res, lock, pending, closedSend, err, terminated, done, wif, stdinR, wof, rpartial, outClosed,
                 rpc, rmsg, rerr, seen, cpc, cop, cret, cops, inbox, aborted, exitFail, readPh, pipesClosed, pdone,
                 kpc, wres, regs, cbs, cblog, hist>>

(* ------------------------------------------------------------------ system *)
Internal == \/ \E s \in Senders : CheckErr(s) \/ Lock(s) \/ Register(s) \/ WriteDone(s) \/ WriteFail(s)
            \/ ClientTakes \/ ClientSeesEOF \/ ClosePipes \/ ProcDone
            \/ Read \/ ReadTimeout \/ Lookup \/ Fail \/ CloseSendByReader \/ ReaderDone \/ CloseDo \/ WaitDone

Observable == \/ \E s \in Senders : SendCall(s) \/ SendRet(s)
              \/ ReadCall \/ ReadRet
              \/ (\E k \in WriteKinds : \E n \in AnswerNames \cup {"-"} : WriteCall(k, n)) \/ WriteRet
              \/ (\E f \in BOOLEAN : Exit(f))
              \/ CloseInCall \/ CloseInRet \/ WaitAbortCall \/ WaitAbortRet \/ CloseOutCall \/ CloseOutRet \/ StallCall
              \/ CbStep \/ CloseCall \/ CloseRet \/ WaitCall \/ WaitRet

\* explicit stuttering at the quiescent end so that TLC's deadlock check finds real hangs only
Finished == SendersDone /\ wpc = "ret" /\ cpc = "exited" /\ UNCHANGED vars
Next == Internal \/ Observable \/ Finished

\* fairness: every runner-side step, the pipes, and "the client eventually ends" (a conformant
\* client exits when its stdin ends or its context is cancelled)
Fair == /\ \A s \in Senders : WF_vars(SendCall(s)) /\ WF_vars(CheckErr(s)) /\ WF_vars(Lock(s)) /\ WF_vars(Register(s))
                              /\ WF_vars(WriteDone(s)) /\ WF_vars(WriteFail(s)) /\ WF_vars(SendRet(s))
        /\ WF_vars(ClientTakes) /\ WF_vars(ClientSeesEOF) /\ WF_vars(ReadRet) /\ WF_vars(WriteRet)
        /\ WF_vars(ClosePipes) /\ WF_vars(ProcDone)
        /\ WF_vars(Read) /\ WF_vars(ReadTimeout) /\ WF_vars(Lookup) /\ WF_vars(CbStep) /\ WF_vars(Fail) /\ WF_vars(CloseSendByReader) /\ WF_vars(ReaderDone)
        /\ WF_vars(CloseCall) /\ WF_vars(CloseDo) /\ WF_vars(CloseRet) /\ WF_vars(WaitCall) /\ WF_vars(WaitDone) /\ WF_vars(WaitRet)
        /\ WF_vars(Exit(FALSE)) /\ WF_vars(CloseInRet) /\ WF_vars(WaitAbortRet) /\ WF_vars(CloseOutRet)
Spec == Init /\ [][Next]_vars /\ Fair

(* -------------------------------------------------------------- properties *)
TypeOK == /\ lock \in Senders \cup {None}
          /\ pending \subseteq Names
          /\ \A s \in Senders : pc[s] \in {"idle", "called", "wantlock", "locked", "writing", "ret", "fin"}

\* exactly once: never more callbacks than accepted registrations ...
AtMostOnce == \A n \in Names : cbs[n] <= regs[n]
\* ... and once everything is quiet, exactly as many
Quiescent == SendersDone /\ wpc = "ret"
ExactlyOnceAtEnd == Quiescent => \A n \in Names : cbs[n] = regs[n] /\ pending = {}
\* a callback that carries a response carries the response of a request that was pending under that name
OwnResponse == \A i \in 1..Len(cblog) : cblog[i][2] = "resp" => cblog[i][1] \in seen
\* a request that was refused never gets a callback: regs counts only accepted ones (by construction);
\* lock discipline: the reader never waits for the send lock while holding the pending lock (pending
\* updates are single atomic actions here, so it suffices that CloseSendByReader is not needed for Read)
\* once failed or closed, no later send is accepted
RefusedAfterFailure ==
  [][\A s \in Senders : (pc[s] = "called" /\ (err \/ closedSend) /\ pc'[s] = "ret") => res'[s] # "ok"]_vars
SendsRefused == \A s \in Senders : (pc[s] = "locked" /\ closedSend) => TRUE
\* liveness
Terminates == <>(wpc = "ret")
EventuallyNotRunning == <>[](terminated)
SendersFinish == <>SendersDone
NoStuckCallback == [](\A n \in Names : (n \in pending) => <>(n \notin pending))

ViewNoHist == <<pc, idx, res, lock, pending, closedSend, err, terminated, done, wif, stdinR, wof, rpartial, outClosed,
                rpc, rmsg, rerr, seen, cpc, cop, cret, cops, inbox, aborted, exitFail, readPh, pipesClosed, pdone,
                kpc, wpc, wres, regs, cbs>>
=============================================================================
