CONSTANTS
  MaxDev = 2
SPECIFICATION Spec
INVARIANTS TypeOK DoneAgrees StopsAtFirstFailing Laws
PROPERTIES Termination MaxServersOnlyForcedDown ResultOnce
