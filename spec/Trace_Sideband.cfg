CONSTANTS
  W = 3
  M = 4
  MsgSet <- MsgsGen
  Known <- KnownNames
  AllowCrash = FALSE
  Paths = {"normal"}
  KeepHist = FALSE
INIT TInit
NEXT TNext
INVARIANTS Mutex NoInterleave Accepted
