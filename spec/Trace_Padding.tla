---------------------------- MODULE Trace_Padding ----------------------------
(* code -> spec binding for C19.  Every line of the recorded file is one execution of real code:
     kind "one" : expandRequestData on one seeded random request (any type, random contents, random
                  existing data, random offset - beyond the grid of Gen_Padding):
                  [has, base, n0, off, k, n, size, rest]  (base = proto.Size without request_data,
                  k/n = observed outcome and data length, size = proto.Size after, rest = everything
                  but request_data unchanged)
     kind "rpc" : one RPC between the real reference client and the real reference server in which
                  the peer named by side had to receive messages of the uncompressed sizes
                  under receive limit lim and compression z; outcome = "ok" or the error code;
                  offs = the expand directives the request messages were generated with
   A line is accepted iff the observation equals the declarative meaning. *)
EXTENDS PaddingDecl, Json, TLC, IOUtils

RealBounds == <<128, 16384, 2097152, 268435456>>
Rec == ndJsonDeserialize(IOEnv.VERIF_TRACE)

AcceptOne(r) ==
  LET e == ExpandOne(Msg(r.has, r.base, r.n0), r.off) IN
  /\ r.k = e.k
  /\ (e.k = "padded") => (r.n = e.n /\ r.size = Target(r.off) /\ r.rest)

AcceptRpc(r) == /\ r.outcome = RpcOutcomeZ(r.sizes, r.lim, r.z)
                \* server side: the requests went through expandRequestData; offs are their directives
                /\ \A i \in DOMAIN r.offs : r.sizes[i] = r.lim + r.offs[i]

Accept(r) == IF r.kind = "one" THEN AcceptOne(r) ELSE AcceptRpc(r)

VARIABLE l
TraceInit == l = 1
TraceNext == /\ l <= Len(Rec)
             /\ l' = l + 1
             /\ (Accept(Rec[l]) \/ PrintT("REJECT " \o ToString(l)))
Consumed == (l = Len(Rec) + 1) => PrintT("CONSUMED " \o ToString(Len(Rec)))
=============================================================================
