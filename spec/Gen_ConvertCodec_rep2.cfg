CONSTANTS
  Codecs = {"proto", "json"}
  Top = "UREQ"
  Depth = 2
  MaxRep = 2
  ProtoKinds = {"bytes"}
  JsonKinds = {"scalar"}
INIT Init
NEXT Next
INVARIANTS Agrees Emit
