----------------------------- MODULE LocalProcess -----------------------------
(* C11 (supporting): how a peer that runs IN PROCESS (runInProcess: both reference servers and the reference
   client when the runner is started without commands) is stopped, and why a batch terminates in bounded
   time even if that peer does not cooperate.

   abort = cancel the peer's context.  result() waits until the peer function has returned, but for one
   grace period at most: then it gives up and reports a deadline error (the peer goroutine is left behind).
   Each call of result() has its own timer.  whenDone callbacks run once, after the function returned -
   never for a peer that does not return.

   Peer kinds: "polite" returns when its context is cancelled (well within a grace period), "stubborn"
   never returns, "selfexit" returns by itself.  Time is abstract: one Tick per grace period and call. *)
EXTENDS Naturals, FiniteSets, Sequences, TLC

CONSTANTS Kind, Callbacks, Callers

VARIABLES returned, cancelled, fired, cpc, waitedFor, res

vars == <<returned, cancelled, fired, cpc, waitedFor, res>>

Init == /\ returned = FALSE /\ cancelled = FALSE /\ fired = [c \in Callbacks |-> 0]
        /\ cpc = [k \in Callers |-> "idle"] /\ waitedFor = [k \in Callers |-> 0] /\ res = [k \in Callers |-> "none"]

Abort == /\ ~cancelled /\ cancelled' = TRUE
         /\ UNCHANGED <<returned, fired, cpc, waitedFor, res>>
PeerReturns == /\ ~returned
               /\ \/ Kind = "polite" /\ cancelled
                  \/ Kind = "selfexit"
               /\ returned' = TRUE
               /\ UNCHANGED <<cancelled, fired, cpc, waitedFor, res>>

\* result(): called after abort (that is how the runner uses it)
Call(k) == /\ cpc[k] = "idle" /\ cancelled
           /\ cpc' = [cpc EXCEPT ![k] = "waiting"] /\ waitedFor' = [waitedFor EXCEPT ![k] = 0]
           /\ UNCHANGED <<returned, cancelled, fired, res>>
\* timing assumption that defines "polite": it has returned before a caller's grace period is over
Tick(k) == /\ cpc[k] = "waiting" /\ waitedFor[k] = 0 /\ ~returned
           /\ ~(Kind = "polite" /\ cancelled)
           /\ waitedFor' = [waitedFor EXCEPT ![k] = 1]
           /\ UNCHANGED <<returned, cancelled, fired, cpc, res>>
RetDone(k) == /\ cpc[k] = "waiting" /\ returned
              /\ cpc' = [cpc EXCEPT ![k] = "ret"] /\ res' = [res EXCEPT ![k] = "exited"]
              /\ UNCHANGED <<returned, cancelled, fired, waitedFor>>
RetGiveUp(k) == /\ cpc[k] = "waiting" /\ waitedFor[k] = 1
                /\ cpc' = [cpc EXCEPT ![k] = "ret"] /\ res' = [res EXCEPT ![k] = "gave-up"]
                /\ UNCHANGED <<returned, cancelled, fired, waitedFor>>
Fire(c) == /\ returned /\ fired[c] = 0 /\ fired' = [fired EXCEPT ![c] = 1]
           /\ UNCHANGED <<returned, cancelled, cpc, waitedFor, res>>

Next == Abort \/ PeerReturns \/ (\E k \in Callers : Call(k) \/ Tick(k) \/ RetDone(k) \/ RetGiveUp(k)) \/ (\E c \in Callbacks : Fire(c))
        \/ ((\A k \in Callers : cpc[k] = "ret") /\ UNCHANGED vars)
Spec == Init /\ [][Next]_vars /\ WF_vars(Abort) /\ WF_vars(PeerReturns)
             /\ (\A k \in Callers : WF_vars(Call(k)) /\ WF_vars(Tick(k)) /\ WF_vars(RetDone(k)) /\ WF_vars(RetGiveUp(k)))
             /\ (\A c \in Callbacks : WF_vars(Fire(c)))

\* bounded termination: every call of result() returns, after one grace period at the latest, whatever the peer does
BoundedStop == \A k \in Callers : (cpc[k] = "waiting" /\ waitedFor[k] = 1) => ENABLED RetGiveUp(k)
EveryCallReturns == \A k \in Callers : (cpc[k] = "waiting") ~> (cpc[k] = "ret")
CallbacksAtMostOnce == \A c \in Callbacks : fired[c] <= 1
CallbacksAfterReturn == \A c \in Callbacks : fired[c] = 1 => returned
\* a cooperative peer is never given up on; an unco-operative one always is
PoliteNeverGivenUp == (Kind \in {"polite"}) => \A k \in Callers : res[k] # "gave-up"
StubbornGivenUp == (Kind = "stubborn") => \A k \in Callers : res[k] \in {"none", "gave-up"}
AtEnd == \A k \in Callers : cpc[k] = "ret"
Emit == AtEnd => PrintT("SCN " \o ToString(Kind) \o " " \o ToString({res[k] : k \in Callers}))
=============================================================================
