CONSTANTS
  Variant = "fixed"
  EncSet = {"gzip"}
  Sides = {"D", "C"}
  Grammars = {"pool", "raw"}
  Discipline = "full"
  MaxOps = 8
  MaxRd = 8
  MaxW = 8
  KeepHist = TRUE
INIT Init
NEXT Next
INVARIANTS Emit
VIEW ViewGen
