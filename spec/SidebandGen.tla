----------------------------- MODULE SidebandGen -----------------------------
(* behaviours of Sideband.tla as scenarios: the messages each writer printed (binding 1: the real printer under
   concurrent goroutines), the byte stream with the chunking the pipe chose, and what the specification requires
   the reader to have done with it (binding 2: the real runTestCasesForServer).  `expect` is computed by the
   declarative operators, `bymsg` by the message-level statement. *)
EXTENDS SidebandMC, Json
CONSTANT MinOrder     \* the runner does not stop the batch before this many messages have been started (bias of the walks)
GNext == Steps /\ ((main = "run" /\ main' = "aborted") => Len(order) >= MinOrder)
AtEnd == main = "final" /\ rdr = "done"
\* the design invariants on the broader domain of the walks (at the end of each walk: they are history invariants)
EndInv == AtEnd => (Mutex /\ NoInterleave /\ ReaderCorrect /\ MessageLevel /\ OnlyKnownRecorded /\ ProcessedBeforeFinal)
Emit == AtEnd => PrintT("SCN " \o ToJson([sent |-> sent, order |-> order, written |-> written, chunks |-> chunks,
                                          crashed |-> crashed, path |-> path, expect |-> Classified(written),
                                          bymsg |-> Flat([j \in 1..Len(order) |-> Contribution(order[j])])]))
=============================================================================
