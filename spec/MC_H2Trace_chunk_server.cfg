CONSTANTS
  Sides = {"server"}
  MaxSid = 1
  MaxFrames = 5
  MinFrames = 0
  Names = {"a"}
  BodyPlans <- PlansTiny
  DataCuts = {3}
  Conts = {0, 1}
  MaxOther = 1
  MaxGoAway = 1
  AllowUnnamed = FALSE
  AllowReqTrailers = TRUE
  AllowClientGoAway = TRUE
  AllowTimer = TRUE
  AllowEarlyEnd = TRUE
  MaxCall = 5
  FrameAligned = FALSE
  MaxAhead = 5
  MaxTimeouts = 1
  EndKinds = {"close"}
  KeepCalls = FALSE
  Variant = "intended"
INIT Init
NEXT Next
VIEW ViewNoCalls
INVARIANTS TypeOK Agrees Reassembly EnvWellFormed NeverBroken HpackInSync Transparent EachNamedStreamOnce StreamsAgree
