CONSTANTS
  TagLen = 1
  Bounds <- SmallBounds
  Limit = 40
  MaxTarget = 85
  Algo = "iter"
  MaxAdj = 3
  Guard = TRUE
  W = 1
  Huge = FALSE
SPECIFICATION SpecSmall
INVARIANTS TypeOK NoCrash Correct
