---------------------------- MODULE H2TraceDecl ----------------------------
(* C15 - declarative meaning of tracing one HTTP/2 connection.

   The tracer sits on ONE side ("client" / "server") of one connection and sees two byte
   streams: direction "req" (client -> server, starts with the 24-byte preface) and direction
   "resp" (server -> client).  What it is asked to make of them is defined here on the
   sequence  h  of HANDLED EVENTS, i.e. the wire frames in the order in which their last byte
   went through the wrapped conn, plus the two things that are not frames: the retry timer of a
   held-back trace firing (TIMER) and the end of the connection (END).  Nothing in this module
   knows about bytes, Read/Write calls, chunk boundaries, HPACK tables, maps of open streams or
   locks: a trace is a function of the per-stream PROJECTION of h.  That the byte-level machine
   (module H2Trace) computes exactly this for every interleaving of streams and every split of
   the bytes into calls is the design theorem; that the Go code does is what the replay checks.

   Frames (all of one record shape, see Fr):
     t     "PREFACE" | "OTHER" | "HEADERS" | "CONT" | "DATA" | "RST" | "GOAWAY" | "TIMER" | "END"
     d     "req" | "resp"                 direction
     s     stream id (0: connection level)
     hk    "request" | "response" | "trailers"   what a header block is (HEADERS and every CONT
           of the block carry the same hk/nm/es/st/bp/hs: the block is one field section, RFC 9113
           4.3 and 6.10; it takes effect when the frame with eh = TRUE has been seen)
     nm    test name carried by a request block ("" = the stream carries none); name of a TIMER
     es    END_STREAM (of the block / the DATA frame)       eh  END_HEADERS
     n     DATA: number of body bytes in the frame
     st    response status
     code  RST: "cancel" | "refused" | "internal";  GOAWAY: "no" | "proto";  END: "close" |
           "readerr" | "writeerr"
     last  GOAWAY: last stream id
     bp    body plan announced with a request / response block: the sequence of envelopes
           [fl, len] whose bytes the DATA frames of that stream and direction carry, in order,
           cut anywhere (a DATA frame may end inside a 5-byte prefix or inside a payload)
     hs    header blocks are HPACK-coded against the blocks sent before in the same direction:
           hs = number of earlier blocks in that direction (used by the machine only)
     pu    payload size in chunking units (machine only),  k  sub-kind / padding marker (Go only)
*)
EXTENDS Integers, Sequences, FiniteSets

PrefixLen == 5
Bit(f, b) == (f \div b) % 2 = 1

Fr(t, d, s, hk, nm, es, eh, n, st, code, last, bp, hs, pu, k) ==
  [t |-> t, d |-> d, s |-> s, hk |-> hk, nm |-> nm, es |-> es, eh |-> eh, n |-> n, st |-> st,
   code |-> code, last |-> last, bp |-> bp, hs |-> hs, pu |-> pu, k |-> k]

TimerEv(nm) == Fr("TIMER", "", 0, "", nm, FALSE, FALSE, 0, 0, "", 0, <<>>, 0, 0, "")
EndEv(kind) == Fr("END", "", 0, "", "", FALSE, FALSE, 0, 0, kind, 0, <<>>, 0, 0, "")

IsBlockEnd(f) == f.t \in {"HEADERS", "CONT"} /\ f.eh

(* ------------------------------ bodies ------------------------------ *)
RECURSIVE Total(_)
Total(b) == IF b = <<>> THEN 0 ELSE PrefixLen + Head(b).len + Total(Tail(b))

(* ------------------------------ trace events ------------------------------ *)
Ev(k, i, env, fl, dl, len, st, e) ==
  [k |-> k, i |-> i, env |-> env, fl |-> fl, dl |-> dl, len |-> len, st |-> st, e |-> e]
ReqStart     == Ev("ReqStart", 0, 0, 0, 0, 0, 0, "")
RespStart(c) == Ev("RespStart", 0, 0, 0, 0, 0, c, "")
ReqEnd(e)    == Ev("ReqEnd", 0, 0, 0, 0, 0, 0, e)
RespEnd(e)   == Ev("RespEnd", 0, 0, 0, 0, 0, 0, e)
DataK(d)     == IF d = "req" THEN "ReqData" ELSE "RespData"
DataEv(d, i, e, n) == Ev(DataK(d), i, 1, e.fl, e.len, n, 0, "")   \* envelope known, n payload bytes seen
BareEv(d, i, n)    == Ev(DataK(d), i, 0, 0, 0, n, 0, "")          \* n bytes of an incomplete prefix
EosEv(i)           == Ev("RespEos", i, 0, 0, 0, 0, 0, "")         \* end-of-stream message content

\* an enveloped response message with flag bit 2 (Connect) or 128 (gRPC-Web) is the
\* end-of-stream message; its (here: never compressed) content is listed when non-empty
EosOf(d, i, e) == IF d = "resp" /\ (Bit(e.fl, 2) \/ Bit(e.fl, 128)) /\ e.len > 0 THEN <<EosEv(i)>> ELSE <<>>

\* the message events that are determined once the first n bytes of the body have been seen
RECURSIVE DoneFrom(_, _, _, _)
DoneFrom(body, d, j, n) ==
  IF j > Len(body) \/ n < PrefixLen + body[j].len THEN <<>>
  ELSE <<DataEv(d, j - 1, body[j], body[j].len)>> \o EosOf(d, j - 1, body[j])
       \o DoneFrom(body, d, j + 1, n - PrefixLen - body[j].len)
Done(body, d, n) == DoneFrom(body, d, 1, n)

\* the final partial event when the body stops after n bytes: inside a prefix -> the byte count
\* only; inside a payload -> the envelope and the bytes seen; exactly between a prefix and the
\* first payload byte -> nothing (the same reading as C14: AsImplemented_SilentCutAfterPrefix)
AsImplemented_SilentCutAfterPrefix == TRUE
RECURSIVE PartialFrom(_, _, _, _)
PartialFrom(body, d, j, n) ==
  IF j > Len(body) \/ n = 0 THEN <<>>
  ELSE IF n < PrefixLen THEN <<BareEv(d, j - 1, n)>>
  ELSE IF n - PrefixLen < body[j].len
         THEN IF n = PrefixLen /\ AsImplemented_SilentCutAfterPrefix THEN <<>>
              ELSE <<DataEv(d, j - 1, body[j], n - PrefixLen)>>
  ELSE PartialFrom(body, d, j + 1, n - PrefixLen - body[j].len)
Partial(body, d, n) == PartialFrom(body, d, 1, n)

Drop(sq, k) == SubSeq(sq, k + 1, Len(sq))

(* ------------------------------ errors ------------------------------ *)
RstErr(code)    == "rst:" \o code
GoAwayErr(code) == "goaway:" \o code
EndErr(kind)    == "end:" \o kind
\* a refusal the client may repeat transparently (RFC 9113 8.7): REFUSED_STREAM, or being
\* above the last-stream-id of a graceful (NO_ERROR) GOAWAY
Retryable(e) == e \in {RstErr("refused"), GoAwayErr("no")}

(* ------------------------------ GOAWAY ------------------------------ *)
\* RFC 9113 6.8: the last-stream-id of a GOAWAY names a stream initiated by the RECEIVER of the
\* frame.  Request streams are client-initiated, so only a GOAWAY sent by the server (d = "resp")
\* says anything about them; a GOAWAY sent by the client is about (non-existent) pushed streams.
GoAwayCuts(f, anyDir) == f.t = "GOAWAY" /\ (anyDir \/ f.d = "resp")
\* A request block whose stream id is above the last id of the latest GOAWAY is not looked at (the
\* server will not process it); the statement is silent on such streams.  A GOAWAY with last id 0
\* is forgotten for this purpose (the tracer keeps "no GOAWAY yet" and "last id 0" in one value).
AsImplemented_AboveGoAwayIgnored(max, s) == max # 0 /\ s > max

(* ------------------------------ one stream ------------------------------ *)
\* view of stream s after a prefix of h
S0 == [open |-> FALSE, ign |-> FALSE, fin |-> FALSE, finAt |-> 0, openAt |-> 0, nm |-> "", ev |-> <<>>,
       gr |-> FALSE, rq |-> 0, rqDone |-> FALSE, rp |-> 0, rb |-> <<>>, pb |-> <<>>,
       st |-> 0, tr |-> FALSE, rtr |-> FALSE, err |-> "nil", max |-> 0]

FlushReq(S)  == IF S.rqDone THEN <<>> ELSE Partial(S.rb, "req", S.rq)
FlushResp(S) == IF S.gr THEN Partial(S.pb, "resp", S.rp) ELSE <<>>

\* the request side ends normally (END_STREAM in direction req): not the end of the call
ReqClose(S) == [S EXCEPT !.ev = @ \o FlushReq(S) \o <<ReqEnd("nil")>>, !.rqDone = TRUE]
\* the call ends with a response-side event carrying error class e (nil: END_STREAM from the server)
FinResp(S, e, i) == [S EXCEPT !.ev = @ \o FlushReq(S) \o FlushResp(S) \o <<RespEnd(e)>>,
                              !.fin = TRUE, !.finAt = i, !.err = e]
\* the call ends with a request-side event carrying error class e
FinReq(S, e, i)  == [S EXCEPT !.ev = @ \o FlushReq(S) \o <<ReqEnd(e)>>, !.fin = TRUE, !.finAt = i, !.err = e]

StepS(S, f, i, s, side, anyDir) ==
  LET S1 == IF GoAwayCuts(f, anyDir) THEN [S EXCEPT !.max = f.last] ELSE S IN
  IF S.fin \/ S.ign THEN S1
  ELSE IF ~S.open THEN
    IF IsBlockEnd(f) /\ f.s = s /\ f.d = "req"
      THEN IF AsImplemented_AboveGoAwayIgnored(S.max, s) THEN [S1 EXCEPT !.ign = TRUE]
           ELSE LET O == [S1 EXCEPT !.open = TRUE, !.openAt = i, !.nm = f.nm, !.rb = f.bp, !.ev = <<ReqStart>>]
                IN IF f.es THEN ReqClose(O) ELSE O
      ELSE S1
  ELSE
    CASE IsBlockEnd(f) /\ f.s = s /\ f.d = "req" ->                       \* request trailers
           LET T == [S1 EXCEPT !.rtr = TRUE] IN IF f.es THEN ReqClose(T) ELSE T
      [] IsBlockEnd(f) /\ f.s = s /\ f.d = "resp" /\ ~S.gr ->             \* response headers
           LET R == [S1 EXCEPT !.gr = TRUE, !.st = f.st, !.pb = f.bp, !.ev = @ \o <<RespStart(f.st)>>]
           IN IF f.es THEN FinResp(R, "nil", i) ELSE R
      [] IsBlockEnd(f) /\ f.s = s /\ f.d = "resp" /\ S.gr ->              \* response trailers
           LET T == [S1 EXCEPT !.tr = TRUE] IN IF f.es THEN FinResp(T, "nil", i) ELSE T
      [] f.t = "DATA" /\ f.s = s /\ f.d = "req" ->
           LET D == [S1 EXCEPT !.rq = @ + f.n,
                               !.ev = @ \o Drop(Done(S.rb, "req", S.rq + f.n), Len(Done(S.rb, "req", S.rq)))]
           IN IF f.es THEN ReqClose(D) ELSE D
      [] f.t = "DATA" /\ f.s = s /\ f.d = "resp" /\ S.gr ->
           LET D == [S1 EXCEPT !.rp = @ + f.n,
                               !.ev = @ \o Drop(Done(S.pb, "resp", S.rp + f.n), Len(Done(S.pb, "resp", S.rp)))]
           IN IF f.es THEN FinResp(D, "nil", i) ELSE D
      [] f.t = "RST" /\ f.s = s /\ f.d = "req"  -> FinReq(S1, RstErr(f.code), i)
      [] f.t = "RST" /\ f.s = s /\ f.d = "resp" -> FinResp(S1, RstErr(f.code), i)
      [] GoAwayCuts(f, anyDir) /\ s > f.last    -> FinResp(S1, GoAwayErr(f.code), i)
      [] f.t = "END" -> IF side = "client" THEN FinReq(S1, EndErr(f.code), i)
                        ELSE FinResp(S1, EndErr(f.code), i)
      [] OTHER -> S1

RECURSIVE ViewFrom(_, _, _, _, _, _)
ViewFrom(S, h, i, s, side, anyDir) ==
  IF i > Len(h) THEN S ELSE ViewFrom(StepS(S, h[i], i, s, side, anyDir), h, i + 1, s, side, anyDir)
ViewP(h, s, side, anyDir) == ViewFrom(S0, h, 1, s, side, anyDir)
View(h, s, side) == ViewP(h, s, side, FALSE)

\* what a finished call is listed as.  The header FIELDS themselves (request line, request and
\* response headers, trailers) are a function of the stream id on the Go side; here they are
\* represented by s, st and the two trailer marks.
TraceOf(S, s) == [s |-> s, nm |-> S.nm, ev |-> S.ev, st |-> S.st, tr |-> S.tr, rtr |-> S.rtr, err |-> S.err]

(* ------------------------------ the connection ------------------------------ *)
Sids(h) == {h[i].s : i \in {j \in 1..Len(h) : h[j].t = "HEADERS" /\ h[j].hk = "request"}}

\* A finished trace with a retryable error is held back.  It is handed over when its timer fires
\* or the connection ends, unless a later stream with the same test name was opened before that:
\* then the retry's trace is the one (and only one) for that attempt chain.
Released(h, s, V, side, anyDir) ==
  \E j \in (V.finAt + 1)..Len(h) :
     /\ (h[j].t = "END" \/ (h[j].t = "TIMER" /\ h[j].nm = V.nm))
     /\ \A s2 \in Sids(h) \ {s} :
          LET W == ViewP(h, s2, side, anyDir) IN ~(W.open /\ W.nm = V.nm /\ V.finAt < W.openAt /\ W.openAt < j)

TracesP(h, side, anyDir) ==
  {TraceOf(ViewP(h, s, side, anyDir), s) :
     s \in {x \in Sids(h) : LET V == ViewP(h, x, side, anyDir) IN
                              /\ V.open /\ V.fin /\ V.nm # ""
                              /\ (Retryable(V.err) => Released(h, x, V, side, anyDir))}}
\* THE definition: the set of traces handed to the collector after the handled events h
Traces(h, side) == TracesP(h, side, FALSE)

(* ------------------------------ well-formed traffic ------------------------------ *)
IsFrame(f) == f.t \notin {"TIMER", "END"}
WellFormed(h) ==
  LET N == Len(h) IN
  \* the request direction starts with the preface
  /\ \A i \in 1..N : (h[i].t = "PREFACE") => (h[i].d = "req" /\ \A j \in 1..(i - 1) : h[j].d # "req")
  \* nothing after the end of the connection
  /\ \A i \in 1..N : h[i].t = "END" => i = N
  \* header blocks are contiguous within their direction and stay on one stream
  /\ \A i \in 1..N : (h[i].t \in {"HEADERS", "CONT"} /\ ~h[i].eh) =>
        \A j \in (i + 1)..N : (IsFrame(h[j]) /\ h[j].d = h[i].d /\ \A m \in (i + 1)..(j - 1) : ~(IsFrame(h[m]) /\ h[m].d = h[i].d))
                               => (h[j].t = "CONT" /\ h[j].s = h[i].s)
  /\ \A j \in 1..N : h[j].t = "CONT" =>
        \E i \in 1..(j - 1) : /\ h[i].t \in {"HEADERS", "CONT"} /\ ~h[i].eh /\ h[i].d = h[j].d /\ h[i].s = h[j].s
                              /\ \A m \in (i + 1)..(j - 1) : ~(IsFrame(h[m]) /\ h[m].d = h[j].d)
  \* client-initiated stream ids are odd and increase
  /\ \A i, j \in 1..N : (i < j /\ h[i].t = "HEADERS" /\ h[j].t = "HEADERS" /\ h[i].hk = "request" /\ h[j].hk = "request")
        => (h[i].s < h[j].s /\ h[i].s % 2 = 1 /\ h[j].s % 2 = 1)
  \* after its own END_STREAM or RST_STREAM a side sends nothing but RST_STREAM on that stream
  \* (RFC 9113 5.1: half-closed (local) / closed; real servers answer late frames of a closed
  \* stream with RST_STREAM(STREAM_CLOSED), again and again)
  /\ \A i, j \in 1..N : (i < j /\ h[i].s # 0 /\ h[j].s = h[i].s /\ h[j].d = h[i].d /\ h[j].t \in {"HEADERS", "DATA"}
                          /\ ((h[i].t = "DATA" /\ h[i].es) \/ h[i].t = "RST" \/ (IsBlockEnd(h[i]) /\ h[i].es))) => FALSE
  \* the server answers only requests it has seen; data only after response headers
  /\ \A j \in 1..N : (h[j].d = "resp" /\ h[j].s # 0 /\ h[j].t \in {"HEADERS", "DATA", "RST"}) =>
        \E i \in 1..(j - 1) : IsBlockEnd(h[i]) /\ h[i].d = "req" /\ h[i].s = h[j].s
  /\ \A j \in 1..N : (h[j].d = "resp" /\ h[j].t = "DATA") =>
        \E i \in 1..(j - 1) : IsBlockEnd(h[i]) /\ h[i].d = "resp" /\ h[i].s = h[j].s
=============================================================================
