CONSTANTS
  Variant = "fixed"
  EncSet = {"gzip"}
  Sides = {"D"}
  Grammars = {"tracer"}
  Discipline = "full"
  MaxOps = 6
  MaxRd = 8
  MaxW = 8
  KeepHist = TRUE
INIT Init
NEXT Next
INVARIANTS Emit
VIEW ViewGen
