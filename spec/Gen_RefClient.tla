----------------------------- MODULE Gen_RefClient -----------------------------
(* environment schedules for the reference client loop: projections of random behaviours of
   RefClient to the steps the harness decides *)
EXTENDS RefClient, Json
GNext == Internal \/ Observable
AtEnd == ret # "none" /\ ~offerPend /\ ~drainPend
Emit == AtEnd => PrintT("SCN " \o ToJson([hist |-> hist]))
=============================================================================
