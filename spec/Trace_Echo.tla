----------------------------- MODULE Trace_Echo -----------------------------
(* code -> spec binding for C02.  Every line of the recorded file is one executed permutation of a
   generated test case: the abstract case T, the verdict of the real run() (o1), the verdict of the
   recording pass (o2), client-side error / feedback text (cerr) and the ClientResponseResult the
   client reported, projected into the token vocabulary (obs).  A line is accepted iff all three
   parties agree with the specification as arbiter:
     - T is a well-formed case and both runner verdicts are "pass" with no feedback,
     - the observed result is one the service contract + client rules predict
       (Predicted(v, obs) for an attribution v of ClientView(T)),
     - the observed result meets the expectation the SPECIFICATION derives from T (Conforms). *)
EXTENDS EchoDecl, Json, TLC, IOUtils

Rec == ndJsonDeserialize(IOEnv.VERIF_TRACE)

VARIABLE l
TraceInit == l = 1
Accept(r) == /\ WellFormed(r.t)
             /\ r.o1 = "pass" /\ r.o2 = "pass" /\ r.cerr = ""
             /\ r.obs # NoneV
             /\ \E v \in Attributions(ClientView(r.t), r.t.st) : Predicted(v, r.obs)
             /\ Conforms(Expect(r.t), r.obs, r.t.st)
TraceNext == /\ l <= Len(Rec)
             /\ l' = l + 1
             /\ (Accept(Rec[l]) \/ PrintT("REJECT " \o ToString(l)))
TraceSpec == TraceInit /\ [][TraceNext]_l
Consumed == (l = Len(Rec) + 1) => PrintT("CONSUMED " \o ToString(Len(Rec)))
=============================================================================
