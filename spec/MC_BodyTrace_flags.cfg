CONSTANTS
  FlagSet = {0, 1, 2, 3, 128, 129, 4}
  LenSet = {0, 2}
  PcSet = {"plain", "comp", "compEmpty", "garbage"}
  EncSet = {"none", "identity", "real", "unknown"}
  HdrMode = "mixed"
  SideSet = {"req", "resp"}
  EndSet = {"eof", "err", "close", "closeerr"}
  MaxEnvs = 1
  MaxTotal = 7
  ChunkSet = {1, 2, 3, 4, 5, 6, 7}
  MaxPost = 2
  MaxOther = 1
  Grain = "loop"
  ConsultBit = TRUE
  KeepHist = FALSE
INIT Init
NEXT Next
VIEW ViewNoHist
INVARIANTS TypeOK Agrees Eager Bookkeeping Consecutive EndsOnce Transparent NoCorrupt
PROPERTIES OutGrows
