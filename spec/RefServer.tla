------------------------------ MODULE RefServer ------------------------------
(* Life cycle of a conformance *server process* (referenceserver.Run, and with AnnounceFirst /
   unbounded drain the grpc-go reference server): what the runner (ServerBatch.tla, Process.tla)
   assumes about the peer it starts.

     Program  : Decode (config from stdin: good | bad | unsupported | truncated | end of input)
                -> Create (bind the listener; fails if the port is taken or the config is unsupported)
                -> StartServe (spawn the serve goroutine) -> SleepDone (200 ms) -> Check (serve failed?)
                -> Announce (write the one response; a synchronous pipe: it completes when the runner
                   reads it and fails when the runner has closed its end)
                -> Wait (serve failure | context cancelled) -> NoticeCancel (close the listener, start
                   the grace timer) -> DrainDone (return) .
     Serve    : ServeRuns (the accept loop is running) | ServeFails (the listener broke)
     RPCs     : Accept / Refuse a connection attempt, Complete an RPC the environment let finish,
                Cut an RPC (only where the shutdown kind or the end of the process allows it)
     Environment (the harness = the runner + a client): writes the config / closes stdin, cancels
                the context, reads the response / closes its end of stdout, connects (an RPC that
                stays in flight until the environment finishes it), breaks the listener, lets the
                grace period elapse.

   kind (how the shutdown treats RPCs in flight)
     "tracked"  : connections are known to the HTTP server; the shutdown waits for RPCs in flight,
                  at most one grace period (HTTP/1.1, HTTP/1.1+TLS, HTTP/2+TLS)
     "hijacked" : AsImplemented_H2CNotDrained - h2c connections are taken over by the h2c handler, the
                  HTTP server's shutdown neither waits for them nor closes them: Run returns at once,
                  RPCs in flight live on until the process ends
     "abrupt"   : AsImplemented_H3ClosedAbruptly - HTTP/3 is closed, not drained (the code says so):
                  RPCs in flight may be cut - as observed they are left hanging: the client is told nothing
     "unbounded": AsImplemented_GrpcDrainUnbounded - grpc-go GracefulStop waits for RPCs in flight
                  without a time limit (the runner's own grace period bounds it for OS processes)
   AnnounceFirst: the grpc-go server writes the response before it starts serving (the listener is
                  bound: connections wait in its backlog); no 200 ms start check
   bind: "free" (port 0), "fixed" (a port the environment knows in advance), "taken" (bind fails)

   Observable events (logged by the harness, Call before / Ret after): CfgCall(k)/CfgRet,
   CloseStdin, Cancel, ReadCall/ReadRet(r), CloseStdout, ConnCall(i)/ConnRet(i,r), Finish(i),
   RpcEnd(i,r), Break, BrokeEarly, Grace, RunRet(r).  The program's own steps are silent.  There is
   no action for bytes on stdout after the response ("Extra"): such a log is never accepted.

   Not modelled: command-line errors (-version, bad flags: Run returns before it reads stdin);
   the context is not looked at before the announcement has been written (as in the code: a cancel
   during the config read or the start check takes effect afterwards).                            *)
EXTENDS Naturals, Sequences, FiniteSets, TLC

CONSTANTS NR, Kinds, Binds, CfgKinds, AnnounceFirst, KeepHist
Rpcs == 1..NR

VARIABLES kind, bind, pc, cfgW, cfgPend, cfgSent, cfgGot, stdinClosed, lis, srv, broken, cancelled, grace,
          outPend, outClosed, nout, got, rpc, acc, ret, hist
vars == <<kind, bind, pc, cfgW, cfgPend, cfgSent, cfgGot, stdinClosed, lis, srv, broken, cancelled, grace,
          outPend, outClosed, nout, got, rpc, acc, ret, hist>>

H(e) == hist' = IF KeepHist THEN Append(hist, e) ELSE hist

\* combinations that exist: only TCP listeners can be pre-empted or broken by the environment
Sensible(k, b) == (k = "abrupt") => (b = "free")

Init == /\ kind \in Kinds /\ bind \in Binds /\ Sensible(kind, bind)
        /\ pc = "read" /\ cfgW = "none" /\ cfgPend = FALSE /\ cfgSent = FALSE /\ cfgGot = "none"
        /\ stdinClosed = FALSE /\ lis = "none" /\ srv = "idle" /\ broken = FALSE /\ cancelled = FALSE
        /\ grace = FALSE /\ outPend = FALSE /\ outClosed = FALSE /\ nout = 0 /\ got = "none"
        /\ rpc = [i \in Rpcs |-> "none"] /\ acc = [i \in Rpcs |-> FALSE] /\ ret = "none" /\ hist = <<>>

Active(i) == rpc[i] \in {"inflight", "finishing"}
AnyActive == \E i \in Rpcs : Active(i)

(* ------------------------------ environment (observable) ------------------------------ *)
CfgCall(k) == /\ ~cfgSent /\ ~stdinClosed /\ k \in CfgKinds
              /\ cfgW' = k /\ cfgPend' = TRUE /\ cfgSent' = TRUE /\ H(<<"CFG", k>>)
              /\ UNCHANGED <<kind, bind, pc, cfgGot, stdinClosed, lis, srv, broken, cancelled, grace, outPend, outClosed, nout, got, rpc, acc, ret>>
\* the write returned: the program has taken the bytes (it reads its config before anything else)
CfgRet == /\ cfgPend /\ cfgW = "none" /\ cfgPend' = FALSE
          /\ UNCHANGED <<kind, bind, pc, cfgW, cfgSent, cfgGot, stdinClosed, lis, srv, broken, cancelled, grace, outPend, outClosed, nout, got, rpc, acc, ret, hist>>
CloseStdin == /\ ~stdinClosed /\ ~cfgPend /\ stdinClosed' = TRUE /\ H(<<"CI">>)
              /\ UNCHANGED <<kind, bind, pc, cfgW, cfgPend, cfgSent, cfgGot, lis, srv, broken, cancelled, grace, outPend, outClosed, nout, got, rpc, acc, ret>>
Cancel == /\ ~cancelled /\ cancelled' = TRUE /\ H(<<"X">>)
          /\ UNCHANGED <<kind, bind, pc, cfgW, cfgPend, cfgSent, cfgGot, stdinClosed, lis, srv, broken, grace, outPend, outClosed, nout, got, rpc, acc, ret>>
ReadCall == /\ ~outPend /\ ~outClosed /\ got = "none" /\ outPend' = TRUE /\ H(<<"R">>)
            /\ UNCHANGED <<kind, bind, pc, cfgW, cfgPend, cfgSent, cfgGot, stdinClosed, lis, srv, broken, cancelled, grace, outClosed, nout, got, rpc, acc, ret>>
\* the read returned the response, or the end of stdout (the process ended without announcing)
ReadRet(r) == /\ outPend /\ outPend' = FALSE /\ got' = r
              /\ \/ r = "resp" /\ nout = 1
                 \/ r = "eof" /\ nout = 0 /\ ret # "none"
              /\ UNCHANGED <<kind, bind, pc, cfgW, cfgPend, cfgSent, cfgGot, stdinClosed, lis, srv, broken, cancelled, grace, outClosed, nout, rpc, acc, ret, hist>>
CloseStdout == /\ ~outClosed /\ ~outPend /\ outClosed' = TRUE /\ H(<<"CO">>)
               /\ UNCHANGED <<kind, bind, pc, cfgW, cfgPend, cfgSent, cfgGot, stdinClosed, lis, srv, broken, cancelled, grace, outPend, nout, got, rpc, acc, ret>>
\* the environment can only connect to an address it knows
AddrKnown == got = "resp" \/ bind # "free"
ConnCall(i) == /\ rpc[i] = "none" /\ AddrKnown /\ rpc' = [rpc EXCEPT ![i] = "dialing"] /\ H(<<"C", i>>)
               /\ UNCHANGED <<kind, bind, pc, cfgW, cfgPend, cfgSent, cfgGot, stdinClosed, lis, srv, broken, cancelled, grace, outPend, outClosed, nout, got, acc, ret>>
\* "ok": the first response of the RPC arrived (it is in flight in a handler); "fail": the dial or the
\* RPC failed before that; "stuck": neither happened for as long as the client was willing to wait
ConnRet(i, r) == /\ \/ r = "ok" /\ acc[i]
                    \/ r = "fail" /\ rpc[i] \in {"refused", "cut"} /\ rpc' = [rpc EXCEPT ![i] = "gone"]
                    \* the client gave up waiting: only a server that announces before it serves keeps a
                    \* connection waiting (in the backlog of its listener) while nobody takes the announcement
                    \/ r = "stuck" /\ rpc[i] = "dialing" /\ AnnounceFirst /\ lis = "open" /\ srv = "idle"
                       /\ rpc' = [rpc EXCEPT ![i] = "gone"]
                 /\ (r = "ok" => UNCHANGED rpc)
                 /\ acc' = [acc EXCEPT ![i] = FALSE]
                 /\ UNCHANGED <<kind, bind, pc, cfgW, cfgPend, cfgSent, cfgGot, stdinClosed, lis, srv, broken, cancelled, grace, outPend, outClosed, nout, got, ret, hist>>
Finish(i) == /\ rpc[i] = "inflight" /\ rpc' = [rpc EXCEPT ![i] = "finishing"] /\ H(<<"F", i>>)
             /\ UNCHANGED <<kind, bind, pc, cfgW, cfgPend, cfgSent, cfgGot, stdinClosed, lis, srv, broken, cancelled, grace, outPend, outClosed, nout, got, acc, ret>>
RpcEnd(i, r) == /\ \/ r = "clean" /\ rpc[i] = "done"
                   \/ r = "cut" /\ rpc[i] = "cut"
                /\ rpc' = [rpc EXCEPT ![i] = "gone"]
                /\ UNCHANGED <<kind, bind, pc, cfgW, cfgPend, cfgSent, cfgGot, stdinClosed, lis, srv, broken, cancelled, grace, outPend, outClosed, nout, got, acc, ret, hist>>
\* the listener is taken away under the accept loop (only a listener whose port is known can be found)
Break == /\ bind = "fixed" /\ lis = "open" /\ ~broken /\ broken' = TRUE /\ H(<<"B">>)
         /\ UNCHANGED <<kind, bind, pc, cfgW, cfgPend, cfgSent, cfgGot, stdinClosed, lis, srv, cancelled, grace, outPend, outClosed, nout, got, rpc, acc, ret>>
\* the environment attests by its clock that the break was complete well before the 200 ms start check could
\* have ended (it looks at the time that passed since it began to hand over the config): an assertion, no effect
BrokeEarly == /\ broken /\ (AnnounceFirst \/ pc \in {"start", "sleep"})
              /\ UNCHANGED vars
\* one grace period has passed since the shutdown began
Grace == /\ pc = "drain" /\ ~grace /\ grace' = TRUE /\ H(<<"G">>)
         /\ UNCHANGED <<kind, bind, pc, cfgW, cfgPend, cfgSent, cfgGot, stdinClosed, lis, srv, broken, cancelled, outPend, outClosed, nout, got, rpc, acc, ret>>
RunRet(r) == ret = r /\ r # "none" /\ UNCHANGED vars

(* ------------------------------ the program (silent) ------------------------------ *)
Return(r) == ret' = r /\ pc' = "done"
\* every return after the listener exists leaves it closed and no serve goroutine behind
StopAll == /\ lis' = IF lis = "open" THEN "closed" ELSE lis
           /\ srv' = IF srv \in {"spawned", "running"} THEN "stopped" ELSE srv

Decode == /\ pc = "read" /\ cfgW # "none" /\ cfgW' = "none" /\ cfgGot' = cfgW
          /\ CASE cfgW = "bad" -> Return("err")
               [] cfgW = "trunc" -> pc' = "readmore" /\ UNCHANGED ret
               [] OTHER -> pc' = "create" /\ UNCHANGED ret
          /\ UNCHANGED <<kind, bind, cfgPend, cfgSent, stdinClosed, lis, srv, broken, cancelled, grace, outPend, outClosed, nout, got, rpc, acc, hist>>
DecodeEOF == /\ pc \in {"read", "readmore"} /\ cfgW = "none" /\ stdinClosed /\ Return("err")
             /\ UNCHANGED <<kind, bind, cfgW, cfgPend, cfgSent, cfgGot, stdinClosed, lis, srv, broken, cancelled, grace, outPend, outClosed, nout, got, rpc, acc, hist>>
Create == /\ pc = "create"
          /\ IF cfgGot = "unsup" \/ bind = "taken"
               THEN Return("err") /\ UNCHANGED lis
               ELSE lis' = "open" /\ pc' = (IF AnnounceFirst THEN "announce" ELSE "start") /\ UNCHANGED ret
          /\ UNCHANGED <<kind, bind, cfgW, cfgPend, cfgSent, cfgGot, stdinClosed, srv, broken, cancelled, grace, outPend, outClosed, nout, got, rpc, acc, hist>>
StartServe == /\ pc = "start" /\ srv' = "spawned" /\ pc' = (IF AnnounceFirst THEN "wait" ELSE "sleep")
              /\ UNCHANGED <<kind, bind, cfgW, cfgPend, cfgSent, cfgGot, stdinClosed, lis, broken, cancelled, grace, outPend, outClosed, nout, got, rpc, acc, ret, hist>>
\* AsAssumed_AcceptFailsWithinStartCheck (timing): an accept loop whose listener broke ends well within the
\* 200 ms the program sleeps, so a break that precedes the end of the sleep is seen by the check
SleepDone == /\ pc = "sleep" /\ ~(broken /\ srv \in {"spawned", "running"}) /\ pc' = "check"
             /\ UNCHANGED <<kind, bind, cfgW, cfgPend, cfgSent, cfgGot, stdinClosed, lis, srv, broken, cancelled, grace, outPend, outClosed, nout, got, rpc, acc, ret, hist>>
Check == /\ pc = "check"
         /\ IF srv = "failed" THEN Return("err") ELSE pc' = "announce" /\ UNCHANGED ret
         /\ UNCHANGED <<kind, bind, cfgW, cfgPend, cfgSent, cfgGot, stdinClosed, lis, srv, broken, cancelled, grace, outPend, outClosed, nout, got, rpc, acc, hist>>
\* the runner's pending read takes the whole response
AnnounceTaken == /\ pc = "announce" /\ outPend /\ ~outClosed /\ nout = 0
                 /\ nout' = 1 /\ pc' = (IF AnnounceFirst THEN "start" ELSE "wait")
                 /\ UNCHANGED <<kind, bind, cfgW, cfgPend, cfgSent, cfgGot, stdinClosed, lis, srv, broken, cancelled, grace, outPend, outClosed, got, rpc, acc, ret, hist>>
AnnounceFails == /\ pc = "announce" /\ outClosed /\ Return("err") /\ StopAll
                 /\ UNCHANGED <<kind, bind, cfgW, cfgPend, cfgSent, cfgGot, stdinClosed, broken, cancelled, grace, outPend, outClosed, nout, got, rpc, acc, hist>>
NoticeFail == /\ pc = "wait" /\ srv = "failed" /\ Return("err")
              /\ UNCHANGED <<kind, bind, cfgW, cfgPend, cfgSent, cfgGot, stdinClosed, lis, srv, broken, cancelled, grace, outPend, outClosed, nout, got, rpc, acc, hist>>
\* shutdown begins: no new connections from here on
NoticeCancel == /\ pc = "wait" /\ cancelled /\ pc' = "drain" /\ StopAll
                /\ UNCHANGED <<kind, bind, cfgW, cfgPend, cfgSent, cfgGot, stdinClosed, broken, cancelled, grace, outPend, outClosed, nout, got, rpc, acc, ret, hist>>
DrainDone == /\ pc = "drain"
             /\ CASE kind = "tracked" -> \/ ~AnyActive /\ Return("ok")
                                         \/ grace /\ Return("err")
                  [] kind = "unbounded" -> ~AnyActive /\ Return("ok")
                  [] OTHER -> Return("ok")
             /\ UNCHANGED <<kind, bind, cfgW, cfgPend, cfgSent, cfgGot, stdinClosed, lis, srv, broken, cancelled, grace, outPend, outClosed, nout, got, rpc, acc, hist>>

ServeRuns == /\ srv = "spawned" /\ lis = "open" /\ ~broken /\ srv' = "running"
             /\ UNCHANGED <<kind, bind, pc, cfgW, cfgPend, cfgSent, cfgGot, stdinClosed, lis, broken, cancelled, grace, outPend, outClosed, nout, got, rpc, acc, ret, hist>>
\* accept fails for good: the serve goroutine ends and closes the listener
ServeFails == /\ srv \in {"spawned", "running"} /\ broken /\ srv' = "failed" /\ lis' = "closed"
              /\ UNCHANGED <<kind, bind, pc, cfgW, cfgPend, cfgSent, cfgGot, stdinClosed, broken, cancelled, grace, outPend, outClosed, nout, got, rpc, acc, ret, hist>>

Accept(i) == /\ rpc[i] = "dialing" /\ lis = "open" /\ srv = "running" /\ ~broken
             /\ rpc' = [rpc EXCEPT ![i] = "inflight"] /\ acc' = [acc EXCEPT ![i] = TRUE]
             /\ UNCHANGED <<kind, bind, pc, cfgW, cfgPend, cfgSent, cfgGot, stdinClosed, lis, srv, broken, cancelled, grace, outPend, outClosed, nout, got, ret, hist>>
\* no listener (not yet, not any more, or broken): the attempt fails
Refuse(i) == /\ rpc[i] = "dialing" /\ (lis # "open" \/ broken)
             /\ rpc' = [rpc EXCEPT ![i] = "refused"]
             /\ UNCHANGED <<kind, bind, pc, cfgW, cfgPend, cfgSent, cfgGot, stdinClosed, lis, srv, broken, cancelled, grace, outPend, outClosed, nout, got, acc, ret, hist>>
Complete(i) == /\ rpc[i] = "finishing" /\ rpc' = [rpc EXCEPT ![i] = "done"]
               /\ UNCHANGED <<kind, bind, pc, cfgW, cfgPend, cfgSent, cfgGot, stdinClosed, lis, srv, broken, cancelled, grace, outPend, outClosed, nout, got, acc, ret, hist>>
\* an RPC in flight is cut only by an abrupt shutdown or by the end of the process
MayCut == (kind = "abrupt" /\ pc \in {"drain", "done"} /\ cancelled) \/ ret # "none"
Cut(i) == /\ Active(i) /\ MayCut /\ rpc' = [rpc EXCEPT ![i] = "cut"]
          /\ UNCHANGED <<kind, bind, pc, cfgW, cfgPend, cfgSent, cfgGot, stdinClosed, lis, srv, broken, cancelled, grace, outPend, outClosed, nout, got, acc, ret, hist>>

Internal == Decode \/ DecodeEOF \/ Create \/ StartServe \/ SleepDone \/ Check \/ AnnounceTaken \/ AnnounceFails
            \/ NoticeFail \/ NoticeCancel \/ DrainDone \/ ServeRuns \/ ServeFails
            \/ \E i \in Rpcs : Accept(i) \/ Refuse(i) \/ Complete(i) \/ Cut(i)
Observable == (\E k \in CfgKinds : CfgCall(k)) \/ CfgRet \/ CloseStdin \/ Cancel \/ ReadCall
              \/ (\E r \in {"resp", "eof"} : ReadRet(r)) \/ CloseStdout \/ Break \/ Grace
              \/ \E i \in Rpcs : ConnCall(i) \/ (\E r \in {"ok", "fail", "stuck"} : ConnRet(i, r)) \/ Finish(i)
                                 \/ (\E r \in {"clean", "cut"} : RpcEnd(i, r))
Finished == ret # "none" /\ UNCHANGED vars
Next == Internal \/ Observable \/ Finished

\* fairness: the program's own steps and the passing of time; a runner that eventually provides the config
\* or closes stdin and reads the response or closes its end of stdout; a runner that eventually cancels
FairProgram == /\ WF_vars(Decode) /\ WF_vars(DecodeEOF) /\ WF_vars(Create) /\ WF_vars(StartServe) /\ WF_vars(SleepDone)
               /\ WF_vars(Check) /\ WF_vars(AnnounceTaken) /\ WF_vars(AnnounceFails) /\ WF_vars(NoticeCancel) /\ WF_vars(NoticeFail)
               /\ WF_vars(DrainDone) /\ WF_vars(ServeRuns) /\ WF_vars(ServeFails) /\ WF_vars(Grace)
FairStdin == WF_vars(CloseStdin) /\ WF_vars(CfgRet)
FairStdout == WF_vars(ReadCall \/ CloseStdout)
\* grpc-go waits for RPCs in flight without limit: it ends only if the client lets them finish
FairClient == \A i \in Rpcs : WF_vars(Finish(i)) /\ WF_vars(Complete(i)) /\ WF_vars(Accept(i)) /\ WF_vars(Refuse(i))
                              /\ WF_vars(ConnRet(i, "ok")) /\ WF_vars(ConnRet(i, "fail"))
Spec == Init /\ [][Next]_vars /\ FairProgram /\ FairStdin /\ FairStdout /\ WF_vars(Cancel)
SpecClient == Spec /\ FairClient
\* a runner that never cancels: Run still returns by itself when serving fails (BrokenLeadsToReturn)
SpecNoCancel == Init /\ [][Next]_vars /\ FairProgram /\ FairStdin /\ FairStdout
SpecNoCancelClient == SpecNoCancel /\ FairClient
\* a runner that walks away from stdout without closing it (the in-process runner after its 10 s
\* timeout): Terminates does not hold - the program stays in the announcement
SpecNoReader == Init /\ [][Next]_vars /\ FairProgram /\ FairStdin /\ WF_vars(Cancel)

(* ------------------------------ what the runner relies on ------------------------------ *)
TypeOK == /\ pc \in {"read", "readmore", "create", "start", "sleep", "check", "announce", "wait", "drain", "done"}
          /\ lis \in {"none", "open", "closed"} /\ srv \in {"idle", "spawned", "running", "failed", "stopped"}
          /\ ret \in {"none", "ok", "err"} /\ nout \in 0..1 /\ got \in {"none", "resp", "eof"}
          /\ \A i \in Rpcs : rpc[i] \in {"none", "dialing", "inflight", "finishing", "done", "cut", "refused", "gone"}
\* exactly one response, only for a config that was decoded and accepted, only once the listener exists
OneResponse == nout = 1 => (cfgGot = "good" /\ lis # "none" /\ bind # "taken")
NoResponseWithoutConfig == cfgGot \in {"none", "bad", "trunc", "unsup"} => nout = 0
\* a clean announcement is followed by a response unless something failed
SilentOnlyOnFailure == (ret # "none" /\ nout = 0) => (cfgGot # "good" \/ bind = "taken" \/ outClosed \/ broken)
\* when Run has returned nothing accepts connections and no serve goroutine is left
ReturnedMeansStopped == ret # "none" => (lis # "open" /\ srv \notin {"spawned", "running"})
\* connections are accepted only between bind and return / shutdown
AcceptOnlyWhileUp == [][\A i \in Rpcs : (rpc[i] = "dialing" /\ rpc'[i] = "inflight") => (ret = "none" /\ pc \notin {"drain", "done"})]_vars
\* graceful: a clean return means nothing was in flight; RPCs in flight outlive the return only after a
\* whole grace period, a serve failure, or where the shutdown kind cannot wait
GracefulReturn == (ret = "ok" /\ kind \in {"tracked", "unbounded"}) => ~AnyActive
DrainBounded == [][(pc = "drain" /\ pc' = "done" /\ AnyActive /\ kind = "tracked") => grace]_vars
NoCutWhileServing == [][\A i \in Rpcs : (Active(i) /\ rpc'[i] = "cut") => MayCut]_vars
\* the result tells what happened
ResultTruthful == (ret = "ok") => (nout = 1 /\ cancelled)
\* stdout is never touched after the response (structural: nout only ever goes 0 -> 1)
WriteOnce == [][nout' >= nout /\ (nout = 1 => nout' = 1)]_vars
\* Run returns on every path
Terminates == <>(ret # "none")
\* ... and by itself (no cancel needed) once serving has failed, unless it still waits for the runner to
\* take or refuse the announcement
BrokenLeadsToReturn == (broken /\ (outPend \/ outClosed \/ nout = 1)) ~> (ret # "none")
=============================================================================
