CONSTANTS
  Lits = {"a", "b"}
  MaxPat = 4
  MaxName = 4
  MaxSet = 1
  MaxVisit = 1
SPECIFICATION Spec
INVARIANTS TypeOK CaseAgrees CreditSound DoneAgrees FirstHitIsMatch NoStuck
PROPERTIES Termination CreditMonotone
