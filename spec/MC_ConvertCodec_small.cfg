CONSTANTS
  Codecs = {"proto", "json"}
  Top = "UREQ"
  Depth = 2
  MaxRep = 1
  ProtoKinds = {"varint", "group"}
  JsonKinds = {"scalar", "object"}
SPECIFICATION Spec
INVARIANTS TypeOK Agrees RoundTrip Rejects OwnFormat OneMore
PROPERTIES Terminates
