------------------------- MODULE Gen_CompressNames -------------------------
(* C20, naming dimension: the obligations of the cross-component name table, enumerated.
   "The same encoding name denotes the same algorithm in the runner, both reference peers, the
   wire tracer and the raw-payload encoders":

     produce  a component that is asked for encoding n (by enum number or by name) labels what
              it emits with n and emits the wire format n denotes (identified by stock decoders)
     consume  a component that is told "this is n" turns a stock-made stream of format f into the
              payload iff f is the format n denotes - the full name x format matrix, so a
              component in which "deflate" means raw RFC 1951 or "snappy" the block format fails
     check    referenceserver's checkCompression complains iff the encoding header is not the
              name of the expected enum number (absent header = identity) - full enum x name matrix
     pair     what producer P made for n is decoded by consumer Q told n, all wirable ordered pairs

   One initial state per obligation; the harness executes each on the real components.         *)
EXTENDS CompressDecl, Json, TLC

\* enum numbers a component accepts for a name (0 = UNSPECIFIED is identity for the two factories
\* and the raw encoder; the peers get the number from a test case, where 0 never occurs)
EnumsFor(c, n) == IF n = "identity" /\ c \in {"compression.GetCompressor", "compression.GetDecompressor",
                                             "internal.WriteRawMessageContents"}
                  THEN {0, 1} ELSE {EnumOf[n]}

\* what a producer can compress / a consumer expects: any bytes, a request message, a response message
Carries(c) == CASE c \in {"compression.GetCompressor", "internal.WriteRawMessageContents",
                          "compression.GetDecompressor", "tracer.GetDecompressor"} -> "any"
                [] c \in {"referenceclient.request", "referenceserver.request"} -> "request"
                [] c \in {"referenceserver.response", "referenceclient.response"} -> "response"
Wirable(p, q) == Carries(p) = "any" \/ Carries(q) = "any" \/ Carries(p) = Carries(q)

O(kind, comp, comp2, n, e, f, hdr, expect) ==
  [kind |-> kind, comp |-> comp, comp2 |-> comp2, n |-> n, e |-> e, f |-> f, hdr |-> hdr, expect |-> expect]

Obligations ==
  {O("produce", c, None, n, e, FormatOf[n], n, TRUE) : c \in Producers, n \in Encodings, e \in 0..6}
  \cup {O("consume", c, None, n, e, f, None, f = FormatOf[n]) : c \in Consumers, n \in Encodings, e \in 0..6, f \in Formats}
  \cup {O("check", "referenceserver.checkCompression", None, NameOfEnum(e), e, None, h,
          (IF h = None THEN "identity" ELSE h) # NameOfEnum(e)) : e \in 1..6, h \in Encodings \cup {None}}
  \cup {O("pair", p, q, n, EnumOf[n], FormatOf[n], n, TRUE) : p \in Producers, q \in Consumers, n \in Encodings}

Wanted(o) ==
  CASE o.kind \in {"produce", "consume"} -> o.e \in EnumsFor(o.comp, o.n)
    [] o.kind = "check" -> TRUE
    [] o.kind = "pair"  -> Wirable(o.comp, o.comp2)

VARIABLE o
Init == o \in {x \in Obligations : Wanted(x)}
Next == UNCHANGED o

\* the laws of CompressDecl part 5 are what `expect` was computed from (checked, not assumed)
LawsAgree ==
  /\ o.kind = "produce" => ProduceLaw(o.n, o.hdr, o.f)
  /\ o.kind = "consume" => ConsumeLaw(o.n, o.f, o.expect)
  /\ o.kind = "check"   => CheckLaw(o.e, o.hdr, o.expect)
  /\ o.kind \in {"produce", "consume"} => NameOfEnum(o.e) = o.n
\* no two names share a number or a format (the table is a bijection)
TableInjective == \A a, b \in Encodings : a # b => (EnumOf[a] # EnumOf[b] /\ FormatOf[a] # FormatOf[b])

Emit == PrintT("SCN " \o ToJson(o))
=============================================================================
