---------------------------- MODULE RawHTTPDecl ----------------------------
(* C17 - declarative meaning of a raw HTTP test payload (RawHTTPResponse / RawHTTPRequest of
   service.proto): what must be on the wire for a given definition.  Constant level only; shared
   by the arbitration machine (RawHTTP), the encoder machine (RawHTTPEnc), the generators
   (Gen_RawHTTP, Gen_RawHTTPDefs) and the acceptor of recorded executions (Trace_RawHTTP).

   Byte-level facts are not decided here (DESIGN section 6): C(z,p) - "payload p compressed with
   algorithm z" - is an uninterpreted token [k |-> "data", z, p]; the Go side reports which
   stock decoder inverts an observed byte range to which payload.  Lengths are decimal strings
   (uint32 does not fit a TLC integer). *)
EXTENDS Naturals, Sequences, FiniteSets

(* ------------------------------ message contents ------------------------------
   m = [p |-> payload id, z |-> 0..6]   z: Compression enum (0 unspecified, 1 identity, 2 gzip,
   3 br, 4 zstd, 5 deflate, 6 snappy).  p = "absent": no MessageContents at all (an unset message
   field reads as the empty message); p = "nil": contents without data ("empty, so nothing to
   write" - not even an empty compressed stream); other ids name byte strings; ids in ZeroLen
   name the empty byte string (identity-encoded it contributes no byte). *)
ZNorm(z)   == IF z \in {0, 1} THEN 1 ELSE z
ZeroLen    == {"empty"}
HasBytes(m) == /\ m.p \notin {"absent", "nil"}
               /\ ~(ZNorm(m.z) = 1 /\ m.p \in ZeroLen)
DataSeg(m) == [k |-> "data", z |-> ZNorm(m.z), p |-> m.p]
EncMsg(m)  == IF HasBytes(m) THEN <<DataSeg(m)>> ELSE <<>>

(* ------------------------------ stream contents ------------------------------
   it = [flags |-> 0..255, hasLen |-> BOOLEAN, len |-> decimal string ("" if absent), m |-> contents]
   An item is a five-byte prefix (flags, big-endian length) followed by the encoded payload; the
   length is the given one, or - if absent - the actual length of the encoded (compressed) payload. *)
PfxSeg(it)  == [k |-> "pfx", flags |-> it.flags, auto |-> ~it.hasLen, len |-> it.len]
EncItem(it) == <<PfxSeg(it)>> \o EncMsg(it.m)
RECURSIVE EncItems(_)
EncItems(s) == IF s = <<>> THEN <<>> ELSE EncItem(Head(s)) \o EncItems(Tail(s))

\* body = [k |-> "none"] | [k |-> "unary", m |-> contents] | [k |-> "stream", items |-> Seq(item)]
EncBody(b) == CASE b.k = "none"   -> <<>>
                [] b.k = "unary"  -> EncMsg(b.m)
                [] b.k = "stream" -> EncItems(b.items)

(* observed segments (reported by the independent envelope reader + stock decoders on the Go side)
     [k |-> "pfx", flags, len (decimal string read from the prefix), dlen (decimal string: number of
                                      bytes that follow the prefix up to the next prefix / the end)]
     [k |-> "data", z (format whose stock decoder inverts the bytes), p (payload id it yields)]
     [k |-> "junk", ...]  anything else                                                        *)
SegOK(e, o) ==
  \/ /\ e.k = "pfx" /\ o.k = "pfx"
     /\ o.flags = e.flags
     /\ IF e.auto THEN o.len = o.dlen ELSE o.len = e.len
  \/ /\ e.k = "data" /\ o.k = "data"
     /\ o.z = e.z /\ o.p = e.p
(* AsImplemented_EmptyCompressed: whether C(z, empty payload) has any byte at all is a fact about
   the compressor (property C20): the zstd writer emits nothing for no input while gzip emits a header
   and a trailer.  What this property requires of it is invertibility: zero bytes may stand for an empty
   payload compressed with z exactly when the stock decoder of z turns zero bytes into the empty payload.
   The Go side reports every zero-byte range as [k |-> "zero", zs |-> formats for which that holds]; such
   a token matches an expected empty data segment of one of those formats, or nothing at all. *)
ZsOf(o) == {o.zs[i] : i \in 1..Len(o.zs)}
RECURSIVE SegsOK(_, _)
SegsOK(e, o) ==
  IF o = <<>> THEN e = <<>>
  ELSE IF Head(o).k = "zero"
    THEN \/ SegsOK(e, Tail(o))
         \/ /\ e # <<>> /\ Head(e).k = "data" /\ Head(e).p \in ZeroLen /\ Head(e).z \in ZsOf(Head(o))
            /\ SegsOK(Tail(e), Tail(o))
    ELSE e # <<>> /\ SegOK(Head(e), Head(o)) /\ SegsOK(Tail(e), Tail(o))
BodyOK(exp, obs) == SegsOK(exp, obs)

(* ------------------------------ header lists ------------------------------
   e = [name |-> spelling, cname |-> canonical name, value |-> Seq(String)].  A list is folded
   with Add: per canonical name the values of all entries, in list order. *)
RECURSIVE ValuesOf(_, _)
ValuesOf(list, n) == IF list = <<>> THEN <<>>
                     ELSE (IF Head(list).cname = n THEN Head(list).value ELSE <<>>) \o ValuesOf(Tail(list), n)
Mentioned(list) == {list[i].cname : i \in 1..Len(list)}
Present(list)   == {n \in Mentioned(list) : ValuesOf(list, n) # <<>>}
SameMap(a, b)   == /\ Present(a) = Present(b)
                   /\ \A n \in Present(a) : ValuesOf(a, n) = ValuesOf(b, n)

(* ------------------------------ raw response ------------------------------
   def = [status, hdrs, trls : header lists, body];  snap = header list that was on the response
   writer before the handler ran (earlier middleware, e.g. CORS' Vary) *)
StatusOf(def) == IF def.status = 0 THEN 200 ELSE def.status
WireResp(def, snap) == [status |-> StatusOf(def),
                        hdrs   |-> snap \o def.hdrs,
                        body   |-> EncBody(def.body),
                        trls   |-> def.trls]

(* AsImplemented_StackHeaders: the statement forbids what the *handler* would have produced; it is
   silent about fields the HTTP stack derives from the raw payload itself.  Those are admitted when
   they are not given by the definition and say the truth about it: Content-Length = number of body
   bytes, Content-Type = the stack's sniffing of the body bytes, Date, the announcement of the given
   trailer names. obs.blen / obs.sniff are computed by the observer from the body bytes it received. *)
AsImplemented_StackHeaders(n, w, obs) ==
  \/ n = "Content-Length" /\ ValuesOf(obs.hdrs, n) = <<obs.blen>>
  \/ n = "Content-Type" /\ ValuesOf(obs.hdrs, n) = <<obs.sniff>> /\ obs.blen # "0"
  \/ n = "Date"
  \/ n = "Trailer" /\ \A i \in 1..Len(ValuesOf(obs.hdrs, n)) :          \* announcement of the given trailers
                         ValuesOf(obs.hdrs, n)[i] \in {w.trls[j].name : j \in 1..Len(w.trls)}

RespHdrsOK(w, obs) ==
  /\ \A n \in Present(w.hdrs) : ValuesOf(obs.hdrs, n) = ValuesOf(w.hdrs, n)
  /\ \A n \in Present(obs.hdrs) \ Present(w.hdrs) : AsImplemented_StackHeaders(n, w, obs)

AcceptResp(def, snap, obs) ==
  LET w == WireResp(def, snap) IN
  /\ obs.status = w.status
  /\ RespHdrsOK(w, obs)
  /\ BodyOK(w.body, obs.body)
  /\ SameMap(obs.trls, w.trls)

\* which clause fails (for reports only)
WhyResp(def, snap, obs) ==
  LET w == WireResp(def, snap) IN
  IF obs.status # w.status THEN "status"
  ELSE IF ~RespHdrsOK(w, obs) THEN "headers"
  ELSE IF ~BodyOK(w.body, obs.body) THEN "body"
  ELSE IF ~SameMap(obs.trls, w.trls) THEN "trailers" ELSE "ok"

(* ------------------------------ raw request ------------------------------
   def = [verb, path, inlineq, rawq : header-list shaped (name = cname, case-sensitive),
          encq : Seq([cname, m, b64]), hdrs, body]
   Query parameters are compared per name: values already in the URI, then the raw ones, then the
   encoded ones, each in the given order (AsImplemented_QueryOrder: the statement does not order
   parameters of different names; url.Values.Encode sorts by name).  A value token is
     [t |-> "lit", s |-> string]   or   [t |-> "enc", key |-> "<z>/<p>/<b64>"]
   (an empty value reads as an empty payload under the formats of AsImplemented_EmptyCompressed; the Go side
   lists those readings) *)
ZStr(z) == CASE z = 1 -> "1" [] z = 2 -> "2" [] z = 3 -> "3" [] z = 4 -> "4" [] z = 5 -> "5" [] z = 6 -> "6"
EncKey(m, b64) == ZStr(ZNorm(m.z)) \o "/" \o m.p \o "/" \o (IF b64 THEN "1" ELSE "0")
EncQTok(e) == IF HasBytes(e.m) THEN [t |-> "enc", key |-> EncKey(e.m, e.b64)]
              ELSE [t |-> "lit", s |-> ""]
Lit(s) == [t |-> "lit", s |-> s]

RECURSIVE LitVals(_)
LitVals(vs) == IF vs = <<>> THEN <<>> ELSE <<Lit(Head(vs))>> \o LitVals(Tail(vs))
RECURSIVE QLits(_, _)
QLits(list, n) == IF list = <<>> THEN <<>>
                  ELSE (IF Head(list).cname = n THEN LitVals(Head(list).value) ELSE <<>>) \o QLits(Tail(list), n)
RECURSIVE QEncs(_, _)
QEncs(list, n) == IF list = <<>> THEN <<>>
                  ELSE (IF Head(list).cname = n THEN <<EncQTok(Head(list))>> ELSE <<>>) \o QEncs(Tail(list), n)
QueryOf(def, n) == QLits(def.inlineq, n) \o QLits(def.rawq, n) \o QEncs(def.encq, n)
QueryNames(def) == {n \in Mentioned(def.inlineq) \cup Mentioned(def.rawq) \cup Mentioned(def.encq) :
                       QueryOf(def, n) # <<>>}

MethodOf(def) == IF def.verb = "" THEN "GET" ELSE def.verb

\* an observed query value: [s |-> the string (as decoded by the server), enc |-> set of "<z>/<p>/<b64>"
\* readings under which stock base64url / stock decoders turn it into a payload of the definition]
QValOK(e, o) == \/ e.t = "lit" /\ o.s = e.s
                \/ e.t = "enc" /\ e.key \in {o.enc[i] : i \in 1..Len(o.enc)}
QValsOK(es, os) == Len(es) = Len(os) /\ \A i \in 1..Len(es) : QValOK(es[i], os[i])

\* observed query: Seq([cname, vals]) with one entry per name
RECURSIVE ObsQ(_, _)
ObsQ(q, n) == IF q = <<>> THEN <<>> ELSE IF Head(q).cname = n THEN Head(q).vals ELSE ObsQ(Tail(q), n)
ObsQNames(q) == {q[i].cname : i \in 1..Len(q)}

(* AsImplemented_StackReqHeaders: fields the HTTP client stack adds about the raw payload itself *)
AsImplemented_StackReqHeaders(n, obs) ==
  \/ n = "Content-Length" /\ ValuesOf(obs.hdrs, n) = <<obs.blen>>
  \/ n = "User-Agent" /\ obs.uaStack

ReqHdrsOK(def, obs) ==
  /\ \A n \in Present(def.hdrs) : ValuesOf(obs.hdrs, n) = ValuesOf(def.hdrs, n)
  /\ \A n \in Present(obs.hdrs) \ Present(def.hdrs) : AsImplemented_StackReqHeaders(n, obs)
ReqQueryOK(def, obs) ==
  /\ ObsQNames(obs.query) = QueryNames(def)
  /\ \A n \in QueryNames(def) : QValsOK(QueryOf(def, n), ObsQ(obs.query, n))

\* A uri that carries its query inline, with no further parameters to merge in, is sent as it is written
\* (the given query parameters, in the given order and spelling).
RECURSIVE JoinWith(_, _)
JoinWith(parts, sep) == IF parts = <<>> THEN "" ELSE IF Len(parts) = 1 THEN parts[1] ELSE parts[1] \o sep \o JoinWith(Tail(parts), sep)
RECURSIVE PairStrs(_)
PairStrs(list) == IF list = <<>> THEN <<>>
                  ELSE [i \in 1..Len(Head(list).value) |-> Head(list).cname \o "=" \o Head(list).value[i]] \o PairStrs(Tail(list))
InlineVerbatim(def, obs) ==
  (def.inlineq # <<>> /\ def.rawq = <<>> /\ def.encq = <<>>) => obs.rawquery = JoinWith(PairStrs(def.inlineq), "&")

AcceptReq(def, obs) ==
  /\ obs.method = MethodOf(def)
  /\ obs.path = def.path
  /\ ReqQueryOK(def, obs)
  /\ InlineVerbatim(def, obs)
  /\ ReqHdrsOK(def, obs)
  /\ BodyOK(EncBody(def.body), obs.body)

WhyReq(def, obs) ==
  IF obs.method # MethodOf(def) THEN "method"
  ELSE IF obs.path # def.path THEN "path"
  ELSE IF ~ReqQueryOK(def, obs) THEN "query"
  ELSE IF ~InlineVerbatim(def, obs) THEN "inline-query"
  ELSE IF ~ReqHdrsOK(def, obs) THEN "headers"
  ELSE IF ~BodyOK(EncBody(def.body), obs.body) THEN "body" ELSE "ok"

(* ------------------------------ invertibility ------------------------------
   The law "decoding what the encoders wrote returns the items that were specified" on abstract
   bytes: sz[<<z, p>>] is the number of bytes of C(z, p) (any function); the byte string of a stream is
   the concatenation of   <<F flags>> <<L len>> D(z,p,1) .. D(z,p,sz)   per item; the envelope reader
   takes the declared number of bytes after each prefix.  With explicit lengths that differ from the
   actual size the reading is still defined (on the concatenation) but no longer returns the items. *)
DataBytes(m, sz) ==
  IF HasBytes(m) THEN [i \in 1..sz[<<ZNorm(m.z), m.p>>] |-> [b |-> "D", z |-> ZNorm(m.z), p |-> m.p, i |-> i]] ELSE <<>>
ItemBytes(it, sz) ==
  LET d == DataBytes(it.m, sz) IN
  <<[b |-> "F", v |-> it.flags], [b |-> "L", v |-> IF it.hasLen THEN it.nlen ELSE Len(d)]>> \o d
RECURSIVE StreamBytes(_, _)
StreamBytes(s, sz) == IF s = <<>> THEN <<>> ELSE ItemBytes(Head(s), sz) \o StreamBytes(Tail(s), sz)

RECURSIVE Envelopes(_)
Envelopes(bs) ==
  IF bs = <<>> THEN <<>>
  ELSE IF Len(bs) < 2 \/ bs[1].b # "F" \/ bs[2].b # "L" THEN <<[k |-> "garbage"]>>
  ELSE LET n == bs[2].v IN
       IF Len(bs) - 2 < n THEN <<[k |-> "short", flags |-> bs[1].v]>>
       ELSE <<[k |-> "env", flags |-> bs[1].v, payload |-> SubSeq(bs, 3, 2 + n)]>>
            \o Envelopes(SubSeq(bs, 3 + n, Len(bs)))

Specified(items, sz) ==
  [i \in 1..Len(items) |-> [k |-> "env", flags |-> items[i].flags, payload |-> DataBytes(items[i].m, sz)]]
Aligned(items, sz) ==
  \A i \in 1..Len(items) : items[i].hasLen => items[i].nlen = Len(DataBytes(items[i].m, sz))
Invertible(items, sz) == Envelopes(StreamBytes(items, sz)) = Specified(items, sz)
=============================================================================
