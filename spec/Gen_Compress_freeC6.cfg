CONSTANTS
  Variant = "fixed"
  EncSet = {"gzip"}
  Sides = {"C"}
  Grammars = {"free"}
  Discipline = "first"
  MaxOps = 6
  MaxRd = 8
  MaxW = 8
  KeepHist = TRUE
INIT Init
NEXT Next
INVARIANTS Emit
VIEW ViewHist
