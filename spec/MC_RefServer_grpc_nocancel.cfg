CONSTANTS
  NR = 1
  Kinds = {"unbounded"}
  Binds = {"fixed"}
  CfgKinds = {"good", "bad", "unsup", "trunc"}
  AnnounceFirst = TRUE
  KeepHist = FALSE
SPECIFICATION SpecNoCancelClient
INVARIANTS TypeOK ReturnedMeansStopped
PROPERTIES BrokenLeadsToReturn
