------------------------------ MODULE Sideband ------------------------------
(* Feedback side channel reference server -> runner (growth item G3, attached to C11).

   Writers  : handlers of concurrent RPCs call feedbackPrinter.Printf -> Printer.PrefixPrintf(testName, ...)
              (internal/printer.go, safePrinter): Lock; Write(prefix ": "); Write(message); if the last byte
              written is not a newline Write("\n"); Unlock.  One action per Write call.
   Pipe     : the server's stderr as the runner sees it: a byte FIFO, delivered in arbitrary chunks; closed when the
              process has ended (after a graceful stop: no message in progress; Crash: anywhere).
   Reader   : the goroutine of runTestCasesForServer: ReadString('\n') (one action per return, the last one possibly
              a partial line together with the end of stream), TrimSpace, SplitN(": ", 2), known test name ->
              recordSideband, anything else that is not blank -> errPrinter.PrefixPrintf("referenceserver", "%s", line).
   Runner   : Abort (all callbacks have come, or an early exit) -> the process ends -> on the normal path wait for the
              reader (refServerFinished) -> final (failRemaining, return).  The early exits of the function
              (handshake failure, server died) return without waiting for the reader: Paths = {"early"}.

   Bytes are tokens: "NL" newline, "SP" blank, "CR" carriage return, "CO" colon; every other token is an opaque
   run of non-blank bytes without ':' (the harness maps it to bytes; "LONG" is longer than the reader's buffer). *)
EXTENDS Naturals, Sequences, FiniteSets, TLC

CONSTANTS W,          \* number of concurrent writers
          M,          \* messages per writer (at most)
          MsgSet,     \* messages [name |-> tokens, text |-> tokens] a writer may print
          Known,      \* names of the test cases of the batch
          AllowCrash, \* the process may die at any moment
          Paths,      \* subset of {"normal", "early"}
          KeepHist

Writers == 1..W

(* ------------------------------ declarative part ------------------------------ *)
IsBlank(t) == t \in {"SP", "NL", "CR"}
RECURSIVE TrimL(_), TrimR(_), Lines(_), Flat(_)
TrimL(s) == IF s # <<>> /\ IsBlank(Head(s)) THEN TrimL(Tail(s)) ELSE s
TrimR(s) == IF s # <<>> /\ IsBlank(s[Len(s)]) THEN TrimR(SubSeq(s, 1, Len(s) - 1)) ELSE s
Trim(s) == TrimL(TrimR(s))
Min(S) == CHOOSE i \in S : \A j \in S : i <= j
\* position of the first ": " (0: none)
SepAt(s) == LET I == {i \in 1..(Len(s) - 1) : s[i] = "CO" /\ s[i + 1] = "SP"} IN IF I = {} THEN 0 ELSE Min(I)
NLs(s) == {i \in 1..Len(s) : s[i] = "NL"}
\* the lines of a byte stream: each ends with its newline, except possibly the last
Lines(s) == IF s = <<>> THEN <<>>
            ELSE IF NLs(s) = {} THEN <<s>>
            ELSE <<SubSeq(s, 1, Min(NLs(s)))>> \o Lines(SubSeq(s, Min(NLs(s)) + 1, Len(s)))
Flat(ss) == IF ss = <<>> THEN <<>> ELSE Head(ss) \o Flat(Tail(ss))
IsPrefix(a, b) == Len(a) <= Len(b) /\ a = SubSeq(b, 1, Len(a))

\* what one line of the server's stderr means to the runner
ClassifyLine(line) ==
  LET t == Trim(line)
      i == SepAt(t)
  IN IF t = <<>> THEN [k |-> "drop"]
     ELSE IF i > 0 /\ SubSeq(t, 1, i - 1) \in Known
          THEN [k |-> "rec", name |-> SubSeq(t, 1, i - 1), text |-> SubSeq(t, i + 2, Len(t))]
          ELSE [k |-> "fwd", line |-> line]          \* passed on untouched (not trimmed, with its newline)
Classified(stream) == SelectSeq([j \in 1..Len(Lines(stream)) |-> ClassifyLine(Lines(stream)[j])], LAMBDA c : c.k # "drop")

\* what the printer puts on the wire for one message
EndsNL(s) == s # <<>> /\ s[Len(s)] = "NL"
Render(m) == m.name \o <<"CO", "SP">> \o m.text \o (IF EndsNL(m.text) THEN <<>> ELSE <<"NL">>)

(* message level: what becomes of one printed message *)
SingleLine(m) == \A i \in 1..(Len(m.text) - 1) : m.text[i] # "NL"
\* "intact": the text as printed minus trailing white space (TrimSpace works on the whole line, so leading blanks
\* of the text survive, trailing blanks / CR / the newline do not)
Intact(text) == TrimR(text)
\* as implemented: feedback whose text is empty or blank is not recorded; the line "name: " is passed on instead
AsImplemented_BlankFeedbackForwarded(m) == <<[k |-> "fwd", line |-> Render(m)]>>
\* as implemented: a known test name that itself contains ": " can never receive feedback (the line is split at the
\* first separator)
AsImplemented_NameWithSeparator(m) == <<[k |-> "fwd", line |-> Render(m)]>>
\* as implemented: a message with embedded newlines is not one unit for the reader - every line is classified on its
\* own: the first is recorded for the test, continuation lines are forwarded - or recorded for whatever known test
\* name they happen to start with
AsImplemented_MultiLine(m) == Classified(Render(m))
Contribution(m) ==
  IF ~SingleLine(m) THEN AsImplemented_MultiLine(m)
  ELSE IF m.name \notin Known THEN <<[k |-> "fwd", line |-> Render(m)]>>
  ELSE IF SepAt(m.name) # 0 THEN AsImplemented_NameWithSeparator(m)
  ELSE IF Intact(m.text) = <<>> THEN AsImplemented_BlankFeedbackForwarded(m)
  ELSE <<[k |-> "rec", name |-> m.name, text |-> Intact(m.text)]>>
\* what the runner has to attribute to a test case: every recorded text, in order
FeedbackOf(evs, name) == SelectSeq(evs, LAMBDA c : c.k = "rec" /\ c.name = name)

(* ------------------------------ machine ------------------------------ *)
VARIABLES pc, cur, sent, mu, last, order,       \* printer
          wire, written, closed, crashed,       \* pipe
          rdr, rbuf, line, err, events,         \* reader
          main, path,                           \* runner
          chunks
vars == <<pc, cur, sent, mu, last, order, wire, written, closed, crashed, rdr, rbuf, line, err, events, main, path, chunks>>
pvars == <<pc, cur, sent, mu, last, order>>
rvars == <<rdr, rbuf, line, err, events>>
mvars == <<main, path>>

NoMsg == [name |-> <<>>, text |-> <<>>]
Init == /\ pc = [w \in Writers |-> "idle"] /\ cur = [w \in Writers |-> NoMsg] /\ sent = [w \in Writers |-> <<>>]
        /\ mu = 0 /\ last = "none" /\ order = <<>>
        /\ wire = <<>> /\ written = <<>> /\ closed = FALSE /\ crashed = FALSE
        /\ rdr = "read" /\ rbuf = <<>> /\ line = <<>> /\ err = FALSE /\ events = <<>>
        /\ main = "run" /\ path = "none" /\ chunks = <<>>

\* one Write call on the server's stderr (fails without effect once the pipe is closed)
Put(s) == IF closed THEN UNCHANGED <<wire, written, last>>
          ELSE /\ wire' = wire \o s /\ written' = written \o s
               /\ last' = IF s = <<>> THEN last ELSE s[Len(s)]

Begin(w, m) == /\ pc[w] = "idle" /\ Len(sent[w]) < M /\ main = "run" /\ ~closed
               /\ cur' = [cur EXCEPT ![w] = m] /\ sent' = [sent EXCEPT ![w] = Append(@, m)]
               /\ pc' = [pc EXCEPT ![w] = "lock"]
               /\ UNCHANGED <<mu, last, order, wire, written, closed, crashed, chunks>> /\ UNCHANGED rvars /\ UNCHANGED mvars
Lock(w) == /\ pc[w] = "lock" /\ mu = 0
           /\ mu' = w /\ pc' = [pc EXCEPT ![w] = "pfx"] /\ order' = Append(order, cur[w])
           /\ UNCHANGED <<cur, sent, last, wire, written, closed, crashed, chunks>> /\ UNCHANGED rvars /\ UNCHANGED mvars
WritePfx(w) == /\ pc[w] = "pfx" /\ Put(cur[w].name \o <<"CO", "SP">>)
               /\ pc' = [pc EXCEPT ![w] = "msg"]
               /\ UNCHANGED <<cur, sent, mu, order, closed, crashed, chunks>> /\ UNCHANGED rvars /\ UNCHANGED mvars
WriteMsg(w) == /\ pc[w] = "msg" /\ Put(cur[w].text)
               /\ pc' = [pc EXCEPT ![w] = IF last' = "NL" THEN "unlock" ELSE "nl"]
               /\ UNCHANGED <<cur, sent, mu, order, closed, crashed, chunks>> /\ UNCHANGED rvars /\ UNCHANGED mvars
WriteNL(w) == /\ pc[w] = "nl" /\ Put(<<"NL">>)
              /\ pc' = [pc EXCEPT ![w] = "unlock"]
              /\ UNCHANGED <<cur, sent, mu, order, closed, crashed, chunks>> /\ UNCHANGED rvars /\ UNCHANGED mvars
Unlock(w) == /\ pc[w] = "unlock" /\ mu = w
             /\ mu' = 0 /\ pc' = [pc EXCEPT ![w] = "idle"]
             /\ UNCHANGED <<cur, sent, last, order, wire, written, closed, crashed, chunks>> /\ UNCHANGED rvars /\ UNCHANGED mvars
Printer(w) == Lock(w) \/ WritePfx(w) \/ WriteMsg(w) \/ WriteNL(w) \/ Unlock(w)

\* the process ends: after a graceful stop no message is in progress
CloseGraceful == /\ ~closed /\ main = "aborted" /\ \A w \in Writers : pc[w] = "idle"
                 /\ closed' = TRUE /\ UNCHANGED crashed
                 /\ UNCHANGED <<wire, written, chunks>> /\ UNCHANGED pvars /\ UNCHANGED rvars /\ UNCHANGED mvars
Crash == /\ AllowCrash /\ ~closed
         /\ closed' = TRUE /\ crashed' = TRUE
         /\ UNCHANGED <<wire, written, chunks>> /\ UNCHANGED pvars /\ UNCHANGED rvars /\ UNCHANGED mvars

\* the reader's ReadString takes a chunk from the pipe (only while it has no complete line)
Deliver(k) == /\ rdr = "read" /\ NLs(rbuf) = {} /\ k \in 1..Len(wire)
              /\ rbuf' = rbuf \o SubSeq(wire, 1, k) /\ wire' = SubSeq(wire, k + 1, Len(wire))
              /\ chunks' = IF KeepHist THEN Append(chunks, k) ELSE chunks
              /\ UNCHANGED <<written, closed, crashed, rdr, line, err, events>> /\ UNCHANGED pvars /\ UNCHANGED mvars
ReadLine == /\ rdr = "read" /\ NLs(rbuf) # {}
            /\ line' = SubSeq(rbuf, 1, Min(NLs(rbuf))) /\ rbuf' = SubSeq(rbuf, Min(NLs(rbuf)) + 1, Len(rbuf))
            /\ err' = FALSE /\ rdr' = "handle"
            /\ UNCHANGED <<wire, written, closed, crashed, events, chunks>> /\ UNCHANGED pvars /\ UNCHANGED mvars
\* end of stream: ReadString returns what is left (possibly nothing) together with the error
ReadEOF == /\ rdr = "read" /\ NLs(rbuf) = {} /\ closed /\ wire = <<>>
           /\ line' = rbuf /\ rbuf' = <<>> /\ err' = TRUE /\ rdr' = "handle"
           /\ UNCHANGED <<wire, written, closed, crashed, events, chunks>> /\ UNCHANGED pvars /\ UNCHANGED mvars
After == rdr' = IF err THEN "done" ELSE "read"
Record == /\ rdr = "handle" /\ ClassifyLine(line).k = "rec" /\ events' = Append(events, ClassifyLine(line)) /\ After
          /\ UNCHANGED <<wire, written, closed, crashed, rbuf, line, err, chunks>> /\ UNCHANGED pvars /\ UNCHANGED mvars
Forward == /\ rdr = "handle" /\ ClassifyLine(line).k = "fwd" /\ events' = Append(events, ClassifyLine(line)) /\ After
           /\ UNCHANGED <<wire, written, closed, crashed, rbuf, line, err, chunks>> /\ UNCHANGED pvars /\ UNCHANGED mvars
Drop == /\ rdr = "handle" /\ ClassifyLine(line).k = "drop" /\ After
        /\ UNCHANGED <<wire, written, closed, crashed, rbuf, line, err, events, chunks>> /\ UNCHANGED pvars /\ UNCHANGED mvars
Reader == (\E k \in 1..Len(wire) : Deliver(k)) \/ ReadLine \/ ReadEOF \/ Record \/ Forward \/ Drop

\* the runner
Abort(p) == /\ main = "run" /\ p \in Paths /\ main' = "aborted" /\ path' = p
            /\ UNCHANGED <<wire, written, closed, crashed, chunks>> /\ UNCHANGED pvars /\ UNCHANGED rvars
ProcEnd == /\ main = "aborted" /\ closed /\ main' = "procended" /\ UNCHANGED path
           /\ UNCHANGED <<wire, written, closed, crashed, chunks>> /\ UNCHANGED pvars /\ UNCHANGED rvars
WaitReader == /\ main = "procended" /\ path = "normal" /\ rdr = "done" /\ main' = "final" /\ UNCHANGED path
              /\ UNCHANGED <<wire, written, closed, crashed, chunks>> /\ UNCHANGED pvars /\ UNCHANGED rvars
AsImplemented_EarlyReturn == /\ main = "procended" /\ path = "early" /\ main' = "final" /\ UNCHANGED path
                             /\ UNCHANGED <<wire, written, closed, crashed, chunks>> /\ UNCHANGED pvars /\ UNCHANGED rvars
Runner == (\E p \in Paths : Abort(p)) \/ ProcEnd \/ WaitReader \/ AsImplemented_EarlyReturn

Finished == main = "final" /\ rdr = "done" /\ UNCHANGED vars
Steps == (\E w \in Writers : (\E m \in MsgSet : Begin(w, m)) \/ Printer(w)) \/ CloseGraceful \/ Crash \/ Reader \/ Runner
Next == Steps \/ Finished

Fair == /\ \A w \in Writers : WF_vars(Printer(w))
        /\ WF_vars(CloseGraceful) /\ WF_vars(Reader) /\ WF_vars(Runner)
Spec == Init /\ [][Next]_vars /\ Fair

(* ------------------------------ properties ------------------------------ *)
InCS(w) == pc[w] \in {"pfx", "msg", "nl", "unlock"}
Mutex == Cardinality({w \in Writers : InCS(w)}) <= 1 /\ (mu # 0 <=> \E w \in Writers : InCS(w)) /\ (mu # 0 => InCS(mu))
Renders(ms) == Flat([j \in 1..Len(ms) |-> Render(ms[j])])
Complete == IF mu = 0 THEN order ELSE SubSeq(order, 1, Len(order) - 1)
\* lines of different messages never interleave: the stream is the renderings of whole messages in the order of the
\* lock, the last one possibly in progress (or cut off by the death of the process)
NoInterleave == /\ IsPrefix(written, Renders(order))
                /\ ~closed => IsPrefix(Renders(Complete), written)
\* the reader machine computes the declarative meaning of the stream, line by line
ReaderCorrect == /\ IsPrefix(events, Classified(written))
                 /\ rdr = "done" => events = Classified(written)
\* ... and, message by message, what the statement says about messages
MessageLevel == (rdr = "done" /\ ~crashed) => events = Flat([j \in 1..Len(order) |-> Contribution(order[j])])
\* never recorded for a name that is not of this batch; forwarded lines are lines of the stream, untouched
OnlyKnownRecorded == \A j \in 1..Len(events) : events[j].k = "rec" => events[j].name \in Known /\ events[j].text # <<>>
\* everything written has been processed when the batch's outcomes become final (normal path)
ProcessedBeforeFinal == (main = "final" /\ path = "normal") => (rdr = "done" /\ wire = <<>> /\ rbuf = <<>>)
\* the same claim for every path: does NOT hold for the early exits (MC_Sideband_early.cfg shows the counter-example)
FinalMeansProcessed == main = "final" => events = Classified(written)
ReaderFinishes == closed ~> (rdr = "done")
Terminates == <>(main = "final" /\ rdr = "done")
=============================================================================
