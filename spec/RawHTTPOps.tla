----------------------------- MODULE RawHTTPOps -----------------------------
(* C17 - constant-level part of the arbitration model: the vocabulary of the handler / raw
   operations, the abstract http.ResponseWriter, and the DECLARATIVE meaning of an operation
   history (Expected).  Shared by the machine (RawHTTP), its generator (Gen_RawHTTP) and the
   acceptor of recorded executions (Trace_RawHTTP). *)
EXTENDS RawHTTPDecl

CONSTANTS Proto,              \* "h1" | "h2": how the underlying writer derives trailers at the end
          Alphabet            \* "full" | "small": which handler header operations are explored

(* ------------------------------ vocabulary ------------------------------ *)
Names == {"Vary", "X-Handler", "Content-Type", "X-Both", "X-Raw", "X-Trl", "X-Htrl", "Grpc-Status"}
H(n, vs) == [name |-> n, cname |-> n, value |-> vs]
Snap == <<H("Vary", <<"Origin">>)>>                  \* set by earlier middleware: must survive
NoRaw == "none"

It(f, hl, l, p, z) == [flags |-> f, hasLen |-> hl, len |-> l, m |-> [p |-> p, z |-> z]]
RawDef(id) ==
  CASE id = "D1" -> [status |-> 0,
                     hdrs |-> <<H("X-Raw", <<"r1", "r2">>), H("X-Both", <<"rb">>),
                                H("Content-Type", <<"raw/type">>), H("X-Raw", <<"r3">>)>>,
                     trls |-> <<H("X-Trl", <<"t1", "t2">>), H("X-Both", <<"tb">>), H("X-Trl", <<"t3">>)>>,
                     body |-> [k |-> "stream", items |-> <<It(0, FALSE, "", "txt", 2), It(2, TRUE, "7", "txt", 1)>>]]
    [] id = "D2" -> [status |-> 404, hdrs |-> <<>>, trls |-> <<>>, body |-> [k |-> "none"]]
    [] id = "D3" -> [status |-> 200, hdrs |-> <<H("Content-Type", <<"raw/type">>)>>,
                     trls |-> <<H("Grpc-Status", <<"9">>)>>,
                     body |-> [k |-> "unary", m |-> [p |-> "txt", z |-> 3]]]

\* handler header operations <<name, value>> on plain / trailer-prefixed keys of the header map
HdrOps == IF Alphabet = "full" THEN {<<"X-Handler", "h">>, <<"Content-Type", "handler/type">>, <<"X-Both", "hb">>}
          ELSE {<<"X-Handler", "h">>, <<"X-Both", "hb">>}
TrlOps == IF Alphabet = "full" THEN {<<"X-Htrl", "ht">>, <<"X-Both", "hbt">>} ELSE {}

MapOf(list) == [n \in Names |-> ValuesOf(list, n)]
EmptyMap    == [n \in Names |-> <<>>]
Range(s)    == {s[i] : i \in 1..Len(s)}
RECURSIVE CNames(_)
CNames(list) == IF list = <<>> THEN <<>> ELSE <<Head(list).cname>> \o CNames(Tail(list))

NoCom == [set |-> FALSE, st |-> 0, hdrs |-> EmptyMap]
NoFl  == [o |-> "none", a |-> "", ok |-> FALSE, mid |-> <<>>, res |-> <<>>]

(* ------------------------------ the underlying http.ResponseWriter ------------------------------
   WriteHeader snapshots the plain keys (first call wins); Write / Flush imply WriteHeader(200); at the
   end of the request an uncommitted response is committed with 200 and trailers are taken from the
   header map: keys with http.TrailerPrefix and keys declared in "Trailer" *)
Commit(c, code, h) == IF c.set THEN c ELSE [set |-> TRUE, st |-> code, hdrs |-> h]
TrailersAtEnd(h, t, d) ==
  [n \in Names |->
     IF Proto = "h1" THEN t[n] \o (IF n \in Range(d) THEN h[n] ELSE <<>>)      \* net/http finalTrailers
     ELSE IF t[n] # <<>> THEN t[n]                                             \* http2 promoteUndeclaredTrailers
     ELSE IF n \in Range(d) THEN h[n] ELSE <<>>]

Chunk(c) == [k |-> "chunk", c |-> c]

\* abstract wire of a raw definition (no HTTP-stack additions in this model)
WireAbs(def) == LET w == WireResp(def, Snap) IN
                [status |-> w.status, hdrs |-> MapOf(w.hdrs), body |-> w.body, trls |-> MapOf(w.trls)]

(* ------------------------------ declarative meaning of a history ------------------------------
   Order of critical sections: a gated entry is its canSendResponse followed by the setRaw calls
   that fell before its write. *)
RECURSIVE RawEvs(_)
RawEvs(ds) == IF ds = <<>> THEN <<>> ELSE <<[t |-> "r", d |-> Head(ds)]>> \o RawEvs(Tail(ds))
Gated(e) == e.o \in {"wh", "write", "flush"}
RECURSIVE Lin(_)
Lin(h) == IF h = <<>> THEN <<>>
          ELSE LET e == Head(h) IN
               (IF Gated(e) THEN <<[t |-> "g"]>> \o RawEvs(e.mid)
                ELSE IF e.o = "setraw" THEN <<[t |-> "r", d |-> e.a]>> ELSE <<>>) \o Lin(Tail(h))
RawAt(l)   == {i \in 1..Len(l) : l[i].t = "r"}
GateAt(l)  == {i \in 1..Len(l) : l[i].t = "g"}
RawWins(h) == LET l == Lin(h) IN \E i \in RawAt(l) : \A j \in GateAt(l) : i < j
FinalRaw(h) == LET l == Lin(h) IN l[CHOOSE i \in RawAt(l) : \A j \in RawAt(l) : j <= i].d
\* a setRawResponse returns TRUE iff the normal response has not started; the normal response starts
\* at the first canSendResponse that finds no raw response stored
RECURSIVE ResFold(_, _, _)
ResFold(l, st, rs) == IF l = <<>> THEN <<>>
                      ELSE IF Head(l).t = "g" THEN ResFold(Tail(l), st \/ ~rs, rs)
                      ELSE <<~st>> \o ResFold(Tail(l), st, rs \/ ~st)
ResOf(l, seen) == ResFold(l, seen, FALSE)
RECURSIVE ResIn(_)
ResIn(h) == IF h = <<>> THEN <<>> ELSE Head(h).res \o ResIn(Tail(h))

\* the same handler calls on a bare writer
RECURSIVE Bare(_, _)
Bare(h, s) ==
  IF h = <<>> THEN s
  ELSE LET e == Head(h) IN
       Bare(Tail(h),
            CASE e.o = "sethdr" -> [s EXCEPT !.hm = [@ EXCEPT ![e.a] = e.mid]]
              [] e.o = "settrl" -> [s EXCEPT !.tm = [@ EXCEPT ![e.a] = e.mid]]
              [] e.o = "wh"     -> [s EXCEPT !.com = Commit(@, e.a, s.hm)]
              [] e.o = "write"  -> [s EXCEPT !.com = Commit(@, 200, s.hm), !.body = Append(@, Chunk(e.a))]
              [] e.o = "flush"  -> [s EXCEPT !.com = Commit(@, 200, s.hm)]
              [] e.o = "setraw" -> s)
BareWire(h) == LET s == Bare(h, [hm |-> MapOf(Snap), tm |-> EmptyMap, com |-> NoCom, body |-> <<>>])
                   c == Commit(s.com, 200, s.hm) IN
               [status |-> c.st, hdrs |-> c.hdrs, body |-> s.body, trls |-> TrailersAtEnd(s.hm, s.tm, <<>>)]

Expected(h) == IF RawWins(h) THEN WireAbs(RawDef(FinalRaw(h))) ELSE BareWire(h)

=============================================================================
