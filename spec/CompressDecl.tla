----------------------------- MODULE CompressDecl -----------------------------
(* C20 - declarative meaning of "every supported compression round-trips, also when instances
   are reused".  Constant-level only; shared by the machine (Compress), the generators
   (Gen_Compress, Gen_CompressNames) and the trace acceptor (Trace_Compress).

   Bytes are not modelled: a payload is a token ("e" is the empty payload, every other token a
   distinct non-empty byte string chosen by the harness), Z(z, p) - "the stream the compressor of
   encoding z makes of payload p" - is an uninterpreted injective token.  What the specification
   decides is the HISTORY dimension (which earlier calls an instance has seen) and the NAMING
   dimension (which algorithm a name denotes in which component); the harness supplies bytes and
   reports, per call, which payload token (if any) the returned bytes equal.

   Part 1  encodings, names, enum numbers, wire formats
   Part 2  decompressor law   DReq(ops)  : one obligation per call of a history
   Part 3  compressor law     CReq(ops)
   Part 4  conformance of an observation to an obligation
   Part 5  cross-component name table law                                                     *)
EXTENDS Naturals, Sequences, FiniteSets

(* ------------------------------ 1. names ------------------------------ *)
Encodings == {"identity", "gzip", "br", "zstd", "deflate", "snappy"}

\* conformancev1.Compression numbers (config.proto)
EnumOf == [identity |-> 1, gzip |-> 2, br |-> 3, zstd |-> 4, deflate |-> 5, snappy |-> 6]
\* the statement is silent on COMPRESSION_UNSPECIFIED; the factories and the raw encoder read it as
\* identity on purpose ("case UNSPECIFIED, IDENTITY"), the docs say identity is assumed when nothing
\* is configured
AsImplemented_UnspecifiedIsIdentity == 0
NameOfEnum(e) == IF e = AsImplemented_UnspecifiedIsIdentity THEN "identity"
                 ELSE CHOOSE n \in Encodings : EnumOf[n] = e

\* the wire format a name denotes.  "deflate" is RFC 1950 (zlib-wrapped), NOT raw RFC 1951
\* (deflate.go: "HTTP deflate is actually RFC 1950 with zlib headers"); "snappy" is the framed
\* stream format, not the block format.
FormatOf == [identity |-> "none", gzip |-> "rfc1952-gzip", br |-> "rfc7932-brotli",
             zstd |-> "rfc8878-zstd", deflate |-> "rfc1950-zlib", snappy |-> "snappy-framed"]
\* formats a stock codec exists for in the harness; the last two are distractors that no name denotes
Formats == {FormatOf[n] : n \in Encodings} \cup {"rfc1951-rawflate", "snappy-block"}

(* ------------------------------ payloads, streams ------------------------------ *)
Payloads == {"e", "a", "b"}
None == "-"

\* what a decompressor is pointed at
\*   valid(p)    Z(z, p) made by the matching compressor
\*   cut(p)      a strict prefix of Z(z, p)              (which byte: harness)
\*   flip(p)     Z(z, p) with one bit inverted           (which bit: harness)
\*   garbage     bytes that are not a stream of any encoding
\*   nobody      zero bytes (http.NoBody - what the RPC library parks a pooled instance on)
\*   foreign(p)  Z(z2, p) of another encoding z2
\*   trail(p)    Z(z, p) followed by bytes that do not belong to it
Stream(k, p) == [k |-> k, p |-> p]
NoStream     == Stream("none", None)
DStreams == {Stream("valid", p) : p \in Payloads} \cup
            {Stream("cut", "a"), Stream("flip", "a"), Stream("foreign", "a"), Stream("trail", "a"),
             Stream("garbage", None), Stream("nobody", None)}
Malformed(s) == s.k \notin {"valid", "none"}

Op(o, k, p) == [o |-> o, k |-> k, p |-> p]

(* ------------------------------ 2. decompressor law ------------------------------ *)
\* calls on one decompressor instance
DReset(s) == Op("Reset", s.k, s.p)
DRead1    == Op("Read1", None, None)      \* io.ReadFull of one chunk (chunk size: harness)
DReadAll  == Op("ReadAll", None, None)    \* bytes.Buffer.ReadFrom - what the pools and the tracer do
DClose    == Op("Close", None, None)
DOps == {DReset(s) : s \in DStreams} \cup {DRead1, DReadAll, DClose}

AtEnd == 99
\* number of chunks consumed since the last Reset, saturating at cap (finiteness of the design check)
Adv(rd, all, cap) == IF all \/ rd = AtEnd THEN AtEnd ELSE IF rd >= cap THEN cap ELSE rd + 1

\* what the history says the instance is bound to (depends on the calls only, never on results)
DBind0 == [k |-> "none", p |-> None, rd |-> 0, closed |-> FALSE]
DAfter(b, op, cap) ==
  CASE op.o = "Reset"   -> [k |-> op.k, p |-> op.p, rd |-> 0, closed |-> FALSE]
    [] op.o = "Read1"   -> [b EXCEPT !.rd = Adv(b.rd, FALSE, cap)]
    [] op.o = "ReadAll" -> [b EXCEPT !.rd = AtEnd]
    [] op.o = "Close"   -> [b EXCEPT !.closed = TRUE]

\* obligations:  must = "return"  the call returns (no panic, no hang); anything else is free
\*               must = "ok"      ... and reports no error
\*               must = "bytes"   ... and yields exactly payload p from chunk `from` on
\*                                (one chunk for Read1; everything to the end, err = nil, for ReadAll)
Obl(must, p, from, all) == [must |-> must, p |-> p, from |-> from, all |-> all, w |-> <<>>]
Free == Obl("return", None, 0, FALSE)
MustOk == Obl("ok", None, 0, FALSE)

DObl(b, op) ==
  CASE op.o = "Reset" ->
         \* THE LAW, part 1: pointing an instance at a valid stream succeeds whatever came before
         IF op.k = "valid" THEN MustOk ELSE Free
    [] op.o \in {"Read1", "ReadAll"} ->
         \* THE LAW, part 2: ... and then reading yields the original bytes, whatever came before
         IF b.k = "valid" /\ ~b.closed THEN Obl("bytes", b.p, b.rd, op.o = "ReadAll") ELSE Free
    [] op.o = "Close" ->
         \* a Close error after a completely read valid stream fails the (valid) message in the RPC
         \* library ("recycle decompressor"), so it must not happen; any other Close is free
         IF b.k = "valid" /\ ~b.closed /\ b.rd = AtEnd THEN MustOk ELSE Free

RECURSIVE DReqFrom(_, _, _)
DReqFrom(b, ops, cap) ==
  IF ops = <<>> THEN <<>>
  ELSE <<DObl(b, Head(ops))>> \o DReqFrom(DAfter(b, Head(ops), cap), Tail(ops), cap)
DReq(ops, cap) == DReqFrom(DBind0, ops, cap)

\* usage discipline.  Rule 1: the first call on an instance is Reset (every client; before it the
\* wrappers hold nil pointers).  Rule 2: an instance whose Reset reported an error is not read or
\* closed but dropped (pool) or Reset again (tracer) - what the repository's clients happen to do,
\* NOT something the wrappers may rely on: the theorem is checked with rule 1 only.
\* level "full" = both rules, "first" = rule 1, "none" = no rule.
DDiscipline(level, lastOp, lastRet, op) ==
  /\ level \in {"full", "first"} => (lastOp = None => op.o = "Reset")
  /\ level = "full" => ((lastOp = "Reset" /\ lastRet = "err") => op.o = "Reset")

(* ------------------------------ 3. compressor law ------------------------------ *)
\* sinks a compressor is pointed at
\*   buf      a fresh buffer, not an io.Closer       (the RPC library's pools, raw encoders)
\*   pipe     ONE sink shared by all segments of the history, appended to, and an io.WriteCloser
\*            (rawRequestSender hands WriteRawStreamContents an *io.PipeWriter)
\*   fail     a sink whose Write fails
\*   discard  io.Discard (where the pool parks an instance)
Sinks == {"buf", "pipe", "fail", "discard"}
CReset(k) == Op("Reset", k, None)
CWrite(p) == Op("Write", None, p)
CClose    == Op("Close", None, None)
CNew      == Op("New", None, None)        \* the instance is replaced by a fresh one (sync.Pool may)
COps == {CReset(k) : k \in Sinks} \cup {CWrite(p) : p \in Payloads} \cup {CClose, CNew}

Flat(w) == SelectSeq(w, LAMBDA t : t # "e")

CBind0 == [k |-> "none", w |-> <<>>, closed |-> FALSE]
CAfter(b, op) ==
  CASE op.o = "Reset" -> [k |-> op.k, w |-> <<>>, closed |-> FALSE]
    [] op.o = "Write" -> IF b.k \in {"buf", "pipe", "discard"} /\ ~b.closed
                           THEN [b EXCEPT !.w = Append(b.w, op.p)] ELSE b
    [] op.o = "Close" -> [b EXCEPT !.closed = TRUE]
    [] op.o = "New"   -> CBind0

\* must = "stream": the call reports no error and the bytes appended to the sink since the last
\*                  Reset are Z(z, w): the matching decompressor (and a stock decoder of the
\*                  format the name denotes) turns them into exactly the concatenation w
CObl(b, op) ==
  CASE op.o \in {"Reset", "New"} -> Free
    [] op.o = "Write" -> IF b.k \in {"buf", "pipe", "discard"} /\ ~b.closed THEN MustOk ELSE Free
    [] op.o = "Close" -> IF b.closed \/ b.k \in {"none", "fail"} THEN Free
                         ELSE IF b.k = "discard" THEN MustOk
                         ELSE [Obl("stream", None, 0, TRUE) EXCEPT !.w = Flat(b.w)]

RECURSIVE CReqFrom(_, _)
CReqFrom(b, ops) ==
  IF ops = <<>> THEN <<>> ELSE <<CObl(b, Head(ops))>> \o CReqFrom(CAfter(b, Head(ops)), Tail(ops))
CReq(ops) == CReqFrom(CBind0, ops)

CDiscipline(level, bk, op) == level # "none" => ((bk = "none") => op.o \in {"Reset", "New"})   \* Write/Close need a sink

(* ------------------------------ 4. conformance ------------------------------ *)
InSeq(x, s) == \E i \in 1..Len(s) : s[i] = x

\* observation of a decompressor call: ret in {"ok","err","panic"}; eq = the payload tokens whose
\* required slice (chunk `from` on) the returned bytes equal; from = chunks the observer had seen
\* consumed before the call.   Observation of a compressor call: ret, and for Close: w = tokens
\* whose concatenation the segment's bytes decode to (<<"?">> if they do not decode to tokens)
ObsOK(obl, ob) ==
  /\ ob.ret # "panic"
  /\ obl.must = "ok"     => ob.ret = "ok"
  /\ obl.must = "bytes"  => /\ InSeq(obl.p, ob.eq)
                            /\ ob.from = obl.from
                            /\ obl.all => ob.ret = "ok"
  /\ obl.must = "stream" => ob.ret = "ok" /\ ob.w = obl.w

AllOK(obls, obs) == /\ Len(obls) = Len(obs)
                    /\ \A i \in 1..Len(obls) : ObsOK(obls[i], obs[i])
FirstBad(obls, obs) == CHOOSE i \in 1..Len(obls) : ~ObsOK(obls[i], obs[i]) /\
                                                   \A j \in 1..(i-1) : ObsOK(obls[j], obs[j])

(* ------------------------------ 5. name table ------------------------------ *)
\* components that turn a name or an enum number into an algorithm
Producers == {"compression.GetCompressor", "internal.WriteRawMessageContents",
              "referenceserver.response", "referenceclient.request"}
Consumers == {"compression.GetDecompressor", "tracer.GetDecompressor",
              "referenceserver.request", "referenceclient.response"}

\* a producer asked for encoding n must label its output n and emit the format n denotes
ProduceLaw(n, label, format) == label = n /\ format = FormatOf[n]
\* a consumer told "this is n" decodes a stock stream of format f to the payload iff f is n's format
ConsumeLaw(n, f, decoded) == decoded <=> (f = FormatOf[n])
\* the server-side check "the client used the compression the test case asked for": complaint iff
\* the header name is not the name of the expected enum number (absent header = identity)
CheckLaw(e, headerName, complained) ==
  complained <=> ((IF headerName = None THEN "identity" ELSE headerName) # NameOfEnum(e))
=============================================================================
