---- MODULE MC_Runner ----
EXTENDS Runner
PlanA == << [inst |-> "i1", cases |-> {"a", "b"}], [inst |-> "i2", cases |-> {"c"}], [inst |-> "i3", cases |-> {"d", "e"}] >>
====
