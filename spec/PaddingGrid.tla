----------------------------- MODULE PaddingGrid -----------------------------
(* C19 - the bounded quantifier domain on REAL numbers: "all request contents x all offsets in a
   window around zero and around every varint length boundary of the padding field".
   A scenario is [m |-> Msg(has, base, n0), off |-> offset].  The grid is the union of
     Window    every base/n0 class x offsets -W..W and the invalid-directive offsets
     Edge      every base/n0 class x offsets that put the required data length ns within +-4 of
               0 (target ~ base: the unreachable sizes base+1, base+2) and of the boundaries below
               the limit (2^7, 2^14), where one more data byte costs two bytes
     Far       a few base/n0 classes x offsets that put ns around 2^21 (and 2^28 when Huge)
     NoField   message type without request_data
   W and Huge are constants of the configuration (quick / thorough). *)
EXTENDS PaddingDecl

CONSTANTS W,      \* half width of the offset window around zero
          Huge    \* BOOLEAN: include the 2^28 boundary (268 MB messages; thorough only)

RealBounds == <<128, 16384, 2097152, 268435456>>
MinInt32   == -2147483647 - 1

\* offset that makes the required data length equal to ns for a message with this base
OffFor(base, ns) == base + FieldSize(ns) - Limit

BaseSet == {0, 2, 5, 50} \cup 125..131 \cup 16380..16390 \cup (Limit - 10)..(Limit + 10) \cup {300000}
           \* bases for which offsets around zero hit the boundaries 2^7 and 2^14
           \cup {Limit - FieldSize(Bounds[i]) + j : i \in 1..2, j \in -4..3}
N0Set   == {0, 1, 5, 127, 128, 16383, 16384, Limit - 100, Limit - 5, Limit - 4, Limit - 3, Limit, Limit + 50}

BaseFew == {0, 5, 130, 16385}
N0Few   == {0, 5, 128, 16384}

InvalidOffs == {-Limit - 1, -300000, MinInt32}
WindowOffs  == (-W)..W \cup {-Limit, -Limit + 1}
EdgeOffs(b) == {b - Limit + j : j \in -3..6}
               \cup UNION {{OffFor(b, Bounds[i] + j) : j \in -4..4} : i \in 1..2}
FarOffs(b)  == UNION {{OffFor(b, Bounds[i] + j) : j \in -3..3} : i \in (IF Huge THEN {3, 4} ELSE {3})}

(* The grid as a predicate-free enumeration: G(P) holds iff P(m, off) holds for some scenario of the
   grid (TLC enumerates the nested quantifiers; building the grid as one set of records is slow). *)
InGrid(P(_, _)) ==
  \/ \E b \in BaseSet, n0 \in N0Set : \E o \in WindowOffs \cup InvalidOffs \cup EdgeOffs(b) : P(Msg(TRUE, b, n0), o)
  \/ \E b \in BaseFew, n0 \in N0Few : \E o \in FarOffs(b) : P(Msg(TRUE, b, n0), o)
  \/ \E b \in {0, 2, 50}, o \in {-1, 0, 1, 10, -Limit - 1} : P(Msg(FALSE, b, 0), o)

\* every scenario of the grid stays inside TLC's 32-bit integers
InInts(mm, o) == o + Limit <= 2147483647 - 16
=============================================================================
